// Data-driven filter-tree SHAPES for the -race stress (strengthening after the seeded
// changes C18-7 / C18-8): configurations in which engine-level sharing BETWEEN
// transactions can occur inside the flow look-up itself.
//
//	Wild  user flows W1..Wn declared on the wildcard filter  box.com/*          (one filter node)
//	Mid   user flows M1..Mn declared on the deeper wildcard   box.com/a/*        (second node)
//	Exact exact URLs box.com/a/u0 .. box.com/a/u<m-1>, one user flow X<k> each   (leaf nodes)
//	SamplePct  sample_percentage of the W flows (strictly between 0 and 100 = sampled)
//
// A transaction on box.com/a/u<k> is matched by the nodes  box.com/*  ->  box.com/a/*  ->
// box.com/a/u<k>  (outermost first) and must execute W1..Wn, M1..Mn, X<k> and nothing else.
// X<k> with even k answers with an early response whose body is the flow's own name (the
// transaction's observable action); X<k> with odd k lets the request pass, so its response
// path is exercised as well. Goroutine g sends its i-th request to u<(g+i) mod m>: at every
// moment different goroutines are inside look-ups that share the wildcard nodes and differ
// in the leaf.
//
// Adding a shape = one entry in shapeTable.
package main

import (
	"encoding/json"
	"fmt"
	"os"
	"path/filepath"
	"sort"
	"strings"
	"sync"
	"sync/atomic"
	"time"

	"lunar/engine/actions"
	lunar_messages "lunar/engine/messages"
	"lunar/engine/streams"
	stream_config "lunar/engine/streams/config"
	lunar_context "lunar/engine/streams/lunar-context"
	stream_types "lunar/engine/streams/types"
	"lunar/engine/utils/environment"
	context_manager "lunar/toolkit-core/context-manager"

	c "verifharness/common"
)

// the shapes every run exercises (quick tier: all of them, small; thorough adds random ones)
var shapeTable = []Scenario{
	// 3 / 5 / 7 flows on one node: the node's slice has spare capacity (append grows 1,2,4,8)
	{Shape: "wild3+exact", Goroutines: 8, PerG: 40, Wild: 3, Exact: 4},
	{Shape: "wild5+mid1+exact", Goroutines: 6, PerG: 30, Wild: 5, Mid: 1, Exact: 3},
	{Shape: "wild7+exact", Goroutines: 6, PerG: 30, Wild: 7, Exact: 2},
	// no spare capacity on the first node, spare on the second
	{Shape: "wild2+mid3+exact", Goroutines: 6, PerG: 30, Wild: 2, Mid: 3, Exact: 3},
	// sampled flows (sample_percentage strictly between 0 and 100)
	{Shape: "sampled50", Goroutines: 8, PerG: 60, Wild: 1, Exact: 2, SamplePct: 50},
	{Shape: "sampled30+wild3", Goroutines: 6, PerG: 40, Wild: 3, Exact: 3, SamplePct: 30},
}

func passFlowYAML(name, url string, pct float64) string {
	sample := ""
	if pct > 0 {
		sample = fmt.Sprintf("    sample_percentage: %g\n", pct)
	}
	return fmt.Sprintf(`name: %s
filter:
    url: "%s"
%sprocessors:
  Cnt:
    processor: UserDefinedMetrics
    parameters:
      - key: metric_name
        value: verif_c18_%s
flow:
  request:
    - from:
        stream:
          name: globalStream
          at: start
      to:
        processor:
          name: Cnt
    - from:
        processor:
          name: Cnt
      to:
        stream:
          name: globalStream
          at: end
  response:
    - from:
        stream:
          name: globalStream
          at: start
      to:
        stream:
          name: globalStream
          at: end
`, name, url, sample, strings.ToLower(name))
}

func tagFlowYAML(name, url string) string {
	return fmt.Sprintf(`name: %s
filter:
    url: "%s"
processors:
  Cnt:
    processor: UserDefinedMetrics
    parameters:
      - key: metric_name
        value: verif_c18_%s
  Tag:
    processor: GenerateResponse
    parameters:
      - key: status
        value: 200
      - key: body
        value: %s
      - key: Content-Type
        value: text/plain
flow:
  request:
    - from:
        stream:
          name: globalStream
          at: start
      to:
        processor:
          name: Cnt
    - from:
        processor:
          name: Cnt
      to:
        processor:
          name: Tag
  response:
    - from:
        processor:
          name: Tag
      to:
        stream:
          name: globalStream
          at: end
    - from:
        stream:
          name: globalStream
          at: start
      to:
        stream:
          name: globalStream
          at: end
`, name, url, strings.ToLower(name), name)
}

func shapeURL(k int) string { return fmt.Sprintf("box.com/a/u%d", k) }

// shapeFlows: file name -> flow definition
func shapeFlows(sc Scenario) map[string]string {
	out := map[string]string{}
	for i := 1; i <= sc.Wild; i++ {
		out[fmt.Sprintf("w%02d.yaml", i)] = passFlowYAML(fmt.Sprintf("W%d", i), "box.com/*", sc.SamplePct)
	}
	for i := 1; i <= sc.Mid; i++ {
		out[fmt.Sprintf("m%02d.yaml", i)] = passFlowYAML(fmt.Sprintf("M%d", i), "box.com/a/*", 0)
	}
	for k := 0; k < sc.Exact; k++ {
		name := fmt.Sprintf("X%d", k)
		if k%2 == 0 {
			out[fmt.Sprintf("x%02d.yaml", k)] = tagFlowYAML(name, shapeURL(k))
		} else {
			out[fmt.Sprintf("x%02d.yaml", k)] = passFlowYAML(name, shapeURL(k), 0)
		}
	}
	return out
}

// requests goroutine g sends: its i-th goes to u<(g+i) mod Exact>
func shapeTarget(sc Scenario, g, i int) int { return (g + i) % sc.Exact }

func shapeChild(sc Scenario, repo string) {
	wd, _ := os.Getwd()
	flows, quotas, pp := filepath.Join(wd, "flows"), filepath.Join(wd, "quotas"), filepath.Join(wd, "path_params")
	for _, d := range []string{flows, quotas, pp} {
		os.MkdirAll(d, 0o755)
	}
	for fn, y := range shapeFlows(sc) {
		os.WriteFile(filepath.Join(flows, fn), []byte(y), 0o644)
	}
	environment.SetProcessorsDirectory(filepath.Join(repo, "proxy/src/services/lunar-engine/streams/processors/registry"))
	environment.SetStreamsFlowsDirectory(flows)
	environment.SetQuotasDirectory(quotas)
	environment.SetPathParamsDirectory(pp)
	context_manager.Get().SetMockClock()
	var res ChildResult
	finish := func() {
		b, _ := json.Marshal(res)
		fmt.Println("C18RESULT " + string(b))
	}
	s, err := streams.NewStream()
	if err == nil {
		err = s.Initialize()
	}
	if err != nil {
		res.SetupError = err.Error()
		finish()
		return
	}
	shared := lunar_context.NewMemoryState[[]byte]()
	var wg sync.WaitGroup
	var exMu sync.Mutex
	note := func(format string, a ...any) {
		atomic.AddInt64(&res.Foreign, 1)
		exMu.Lock()
		if len(res.ForeignExamples) < 4 {
			res.ForeignExamples = append(res.ForeignExamples, fmt.Sprintf(format, a...))
		}
		exMu.Unlock()
	}
	// one transaction: the early responses it is answered with (nil, false when it failed)
	txn := func(id string, k int) ([]string, bool) {
		req := lunar_messages.OnRequest{ID: id, SequenceID: id, Method: "GET", Scheme: "https",
			URL: shapeURL(k), Headers: map[string]string{}, Time: time.Now()}
		as := stream_types.NewRequestAPIStream(req, shared)
		acts := &stream_config.StreamActions{Request: &stream_config.RequestStream{}, Response: &stream_config.ResponseStream{}}
		if err := s.ExecuteFlow(as, acts); err != nil {
			atomic.AddInt64(&res.Errors, 1)
			return nil, false
		}
		early := []string{}
		for _, a := range acts.Request.Actions {
			if er, ok := a.(*actions.EarlyResponseAction); ok {
				early = append(early, fmt.Sprintf("%d %s", er.Status, strings.TrimSpace(er.Body)))
			}
		}
		if len(early) == 0 { // the request goes on to the provider: its response comes back
			resp := lunar_messages.OnResponse{ID: id, SequenceID: id, Method: "GET", URL: shapeURL(k),
				Status: 200, Headers: map[string]string{}, Time: time.Now()}
			rs := stream_types.NewResponseAPIStream(resp, shared)
			racts := &stream_config.StreamActions{Response: &stream_config.ResponseStream{}}
			if err := s.ExecuteFlow(rs, racts); err != nil {
				atomic.AddInt64(&res.Errors, 1)
				return nil, false
			}
		}
		return early, true
	}
	// REFERENCE, one transaction at a time: for every URL what its transaction is answered with and
	// which flows' invocation counters it moves. The concurrent phase is judged against this (not
	// against what the harness thinks the flows do).
	invocations := func() map[string]int64 {
		m := map[string]int64{}
		for name, n := range s.GetFlowInvocations() {
			m[name] = n
		}
		return m
	}
	res.RefEarly = make([][]string, sc.Exact)
	res.RefInc = make([]map[string]int64, sc.Exact)
	for k := 0; k < sc.Exact; k++ {
		before := invocations()
		early, ok := txn(fmt.Sprintf("ref-%d", k), k)
		if !ok {
			res.SetupError = fmt.Sprintf("the reference transaction on %s failed", shapeURL(k))
			finish()
			return
		}
		res.RefEarly[k] = early
		res.RefInc[k] = map[string]int64{}
		for name, n := range invocations() {
			if d := n - before[name]; d != 0 {
				res.RefInc[k][name] = d
			}
		}
	}
	same := func(a, b []string) bool {
		if len(a) != len(b) {
			return false
		}
		for i := range a {
			if a[i] != b[i] {
				return false
			}
		}
		return true
	}
	start := make(chan struct{})
	for g := 0; g < sc.Goroutines; g++ {
		wg.Add(1)
		go func(g int) {
			defer wg.Done()
			// a panic inside the engine (e.g. an index out of range in a corrupted generator) is an
			// observation about the engine, not a reason for the harness to die without a result
			defer func() {
				if r := recover(); r != nil {
					atomic.AddInt64(&res.Panics, 1)
					exMu.Lock()
					if res.PanicExample == "" {
						res.PanicExample = fmt.Sprint(r)
					}
					exMu.Unlock()
				}
			}()
			<-start
			for i := 0; i < sc.PerG; i++ {
				k := shapeTarget(sc, g, i)
				id := fmt.Sprintf("t-%d-%d", g, i)
				early, ok := txn(id, k)
				if !ok {
					continue
				}
				if !same(early, res.RefEarly[k]) {
					note("transaction %s on %s is answered with %v; a transaction on that URL is answered with %v when it runs alone",
						id, shapeURL(k), early, res.RefEarly[k])
					continue
				}
				if len(early) > 0 {
					atomic.AddInt64(&res.Refused, 1)
				} else {
					atomic.AddInt64(&res.Admitted, 1)
				}
			}
		}(g)
	}
	close(start)
	wg.Wait()
	res.Invocations = map[string]int64{}
	for name, n := range s.GetFlowInvocations() {
		res.Invocations[name] = n
	}
	finish()
}

// shapeCheck: what every one-at-a-time order of the transactions gives.
func shapeCheck(o *c.Out, i int, sc Scenario, res ChildResult) {
	total := int64(sc.Goroutines * sc.PerG)
	perURL := make([]int64, sc.Exact)
	for g := 0; g < sc.Goroutines; g++ {
		for j := 0; j < sc.PerG; j++ {
			perURL[shapeTarget(sc, g, j)]++
		}
	}
	o.Count("shape:" + sc.Shape)
	if res.SetupError != "" {
		o.Hit(c.Hit{Suite: "stress", Index: i, Signature: "crash", Demanded: "the engine can be built from the shape's flows",
			Observed: res.SetupError, Case: sc})
		return
	}
	if res.Panics > 0 {
		o.Hit(c.Hit{Suite: "stress", Index: i, Signature: "panic:transaction", Demanded: "no transaction handler panics",
			Observed: fmt.Sprintf("%d goroutines panicked inside ExecuteFlow: %s", res.Panics, res.PanicExample), Case: sc})
	}
	if res.Foreign > 0 {
		o.Hit(c.Hit{Suite: "stress", Index: i, Signature: "not-serializable:foreign-flow-executed",
			Demanded: "every transaction on box.com/a/u<k> is answered as a transaction on that URL is when it runs alone (the flows declared for its URL: W*, M*, X<k>)",
			Observed: fmt.Sprintf("%d transactions got another URL's flow or lost their own: %s", res.Foreign, strings.Join(res.ForeignExamples, " | ")), Case: sc})
	}
	if res.Panics > 0 {
		return // the goroutines that died did not send all their requests: the counts below say nothing
	}
	var bad []string
	// every one-at-a-time order: a flow's counter moves, per transaction on URL k, as it did for the
	// reference transaction on URL k (one reference transaction per URL + the concurrent ones)
	sampled := func(name string) bool {
		return sc.SamplePct > 0 && sc.SamplePct < 100 && strings.HasPrefix(name, "W")
	}
	want := map[string]int64{}
	for k := 0; k < sc.Exact && k < len(res.RefInc); k++ {
		for name, d := range res.RefInc[k] {
			want[name] += d * (perURL[k] + 1)
		}
	}
	names := map[string]bool{}
	for n := range want {
		names[n] = true
	}
	for n := range res.Invocations {
		names[n] = true
	}
	sorted := make([]string, 0, len(names))
	for n := range names {
		sorted = append(sorted, n)
	}
	sort.Strings(sorted)
	for _, name := range sorted {
		got := res.Invocations[name]
		if sampled(name) {
			if got < 0 || got > total+int64(sc.Exact) {
				bad = append(bad, fmt.Sprintf("sampled %s executed %d times for %d transactions", name, got, total+int64(sc.Exact)))
			}
			continue // any share is a possible draw
		}
		if got != want[name] {
			bad = append(bad, fmt.Sprintf("%s executed %d times, %d in every serial order", name, got, want[name]))
		}
	}
	if res.Errors != 0 {
		bad = append(bad, fmt.Sprintf("%d transactions failed", res.Errors))
	}
	if len(bad) > 0 {
		o.Hit(c.Hit{Suite: "stress", Index: i, Signature: "not-serializable:flow-invocations",
			Demanded: "every user flow is executed as often as in a one-at-a-time order of the same transactions (per URL: what the reference transaction on that URL moved), sampled flows at most once per transaction; no errors",
			Observed: strings.Join(bad, "; "), Case: sc})
	}
}
