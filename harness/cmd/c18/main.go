// C18 harness (supporting role only): a -race build of the real engine driven by
// overlapping transactions, a metrics reader, an engine (re)load and the map
// vacuum. Data-race reports of the Go race detector are mapped back to the
// struct fields of the translator's facts (file:line -> field); together with a
// serial-equivalence check of the admitted count they are the monitor that
// provides the concrete replay when the lock-set theorem about the regenerated
// facts no longer checks.
package main

import (
	"bufio"
	"encoding/json"
	"fmt"
	"os"
	"os/exec"
	"path/filepath"
	"regexp"
	"sort"
	"strings"
	"sync"
	"sync/atomic"
	"time"

	lunar_messages "lunar/engine/messages"
	"lunar/engine/streams"
	stream_config "lunar/engine/streams/config"
	lunar_context "lunar/engine/streams/lunar-context"
	stream_types "lunar/engine/streams/types"
	"lunar/engine/utils/environment"
	"lunar/toolkit-core/clock"
	context_manager "lunar/toolkit-core/context-manager"
	"lunar/toolkit-core/vacuum"

	c "verifharness/common"
)

const flowYAML = `name: RL
filter:
    url: "box.com/*"
processors:
  Lim:
    processor: Limiter
    parameters:
      - key: quota_id
        value: Q
  Gen:
    processor: GenerateResponse
    parameters:
      - key: status
        value: 429
      - key: body
        value: Too many requests
      - key: Content-Type
        value: text/plain
flow:
  request:
    - from:
        stream:
          name: globalStream
          at: start
      to:
        processor:
          name: Lim
    - from:
        processor:
          name: Lim
          condition: above_limit
      to:
        processor:
          name: Gen
    - from:
        processor:
          name: Lim
          condition: below_limit
      to:
        stream:
          name: globalStream
          at: end
  response:
    - from:
        processor:
          name: Gen
      to:
        stream:
          name: globalStream
          at: end
    - from:
        stream:
          name: globalStream
          at: start
      to:
        stream:
          name: globalStream
          at: end
`

// a gauge of the UserDefinedMetrics processor in front of the limiter: every
// transaction appends to / updates the processor's callback values
const udmProcessorYAML = `  Udm:
    processor: UserDefinedMetrics
    parameters:
      - key: metric_name
        value: verif_c18_gauge
      - key: metric_type
        value: gauge
`

// flowFor: the Limiter flow; with udm the request direction runs start -> Udm -> Lim
func flowFor(udm bool) string {
	if !udm {
		return flowYAML
	}
	f := strings.Replace(flowYAML, "processors:\n", "processors:\n"+udmProcessorYAML, 1)
	f = strings.Replace(f, `    - from:
        stream:
          name: globalStream
          at: start
      to:
        processor:
          name: Lim
`, `    - from:
        stream:
          name: globalStream
          at: start
      to:
        processor:
          name: Udm
    - from:
        processor:
          name: Udm
      to:
        processor:
          name: Lim
`, 1)
	return f
}

// queue flow: requests wait in a Queue processor for a slot of the quota
const queueFlowYAML = `name: QF
filter:
    url: "box.com/*"
processors:
  Que:
    processor: Queue
    parameters:
      - key: quota_id
        value: Q
      - key: queue_size
        value: 1000
      - key: ttl_seconds
        value: 20
  Gen:
    processor: GenerateResponse
    parameters:
      - key: status
        value: 429
      - key: body
        value: Too many requests
      - key: Content-Type
        value: text/plain
flow:
  request:
    - from:
        stream:
          name: globalStream
          at: start
      to:
        processor:
          name: Que
    - from:
        processor:
          name: Que
          condition: blocked
      to:
        processor:
          name: Gen
    - from:
        processor:
          name: Que
          condition: allowed
      to:
        stream:
          name: globalStream
          at: end
  response:
    - from:
        processor:
          name: Gen
      to:
        stream:
          name: globalStream
          at: end
    - from:
        stream:
          name: globalStream
          at: start
      to:
        stream:
          name: globalStream
          at: end
`

func quotaYAMLGrouped(max int) string {
	return fmt.Sprintf(`quotas:
  - id: Q
    filter:
      url: box.com/*
    strategy:
      fixed_window:
        max: %d
        interval: 1
        interval_unit: hour
        group_by_header: x-group
`, max)
}

func quotaYAML(max int, concurrent bool) string {
	if concurrent {
		return fmt.Sprintf(`quotas:
  - id: Q
    filter:
      url: box.com/*
    strategy:
      concurrent:
        max_request_count: %d
        request_expiration_sec: 3600
        gc_interval_sec: 3600
`, max)
	}
	return fmt.Sprintf(`quotas:
  - id: Q
    filter:
      url: box.com/*
    strategy:
      fixed_window:
        max: %d
        interval: 1
        interval_unit: hour
`, max)
}

var observerSink int64

type Scenario struct {
	Goroutines int  `json:"goroutines"`
	PerG       int  `json:"requests_per_goroutine"`
	Max        int  `json:"quota_max"`
	Reload     bool `json:"concurrent_engine_load"`
	Metrics    bool `json:"concurrent_metrics_reader"`
	Vacuum     bool `json:"vacuum_exercise"`
	Concurrent bool `json:"concurrency_quota"`            // quota strategy "concurrent" (in-flight bound) instead of a fixed window
	Groups     int  `json:"quota_groups,omitempty"`       // fixed window grouped by a header: requests spread over this many groups
	UDM        bool `json:"user_defined_gauge,omitempty"` // a UserDefinedMetrics gauge processor in front of the limiter
	Queue      bool `json:"queue_flow,omitempty"`         // requests wait in a Queue processor for a slot of a concurrent quota (real clock)
	// first transactions of a NEW quota group all at once: PerG rounds; in round r all Goroutines are released together,
	// every one with the header value n<r> that no transaction carried before (fixed window grouped by header, limit Max)
	NewGroups bool `json:"first_of_new_group_rounds,omitempty"`
	// policy mode (policy.go): transactions through processRequest/processResponse of a policy-mode
	// manager with a fixed-response and a caching remedy
	Policy bool `json:"policy_mode,omitempty"`
	// routing level (routing.go): transactions through processRequest/processResponse of a real
	// HandlingDataManager while its admin handlers run
	Routing   bool `json:"routing_level,omitempty"`
	Reloads   int  `json:"admin_reloads,omitempty"`            // POST /load_flows this many times while transactions run
	Reloaders int  `json:"concurrent_reloaders,omitempty"`     // ... by each of this many goroutines at once (0 = 1)
	Conform   bool `json:"record_conformance_trace,omitempty"` // record the instrumented lock/access events (conform.go)
	Validates int  `json:"admin_validations,omitempty"`        // two goroutines POST /validate_flows this many times each
	// filter-tree shapes (shapes.go): Wild flows on box.com/*, Mid flows on box.com/a/*, one flow on each of
	// Exact URLs box.com/a/u<k>; SamplePct = sample_percentage of the Wild flows
	Shape     string  `json:"shape,omitempty"`
	Wild      int     `json:"wildcard_flows,omitempty"`
	Mid       int     `json:"mid_wildcard_flows,omitempty"`
	Exact     int     `json:"exact_urls,omitempty"`
	SamplePct float64 `json:"sample_percentage,omitempty"`
}

type ChildResult struct {
	Admitted    int64 `json:"admitted"`
	Refused     int64 `json:"refused"`
	Errors      int64 `json:"errors"`
	MaxInFlight int64 `json:"max_in_flight"`
	// first-of-new-group rounds only: admitted transactions per round (= per quota group), rounds that ran
	RoundAdmitted []int64 `json:"admitted_per_round,omitempty"`
	RoundRefused  []int64 `json:"refused_per_round,omitempty"`
	// routing level only
	Transactions int64 `json:"transactions,omitempty"`
	ReloadsDone  int64 `json:"reloads_done,omitempty"`
	AdminErrors  int64 `json:"admin_errors,omitempty"`
	// shapes only
	SetupError      string             `json:"setup_error,omitempty"`
	Panics          int64              `json:"panics,omitempty"`
	PanicExample    string             `json:"panic_example,omitempty"`
	Foreign         int64              `json:"foreign_flow_executions,omitempty"`
	ForeignExamples []string           `json:"foreign_examples,omitempty"`
	Invocations     map[string]int64   `json:"flow_invocations,omitempty"`
	RefEarly        [][]string         `json:"reference_early_responses,omitempty"` // per URL, one transaction at a time
	RefInc          []map[string]int64 `json:"reference_invocation_increments,omitempty"`
}

func child() {
	var sc Scenario
	if err := json.Unmarshal([]byte(os.Getenv("C18_SCENARIO")), &sc); err != nil {
		panic(err)
	}
	repo := os.Getenv("VERIF_REPO")
	if repo == "" {
		repo = "/repo"
	}
	if sc.Routing {
		routingChild(sc, repo)
		return
	}
	if sc.Policy {
		policyChild(sc, repo)
		return
	}
	if sc.Shape != "" {
		shapeChild(sc, repo)
		return
	}
	wd, _ := os.Getwd()
	flows, quotas, pp := filepath.Join(wd, "flows"), filepath.Join(wd, "quotas"), filepath.Join(wd, "path_params")
	for _, d := range []string{flows, quotas, pp} {
		os.MkdirAll(d, 0o755)
	}
	switch {
	case sc.Queue:
		os.WriteFile(filepath.Join(flows, "qf.yaml"), []byte(queueFlowYAML), 0o644)
	default:
		os.WriteFile(filepath.Join(flows, "rl.yaml"), []byte(flowFor(sc.UDM)), 0o644)
	}
	if sc.Groups > 0 || sc.NewGroups {
		os.WriteFile(filepath.Join(quotas, "q.yaml"), []byte(quotaYAMLGrouped(sc.Max)), 0o644)
	} else {
		os.WriteFile(filepath.Join(quotas, "q.yaml"), []byte(quotaYAML(sc.Max, sc.Concurrent || sc.Queue)), 0o644)
	}
	environment.SetProcessorsDirectory(filepath.Join(repo, "proxy/src/services/lunar-engine/streams/processors/registry"))
	environment.SetStreamsFlowsDirectory(flows)
	environment.SetQuotasDirectory(quotas)
	environment.SetPathParamsDirectory(pp)
	if !sc.Queue {
		context_manager.Get().SetMockClock() // frozen clock: one window for the whole run
	} // (the queue processor polls every 100 ms of ITS clock: real time)

	s, err := streams.NewStream()
	if err != nil {
		panic(err)
	}
	if err := s.Initialize(); err != nil {
		panic(err)
	}
	shared := lunar_context.NewMemoryState[[]byte]()
	var res ChildResult
	var wg sync.WaitGroup
	stop := make(chan struct{})
	if sc.Metrics {
		go func() {
			var sink int64
			defer func() { atomic.AddInt64(&observerSink, sink) }()
			for {
				select {
				case <-stop:
					return
				default:
					for name, n := range s.GetFlowInvocations() { // an observer consumes what it reads
						sink += int64(len(name)) + n
					}
					_ = s.GetActiveFlows()
					_ = s.GetAvgFlowExecutionTime()
					_ = s.GetAvgProcessorExecutionTime()
					_ = s.GetRequestsThroughFlows()
					// "quotas are being read for metrics": what the quota resource's metrics
					// callback (observeQuotaUsed) does with every quota
					if q, err := s.VerifC02Quota("Q"); err == nil {
						if gc, ok := q.(interface{ GetQuotaGroupsCounters() map[string]int64 }); ok {
							for g, n := range gc.GetQuotaGroupsCounters() {
								sink += int64(len(g)) + n
							}
						}
					}
				}
			}
		}()
	}
	if sc.Reload {
		wg.Add(1)
		go func() {
			defer wg.Done()
			for i := 0; i < 3; i++ {
				n, err := streams.NewStream()
				if err == nil {
					_ = n.Initialize()
				}
			}
		}()
	}
	if sc.Vacuum {
		wg.Add(1)
		go func() {
			defer wg.Done()
			m := map[int]int{}
			mu := &sync.RWMutex{}
			v := vacuum.NewMapVacuum[int, int]("verif", clock.NewRealClock(), time.Millisecond, time.Millisecond, m, mu)
			var w2 sync.WaitGroup
			for g := 0; g < 4; g++ {
				w2.Add(1)
				go func(g int) {
					defer w2.Done()
					for i := 0; i < 200; i++ {
						k := g*1000 + i
						mu.Lock()
						m[k] = i
						mu.Unlock()
						v.VacuumKey(k)
						if i%20 == 0 {
							time.Sleep(time.Millisecond)
						}
					}
				}(g)
			}
			for g := 0; g < 2; g++ { // transactions look the map up under the read lock
				w2.Add(1)
				go func(g int) {
					defer w2.Done()
					for i := 0; i < 2000; i++ {
						mu.RLock()
						_ = m[(i%4)*1000+i%200]
						mu.RUnlock()
						if i%100 == 0 {
							time.Sleep(time.Millisecond)
						}
					}
				}(g)
			}
			w2.Wait()
			time.Sleep(20 * time.Millisecond)
		}()
	}
	var seq int64
	doReqG := func(id, group string) (admitted bool) {
		hdr := map[string]string{}
		if group != "" {
			hdr["x-group"] = group
		} else if sc.Groups > 0 {
			hdr["x-group"] = fmt.Sprintf("g%d", atomic.AddInt64(&seq, 1)%int64(sc.Groups))
		}
		req := lunar_messages.OnRequest{ID: id, SequenceID: id, Method: "GET", Scheme: "https",
			URL: "box.com/files", Headers: hdr, Time: time.Now()}
		as := stream_types.NewRequestAPIStream(req, shared)
		acts := &stream_config.StreamActions{Request: &stream_config.RequestStream{}}
		if err := s.ExecuteFlow(as, acts); err != nil {
			atomic.AddInt64(&res.Errors, 1)
			return false
		}
		for _, a := range acts.Request.Actions {
			if a.IsEarlyReturnType() {
				atomic.AddInt64(&res.Refused, 1)
				return false
			}
		}
		atomic.AddInt64(&res.Admitted, 1)
		return true
	}
	doReq := func(id string) bool { return doReqG(id, "") }
	doResp := func(id string) {
		resp := lunar_messages.OnResponse{ID: id, SequenceID: id, Method: "GET", URL: "box.com/files",
			Status: 200, Headers: map[string]string{}, Time: time.Now()}
		rs := stream_types.NewResponseAPIStream(resp, shared)
		racts := &stream_config.StreamActions{Response: &stream_config.ResponseStream{}}
		if err := s.ExecuteFlow(rs, racts); err != nil {
			atomic.AddInt64(&res.Errors, 1)
		}
	}
	if sc.NewGroups {
		// rounds: the goroutines of a round are all the FIRST transactions of one quota group nobody
		// used before (header value n<round>) and are released at the same moment: the group object is
		// looked up / created by all of them at once. Verdicts are counted per round = per group.
		for round := 0; round < sc.PerG; round++ {
			var start, done sync.WaitGroup
			start.Add(1)
			var adm, ref int64
			admitted := make([]bool, sc.Goroutines)
			group := fmt.Sprintf("n%d", round)
			for g := 0; g < sc.Goroutines; g++ {
				done.Add(1)
				go func(g int) {
					defer done.Done()
					start.Wait()
					if doReqG(fmt.Sprintf("t-%d-%d", g, round), group) {
						admitted[g] = true
						atomic.AddInt64(&adm, 1)
					} else {
						atomic.AddInt64(&ref, 1)
					}
				}(g)
			}
			start.Done()
			done.Wait()
			res.RoundAdmitted = append(res.RoundAdmitted, adm)
			res.RoundRefused = append(res.RoundRefused, ref)
			for g := 0; g < sc.Goroutines; g++ {
				if admitted[g] {
					doResp(fmt.Sprintf("t-%d-%d", g, round))
				}
			}
		}
	} else if sc.Queue {
		// every goroutine sends its requests one after the other; an admitted request holds its
		// slot of the concurrent quota until its response: never more than max in flight
		var inFlight int64
		for g := 0; g < sc.Goroutines; g++ {
			wg.Add(1)
			go func(g int) {
				defer wg.Done()
				for i := 0; i < sc.PerG; i++ {
					id := fmt.Sprintf("t-%d-%d", g, i)
					if doReq(id) {
						n := atomic.AddInt64(&inFlight, 1)
						for {
							m := atomic.LoadInt64(&res.MaxInFlight)
							if n <= m || atomic.CompareAndSwapInt64(&res.MaxInFlight, m, n) {
								break
							}
						}
						time.Sleep(2 * time.Millisecond)
						atomic.AddInt64(&inFlight, -1)
						doResp(id)
					}
				}
			}(g)
		}
	} else if sc.Concurrent {
		// rounds: all goroutines send their request at the same moment; nobody answers
		// before the round is counted, so everything admitted in a round is in flight at once
		for round := 0; round < sc.PerG; round++ {
			var start, done sync.WaitGroup
			start.Add(1)
			var inRound int64
			adm := make([]bool, sc.Goroutines)
			for g := 0; g < sc.Goroutines; g++ {
				done.Add(1)
				go func(g int) {
					defer done.Done()
					start.Wait()
					if doReq(fmt.Sprintf("t-%d-%d", g, round)) {
						adm[g] = true
						atomic.AddInt64(&inRound, 1)
					}
				}(g)
			}
			start.Done()
			done.Wait()
			if inRound > res.MaxInFlight {
				res.MaxInFlight = inRound
			}
			for g := 0; g < sc.Goroutines; g++ {
				if adm[g] {
					done.Add(1)
					go func(g int) { defer done.Done(); doResp(fmt.Sprintf("t-%d-%d", g, round)) }(g)
				}
			}
			done.Wait()
		}
	} else {
		for g := 0; g < sc.Goroutines; g++ {
			wg.Add(1)
			go func(g int) {
				defer wg.Done()
				for i := 0; i < sc.PerG; i++ {
					id := fmt.Sprintf("t-%d-%d", g, i)
					if doReq(id) {
						doResp(id)
					}
				}
			}(g)
		}
	}
	wg.Wait()
	close(stop)
	b, _ := json.Marshal(res)
	fmt.Println("C18RESULT " + string(b))
}

// ---------------------------------------------------------------- parent

type site struct {
	Fn   string `json:"func"`
	File string `json:"file"`
	Line int    `json:"line"`
}
type race struct {
	A, B   site
	AWrite bool
	BWrite bool
	Fields []string
}

var frameRe = regexp.MustCompile(`^\s+(\S+):(\d+) \+0x`)

func parseRaces(dir string, repo string) []race {
	files, _ := filepath.Glob(filepath.Join(dir, "race.*"))
	var out []race
	for _, f := range files {
		fh, err := os.Open(f)
		if err != nil {
			continue
		}
		sc := bufio.NewScanner(fh)
		sc.Buffer(make([]byte, 1<<20), 1<<24)
		var cur *race
		stack := 0 // 1 = first access, 2 = second
		var fn string
		got := map[int]bool{}
		for sc.Scan() {
			line := sc.Text()
			switch {
			case strings.HasPrefix(line, "WARNING: DATA RACE"):
				if cur != nil {
					out = append(out, *cur)
				}
				cur = &race{}
				stack = 0
				got = map[int]bool{}
			case cur == nil:
			case strings.HasPrefix(line, "Write at ") || strings.HasPrefix(line, "Read at "):
				stack = 1
				cur.AWrite = strings.HasPrefix(line, "Write")
			case strings.HasPrefix(line, "Previous write at ") || strings.HasPrefix(line, "Previous read at "):
				stack = 2
				cur.BWrite = strings.HasPrefix(line, "Previous write")
			case strings.HasPrefix(line, "Goroutine "):
				stack = 0
			case stack > 0 && strings.HasPrefix(line, "  ") && !strings.HasPrefix(line, "   "):
				fn = strings.TrimSpace(line)
			case stack > 0 && frameRe.MatchString(line):
				m := frameRe.FindStringSubmatch(line)
				if got[stack] || !strings.Contains(m[1], "/proxy/src/") || strings.Contains(m[1], "/verif_") {
					continue
				}
				got[stack] = true
				var ln int
				fmt.Sscanf(m[2], "%d", &ln)
				file := m[1]
				if i := strings.Index(file, "proxy/src/"); i >= 0 {
					file = file[i:]
				}
				st := site{Fn: fn, File: file, Line: ln}
				if stack == 1 {
					cur.A = st
				} else {
					cur.B = st
				}
			}
		}
		if cur != nil {
			out = append(out, *cur)
		}
		fh.Close()
	}
	return out
}

func loadSites(path string) map[string][]string {
	raw, err := os.ReadFile(path)
	if err != nil {
		return nil
	}
	var f struct {
		Sites []struct {
			Field string `json:"field"`
			File  string `json:"file"`
			Line  int    `json:"line"`
		} `json:"sites"`
	}
	if json.Unmarshal(raw, &f) != nil {
		return nil
	}
	m := map[string][]string{}
	for _, s := range f.Sites {
		k := fmt.Sprintf("%s:%d", s.File, s.Line)
		dup := false
		for _, x := range m[k] {
			dup = dup || x == s.Field
		}
		if !dup {
			m[k] = append(m[k], s.Field)
		}
	}
	return m
}

// staticPairs recomputes (as in theories/C18/Lockset.v, which is the judge) the
// unprotected conflicting access pairs from the translator's facts, so that the
// check can name them: known ones print KNOWN-FINDING, new ones go into the replay.
type factSite struct {
	Field  string   `json:"field"`
	Write  bool     `json:"write"`
	Atomic bool     `json:"atomic"`
	Locks  []string `json:"locks"`
	Func   string   `json:"func"`
	File   string   `json:"file"`
	Line   int      `json:"line"`
	Roles  []string `json:"roles"`
}

func staticPairs(path string) map[string]string {
	raw, err := os.ReadFile(path)
	if err != nil {
		return nil
	}
	var f struct {
		Sites   []factSite        `json:"sites"`
		Multi   []string          `json:"multi_roles"`
		Cons    []string          `json:"consumer_roles"`
		PubOrd  []string          `json:"publication_order_violations"`
		Gen     []string          `json:"generation_fields"`
		Dropped map[string]bool   `json:"dropped_fields"`
		Atomic  map[string]string `json:"atomic_report"`
		GoC     map[string]string `json:"get_or_create_report"`
	}
	if json.Unmarshal(raw, &f) != nil {
		return nil
	}
	multi := map[string]bool{}
	for _, m := range f.Multi {
		multi[m] = true
	}
	// second discipline (theories/C18/Lockset.v racy_fields2, which is the judge): only "init" is
	// quiet; a pair on a per-engine field with a "load" side against "load" or a consumer role is
	// ordered by publication (Publication.v)
	quiet := func(r string) bool { return r == "init" }
	cons, gen := map[string]bool{}, map[string]bool{}
	for _, r := range f.Cons {
		cons[r] = true
	}
	for _, g := range f.Gen {
		gen[g] = true
	}
	published := func(field, ra, rb string) bool {
		return gen[field] && ((ra == "load" && (rb == "load" || cons[rb])) || (rb == "load" && cons[ra]))
	}
	kind := func(s factSite) int {
		if s.Atomic {
			return 2
		}
		if s.Write {
			return 1
		}
		return 0
	}
	share := func(a, b factSite) bool {
		for _, l := range a.Locks {
			for _, m := range b.Locks {
				la, lb := strings.TrimSuffix(l, "#R"), strings.TrimSuffix(m, "#R")
				if la == lb && !(strings.HasSuffix(l, "#R") && strings.HasSuffix(m, "#R")) {
					return true
				}
			}
		}
		return false
	}
	out := map[string]string{}
	for i, v := range f.PubOrd {
		out[fmt.Sprintf("publication-order:%d", i)] = v
	}
	for fn, problem := range f.Atomic {
		if problem != "" {
			out["not-atomic:"+fn] = fn + " is modelled as one atomic step but " + problem
		}
	}
	for site, problem := range f.GoC {
		if problem != "" {
			out["not-atomic:get-or-create:"+site] = "get-or-create site " + site + " " + problem
		}
	}
	byField := map[string][]factSite{}
	for _, s := range f.Sites {
		if !f.Dropped[s.Field] {
			byField[s.Field] = append(byField[s.Field], s)
		}
	}
	for field, ss := range byField {
		for _, a := range ss {
			if a.Write && !a.Atomic {
				for _, l := range a.Locks {
					excl := false
					for _, m := range a.Locks {
						excl = excl || m == strings.TrimSuffix(l, "#R")
					}
					if strings.HasSuffix(l, "#R") && !excl {
						out["write-under-rlock:"+field] = fmt.Sprintf("%s %s:%d writes %s holding %s only in shared mode", a.Func, a.File, a.Line, field, l)
					}
				}
			}
			for _, b := range ss {
				ka, kb := kind(a), kind(b)
				if (ka == 0 && kb == 0) || (ka == 2 && kb == 2) || share(a, b) {
					continue
				}
				for _, ra := range a.Roles {
					for _, rb := range b.Roles {
						if quiet(ra) || quiet(rb) || (ra == rb && !multi[ra]) || published(field, ra, rb) {
							continue
						}
						if _, ok := out[field]; !ok {
							out[field] = fmt.Sprintf("%s %s:%d (write=%v, role %s, locks %v)  vs  %s %s:%d (write=%v, role %s, locks %v)",
								a.Func, a.File, a.Line, a.Write, ra, a.Locks, b.Func, b.File, b.Line, b.Write, rb, b.Locks)
						}
					}
				}
			}
		}
	}
	return out
}

var assignRe = regexp.MustCompile(`^\s*(?:[A-Za-z_]\w*)(?:\.[A-Za-z_]\w*)*\.([A-Za-z_]\w*)(?:\[[^\]]*\])?\s*(?:=[^=]|\+\+|--|\+=|-=)`)

// writtenField: for a race whose sites the translator does not know, the
// "<writing function>:<field>" read off the source line of the write access
// (`x.y.f = ...`, `x.f++`, `x.f[k] = ...`); "" when that line is not such a statement.
func writtenField(repo string, r race) string {
	var cands []site
	if r.AWrite {
		cands = append(cands, r.A)
	}
	if r.BWrite {
		cands = append(cands, r.B)
	}
	sort.Slice(cands, func(i, j int) bool { return cands[i].Fn < cands[j].Fn })
	for _, st := range cands {
		raw, err := os.ReadFile(filepath.Join(repo, st.File))
		if err != nil {
			continue
		}
		lines := strings.Split(string(raw), "\n")
		if st.Line < 1 || st.Line > len(lines) {
			continue
		}
		if m := assignRe.FindStringSubmatch(lines[st.Line-1]); m != nil {
			return shortFn(st.Fn) + ":" + m[1]
		}
	}
	return ""
}

func adminLine(out string) string {
	for _, l := range strings.Split(out, "\n") {
		if strings.HasPrefix(l, "C18ADMIN ") {
			return l
		}
	}
	return ""
}

func common2(a, b []string) []string {
	var out []string
	for _, x := range a {
		for _, y := range b {
			if x == y {
				out = append(out, x)
			}
		}
	}
	return out
}

func shortFn(f string) string {
	f = strings.TrimSuffix(f, "()")
	if i := strings.LastIndex(f, "/"); i >= 0 {
		f = f[i+1:]
	}
	return f
}

func main() {
	if os.Getenv("C18_CHILD") == "1" {
		child()
		return
	}
	o := c.NewOut("C18")
	o.Rule("each evaluation = one scenario run of the -race built engine in a child process " +
		"(G goroutines x R request/response pairs through one Limiter flow with quota max K in a single window, " +
		"optionally with a concurrent metrics reader, a concurrent engine load, the map vacuum, a header-grouped " +
		"window whose group counters are read for metrics, rounds of simultaneous first transactions of a new quota group, a user-defined gauge, a queue flow on a concurrent quota, " +
		"policy-mode remedies, admin reloads / validations at routing level, filter-tree shapes = 1-7 flows on a wildcard node + " +
		"flows on a deeper wildcard + one flow per exact URL with transactions on different URLs at once, sampled flows), " +
		"or one schedule of overlapping executions of a real flow (txctx2), or one schedule of look-ups and uses of the " +
		"selected flows by 2-3 transactions on a real filter tree (selection); " +
		"non-trivial = more transactions than quota slots and at least 2 goroutines / a schedule with overlapping executions / " +
		"a schedule in which a look-up falls between another transaction's look-up and its use")
	repo := os.Getenv("VERIF_REPO")
	if repo == "" {
		repo = "/repo"
	}
	// the translator's facts of THIS run (props/C18.json pre_build writes them next to the ordinary
	// run directory; a --replay run has a directory of its own)
	factsPath := filepath.Join(o.Dir, "facts.json")
	if _, err := os.Stat(factsPath); err != nil {
		if b := os.Getenv("VERIF_BUILD"); b != "" {
			factsPath = filepath.Join(b, "run", "C18", "facts.json")
		}
	}
	sites := loadSites(factsPath)
	var scenarios []Scenario
	var k Scenario
	var rawCase json.RawMessage
	if suite, ok := o.ReplayCase(&rawCase); ok && suite == "selection" {
		var sk selCase
		if err := json.Unmarshal(rawCase, &sk); err != nil {
			panic(err)
		}
		selectionReplay(o, repo, sk)
		o.Finish()
		return
	} else if ok {
		if err := json.Unmarshal(rawCase, &k); err != nil {
			panic(err)
		}
		scenarios = []Scenario{k}
	} else {
		scenarios = []Scenario{
			{Goroutines: 8, PerG: 20, Max: 30, Metrics: true, Reload: true, Vacuum: true},
			{Goroutines: 4, PerG: 25, Max: 7, Metrics: true},
			{Goroutines: 2, PerG: 10, Max: 5},
			{Goroutines: 8, PerG: 150, Max: 1, Concurrent: true},
			{Goroutines: 12, PerG: 100, Max: 3, Concurrent: true, Metrics: true},
			// routing level: engine reload through /load_flows while transactions run (F-C18c),
			// two concurrent /validate_flows (F-C18d)
			{Goroutines: 6, PerG: 20, Max: 30, Routing: true, Reloads: 4},
			{Goroutines: 2, PerG: 10, Max: 5, Routing: true, Validates: 6},
			// conformance spot-check: the same with the instrumented events recorded (a run of its own:
			// the recorder's lock would order the goroutines and hide races from the detector)
			{Goroutines: 3, PerG: 8, Max: 100, Routing: true, Reloads: 2, Conform: true},
			// audit 2026-09-29: the paths the enlarged translator found unprotected pairs on
			// a fixed window grouped by a header, its group counters read "for metrics"     [F-C18j, F-C18l]
			{Goroutines: 8, PerG: 25, Max: 4, Groups: 12, Metrics: true},
			// many transactions that are the FIRST of the same new quota group at once (get-or-create of the
			// group object: seeded change C18-12), room for everybody / fewer slots than first-comers
			// (with the seeded change 1-3 % of the rounds differ; 400 / 300 rounds make a silent run or replay improbable)
			{Goroutines: 16, PerG: 400, Max: 30, NewGroups: true},
			{Goroutines: 12, PerG: 300, Max: 5, NewGroups: true},
			// a UserDefinedMetrics gauge in front of the limiter                             [F-C18k]
			{Goroutines: 6, PerG: 20, Max: 30, UDM: true},
			// policy mode: fixed-response and caching remedies                               [F-C18h, F-C18m]
			{Goroutines: 6, PerG: 30, Policy: true},
			// a queue flow on a concurrent quota (queue goroutine vs transactions)           [F-C18n]
			{Goroutines: 6, PerG: 4, Max: 3, Queue: true},
		}
		// filter-tree shapes in which the look-up itself can share state between transactions
		// (several flows on a wildcard node + exact URLs below it, sampled flows): shapes.go
		scenarios = append(scenarios, shapeTable...)
		for i := 0; i < o.Scale(1, 12, 6); i++ {
			scenarios = append(scenarios, Scenario{Goroutines: o.Rng.Range(2, 12), PerG: o.Rng.Range(5, 40),
				Max: o.Rng.Range(1, 60), Metrics: o.Rng.Bool(), Reload: o.Rng.Bool(), Vacuum: o.Rng.Bool()})
			scenarios = append(scenarios, Scenario{Goroutines: o.Rng.Range(4, 12), PerG: o.Rng.Range(100, 500),
				Max: o.Rng.Range(1, 3), Concurrent: true})
			if i%3 == 0 {
				scenarios = append(scenarios, Scenario{Goroutines: o.Rng.Range(4, 10), PerG: o.Rng.Range(10, 40),
					Max: o.Rng.Range(1, 6), Groups: o.Rng.Range(2, 20), Metrics: true})
				scenarios = append(scenarios, Scenario{Goroutines: o.Rng.Range(2, 8), PerG: o.Rng.Range(5, 30),
					Max: o.Rng.Range(1, 40), UDM: true, Metrics: o.Rng.Bool()})
				scenarios = append(scenarios, Scenario{Goroutines: o.Rng.Range(2, 8), PerG: o.Rng.Range(10, 40), Policy: true})
			}
			if i%4 == 1 {
				scenarios = append(scenarios, Scenario{Goroutines: o.Rng.Range(2, 8), PerG: o.Rng.Range(2, 5),
					Max: o.Rng.Range(1, 4), Queue: true})
			}
			if i%2 == 0 && o.Tier != "quick" {
				scenarios = append(scenarios, Scenario{Goroutines: o.Rng.Range(2, 16), PerG: o.Rng.Range(100, 600),
					Max: o.Rng.Range(1, 20), NewGroups: true})
			}
			if o.Tier != "quick" { // random filter-tree shapes (the quick tier runs shapeTable only)
				scenarios = append(scenarios, Scenario{Shape: fmt.Sprintf("random%d", i), Goroutines: o.Rng.Range(2, 10), PerG: o.Rng.Range(10, 60),
					Wild: o.Rng.Range(1, 9), Mid: o.Rng.Range(0, 3), Exact: o.Rng.Range(2, 5),
					SamplePct: c.Pick(o.Rng, []float64{0, 0, 0, 10, 50, 90})})
			}
			if i%2 == 1 || o.Tier == "search" {
				scenarios = append(scenarios, Scenario{Goroutines: o.Rng.Range(2, 8), PerG: o.Rng.Range(5, 30),
					Max: o.Rng.Range(1, 40), Routing: true, Reloads: o.Rng.Range(0, 5), Validates: o.Rng.Range(0, 4)})
			}
		}
	}
	// correspondence suite for the interference model: the real per-flow context manager
	o.DeclareSuite("txctx", "From Verif Require Import C18.Model.", "case_txctx", "run_txctx")
	o.DeclareSuite("conform", "From Verif Require Import C18.Conform.", "case_conform", "run_conform")
	if o.Replay == "" {
		for i := 0; i < o.Scale(300, 3000, 10); i++ {
			cm := lunar_context.NewContextManager().WithFlowContext().WithTransactionalContext()
			n := o.Rng.Range(1, 10)
			var ops [][2]int64
			var obs []bool
			for j := 0; j < n; j++ {
				t := int64(o.Rng.Range(1, 3))
				if o.Rng.Chance(2, 3) {
					ops = append(ops, [2]int64{0, t})
					obs = append(obs, cm.GetTransactionalContext() != nil)
				} else {
					ops = append(ops, [2]int64{1, t})
					cm.DestroyTransactionalContext()
				}
			}
			o.Case("txctx", c.Tuple(c.MapList(ops, func(x [2]int64) string { return c.Tuple(c.Z(x[0]), c.Z(x[1])) }),
				c.MapList(obs, c.B)), map[string]any{"ops": ops, "non_nil": obs}, len(obs) > 0 && n > 2)
		}
	}
	if o.Replay == "" {
		isolationSuite(o, repo)
	}
	if o.Replay == "" {
		selectionSuite(o, repo)
	}
	if o.Replay == "" {
		sp := staticPairs(factsPath)
		fields := make([]string, 0, len(sp))
		for f := range sp {
			fields = append(fields, f)
		}
		sort.Strings(fields)
		for _, f := range fields {
			sig := "race:" + f
			if strings.HasPrefix(f, "not-atomic:") || strings.HasPrefix(f, "write-under-rlock:") || strings.HasPrefix(f, "publication-order:") {
				sig = f
			}
			o.Count("static:" + sig)
			o.Hit(c.Hit{Suite: "translator", Index: 0, Signature: sig, Static: true,
				Demanded: "every two conflicting accesses that can run in different goroutines share a lock",
				Observed: "unprotected pair in the source: " + sp[f], Case: map[string]any{"field": f, "pair": sp[f]}})
		}
	}
	self, _ := os.Executable()
	// the children are independent processes: a few of them run at the same time (the verdicts are
	// then read in scenario order). A scenario that measures against the real clock (queue flow)
	// tolerates the extra load: its TTL is 20 s.
	type childOut struct {
		outb []byte
		err  error
		abs  string
	}
	outs := make([]childOut, len(scenarios))
	{
		workers := 3
		if v := os.Getenv("C18_WORKERS"); v != "" {
			fmt.Sscanf(v, "%d", &workers)
		}
		if workers < 1 || o.Replay != "" {
			workers = 1
		}
		var wg sync.WaitGroup
		next := make(chan int)
		for w := 0; w < workers; w++ {
			wg.Add(1)
			go func() {
				defer wg.Done()
				for i := range next {
					sc := scenarios[i]
					wd := filepath.Join(".", fmt.Sprintf("sc%d", i))
					os.RemoveAll(wd)
					os.MkdirAll(wd, 0o755)
					scj, _ := json.Marshal(sc)
					abs, _ := filepath.Abs(wd)
					var outb []byte
					var err error
					for attempt := 0; attempt < 4; attempt++ {
						cmd := exec.Command(self)
						cmd.Dir = wd
						env := os.Environ()
						if sc.Routing || sc.Policy {
							env = routingEnv(abs, repo) // fresh ports on every attempt
						}
						cmd.Env = append(env, "C18_CHILD=1", "C18_SCENARIO="+string(scj),
							"GORACE=log_path="+filepath.Join(abs, "race")+" halt_on_error=0 history_size=3",
							"LUNAR_PROXY_LOG_LEVEL=error", "LOG_LEVEL=error")
						outb, err = cmd.Output()
						if ee, ok := err.(*exec.ExitError); !ok || ee.ExitCode() != portBusyExit {
							break // anything but "a stub port was taken in the meantime"
						}
					}
					outs[i] = childOut{outb, err, abs}
				}
			}()
		}
		for i := range scenarios {
			next <- i
		}
		close(next)
		wg.Wait()
	}
	for i, sc := range scenarios {
		outb, err, abs := outs[i].outb, outs[i].err, outs[i].abs
		var res ChildResult
		okRes := false
		for _, l := range strings.Split(string(outb), "\n") {
			if strings.HasPrefix(l, "C18RESULT ") {
				okRes = json.Unmarshal([]byte(l[10:]), &res) == nil
			}
			if strings.HasPrefix(l, "C18TRACE ") && o.Replay == "" {
				conformCase(o, l[9:])
			}
		}
		total := sc.Goroutines * sc.PerG
		if sc.Routing {
			total = int(res.Transactions)
			o.Count(fmt.Sprintf("routing:reloads=%d,validations=%d", sc.Reloads, sc.Validates))
		}
		o.Count(fmt.Sprintf("goroutines=%02d", sc.Goroutines))
		js := map[string]any{"scenario": sc, "result": res}
		o.Case0(js, total > sc.Max && sc.Goroutines >= 2)
		o.MonitorChecked(1)
		if err != nil && !okRes {
			o.Hit(c.Hit{Suite: "stress", Index: i, Signature: "crash", Demanded: "the engine survives concurrent transactions",
				Observed: fmt.Sprintf("child failed: %v", err), Case: sc})
			continue
		}
		// serial equivalence of the admitted count: in any one-at-a-time order exactly
		// min(total, max) requests are admitted in the single window
		want := int64(sc.Max)
		if int64(total) < want {
			want = int64(total)
		}
		if sc.Shape != "" {
			shapeCheck(o, i, sc, res)
		} else if sc.Routing {
			// Every reload is one step of the serial order and builds a fresh engine whose quota
			// counters start from zero: in a one-at-a-time order with r reloads between min(total,max)
			// and min(total,(r+1)*max) requests are admitted. Admin calls are expected to succeed
			// (the files on disk never change) and no transaction may fail.
			hi := int64(sc.Max) * (res.ReloadsDone + 1)
			if int64(total) < hi {
				hi = int64(total)
			}
			if res.Admitted < want || res.Admitted > hi || res.Errors != 0 || res.AdminErrors != 0 ||
				res.Admitted+res.Refused+res.Errors != int64(total) || res.ReloadsDone != int64(sc.Reloads*max(1, sc.Reloaders)) {
				o.Hit(c.Hit{Suite: "stress", Index: i, Signature: "not-serializable:routing-reload",
					Demanded: fmt.Sprintf("%d <= admitted <= %d (some serial order of %d transactions and %d reloads), every transaction answered, no failed transaction or admin call",
						want, hi, total, sc.Reloads),
					Observed: fmt.Sprintf("admitted=%d refused=%d errors=%d admin_errors=%d reloads_done=%d; %s", res.Admitted, res.Refused, res.Errors,
						res.AdminErrors, res.ReloadsDone, adminLine(string(outb))), Case: sc})
			}
		} else if sc.Policy {
			// no remedy refuses anything (every URL is new to the cache): every one-at-a-time order
			// admits every transaction
			if res.Admitted != int64(total) || res.Errors != 0 {
				o.Hit(c.Hit{Suite: "stress", Index: i, Signature: "not-serializable:policy-mode",
					Demanded: fmt.Sprintf("all %d transactions pass the fixed-response and caching remedies, no errors", total),
					Observed: fmt.Sprintf("admitted=%d refused=%d errors=%d", res.Admitted, res.Refused, res.Errors), Case: sc})
			}
		} else if sc.Queue {
			// concurrent quota behind a queue: never more than max in flight, and (TTL 20 s) nobody is refused
			if res.MaxInFlight > int64(sc.Max) || res.Errors != 0 || res.Admitted != int64(total) {
				o.Hit(c.Hit{Suite: "stress", Index: i, Signature: "not-serializable:queue-flow",
					Demanded: fmt.Sprintf("at most %d transactions in flight at any instant, all %d admitted within the queue TTL, no errors", sc.Max, total),
					Observed: fmt.Sprintf("max in flight=%d admitted=%d refused=%d errors=%d", res.MaxInFlight, res.Admitted, res.Refused, res.Errors), Case: sc})
			}
		} else if sc.NewGroups {
			// one window per group, one group per round: in any one-at-a-time order of the round's
			// transactions each is admitted while fewer than max were admitted before it, i.e. exactly
			// min(goroutines, max) are admitted and the others refused; nobody fails
			wantR := int64(sc.Goroutines)
			if int64(sc.Max) < wantR {
				wantR = int64(sc.Max)
			}
			bad, first := 0, ""
			for r, a := range res.RoundAdmitted {
				ref := int64(-1)
				if r < len(res.RoundRefused) {
					ref = res.RoundRefused[r]
				}
				if a != wantR || ref != int64(sc.Goroutines)-wantR {
					if bad++; first == "" {
						first = fmt.Sprintf("round %d (group n%d): admitted=%d refused=%d", r, r, a, ref)
					}
				}
			}
			if bad > 0 || res.Errors != 0 || len(res.RoundAdmitted) != sc.PerG {
				o.Hit(c.Hit{Suite: "stress", Index: i, Signature: "not-serializable:first-of-group-verdicts",
					Demanded: fmt.Sprintf("in every round the %d simultaneous first transactions of a new quota group (limit %d) get the verdicts of some one-at-a-time order: %d admitted, %d refused, no errors; %d rounds",
						sc.Goroutines, sc.Max, wantR, int64(sc.Goroutines)-wantR, sc.PerG),
					Observed: fmt.Sprintf("%d of %d rounds differ, first: %s; errors=%d", bad, len(res.RoundAdmitted), first, res.Errors), Case: sc})
			}
		} else if sc.Groups > 0 {
			// one window per group: in any one-at-a-time order group g admits min(requests of g, max)
			cnt := make([]int64, sc.Groups)
			for q := 1; q <= total; q++ {
				cnt[q%sc.Groups]++
			}
			wantG := int64(0)
			for _, n := range cnt {
				if n > int64(sc.Max) {
					n = int64(sc.Max)
				}
				wantG += n
			}
			if res.Admitted != wantG || res.Errors != 0 {
				o.Hit(c.Hit{Suite: "stress", Index: i, Signature: "not-serializable:admitted-count",
					Demanded: fmt.Sprintf("admitted = %d (sum over %d groups of min(requests, %d), as in every serial order), no errors", wantG, sc.Groups, sc.Max),
					Observed: fmt.Sprintf("admitted=%d refused=%d errors=%d", res.Admitted, res.Refused, res.Errors), Case: sc})
			}
		} else if sc.Concurrent {
			// in-flight bound: at no instant more than max admitted transactions hold a slot
			if res.MaxInFlight > int64(sc.Max) || res.Errors != 0 {
				o.Hit(c.Hit{Suite: "stress", Index: i, Signature: "not-serializable:in-flight>max",
					Demanded: fmt.Sprintf("at most %d transactions in flight at any instant (as in every serial order)", sc.Max),
					Observed: fmt.Sprintf("max in flight=%d admitted=%d refused=%d errors=%d", res.MaxInFlight, res.Admitted, res.Refused, res.Errors), Case: sc})
			}
		} else if res.Admitted != want || res.Errors != 0 {
			o.Hit(c.Hit{Suite: "stress", Index: i, Signature: "not-serializable:admitted-count",
				Demanded: fmt.Sprintf("admitted = %d (as in every serial order), no errors", want),
				Observed: fmt.Sprintf("admitted=%d refused=%d errors=%d", res.Admitted, res.Refused, res.Errors), Case: sc})
		}
		seen := map[string]bool{}
		unmapped := 0
		for _, r := range parseRaces(abs, repo) {
			if r.A.File == "" && r.B.File == "" {
				continue // no frame inside the repository: not about engine state
			}
			fa := sites[fmt.Sprintf("%s:%d", r.A.File, r.A.Line)]
			fb := sites[fmt.Sprintf("%s:%d", r.B.File, r.B.Line)]
			fields := common2(fa, fb)
			var sig string
			if len(fields) > 0 {
				sort.Strings(fields)
				sig = "race:" + fields[0]
			} else if w := writtenField(repo, r); w != "" {
				// outside the translator's packages: named by the writing function and the
				// field its source line assigns (one signature per racy field, whoever reads it)
				sig = "race:unmapped:" + w
			} else {
				fns := []string{shortFn(r.A.Fn), shortFn(r.B.Fn)}
				sort.Strings(fns)
				sig = "race:unmapped:" + fns[0] + "|" + fns[1]
			}
			if seen[sig] {
				continue
			}
			seen[sig] = true
			o.Count("report:" + sig)
			if strings.HasPrefix(sig, "race:unmapped:") {
				// an unsynchronised publication makes every later read of the published object a
				// report of its own: all are counted, the first few per scenario become hits
				if unmapped++; unmapped > 8 {
					continue
				}
			}
			o.Hit(c.Hit{Suite: "stress", Index: i, Signature: sig,
				Demanded: "no unsynchronised access to shared engine state",
				Observed: fmt.Sprintf("data race (write=%v) %s %s:%d  vs (write=%v) %s %s:%d", r.AWrite, r.A.Fn, r.A.File, r.A.Line,
					r.BWrite, r.B.Fn, r.B.File, r.B.Line), Case: sc})
		}
	}
	o.Finish()
}
