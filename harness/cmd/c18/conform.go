// Conformance spot-check (hypothesis H3' of C18_tree_race_free_pub on the
// instrumented sites). Child side: a recorder behind verifhook.Event keeps, in
// the order in which they happen, the lock / unlock / access events of the
// instrumented functions (patches/C18/hook-conform-stream-pointer.patch:
// getStream = RLock, read of the pointer, RUnlock; setStream = Lock, write,
// Unlock) together with the goroutine and the role the harness started that
// goroutine in. An acquire is reported after Lock returns and a release before
// Unlock is called, so the recorded order is an interleaving the locks allow.
// Parent side: the trace becomes a case of suite "conform"; Coq checks that it is
// valid and conforms to the regenerated facts (theories/C18/Conform.v).
// Without the hook patch nothing is recorded and the suite stays empty.
package main

import (
	"encoding/json"
	"fmt"
	"runtime"
	"strconv"
	"strings"
	"sync"

	"lunar/engine/verifhook"

	c "verifharness/common"
)

const (
	roleTxn   = 0
	roleAdmin = 1
)

var (
	recMu    sync.Mutex
	recOn    bool
	recRoles = map[int64]int{}
	recIDs   = map[int64]int{}
	recTrace [][4]int64 // goroutine, kind, name, role
)

var conformKinds = map[string]int64{"AcqW": 0, "RelW": 1, "AcqR": 2, "RelR": 3, "Read": 4, "Write": 5, "Atomic": 6}
var conformNames = map[string]int64{"routing.StreamsData.streamLock": 0, "routing.StreamsData.stream": 1}

func goid() int64 {
	var buf [64]byte
	n := runtime.Stack(buf[:], false)
	f := strings.Fields(string(buf[:n]))
	if len(f) < 2 {
		return -1
	}
	id, _ := strconv.ParseInt(f[1], 10, 64)
	return id
}

func registerRole(role int) {
	recMu.Lock()
	recRoles[goid()] = role
	recMu.Unlock()
}

func startRecorder() {
	recMu.Lock()
	recOn = true
	recMu.Unlock()
	verifhook.SetEvent(func(kind string, args ...string) {
		if kind != "c18" || len(args) != 2 {
			return
		}
		k, ok1 := conformKinds[args[0]]
		n, ok2 := conformNames[args[1]]
		if !ok1 || !ok2 {
			return
		}
		g := goid()
		recMu.Lock()
		defer recMu.Unlock()
		role, known := recRoles[g]
		if !recOn || !known || len(recTrace) >= 400 {
			if !known {
				recOn = false // an event of a goroutine the harness did not start: the trace would have a hole
			}
			return
		}
		id, ok := recIDs[g]
		if !ok {
			id = len(recIDs) + 1
			recIDs[g] = id
		}
		recTrace = append(recTrace, [4]int64{int64(id), k, n, int64(role)})
	})
}

func printRecorded() {
	recMu.Lock()
	defer recMu.Unlock()
	if !recOn {
		fmt.Println("C18TRACEBROKEN")
		return
	}
	// cut at a point where no lock is held (a prefix of a valid trace is valid, but the
	// case is easier to read when it ends released)
	held, cut := 0, 0
	for i, e := range recTrace {
		switch e[1] {
		case 0, 2:
			held++
		case 1, 3:
			held--
		}
		if held == 0 {
			cut = i + 1
		}
	}
	b, _ := json.Marshal(recTrace[:cut])
	fmt.Println("C18TRACE " + string(b))
}

func conformCase(o *c.Out, raw string) {
	var tr [][4]int64
	if json.Unmarshal([]byte(raw), &tr) != nil || len(tr) == 0 {
		o.Count("conform:not-instrumented")
		return
	}
	threads, writes := map[int64]bool{}, 0
	for _, e := range tr {
		threads[e[0]] = true
		if e[1] == 5 {
			writes++
		}
	}
	term := c.MapList(tr, func(e [4]int64) string {
		return c.Tuple(c.Z(e[0]), c.Tuple(c.Z(e[1]), c.Tuple(c.Z(e[2]), c.Z(e[3]))))
	})
	o.Case("conform", term, map[string]any{"events": tr, "legend": "goroutine, kind (0 AcqW 1 RelW 2 AcqR 3 RelR 4 Read 5 Write), name (0 streamLock 1 stream), role (0 txn 1 admin)"},
		len(threads) >= 2 && writes > 0)
	o.Count(fmt.Sprintf("conform:events=%03d+", len(tr)/100*100))
}
