// Correspondence suite "txctx2" + isolation monitor (clause 4 with transaction
// identity): OVERLAPPING executions of one real flow. For every case a fresh
// engine is built (the slot of a flow is populated only when the flow is built),
// the user flow object ExecuteFlow would use is fetched (verif_c18.go shim) and a
// generated schedule of
//
//	Begin t  - transaction t enters the flow (ghost; the harness notes what the
//	           slot looks like at that moment: the state t "still uses")
//	Use t    - Flow.GetExecutionContext().GetTransactionalContext() != nil
//	Clean t  - Flow.CleanExecution()   (what ExecuteFlow defers for every flow)
//
// is executed step by step on it.
package main

import (
	"os"
	"path/filepath"
	"time"

	lunar_messages "lunar/engine/messages"
	"lunar/engine/streams"
	lunar_context "lunar/engine/streams/lunar-context"
	stream_types "lunar/engine/streams/types"
	"lunar/engine/utils/environment"
	context_manager "lunar/toolkit-core/context-manager"

	c "verifharness/common"
)

func isolationSuite(o *c.Out, repo string) {
	o.DeclareSuite("txctx2", "From Verif Require Import C18.Model.", "case_txctx", "run_txctx2")
	wd, _ := os.Getwd()
	base := filepath.Join(wd, "iso")
	flows, quotas, pp := filepath.Join(base, "flows"), filepath.Join(base, "quotas"), filepath.Join(base, "path_params")
	for _, d := range []string{flows, quotas, pp} {
		os.MkdirAll(d, 0o755)
	}
	os.WriteFile(filepath.Join(flows, "rl.yaml"), []byte(flowYAML), 0o644)
	os.WriteFile(filepath.Join(quotas, "q.yaml"), []byte(quotaYAML(1000, false)), 0o644)
	environment.SetProcessorsDirectory(filepath.Join(repo, "proxy/src/services/lunar-engine/streams/processors/registry"))
	environment.SetStreamsFlowsDirectory(flows)
	environment.SetQuotasDirectory(quotas)
	environment.SetPathParamsDirectory(pp)
	context_manager.Get().SetMockClock()
	shared := lunar_context.NewMemoryState[[]byte]()
	probe := stream_types.NewRequestAPIStream(lunar_messages.OnRequest{ID: "iso", SequenceID: "iso", Method: "GET",
		Scheme: "https", URL: "box.com/files", Headers: map[string]string{}, Time: time.Now()}, shared)

	n := o.Scale(120, 1200, 60)
	for i := 0; i < n; i++ {
		s, err := streams.NewStream()
		if err == nil {
			err = s.Initialize()
		}
		if err != nil {
			o.Hit(c.Hit{Suite: "txctx2", Index: i, Signature: "crash", Demanded: "the engine can be built",
				Observed: err.Error(), Case: map[string]any{}})
			return
		}
		fls := s.VerifC18UserFlows(probe)
		if len(fls) == 0 {
			o.Hit(c.Hit{Suite: "txctx2", Index: i, Signature: "crash", Demanded: "the transaction selects the user flow RL",
				Observed: "no user flow selected", Case: map[string]any{}})
			return
		}
		fl := fls[0]
		// schedule: up to 3 transactions, each Begin .. (Use)* .. Clean, interleaved at random
		nt := o.Rng.Range(1, 3)
		state := make([]int, nt+1) // 0 = not begun, 1 = inside, 2 = done
		var ops [][2]int64
		var obs []bool
		snapshot := map[int]bool{}
		overlap, foreignClear := false, false
		var viol *[2]int64
		for len(ops) < 14 {
			t := o.Rng.Range(1, nt)
			inside := 0
			for _, st := range state {
				if st == 1 {
					inside++
				}
			}
			switch state[t] {
			case 0:
				if inside > 0 {
					overlap = true
				}
				state[t] = 1
				ops = append(ops, [2]int64{2, int64(t)})
				snapshot[t] = fl.GetExecutionContext().GetTransactionalContext() != nil
			case 1:
				if o.Rng.Chance(3, 5) {
					ops = append(ops, [2]int64{0, int64(t)})
					got := fl.GetExecutionContext().GetTransactionalContext() != nil
					obs = append(obs, got)
					// monitor: a transaction inside the flow gets what it entered with
					if got != snapshot[t] && viol == nil {
						viol = &[2]int64{int64(len(ops) - 1), int64(t)}
					}
				} else {
					if inside > 1 {
						foreignClear = true
					}
					ops = append(ops, [2]int64{1, int64(t)})
					fl.CleanExecution()
					state[t] = 2
				}
			case 2:
				done := true
				for _, st := range state[1:] {
					done = done && st == 2
				}
				if done {
					goto finished
				}
			}
		}
	finished:
		js := map[string]any{"ops": ops, "non_nil": obs}
		idx := o.Case("txctx2", c.Tuple(c.MapList(ops, func(x [2]int64) string { return c.Tuple(c.Z(x[0]), c.Z(x[1])) }),
			c.MapList(obs, c.B)), js, overlap && len(obs) > 0)
		if overlap {
			o.Count("txctx2:overlapping")
		} else {
			o.Count("txctx2:one-at-a-time")
		}
		if foreignClear {
			o.Count("txctx2:clean-while-another-inside")
		}
		o.MonitorChecked(1)
		if viol != nil {
			o.Hit(c.Hit{Suite: "txctx2", Index: idx, Signature: "isolation:txctx-cleared-by-overlapping-execution",
				Demanded: "a transaction inside a flow gets the transactional context it entered the flow with (no other transaction's execution clears it)",
				Observed: "step " + c.Z(viol[0]) + ": transaction " + c.Z(viol[1]) + " entered the flow with a populated slot and finds it nil after another transaction's CleanExecution",
				Case:     js})
		}
	}
}
