// Routing-level scenarios of the C18 stress harness: the real
// routing.HandlingDataManager (admin handlers registered by SetHandleRoutes on a
// ServeMux, driven through net/http/httptest) and the real SPOE message
// processing (processRequest / processResponse through the exporting shims of
// verif_c11.go) run in one -race built process:
//
//   - G goroutines send request/response transactions through one Limiter flow,
//   - one goroutine POSTs /load_flows `admin_reloads` times (reloadFlows ->
//     initializeStreams: a new engine is built and PUBLISHED while transactions
//     read the current one)                                   [exhibits F-C18c]
//   - two goroutines POST /validate_flows `admin_validations` times each
//     (processFlowsValidation -> initializeStreamsForDryRun)   [exhibits F-C18d]
//
// The engine's config package reads the HAProxy admin / health-check ports in
// package initialisers, so the parent puts the whole environment in place before
// it starts the child; the child starts stub endpoints on those ports (the same
// arrangement as the C08 harness).
package main

import (
	"encoding/json"
	"fmt"
	"net"
	"net/http"
	"net/http/httptest"
	"os"
	"path/filepath"
	"strings"
	"sync"
	"sync/atomic"
	"syscall"
	"time"

	"lunar/engine/actions"
	"lunar/engine/routing"

	"github.com/negasus/haproxy-spoe-go/message"
	"github.com/negasus/haproxy-spoe-go/payload/kv"
	"github.com/rs/zerolog"
)

const portBusyExit = 3

func freePort() string {
	l, err := net.Listen("tcp", "127.0.0.1:0")
	if err != nil {
		panic(err)
	}
	defer l.Close()
	return fmt.Sprint(l.Addr().(*net.TCPAddr).Port)
}

// routingEnv is the environment of a routing-level child whose cwd is abs.
func routingEnv(abs, repo string) []string {
	engine := filepath.Join(repo, "proxy", "src", "services", "lunar-engine")
	cfg := filepath.Join(abs, "cfg")
	set := map[string]string{
		"HAPROXY_MANAGE_ENDPOINTS_PORT":         freePort(),
		"LUNAR_HEALTHCHECK_PORT":                freePort(),
		"LUNAR_STREAMS_ENABLED":                 "true",
		"LUNAR_PROXY_FLOW_DIRECTORY":            filepath.Join(cfg, "flows"),
		"LUNAR_PROXY_QUOTAS_DIRECTORY":          filepath.Join(cfg, "quotas"),
		"LUNAR_FLOWS_PATH_PARAM_DIR":            filepath.Join(cfg, "path_params"),
		"LUNAR_PROXY_CONFIG":                    filepath.Join(cfg, "gateway_config.yaml"),
		"LUNAR_PROXY_METRICS_CONFIG":            filepath.Join(cfg, "metrics.yaml"),
		"LUNAR_PROXY_METRICS_CONFIG_DEFAULT":    filepath.Join(abs, "internal", "metrics.yaml"),
		"LUNAR_FLOWS_PATH_PARAM_CONFIG":         filepath.Join(abs, "gen", "policies.yaml"),
		"LUNAR_PROXY_PROCESSORS_DIRECTORY":      filepath.Join(engine, "streams", "processors", "registry"),
		"LUNAR_PROXY_USER_PROCESSORS_DIRECTORY": "",
		"DISCOVERY_STATE_LOCATION":              filepath.Join(abs, "state", "discovery.json"),
		"REMEDY_STATE_LOCATION":                 filepath.Join(abs, "state", "remedy.json"),
		"REDIS_URL":                             "",
		"LUNAR_HUB_URL":                         "",
		"LUNAR_API_KEY":                         "",
	}
	env := []string{}
	for _, e := range os.Environ() {
		k := e
		if i := strings.Index(e, "="); i >= 0 {
			k = e[:i]
		}
		if _, over := set[k]; !over {
			env = append(env, e)
		}
	}
	for k, v := range set {
		env = append(env, k+"="+v)
	}
	return env
}

// stub HAProxy: health-check and admin endpoints always answer 200.
func startStubs() {
	// the engine never closes the bodies of its health-check / admin responses: a
	// client timeout bounds the life of those connections
	http.DefaultClient.Timeout = 10 * time.Second
	var rl syscall.Rlimit
	if syscall.Getrlimit(syscall.RLIMIT_NOFILE, &rl) == nil && rl.Cur < rl.Max {
		rl.Cur = rl.Max
		_ = syscall.Setrlimit(syscall.RLIMIT_NOFILE, &rl)
	}
	for _, p := range []string{os.Getenv("HAPROXY_MANAGE_ENDPOINTS_PORT"), os.Getenv("LUNAR_HEALTHCHECK_PORT")} {
		l, err := net.Listen("tcp", ":"+p)
		if err != nil {
			fmt.Println("C18PORTBUSY " + p)
			os.Exit(portBusyExit) // the parent picks new ports and starts over
		}
		mux := http.NewServeMux()
		mux.HandleFunc("/", func(w http.ResponseWriter, r *http.Request) {
			w.WriteHeader(200)
			if strings.HasPrefix(r.URL.Path, "/healthcheck") {
				// the engine's health-check treats the EOF of an empty body as a failed check
				_, _ = w.Write([]byte("OK\n"))
			}
		})
		go func() { _ = http.Serve(l, mux) }()
	}
}

func routingChild(sc Scenario, repo string) {
	zerolog.SetGlobalLevel(zerolog.Disabled)
	for _, k := range []string{"LUNAR_PROXY_FLOW_DIRECTORY", "LUNAR_PROXY_QUOTAS_DIRECTORY", "LUNAR_FLOWS_PATH_PARAM_DIR"} {
		must(os.MkdirAll(os.Getenv(k), 0o755))
	}
	for _, k := range []string{"LUNAR_PROXY_METRICS_CONFIG_DEFAULT", "LUNAR_FLOWS_PATH_PARAM_CONFIG", "DISCOVERY_STATE_LOCATION"} {
		must(os.MkdirAll(filepath.Dir(os.Getenv(k)), 0o755))
	}
	must(os.WriteFile(filepath.Join(os.Getenv("LUNAR_PROXY_FLOW_DIRECTORY"), "rl.yaml"), []byte(flowYAML), 0o644))
	must(os.WriteFile(filepath.Join(os.Getenv("LUNAR_PROXY_QUOTAS_DIRECTORY"), "q.yaml"), []byte(quotaYAML(sc.Max, sc.Concurrent)), 0o644))
	dm, err := os.ReadFile(filepath.Join(repo, "proxy", "metrics.yaml"))
	must(err)
	must(os.WriteFile(os.Getenv("LUNAR_PROXY_METRICS_CONFIG_DEFAULT"), dm, 0o644))
	startStubs()

	// start-up, before any traffic (single goroutine)
	mgr := routing.NewHandlingDataManager(10, nil)
	must(mgr.VerifC08SetupStreams())
	mux := http.NewServeMux()
	mgr.SetHandleRoutes(mux)

	var res ChildResult
	var shown int64
	if sc.Conform {
		startRecorder() // after start-up: the recorded goroutines are transactions and admin calls only
	}
	admin := func(method, path string) {
		rec := httptest.NewRecorder()
		mux.ServeHTTP(rec, httptest.NewRequest(method, path, nil))
		if rec.Code != http.StatusOK {
			atomic.AddInt64(&res.AdminErrors, 1)
			if atomic.AddInt64(&shown, 1) == 1 {
				fmt.Printf("C18ADMIN %s answered %d %s\n", path, rec.Code, strings.ReplaceAll(rec.Body.String(), "\n", " "))
			}
		}
	}
	txn := func(id string) {
		k := kv.NewKV()
		k.Add("id", id)
		k.Add("sequence_id", id)
		k.Add("method", "GET")
		k.Add("scheme", "https")
		k.Add("url", "box.com/files")
		k.Add("path", "/files")
		k.Add("query", "")
		k.Add("headers", "")
		k.Add("body", []byte(""))
		acts, err := routing.VerifC11ProcessRequest(&message.Message{Name: "lunar-on-request", KV: k}, mgr)
		if err != nil {
			atomic.AddInt64(&res.Errors, 1)
			return
		}
		for _, a := range acts {
			if a.Name == actions.ReturnEarlyResponseActionName {
				atomic.AddInt64(&res.Refused, 1)
				return
			}
		}
		atomic.AddInt64(&res.Admitted, 1)
		r := kv.NewKV()
		r.Add("id", id)
		r.Add("sequence_id", id)
		r.Add("method", "GET")
		r.Add("url", "box.com/files")
		r.Add("status", int64(200))
		r.Add("headers", "")
		r.Add("body", []byte(""))
		if _, err := routing.VerifC11ProcessResponse(&message.Message{Name: "lunar-on-response", KV: r}, mgr); err != nil {
			atomic.AddInt64(&res.Errors, 1)
		}
	}

	var wg sync.WaitGroup
	var start sync.WaitGroup
	start.Add(1)
	// transactions keep coming while the admin goroutines work (at least PerG per
	// goroutine, at most 50 x PerG), so that every reload overlaps with traffic
	var adminsLeft atomic.Int64
	reloaders := sc.Reloaders
	if reloaders < 1 {
		reloaders = 1
	}
	if sc.Reloads > 0 {
		adminsLeft.Add(int64(reloaders))
	}
	if sc.Validates > 0 {
		adminsLeft.Add(2)
	}
	for g := 0; g < sc.Goroutines; g++ {
		wg.Add(1)
		go func(g int) {
			defer wg.Done()
			registerRole(roleTxn)
			start.Wait()
			for i := 0; i < sc.PerG || (adminsLeft.Load() > 0 && i < 50*sc.PerG); i++ {
				txn(fmt.Sprintf("t-%d-%d", g, i))
				atomic.AddInt64(&res.Transactions, 1)
			}
		}(g)
	}
	for r := 0; sc.Reloads > 0 && r < reloaders; r++ {
		wg.Add(1)
		go func() {
			defer wg.Done()
			defer adminsLeft.Add(-1)
			registerRole(roleAdmin)
			start.Wait()
			for i := 0; i < sc.Reloads; i++ {
				admin(http.MethodPost, "/load_flows")
				atomic.AddInt64(&res.ReloadsDone, 1)
			}
		}()
	}
	if sc.Validates > 0 {
		for v := 0; v < 2; v++ {
			wg.Add(1)
			go func() {
				defer wg.Done()
				defer adminsLeft.Add(-1)
				start.Wait()
				for i := 0; i < sc.Validates; i++ {
					admin(http.MethodPost, "/validate_flows")
				}
			}()
		}
	}
	start.Done()
	wg.Wait()
	if sc.Conform {
		printRecorded()
	}
	b, _ := json.Marshal(res)
	fmt.Println("C18RESULT " + string(b))
}

func must(err error) {
	if err != nil {
		panic(err)
	}
}
