// C01 monitor: the property restated over what the implementation did —
// verdicts and instants only, plus the configuration (max, window, hierarchy,
// grouping header).  It does not know where the gateway put its windows, so it
// quantifies over them: a history is accepted when SOME placement of pairwise
// disjoint windows of length W per key (any alignment, either closure of the
// edges) explains it.  Written independently of the Coq model.
package main

import (
	"fmt"
	"sort"
)

const (
	sigOver      = "over-admission:fixed-window"
	sigNoCount   = "admitted-without-count:fixed-window"
	sigSpurious  = "spurious-refusal:limiter"
	sigAncestor  = "refused-by-ancestor-still-charged:fixedWindow.Inc"
	maxEnumCombo = 200000
)

type keyCfg struct {
	W   int64 // ns
	Max int64
}

// one instant on one key
type mPoint struct {
	t      int64
	ord    int
	weight int64 // what it adds to the count of its window
	need   bool  // demand: count of its window before it + ncost > max ("already full")
	ncost  int64
	cands  []int64 // alternative attribution instants (resource level); nil = only t
	req    int     // resource level: index of the request the point stands for
}

// feasible: can pts (sorted by instant, then order) be cut into consecutive
// groups, each inside one window [a, a+W) with the windows pairwise disjoint,
// every group's total <= max and every "need" satisfied by the total before it?
func feasible(pts []mPoint, W, max int64) bool {
	var rec func(i int, amin int64, hasMin bool) bool
	rec = func(i int, amin int64, hasMin bool) bool {
		if i == len(pts) {
			return true
		}
		var sum int64
		for j := i; j < len(pts); j++ {
			if pts[j].t-pts[i].t >= W {
				break
			}
			if pts[j].need && !(sum+pts[j].ncost > max) {
				break
			}
			sum += pts[j].weight
			if sum > max {
				break
			}
			a := pts[j].t - W + 1
			if hasMin && amin > a {
				a = amin
			}
			if a > pts[i].t {
				break
			}
			if rec(j+1, a+W, true) {
				return true
			}
		}
		return false
	}
	return rec(0, 0, false)
}

func sortPts(pts []mPoint) {
	sort.SliceStable(pts, func(a, b int) bool {
		if pts[a].t != pts[b].t {
			return pts[a].t < pts[b].t
		}
		return pts[a].ord < pts[b].ord
	})
}

// feasibleCands: as feasible, choosing for every point one of its candidate instants.
func feasibleCands(pts []mPoint, W, max int64) bool {
	cur := make([]mPoint, len(pts))
	var rec func(i int) bool
	rec = func(i int) bool {
		if i == len(pts) {
			c := append([]mPoint(nil), cur...)
			sortPts(c)
			return feasible(c, W, max)
		}
		cs := pts[i].cands
		if len(cs) == 0 {
			cs = []int64{pts[i].t}
		}
		seen := map[int64]bool{}
		for _, t := range cs {
			if seen[t] {
				continue
			}
			seen[t] = true
			cur[i] = pts[i]
			cur[i].t = t
			if rec(i + 1) {
				return true
			}
		}
		return false
	}
	return rec(0)
}

// ---------------------------------------------------------------- one request at a time

type seqEvent struct {
	idx      int
	t        int64
	admitted bool
	chain    []string // keys, own quota first, root last
	costs    []int64  // cost of the request on each key of the chain
	ts       []int64  // instant at which each key of the chain was consulted (nil: t for all)
}

// at: the instant at which level i of the chain was consulted
func (e seqEvent) at(i int) int64 {
	if i < len(e.ts) {
		return e.ts[i]
	}
	return e.t
}

// explain: is there, for every refused request, a key of its chain that was
// already full, under some window placement that also respects the bound?
// chargeLower=false: counts = requests let through (the property).
// chargeLower=true : a refused request is additionally counted on the keys
// below the one that refused it (what F-C01 describes).
func explain(evs []seqEvent, cfg map[string]keyCfg, chargeLower bool) bool {
	var refused []int
	for i, e := range evs {
		if !e.admitted {
			refused = append(refused, i)
		}
	}
	levels := make([]int, len(refused))
	combos := 0
	check := func() bool {
		per := map[string][]mPoint{}
		ri := 0
		for _, e := range evs {
			if e.admitted {
				for i, k := range e.chain {
					per[k] = append(per[k], mPoint{t: e.at(i), ord: e.idx, weight: e.costs[i]})
				}
				continue
			}
			j := levels[ri]
			ri++
			if chargeLower {
				for i := 0; i < j; i++ {
					per[e.chain[i]] = append(per[e.chain[i]], mPoint{t: e.at(i), ord: e.idx, weight: e.costs[i]})
				}
			}
			per[e.chain[j]] = append(per[e.chain[j]], mPoint{t: e.at(j), ord: e.idx, need: true, ncost: e.costs[j]})
		}
		for k, pts := range per {
			sortPts(pts)
			if !feasible(pts, cfg[k].W, cfg[k].Max) {
				return false
			}
		}
		return true
	}
	var rec func(n int) bool
	rec = func(n int) bool {
		if n == len(refused) {
			combos++
			return check()
		}
		for j := range evs[refused[n]].chain {
			levels[n] = j
			if rec(n + 1) {
				return true
			}
			if combos > maxEnumCombo {
				return true // give up silently rather than raise a doubtful alarm
			}
		}
		return false
	}
	return rec(0)
}

type monHit struct{ sig, demanded, observed string }

// boundOnly: per key, the let-through requests fit some window placement.
func boundOnly(per map[string][]mPoint, cfg map[string]keyCfg) *monHit {
	keys := make([]string, 0, len(per))
	for k := range per {
		keys = append(keys, k)
	}
	sort.Strings(keys)
	for _, k := range keys {
		pts := per[k]
		for _, p := range pts {
			if p.cands != nil && len(p.cands) == 0 {
				return &monHit{sigNoCount, "a request is let through only after it was counted on " + k,
					fmt.Sprintf("request of step %d let through with no earlier Inc on that key", p.ord)}
			}
		}
		if !feasibleCands(pts, cfg[k].W, cfg[k].Max) {
			var ts []int64
			for _, p := range pts {
				ts = append(ts, p.t)
			}
			return &monHit{sigOver,
				fmt.Sprintf("key %s: at most %d (cost units) let through per window of %d ns, for some placement of disjoint windows", k, cfg[k].Max, cfg[k].W),
				fmt.Sprintf("no placement fits the let-through requests counted at %v", ts)}
		}
	}
	return nil
}

// widen: the same configuration with windows closed at both ends (W+1 instants).
// The text does not say to which window the instant s+W belongs; an
// implementation may even keep it in the old window while s itself is in it.
func widen(cfg map[string]keyCfg, extra int64) map[string]keyCfg {
	out := make(map[string]keyCfg, len(cfg))
	for k, v := range cfg {
		out[k] = keyCfg{W: v.W + extra, Max: v.Max}
	}
	return out
}

// boundAny: the bound under either reading of the window edges.
func boundAny(per map[string][]mPoint, cfg map[string]keyCfg) *monHit {
	h := boundOnly(per, cfg)
	if h == nil || h.sig == sigNoCount {
		return h
	}
	if boundOnly(per, widen(cfg, 1)) == nil {
		return nil
	}
	return h
}

func monitorSeq(evs []seqEvent, cfg map[string]keyCfg) *monHit {
	per := map[string][]mPoint{}
	for _, e := range evs {
		if e.admitted {
			for i, k := range e.chain {
				per[k] = append(per[k], mPoint{t: e.at(i), ord: e.idx, weight: e.costs[i]})
			}
		}
	}
	var firstBound *monHit
	var ok []map[string]keyCfg
	for _, extra := range []int64{0, 1} {
		c2 := widen(cfg, extra)
		if h := boundOnly(per, c2); h != nil {
			if firstBound == nil {
				firstBound = h
			}
			continue
		}
		ok = append(ok, c2)
		if explain(evs, c2, false) {
			return nil
		}
	}
	if len(ok) == 0 {
		return firstBound
	}
	var ref []int
	for _, e := range evs {
		if !e.admitted {
			ref = append(ref, e.idx)
		}
	}
	dem := "handled one at a time, a request is refused only if its quota or an ancestor is already full (of requests let through) in the current window"
	for _, c2 := range ok {
		if explain(evs, c2, true) {
			return &monHit{sigAncestor, dem,
				fmt.Sprintf("refusals %v cannot all be explained by let-through counts under any window placement; they are explained once requests refused by an ancestor are counted on the descendant keys", ref)}
		}
	}
	// which verdict is the first that cannot be reconciled with the ones before it?
	for n := 1; n <= len(evs); n++ {
		some := false
		for _, c2 := range ok {
			if explain(evs[:n], c2, false) || explain(evs[:n], c2, true) {
				some = true
				break
			}
		}
		if some {
			continue
		}
		if last := evs[n-1]; last.admitted {
			return &monHit{sigOver,
				"per key at most max requests are let through per window of the configured length (disjoint windows, any alignment); a refusal shows that the window of its instant is full",
				fmt.Sprintf("the request of step %d (t=%d) was let through although every placement of windows consistent with the verdicts before it (admissions and refusals %v) has a full window on its chain at that instant", last.idx, last.t, ref)}
		}
		break
	}
	return &monHit{sigSpurious, dem,
		fmt.Sprintf("refusals %v have no explanation under any window placement", ref)}
}
