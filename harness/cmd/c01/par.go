// C01 harness: overlapping transactions (kind "par").
//
// A transaction is parked at its n-th reading of the clock the harness
// supplies (on this tree: 1 = newQuota while the group object of the request is
// being built, 2 = AtomicIncWindow of that object, 3 = its fall-back reading in
// atomicGetWindow, 4-6 = the same at the parent); meanwhile other steps are attempted, each with a bounded wait: a
// step either finishes while the first transaction is parked, or is seen
// blocked (goroutine state), or times out - all three are observations, not
// requirements.  The first transaction is then released and the rest of the
// schedule runs on the harness goroutine.  Nothing here needs the
// implementation to read the clock at any particular place: a transaction that
// never reaches its n-th reading simply runs to completion ("not-parked").
//
// The observed completion order is a serial order of the steps; the model is
// run on it (suite res).  The overlapping transactions of the generated cases
// all fit into every max of their chains and carry the same clock reading, so
// every serial order gives the same verdicts and the choice of the order
// cannot cause a disagreement by itself.
package main

import (
	"bytes"
	"fmt"
	"runtime"
	"strconv"
	"strings"
	"sync/atomic"
	"time"

	c "verifharness/common"
)

type Par struct {
	Pre    int `json:"sequential_steps_before"` // Steps[:Pre] run first, one after the other
	ParkAt int `json:"park_at_clock_reading"`   // Steps[Pre] is parked at its n-th clock reading
	During int `json:"steps_attempted_meanwhile"`
	// observed
	ParkedIn string `json:"parked_in,omitempty"`      // function that made the reading
	Order    []int  `json:"completion_order,omitempty"` // indexes into Steps
	Notes    string `json:"observed,omitempty"`
	// positions (in the linear schedule) of a step that was parked while another
	// step finished: its group object, if it built one, is stored on release
	stores map[int]bool
}

type gate struct {
	gid     int64
	parkAt  int32
	n       atomic.Int32
	armed   atomic.Bool
	where   string
	entered chan struct{}
	release chan struct{}
}

var curGate atomic.Pointer[gate]

func goid() int64 {
	var buf [64]byte
	b := buf[:runtime.Stack(buf[:], false)]
	b = bytes.TrimPrefix(b, []byte("goroutine "))
	if i := bytes.IndexByte(b, ' '); i > 0 {
		id, _ := strconv.ParseInt(string(b[:i]), 10, 64)
		return id
	}
	return -1
}

func (g *gate) reading() {
	if !g.armed.Load() || goid() != g.gid {
		return
	}
	if g.n.Add(1) != g.parkAt {
		return
	}
	g.armed.Store(false)
	var pcs [4]uintptr
	n := runtime.Callers(3, pcs[:])
	fr, _ := runtime.CallersFrames(pcs[:n]).Next()
	g.where = fr.Function
	if i := strings.LastIndexByte(g.where, '/'); i >= 0 {
		g.where = g.where[i+1:]
	}
	close(g.entered)
	<-g.release
}

// state of goroutine id as the runtime prints it ("" = gone)
func gstate(id int64) string {
	buf := make([]byte, 1<<16)
	for {
		n := runtime.Stack(buf, true)
		if n < len(buf) {
			buf = buf[:n]
			break
		}
		buf = make([]byte, 2*len(buf))
	}
	h := []byte(fmt.Sprintf("goroutine %d [", id))
	i := bytes.Index(buf, h)
	if i < 0 {
		return ""
	}
	rest := buf[i+len(h):]
	if j := bytes.IndexByte(rest, ']'); j >= 0 {
		return string(rest[:j])
	}
	return ""
}

func looksBlocked(state string) bool {
	for _, p := range []string{"semacquire", "sync.Mutex", "sync.RWMutex", "chan receive", "chan send", "select", "sync.Cond", "sync.WaitGroup"} {
		if strings.HasPrefix(state, p) {
			return true
		}
	}
	return false
}

const (
	parEnterWait = 5 * time.Second  // the parked transaction reaches its reading or finishes
	parStepWait  = 3 * time.Second  // a step attempted meanwhile finishes or is seen blocked
	parFinalWait = 10 * time.Second // after the release everything finishes
)

type bgStep struct {
	idx  int
	gid  atomic.Int64
	done chan struct{}
}

func startStep(e *resEnv, s *Step, idx int, g *gate) *bgStep {
	b := &bgStep{idx: idx, done: make(chan struct{})}
	ready := make(chan struct{})
	go func() {
		defer close(b.done)
		defer func() {
			if p := recover(); p != nil {
				s.Out = "err"
			}
		}()
		b.gid.Store(goid())
		if g != nil {
			g.gid = b.gid.Load()
			g.armed.Store(true)
		}
		close(ready)
		e.do(s)
	}()
	<-ready
	return b
}

func waitDone(b *bgStep, d time.Duration) bool {
	select {
	case <-b.done:
		return true
	case <-time.After(d):
		return false
	}
}

func execPar(k *Case) {
	p := k.Par
	e := buildRes(k)
	p.Order, p.ParkedIn, p.Notes = nil, "", ""
	seq := func(i int) {
		s := &k.Steps[i]
		setClock(s.Now)
		e.do(s)
		p.Order = append(p.Order, i)
	}
	for i := 0; i < p.Pre && i < len(k.Steps); i++ {
		seq(i)
	}
	ai := p.Pre
	if ai >= len(k.Steps) {
		return
	}
	setClock(k.Steps[ai].Now)
	g := &gate{parkAt: int32(p.ParkAt), entered: make(chan struct{}), release: make(chan struct{})}
	curGate.Store(g)
	a := startStep(e, &k.Steps[ai], ai, g)
	parked := false
	select {
	case <-g.entered:
		parked = true
	case <-a.done:
	case <-time.After(parEnterWait):
		p.Notes = "the first transaction neither reached its clock reading nor finished in time"
	}
	g.armed.Store(false)
	next := ai + 1
	var blocked *bgStep
	if !parked {
		if p.Notes == "" {
			p.Notes = "not-parked"
			p.Order = append(p.Order, ai)
		}
	} else {
		p.ParkedIn = g.where
		for ; next <= ai+p.During && next < len(k.Steps); next++ {
			// the clock stands still while a transaction is parked
			b := startStep(e, &k.Steps[next], next, nil)
			fin, seen := false, 0
			deadline := time.Now().Add(parStepWait)
			for !fin && time.Now().Before(deadline) {
				if fin = waitDone(b, 2*time.Millisecond); fin {
					break
				}
				if looksBlocked(gstate(b.gid.Load())) {
					if seen++; seen >= 2 {
						break
					}
				} else {
					seen = 0
				}
			}
			if fin {
				p.Order = append(p.Order, next)
				p.Notes += fmt.Sprintf("step %d finished while step %d was parked; ", next, ai)
				continue
			}
			if seen >= 2 {
				p.Notes += fmt.Sprintf("step %d waits for step %d; ", next, ai)
			} else {
				p.Notes += fmt.Sprintf("step %d neither finished nor was seen blocked within %v; ", next, parStepWait)
			}
			blocked = b
			next++
			break
		}
	}
	close(g.release)
	curGate.Store(nil)
	if !waitDone(a, parFinalWait) {
		k.Steps[ai].Out = "err"
		p.Notes += "the parked transaction did not finish after its release; "
	}
	if parked {
		p.Order = append(p.Order, ai)
	}
	if blocked != nil {
		if !waitDone(blocked, parFinalWait) {
			k.Steps[blocked.idx].Out = "err"
			p.Notes += fmt.Sprintf("step %d did not finish after the release; ", blocked.idx)
		}
		p.Order = append(p.Order, blocked.idx)
	}
	for ; next < len(k.Steps); next++ {
		seq(next)
	}
}

// the case as a one-goroutine schedule in the observed completion order
func (k *Case) linear() *Case {
	l := *k
	l.Steps = nil
	p := *k.Par
	p.stores = map[int]bool{}
	l.Par = &p
	for _, i := range k.Par.Order {
		if i == k.Par.Pre && strings.Contains(k.Par.Notes, "finished while") {
			p.stores[len(l.Steps)] = true
		}
		l.Steps = append(l.Steps, k.Steps[i])
	}
	// a step that never ran (cannot happen unless the run was cut short)
	if len(l.Steps) != len(k.Steps) {
		l.Steps = append([]Step(nil), k.Steps...)
	}
	return &l
}

// ---------------------------------------------------------------- monitor

const sigNoSerial = "verdicts-match-no-serial-order:overlapping-transactions"

// The transactions (Inc ... Allowed of one request on one quota) of a par case:
// those whose Inc lies in the overlapping part may be ordered either way, the
// others are where the schedule puts them.  The verdicts are accepted when SOME
// one-at-a-time order of the transactions is accepted by the sequential monitor
// (bound + a refusal only when a key of the chain is already full).
func monitorCasePar(k *Case) *monHit {
	f := byID(k.Forest)
	cfg := map[string]keyCfg{}
	p := k.Par
	type txn struct {
		ev      seqEvent
		overlap bool
	}
	var txns []txn
	for i, s := range k.Steps {
		if s.Out == "err" {
			return &monHit{"error:quota-step", "steps succeed and finish", fmt.Sprintf("step %d failed or did not finish (%s)", i, p.Notes)}
		}
		if s.Kind != "inc" {
			continue
		}
		for j := i + 1; j < len(k.Steps); j++ {
			a := k.Steps[j]
			if a.Kind == "inc" && a.R == s.R && a.Q == s.Q {
				break
			}
			if a.Kind == "allowed" && a.R == s.R && a.Q == s.Q {
				keys, costs := chainKeys(f, s.Q, k.Reqs[s.R], cfg)
				txns = append(txns, txn{seqEvent{idx: i, t: s.Now, admitted: a.Out == "true", chain: keys, costs: costs},
					i >= p.Pre && i <= p.Pre+p.During})
				break
			}
		}
	}
	var over []int
	for i, t := range txns {
		if t.overlap {
			over = append(over, i)
		}
	}
	var first, ancestor *monHit
	perm := make([]int, len(over))
	used := make([]bool, len(over))
	var try func(n int) bool
	try = func(n int) bool {
		if n == len(over) {
			evs := make([]seqEvent, 0, len(txns))
			oi := 0
			for _, t := range txns {
				if t.overlap {
					evs = append(evs, txns[over[perm[oi]]].ev)
					oi++
				} else {
					evs = append(evs, t.ev)
				}
			}
			for i := range evs {
				evs[i].idx = i // the order under trial
			}
			h := monitorSeq(evs, cfg)
			if h == nil {
				return true
			}
			if first == nil {
				first = h
			}
			if h.sig == sigAncestor {
				ancestor = h
			}
			return false
		}
		for i := range over {
			if !used[i] {
				used[i], perm[n] = true, i
				if try(n + 1) {
					return true
				}
				used[i] = false
			}
		}
		return false
	}
	if try(0) {
		// the bound for the schedule as it ran
		return monitorCaseSched(k.linear())
	}
	if ancestor != nil {
		return ancestor
	}
	var vs []string
	for _, t := range txns {
		vs = append(vs, fmt.Sprintf("step %d: %v", t.ev.idx, t.ev.admitted))
	}
	return &monHit{sigNoSerial,
		"the verdicts of overlapping transactions are those of some one-at-a-time order of them (in which a request is refused only if its quota or an ancestor is already full)",
		fmt.Sprintf("verdicts {%s} (%s) match no order; in the first order tried: %s", strings.Join(vs, ", "), p.Notes, first.observed)}
}

// ---------------------------------------------------------------- corpus

// Two (or three) first-ever transactions of one quota group overlap; then the
// verdicts, then the window is filled up one request at a time.
func parCase(shape int, m int64, parkAt int, sameGroup bool, during int, allowedBFirst bool, pre bool) Case {
	f, q := shapedForest(shape, m, 60)
	ga, gb := map[int]int{1: 1}, map[int]int{1: 1}
	if !sameGroup {
		gb = map[int]int{1: 2}
	}
	t := baseSec*sec + 300_000_000
	k := Case{Kind: "par", Forest: f, Par: &Par{ParkAt: parkAt, During: during}}
	n := 1 + during + int(m) + 1
	for i := 0; i < n; i++ {
		h := ga
		if i >= 1 && i <= during {
			h = gb
		}
		k.Reqs = append(k.Reqs, Req{ID: i + 1, Hdrs: h})
	}
	if pre {
		// another group of the same quotas has been served before
		k.Reqs = append(k.Reqs, Req{ID: n + 1, Hdrs: map[int]int{1: 0}})
		k.Steps = append(k.Steps, Step{Kind: "inc", Q: q, R: n, Now: t}, Step{Kind: "allowed", Q: q, R: n, Now: t})
		k.Par.Pre = 2
	}
	for i := 0; i <= during; i++ {
		k.Steps = append(k.Steps, Step{Kind: "inc", Q: q, R: i, Now: t})
	}
	if allowedBFirst {
		for i := during; i >= 0; i-- {
			k.Steps = append(k.Steps, Step{Kind: "allowed", Q: q, R: i, Now: t})
		}
	} else {
		for i := 0; i <= during; i++ {
			k.Steps = append(k.Steps, Step{Kind: "allowed", Q: q, R: i, Now: t})
		}
	}
	for i := 1 + during; i < n; i++ {
		k.Steps = append(k.Steps, Step{Kind: "inc", Q: q, R: i, Now: t + 1}, Step{Kind: "allowed", Q: q, R: i, Now: t + 1})
	}
	return k
}

func parCases() []Case {
	var out []Case
	for shape := 0; shape < 4; shape++ {
		for _, m := range []int64{3, 10} {
			for parkAt := 1; parkAt <= 6; parkAt++ {
				if parkAt > 3 && shape < 2 {
					continue // one level only
				}
				for _, same := range []bool{true, false} {
					if !same && (shape == 0 || shape == 2) {
						continue // no grouping header
					}
					out = append(out, parCase(shape, m, parkAt, same, 1, false, false))
					out = append(out, parCase(shape, m, parkAt, same, 1, true, parkAt == 1))
					if m == 3 && parkAt == 1 {
						out = append(out, parCase(shape, m, parkAt, same, 2, true, false))
					}
				}
			}
		}
	}
	return out
}

func genPar(r *c.Rng) Case {
	shape := r.Intn(4)
	m := int64(c.Pick(r, []int{3, 4, 10}))
	return parCase(shape, m, c.Pick(r, []int{1, 1, 1, 2, 3, 4, 4, 5, 6, 7}), r.Chance(3, 4), c.Pick(r, []int{1, 1, 2}), r.Bool(), r.Chance(1, 3))
}
