// C01 harness: metrics collections and drops as steps of a schedule.
//
// A "scrape" step invokes every Int64 observable-gauge callback the quota
// resources of the case registered with the meter of lunar/toolkit-core/otel
// (quotaResource.observeQuotaUsed -> fixedWindow.GetQuotaGroupsCounters ->
// quota.GetCounter, and observeQuotaLimit), as the OTel reader does on a
// collection.  The meter is a recording one installed through the add-only
// shim otel.VerifC01SetMeter.  If the implementation registers no callback the
// step falls back to GetQuotaGroupsCounters of the quota objects at hand
// (resource level) or does nothing (engine level); either is only counted.
package main

import (
	"context"
	"fmt"

	"go.opentelemetry.io/otel/metric"
	"go.opentelemetry.io/otel/metric/noop"

	public_types "lunar/engine/streams/public-types"

	c "verifharness/common"
)

type namedCB struct {
	name string
	cb   metric.Int64Callback
}

type captureMeter struct {
	noop.Meter
	cbs []namedCB
}

func (m *captureMeter) Int64ObservableGauge(name string, opts ...metric.Int64ObservableGaugeOption,
) (metric.Int64ObservableGauge, error) {
	cfg := metric.NewInt64ObservableGaugeConfig(opts...)
	for _, cb := range cfg.Callbacks() {
		m.cbs = append(m.cbs, namedCB{name, cb})
	}
	return noop.Int64ObservableGauge{}, nil
}

type countObserver struct {
	noop.Int64Observer
	n int
}

func (o *countObserver) Observe(int64, ...metric.ObserveOption) { o.n++ }

var meter = &captureMeter{}

// scrapeStats: what the scrapes of the run found (distribution keys)
var scrapeStats = map[string]int{}

// doScrape runs one collection; "none" when every callback returned, "err" otherwise.
func doScrape(quotas map[int]public_types.QuotaResourceI) (out string) {
	out = "none"
	defer func() {
		if p := recover(); p != nil {
			scrapeStats["scrape=callback-panicked"]++
			out = "err"
		}
	}()
	if len(meter.cbs) == 0 {
		scrapeStats["scrape=no-callback-registered"]++
		for _, q := range quotas {
			if g, ok := q.(interface{ GetQuotaGroupsCounters() map[string]int64 }); ok {
				g.GetQuotaGroupsCounters()
				scrapeStats["scrape=fallback-GetQuotaGroupsCounters"]++
			}
		}
		return out
	}
	obs := &countObserver{}
	for _, x := range meter.cbs {
		if err := x.cb(context.Background(), obs); err != nil {
			scrapeStats["scrape=callback-error"]++
			out = "err"
		}
	}
	scrapeStats["scrape=collections"]++
	if obs.n > 0 {
		scrapeStats["scrape=collections-with-observations"]++
	}
	return out
}

// ---------------------------------------------------------------- corpus

func plainReqs(n int, hdr map[int]int) []Req {
	out := make([]Req, n)
	for i := range out {
		out[i] = Req{ID: i + 1, Hdrs: hdr}
	}
	return out
}

// forests of the directed cases: the quota under test (max m, window w s) alone,
// grouped, as a child of a roomy parent, or as the parent of a roomy child;
// returns the forest and the quota the requests are sent to
func shapedForest(shape int, m, w int64) ([]QDef, int) {
	switch shape {
	case 1:
		return []QDef{{ID: 1, Max: m, Ival: w, Unit: "second", Group: 1}}, 1
	case 2:
		return []QDef{{ID: 1, Max: 3*m + 5, Ival: 3 * w, Unit: "second"}, {ID: 2, Max: m, Ival: w, Unit: "second", Parent: 1}}, 2
	case 3:
		return []QDef{{ID: 1, Max: m, Ival: w, Unit: "second"}, {ID: 2, Max: 3*m + 5, Ival: 3 * w, Unit: "second", Parent: 1, Group: 1}}, 2
	}
	return []QDef{{ID: 1, Max: m, Ival: w, Unit: "second"}}, 1
}

// a collection in the middle of a full window of a group object that has been
// serving for longer than one window, then more traffic in the same window
// (eng and res); and a collection between the Inc and the Allowed of the only
// request, at the instant its window ends +-1 ns (res)
func scrapeCases() []Case {
	var out []Case
	hdr := map[int]int{1: 1}
	for shape := 0; shape < 4; shape++ {
		for m := int64(1); m <= 2; m++ {
			for w := int64(1); w <= 2; w++ {
				for _, d := range []int64{0, 1, 400_000_000} {
					for _, kind := range []string{"eng", "res"} {
						f, q := shapedForest(shape, m, w)
						t0 := baseSec*sec + 300_000_000
						t1 := t0 + w*sec + d // opens the second window
						k := Case{Kind: kind, Seq: true, Forest: f, Reqs: plainReqs(int(2*m)+1, hdr)}
						add := func(ri int, t int64) {
							if kind == "eng" {
								k.Steps = append(k.Steps, Step{Kind: "limiter", Q: q, R: ri, Now: t})
							} else {
								k.Steps = append(k.Steps, Step{Kind: "inc", Q: q, R: ri, Now: t}, Step{Kind: "allowed", Q: q, R: ri, Now: t})
							}
						}
						add(0, t0)
						k.Steps = append(k.Steps, Step{Kind: "scrape", Now: t0 + 1})
						for i := int64(0); i < m; i++ {
							add(int(1+i), t1)
						}
						k.Steps = append(k.Steps, Step{Kind: "scrape", Now: t1 + 200_000_000})
						for i := int64(0); i < m; i++ {
							add(int(1+m+i), t1+200_000_001)
						}
						out = append(out, k)
					}
				}
			}
		}
	}
	for shape := 0; shape < 4; shape++ {
		for w := int64(1); w <= 2; w++ {
			for _, first := range []int64{0, 300_000_000} {
				for _, d := range []int64{-1, 0, 1, 700_000_000} {
					f, q := shapedForest(shape, 2, w)
					t0 := baseSec*sec + first
					ts := (baseSec+w)*sec + d // around the end of the stored window [baseSec, baseSec+w)
					k := Case{Kind: "res", Seq: true, Forest: f, Reqs: plainReqs(2, hdr),
						Steps: []Step{{Kind: "inc", Q: q, R: 0, Now: t0}, {Kind: "scrape", Now: ts}, {Kind: "allowed", Q: q, R: 0, Now: ts},
							{Kind: "inc", Q: q, R: 1, Now: ts}, {Kind: "scrape", Now: ts + 3*w*sec}, {Kind: "allowed", Q: q, R: 1, Now: ts + 3*w*sec}}}
					out = append(out, k)
				}
			}
		}
	}
	return out
}

// A request is let through late in window 1 and held further down the flow;
// another request opens window 2; the held request is then dropped by the
// gateway (OnRequestDrop / queue time-out -> Dec) at dropAt; max further
// requests arrive in window 2, and max more at the very instant window 2 ends.
// Window 2 may let through max requests in all.  (The monitor does not know
// where the windows are; the requests of window 3 are what pins them: the
// requests let through from the one that opened window 2 on must fit into two
// windows.)
func dropCase(shape int, m, w int64, first, lateBy, d, dropBy int64, kdec bool) Case {
	f, q := shapedForest(shape, m, w)
	hdr := map[int]int{1: 1}
	t0 := baseSec*sec + first      // stored window [baseSec, baseSec+w)
	tA := (baseSec+w)*sec - lateBy // held request, late in window 1
	if tA < t0 {
		tA = t0
	}
	tB := (baseSec+w)*sec + d // opens window 2
	k := Case{Kind: "res", Forest: f, Reqs: plainReqs(int(2*m)+3, hdr)}
	pair := func(ri int, t int64) {
		k.Steps = append(k.Steps, Step{Kind: "inc", Q: q, R: ri, Now: t}, Step{Kind: "allowed", Q: q, R: ri, Now: t})
	}
	if tA > t0 && m > 1 {
		pair(0, t0)
	}
	pair(1, tA)
	pair(2, tB)
	dk := "dec"
	if kdec {
		dk = "kdec"
	}
	k.Steps = append(k.Steps, Step{Kind: dk, Q: q, R: 1, Now: tB + dropBy})
	for i := int64(0); i < m; i++ {
		pair(int(3+i), tB+dropBy+1)
	}
	for i := int64(0); i < m; i++ {
		pair(int(3+m+i), (baseSec+2*w)*sec)
	}
	return k
}

func dropCases() []Case {
	var out []Case
	for shape := 0; shape < 4; shape++ {
		for m := int64(1); m <= 2; m++ {
			for w := int64(1); w <= 2; w++ {
				for _, d := range []int64{0, 1, 300_000_000} {
					for _, lateBy := range []int64{1, 400_000_000} {
						out = append(out, dropCase(shape, m, w, 300_000_000, lateBy, d, 1, false))
					}
				}
				out = append(out, dropCase(shape, m, w, 0, 1, 0, 0, true))
			}
		}
	}
	return out
}

func genDrop(r *c.Rng) Case {
	w := int64(r.Range(1, 3))
	return dropCase(r.Intn(4), int64(r.Range(1, 3)), w,
		c.Pick(r, []int64{0, 1, 300_000_000, 999_999_999}),
		c.Pick(r, []int64{1, 2, 100_000_000, 600_000_000, w * sec}),
		c.Pick(r, []int64{0, 1, 2, 250_000_000, 900_000_000}),
		c.Pick(r, []int64{0, 1, 50_000_000, 500_000_000}), r.Chance(1, 5))
}

func flushScrapeStats(o *c.Out) {
	for k, n := range scrapeStats {
		for i := 0; i < n; i++ {
			o.Count(k)
		}
	}
}

var _ = fmt.Sprintf
