// C01 harness: quotas that carry a `monthly_renewal` block (on the quota the
// requests go to and/or on an ancestor) and histories whose clock crosses the
// renewal instant(s) while a configured window is running and full.
//
// The model: no effect (the block is decoded and validated, the strategy never
// sees it), so the Coq forest does not mention it.  The monitor does not know
// about renewals either: it states the bound over windows of the CONFIGURED
// length.  A window cut short by a renewal and restarted looks, to verdicts
// alone, like two windows - so the histories pin the windows:
//   family L: a window longer than two renewal periods; max let through before
//             the first renewal, after it, after the second one: 3*max inside
//             less than one window length cannot be covered by two windows;
//   family S: short windows; the window before is full and has a refusal at its
//             last nanosecond, the current one is full and has a refusal too:
//             both are pinned to 1 ns, and the renewal instant lies inside the
//             current one.
package main

import (
	"time"

	c "verifharness/common"
)

// where the gateway would put the first renewal when the strategy is built at
// `built` (MonthlyRenewalData.getMonthlyResetIn); used to AIM clock readings only
func renewAt(built int64, rn Renew) int64 {
	loc := time.UTC
	if rn.TZ == "Local" {
		loc = time.Local
	}
	return time.Unix(0, built).In(loc).AddDate(0, 1, rn.Day-1).
		Add(time.Duration(rn.Hour) * time.Hour).Add(time.Duration(rn.Minute) * time.Minute).UnixNano()
}

// put the block on the quota under test (which==0), on every quota (1), or on
// every quota but the one the requests are sent to (2: ancestors / siblings only)
func withRenewal(f []QDef, target int, which int, rn Renew) []QDef {
	out := append([]QDef(nil), f...)
	for i := range out {
		on := false
		switch which {
		case 0:
			on = out[i].ID == target
		case 1:
			on = true
		case 2:
			on = out[i].ID != target || len(out) == 1
		}
		if on {
			r := rn
			out[i].Renew = &r
		}
	}
	return out
}

// the quota with max m of a shaped forest (shapedForest: the requests go to q,
// the small quota is q itself or, shape 3, its parent)
func smallQuota(shape, q int) int {
	if shape == 3 {
		return 1
	}
	return q
}

func limiterSteps(k *Case, kind string, q, ri int, t int64) {
	if kind == "eng" {
		k.Steps = append(k.Steps, Step{Kind: "limiter", Q: q, R: ri, Now: t})
	} else {
		k.Steps = append(k.Steps, Step{Kind: "inc", Q: q, R: ri, Now: t}, Step{Kind: "allowed", Q: q, R: ri, Now: t})
	}
}

// family L
func renewalLong(kind string, shape int, m int64, ival int64, unit string, which int, rn Renew, d int64) Case {
	f, q := shapedForest(shape, m, ival)
	for i := range f {
		f[i].Unit = unit
	}
	f = withRenewal(f, smallQuota(shape, q), which, rn)
	built := baseSec*sec + 300_000_000
	k := Case{Kind: kind, Seq: true, Forest: f, Built: built}
	W := f[0].wsec() * sec
	for _, x := range f {
		if x.ID == smallQuota(shape, q) {
			W = x.wsec() * sec
		}
	}
	r1 := renewAt(built, rn)
	t1 := r1 + d
	r2 := renewAt(t1, rn) // a gateway that renews re-arms from the reading that crossed
	t2 := r2 + d
	ts := []int64{built, t1, t2}
	if t2-built >= W {
		ts = ts[:2]
	}
	ri := 0
	hdr := map[int]int{1: 1}
	for _, t := range ts {
		for i := int64(0); i <= m; i++ { // max let through, one refused
			k.Reqs = append(k.Reqs, Req{ID: ri + 1, Hdrs: hdr})
			limiterSteps(&k, kind, q, ri, t)
			ri++
		}
	}
	// the configured window that started with the first request is over: room again
	k.Reqs = append(k.Reqs, Req{ID: ri + 1, Hdrs: hdr})
	limiterSteps(&k, kind, q, ri, (built/sec)*sec+W)
	return k
}

// family S
func renewalShort(kind string, shape int, m int64, w int64, unit string, which int, rn Renew, d int64) Case {
	f, q := shapedForest(shape, m, w)
	for i := range f {
		f[i].Unit = unit
	}
	small := smallQuota(shape, q)
	f = withRenewal(f, small, which, rn)
	built := baseSec * sec
	k := Case{Kind: kind, Seq: true, Forest: f, Built: built}
	var W int64
	for _, x := range f {
		if x.ID == small {
			W = x.wsec() * sec
		}
	}
	r1 := renewAt(built, rn) // whole second
	x := W / 2 / sec * sec
	if x == 0 {
		x = W
	}
	t0 := r1 - x - W // window P = [t0, t0+W), window A = [t0+W, t0+2W) contains r1 (r1 = t0+W+x)
	ri := 0
	hdr := map[int]int{1: 1}
	add := func(t int64) {
		k.Reqs = append(k.Reqs, Req{ID: ri + 1, Hdrs: hdr})
		limiterSteps(&k, kind, q, ri, t)
		ri++
	}
	for i := int64(0); i < m; i++ {
		add(t0)
	}
	add(t0 + W - 1) // refused: P is full up to its last nanosecond
	for i := int64(0); i < m; i++ {
		add(t0 + W)
	}
	add(t0 + W + 1) // refused: A is full
	add(r1 + d)     // after the renewal instant, still inside A: refused
	if d+1 < W-x {
		add(r1 + d + 1)
	}
	add(t0 + 2*W) // A is over: let through
	return k
}

func renewalCases() []Case {
	var out []Case
	rns := []Renew{{1, 0, 0, "UTC"}, {3, 5, 30, "UTC"}, {1, 0, 0, "Local"}}
	for _, kind := range []string{"eng", "res"} {
		for shape := 0; shape < 4; shape++ {
			for m := int64(1); m <= 2; m++ {
				for which := 0; which < 3; which++ {
					if which == 2 && shape < 2 {
						continue
					}
					rn := rns[(shape+int(m)+which)%len(rns)]
					d := []int64{1, sec, 86400 * sec}[(shape+which)%3]
					if (shape+int(m))%2 == 0 {
						out = append(out, renewalLong(kind, shape, m, 3, "month", which, rn, d))
					} else {
						out = append(out, renewalLong(kind, shape, m, 80, "day", which, rn, d))
					}
					ds := []int64{1, 300_000_000}[(shape+int(m)+which)%2]
					if which != 1 || m == 1 {
						out = append(out, renewalShort(kind, shape, m, 2, "second", which, rn, ds))
					}
					if m == 1 {
						out = append(out, renewalShort(kind, shape, m, 1, []string{"minute", "day"}[which%2], which, rn, ds))
					}
				}
			}
		}
	}
	return out
}

func genRenewal(r *c.Rng) Case {
	kind := c.Pick(r, []string{"eng", "res"})
	shape := r.Intn(4)
	m := int64(r.Range(1, 3))
	which := r.Intn(3)
	if shape < 2 && which == 2 {
		which = 0
	}
	rn := Renew{Day: c.Pick(r, []int{1, 1, 2, 15, 28}), Hour: c.Pick(r, []int{0, 0, 7, 23}), Minute: c.Pick(r, []int{0, 0, 59}),
		TZ: c.Pick(r, []string{"UTC", "UTC", "Local"})}
	if r.Chance(1, 3) {
		rn.Day = c.Pick(r, []int{1, 2, 5}) // two renewals fit into the long windows
		if r.Bool() {
			return renewalLong(kind, shape, m, int64(r.Range(3, 4)), "month", which, rn, c.Pick(r, []int64{1, 2, sec, 3600 * sec}))
		}
		return renewalLong(kind, shape, m, int64(r.Range(75, 100)), "day", which, rn, c.Pick(r, []int64{1, 2, sec, 3600 * sec}))
	}
	w, unit := int64(r.Range(2, 3)), "second"
	if r.Chance(1, 4) {
		w, unit = 1, c.Pick(r, []string{"minute", "hour", "day"})
	}
	return renewalShort(kind, shape, m, w, unit, which, rn, c.Pick(r, []int64{1, 2, 100_000_000, 400_000_000}))
}
