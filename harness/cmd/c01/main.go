// C01 harness: fixed-window quotas.
//
//	res suite: the real quota resource objects (built from quota YAML through
//	           resources.NewResourceManagement, as the engine does) driven with a
//	           chosen schedule of Inc / Allowed / Dec / ResetIn steps and of the
//	           per-key bodies (verif_c01.go shims) of several requests under a
//	           mock clock; observable = the verdict of each step.
//	eng suite: the same quota files + one generated Limiter flow per quota loaded
//	           through streams.NewStream().Initialize(); requests go through
//	           ExecuteFlow one at a time; observable = let through / early response.
package main

import (
	"fmt"
	"os"
	"path/filepath"
	"runtime"
	"sort"
	"strconv"
	"strings"
	"time"

	lunar_messages "lunar/engine/messages"
	"lunar/engine/streams"
	stream_config "lunar/engine/streams/config"
	lunar_context "lunar/engine/streams/lunar-context"
	public_types "lunar/engine/streams/public-types"
	"lunar/engine/streams/resources"
	quotaresource "lunar/engine/streams/resources/quota"
	stream_types "lunar/engine/streams/types"
	"lunar/engine/utils/environment"
	"lunar/toolkit-core/clock"
	lunar_otel "lunar/toolkit-core/otel"
	context_manager "lunar/toolkit-core/context-manager"

	"github.com/rs/zerolog"

	c "verifharness/common"
)

const (
	sec      = int64(time.Second)
	baseSec  = int64(1_700_000_000)
	costHdr  = "x-cost"
	costPath = `$.request.headers["x-cost"]`
)

var hdrNames = map[int]string{1: "x-g1", 2: "x-g2"}
var valNames = map[int]string{0: "default", 1: "a", 2: "b", 3: ""}

type QDef struct {
	ID     int    `json:"id"`
	Max    int64  `json:"max"`
	Ival   int64  `json:"interval"`
	Unit   string `json:"unit"`            // second | minute | hour | day
	Parent int    `json:"parent"`          // 0 = none
	Group  int    `json:"group_by_header"` // 0 = none, else index into hdrNames
	Custom bool   `json:"custom_counter"`
	// allocation_percentage of the parent (internal limits only): the YAML names
	// only the percentage, the loader copies the parent's strategy and scales max
	// (possibly down to 0); the other fields hold the resulting values
	Alloc int64 `json:"allocation_percentage,omitempty"`
	// spillover configured (withSpillover = true in every quota object; the
	// spill-over counter itself is never written on this tree)
	Spill bool `json:"spillover,omitempty"`
	// monthly_renewal block on this quota (decoded and validated; on the tree the
	// model describes it is never handed to the strategy: no effect)
	Renew *Renew `json:"monthly_renewal,omitempty"`
}

type Renew struct {
	Day    int    `json:"day"`
	Hour   int    `json:"hour"`
	Minute int    `json:"minute"`
	TZ     string `json:"timezone"` // UTC | Local (the validator allows nothing else)
}

func (q QDef) wsec() int64 {
	switch q.Unit {
	case "minute":
		return 60 * q.Ival
	case "hour":
		return 3600 * q.Ival
	case "day":
		return 86400 * q.Ival
	case "month":
		return 30 * 86400 * q.Ival // QuotaLimit.ParseWindow: a month is 30 days
	}
	return q.Ival
}

type Req struct {
	ID      int         `json:"id"`
	Hdrs    map[int]int `json:"group_headers"` // header index -> value index
	HasCost bool        `json:"has_cost_header"`
	Cost    int64       `json:"cost"`
}

type Step struct {
	Kind string `json:"kind"` // inc allowed dec resetin kinc kallowed kdec
	Q    int    `json:"quota"`
	R    int    `json:"request"` // index into Reqs
	Now  int64  `json:"now_ns"`  // mock clock when the step runs
	// engt: readings of the clock at the levels above the request's own quota,
	// in order (AtomicIncWindow of the parent, of the grandparent, ...); when
	// exhausted the clock no longer advances
	Later []int64 `json:"later_ns,omitempty"`
	Out   string  `json:"out"` // none | true | false | already | increased | blocked | err
}

type Case struct {
	Kind   string `json:"kind"` // res | eng | engt
	Forest []QDef `json:"forest"`
	Reqs   []Req  `json:"requests"`
	Steps  []Step `json:"steps"`
	Seq    bool   `json:"one_at_a_time"` // res: the schedule is limiter calls one after the other
	// the mock clock when the quota resources / the engine are built (0 = the
	// instant of the first step); a monthly renewal is scheduled from there
	Built int64 `json:"built_ns,omitempty"`
	// kind par: see par.go
	Par *Par `json:"overlap,omitempty"`
}

// the clock reading at which the resources of the case are built
func (k *Case) builtAt() int64 {
	if k.Built != 0 {
		return k.Built
	}
	if len(k.Steps) > 0 {
		return k.Steps[0].Now
	}
	return baseSec * sec
}

// ---------------------------------------------------------------- environment

var (
	mock    *clock.MockClock
	shared  = lunar_context.NewMemoryState[[]byte]()
	caseSeq int
	curTime int64
)

func must(err error) {
	if err != nil {
		panic(err)
	}
}

func setClock(ns int64) {
	if ns == curTime {
		return
	}
	mock.Set(time.Unix(0, ns))
	curTime = ns
}

// levelClock is the clock the engine sees: the mock clock, except that a
// scripted list of later readings is consumed by the successive calls of
// memoryState.AtomicIncWindow (its own clock.Now(), not the fall-back reading
// inside atomicGetWindow): the first call of a request reads the clock as it
// stands, the n-th call first advances the mock clock to script[n-2].  This
// puts a window edge BETWEEN the reading of a child and of its parent without
// touching /repo.
type levelClock struct {
	*clock.MockClock
	script []int64
	calls  int
	active bool
}

func (l *levelClock) Now() time.Time {
	if g := curGate.Load(); g != nil {
		g.reading() // par.go: a clock reading of the parked transaction is a yield point
	}
	if l.active {
		var pcs [4]uintptr
		n := runtime.Callers(2, pcs[:])
		fr, _ := runtime.CallersFrames(pcs[:n]).Next()
		if strings.HasSuffix(fr.Function, ").AtomicIncWindow") {
			l.calls++
			if i := l.calls - 2; i >= 0 && i < len(l.script) {
				setClock(l.script[i])
			}
		}
	}
	return l.MockClock.Now()
}

func (l *levelClock) Since(t time.Time) time.Duration { return l.Now().Sub(t) }
func (l *levelClock) Until(t time.Time) time.Duration { return t.Sub(l.Now()) }

var lvl *levelClock

func quotaYAML(f []QDef) string {
	var roots, kids strings.Builder
	anySpill := false
	for _, q := range f {
		anySpill = anySpill || q.Spill
	}
	one := func(b *strings.Builder, q QDef) {
		fmt.Fprintf(b, "  - id: q%d\n", q.ID)
		if q.Parent != 0 {
			fmt.Fprintf(b, "    parent_id: q%d\n", q.Parent)
		} else {
			b.WriteString("    filter:\n      url: verif.test/*\n")
		}
		if q.Alloc != 0 {
			fmt.Fprintf(b, "    strategy:\n      allocation_percentage: %d\n", q.Alloc)
			return
		}
		kind := "fixed_window"
		if q.Custom {
			kind = "fixed_window_custom_counter"
		}
		fmt.Fprintf(b, "    strategy:\n      %s:\n        max: %d\n        interval: %d\n        interval_unit: %s\n",
			kind, q.Max, q.Ival, q.Unit)
		if q.Group != 0 {
			fmt.Fprintf(b, "        group_by_header: %s\n", hdrNames[q.Group])
		}
		if q.Custom {
			fmt.Fprintf(b, "        counter_value_path: '%s'\n", costPath)
		}
		if q.Spill {
			b.WriteString("        spillover:\n          max: 2\n")
		}
		if q.Renew != nil {
			fmt.Fprintf(b, "        monthly_renewal:\n          day: %d\n          hour: %d\n          minute: %d\n          timezone: %s\n",
				q.Renew.Day, q.Renew.Hour, q.Renew.Minute, q.Renew.TZ)
		} else if anySpill && !q.Custom {
			// the validator wants a monthly renewal next to a spill-over (the
			// constructors of fixedWindow never read it)
			b.WriteString("        monthly_renewal:\n          day: 1\n          hour: 0\n          minute: 0\n          timezone: UTC\n")
		}
	}
	for _, q := range f {
		if q.Parent == 0 {
			one(&roots, q)
		} else {
			one(&kids, q)
		}
	}
	s := "quotas:\n" + roots.String()
	if kids.Len() > 0 {
		s += "internal_limits:\n" + kids.String()
	}
	return s
}

func flowYAML(q int) string {
	return fmt.Sprintf(`name: f%[1]d
filter:
  url: verif.test/q%[1]d/*
processors:
  Lim%[1]d:
    processor: Limiter
    parameters:
      - key: quota_id
        value: q%[1]d
  Gen%[1]d:
    processor: GenerateResponse
    parameters:
      - key: status
        value: 429
      - key: body
        value: Too Many Requests
      - key: Content-Type
        value: text/plain
flow:
  request:
    - from:
        stream:
          name: globalStream
          at: start
      to:
        processor:
          name: Lim%[1]d
    - from:
        processor:
          name: Lim%[1]d
          condition: above_limit
      to:
        processor:
          name: Gen%[1]d
    - from:
        processor:
          name: Lim%[1]d
          condition: below_limit
      to:
        stream:
          name: globalStream
          at: end
  response:
    - from:
        processor:
          name: Gen%[1]d
      to:
        stream:
          name: globalStream
          at: end
    - from:
        stream:
          name: globalStream
          at: start
      to:
        stream:
          name: globalStream
          at: end
`, q)
}

// fresh directories for one case
func caseDirs(f []QDef, flows bool) {
	caseSeq++
	meter.cbs = nil // the callbacks of the previous case's quota resources
	wd, _ := os.Getwd()
	root := filepath.Join(wd, "case")
	must(os.RemoveAll(root))
	qd, fd, pd := filepath.Join(root, "quotas"), filepath.Join(root, "flows"), filepath.Join(root, "path_params")
	for _, d := range []string{qd, fd, pd} {
		must(os.MkdirAll(d, 0o755))
	}
	must(os.WriteFile(filepath.Join(qd, "quotas.yaml"), []byte(quotaYAML(f)), 0o644))
	if flows {
		for _, q := range f {
			must(os.WriteFile(filepath.Join(fd, fmt.Sprintf("f%d.yaml", q.ID)), []byte(flowYAML(q.ID)), 0o644))
		}
	}
	environment.SetQuotasDirectory(qd)
	environment.SetStreamsFlowsDirectory(fd)
	environment.SetPathParamsDirectory(pd)
}

func onRequest(k *Case, r Req, q int) lunar_messages.OnRequest {
	h := map[string]string{}
	for hi, vi := range r.Hdrs {
		h[hdrNames[hi]] = valNames[vi]
	}
	if r.HasCost {
		h[costHdr] = strconv.FormatInt(r.Cost, 10)
	}
	id := fmt.Sprintf("c%d-r%d", caseSeq, r.ID)
	return lunar_messages.OnRequest{
		ID: id, SequenceID: id, Method: "GET", Scheme: "https",
		URL: fmt.Sprintf("verif.test/q%d/x", q), Path: fmt.Sprintf("/q%d/x", q), Headers: h,
	}
}

// ---------------------------------------------------------------- execution

// the real quota resource objects of a case, built at k.builtAt()
type resEnv struct {
	quotas    map[int]public_types.QuotaResourceI
	streamsOf []public_types.APIStreamI
}

func buildRes(k *Case) *resEnv {
	caseDirs(k.Forest, false)
	setClock(k.builtAt())
	rm, err := resources.NewResourceManagement()
	must(err)
	e := &resEnv{quotas: map[int]public_types.QuotaResourceI{}}
	for _, q := range k.Forest {
		qo, err := rm.GetQuota(fmt.Sprintf("q%d", q.ID), "")
		must(err)
		e.quotas[q.ID] = qo
	}
	e.streamsOf = make([]public_types.APIStreamI, len(k.Reqs))
	for i, r := range k.Reqs {
		e.streamsOf[i] = stream_types.NewRequestAPIStream(onRequest(k, r, 1), shared)
	}
	return e
}

// one step on the real objects (the clock is set by the caller)
func (e *resEnv) do(s *Step) {
	qo := e.quotas[s.Q]
	var st public_types.APIStreamI
	if s.Kind != "resetin" && s.Kind != "scrape" {
		st = e.streamsOf[s.R]
	}
	s.Out = "none"
	switch s.Kind {
	case "inc":
		if err := qo.Inc(st); err != nil {
			s.Out = "err"
		}
	case "allowed":
		ok, err := qo.Allowed(st)
		s.Out = strconv.FormatBool(ok)
		if err != nil {
			s.Out = "err"
		}
	case "dec":
		if err := qo.Dec(st); err != nil {
			s.Out = "err"
		}
	case "resetin":
		qo.ResetIn()
	case "scrape":
		s.Out = doScrape(e.quotas)
	case "kinc":
		r, ok := quotaresource.VerifC01KeyInc(qo, st)
		s.Out = r
		if !ok {
			s.Out = "err"
		}
	case "kallowed":
		b, ok := quotaresource.VerifC01KeyAllowed(qo, st)
		s.Out = strconv.FormatBool(b)
		if !ok {
			s.Out = "err"
		}
	case "kdec":
		if !quotaresource.VerifC01KeyDec(qo, st) {
			s.Out = "err"
		}
	default:
		panic("bad step kind " + s.Kind)
	}
}

func execRes(k *Case) {
	e := buildRes(k)
	for i := range k.Steps {
		s := &k.Steps[i]
		setClock(s.Now)
		e.do(s)
	}
}

func execEng(k *Case) {
	caseDirs(k.Forest, true)
	setClock(k.builtAt())
	st, err := streams.NewStream()
	must(err)
	must(st.Initialize())
	for i := range k.Steps {
		s := &k.Steps[i]
		setClock(s.Now)
		if s.Kind == "scrape" {
			s.Out = doScrape(nil)
			continue
		}
		req := onRequest(k, k.Reqs[s.R], s.Q)
		api := stream_types.NewRequestAPIStream(req, shared)
		acts := &stream_config.StreamActions{Request: &stream_config.RequestStream{}, Response: &stream_config.ResponseStream{}}
		// VERIF_C01_NOLEVELS=1: self-test of the suite (the scripted readings are
		// not played; the correspondence must then report mismatches)
		lvl.script, lvl.calls, lvl.active = s.Later, 0, k.Kind == "engt" && os.Getenv("VERIF_C01_NOLEVELS") == ""
		err := st.ExecuteFlow(api, acts)
		lvl.active = false
		if err != nil {
			s.Out = "err"
			continue
		}
		early := false
		for _, a := range acts.Request.Actions {
			if a.IsEarlyReturnType() {
				early = true
			}
		}
		s.Out = strconv.FormatBool(!early)
		if !early {
			// the provider answered: run the response side (OnResponseFinish)
			resp := stream_types.NewAPIStream("resp-"+req.ID, public_types.StreamTypeResponse, shared)
			resp.SetRequest(stream_types.NewRequest(req))
			resp.SetResponse(stream_types.NewResponse(lunar_messages.OnResponse{
				ID: req.ID, SequenceID: req.ID, Method: "GET", URL: req.URL, Status: 200, Headers: map[string]string{},
			}))
			acts2 := &stream_config.StreamActions{Request: &stream_config.RequestStream{}, Response: &stream_config.ResponseStream{}}
			if err := st.ExecuteFlow(resp, acts2); err != nil {
				s.Out = "err"
			}
		}
	}
}

// ---------------------------------------------------------------- Coq terms

func optZ(i int) string {
	if i == 0 {
		return "None"
	}
	return c.Some(c.Z(int64(i)))
}

func coqForest(f []QDef) string {
	return c.MapList(f, func(q QDef) string {
		return c.Tuple(c.Z(int64(q.ID)), fmt.Sprintf("mkq %s %s %s %s %s", c.Z(q.Max), c.Z(q.wsec()),
			optZ(q.Parent), optZ(q.Group), c.B(q.Custom)))
	})
}

func coqReq(r Req) string {
	his := make([]int, 0, len(r.Hdrs))
	for h := range r.Hdrs {
		his = append(his, h)
	}
	sort.Ints(his)
	items := make([]string, len(his))
	for i, h := range his {
		items[i] = c.Tuple(c.Z(int64(h)), c.Z(int64(r.Hdrs[h])))
	}
	cost := int64(0)
	if r.HasCost {
		cost = r.Cost
	}
	return fmt.Sprintf("(mkr %s %s %s)", c.Z(int64(r.ID)), c.List(items), c.Z(cost))
}

func coqOut(s string) string {
	switch s {
	case "none":
		return "ONone"
	case "true":
		return "OBool true"
	case "false":
		return "OBool false"
	case "already":
		return "ORes AlreadyIncreased"
	case "increased":
		return "ORes Increased"
	case "blocked":
		return "ORes Blocked"
	}
	return "OBad"
}

func coqRes(k *Case) string {
	var acts, outs []string
	// renewal instants: where the clock of a step first lies past the instant a
	// configured block would renew at (re-armed from that reading); no effect in
	// the model (Events.renew RInert)
	next := map[int]int64{}
	for _, q := range k.Forest {
		if q.Renew != nil {
			next[q.ID] = renewAt(k.builtAt(), *q.Renew)
		}
	}
	for i, s := range k.Steps {
		for _, q := range k.Forest {
			if t, ok := next[q.ID]; ok && s.Now > t {
				acts = append(acts, fmt.Sprintf("ERenew %s %s", c.Z(int64(q.ID)), c.Z(s.Now)))
				outs = append(outs, "ONone")
				next[q.ID] = renewAt(s.Now, *q.Renew)
			}
		}
		if k.Par != nil && k.Par.stores[i] {
			// the parked transaction is released and stores the group object it built
			acts = append(acts, fmt.Sprintf("EStore %s %s", c.Z(int64(s.Q)), coqReq(k.Reqs[s.R])))
			outs = append(outs, "ONone")
		}
		q := c.Z(int64(s.Q))
		var a string
		switch s.Kind {
		case "scrape":
			a = fmt.Sprintf("MScrape %s", c.Z(s.Now))
		case "inc":
			a = fmt.Sprintf("MAct (Inc %s %s %s)", q, coqReq(k.Reqs[s.R]), c.Z(s.Now))
		case "allowed":
			a = fmt.Sprintf("MAct (Allowed %s %s)", q, coqReq(k.Reqs[s.R]))
		case "dec":
			a = fmt.Sprintf("MAct (Dec %s %s)", q, coqReq(k.Reqs[s.R]))
		case "resetin":
			a = fmt.Sprintf("MAct (ResetIn %s %s)", q, c.Z(s.Now))
		case "kinc":
			a = fmt.Sprintf("MAct (KInc %s %s %s)", q, coqReq(k.Reqs[s.R]), c.Z(s.Now))
		case "kallowed":
			a = fmt.Sprintf("MAct (KAllowed %s %s)", q, coqReq(k.Reqs[s.R]))
		case "kdec":
			a = fmt.Sprintf("MAct (KDec %s %s)", q, coqReq(k.Reqs[s.R]))
		default:
			panic("kind")
		}
		acts = append(acts, "EAct ("+a+")")
		outs = append(outs, coqOut(s.Out))
	}
	return c.Tuple(coqForest(k.Forest), c.List(acts), c.List(outs))
}

func reqSteps(k *Case) []Step {
	var out []Step
	for _, s := range k.Steps {
		if s.Kind != "scrape" {
			out = append(out, s)
		}
	}
	return out
}

func coqEng(k *Case) string {
	h := c.MapList(k.Steps, func(s Step) string {
		if s.Kind == "scrape" {
			return fmt.Sprintf("SScrape %s", c.Z(s.Now))
		}
		return "SReq " + c.Tuple(c.Z(int64(s.Q)), coqReq(k.Reqs[s.R]), c.Z(s.Now), "[]")
	})
	// a collection that failed has no verdict to compare: make the case disagree
	bad := false
	for _, s := range k.Steps {
		bad = bad || s.Kind == "scrape" && s.Out != "none"
	}
	outs := c.MapList(reqSteps(k), func(s Step) string { return c.B(s.Out == "true") })
	if bad {
		outs = "[]"
	}
	return c.Tuple(coqForest(k.Forest), h, outs)
}

func coqEngT(k *Case) string {
	h := c.MapList(reqSteps(k), func(s Step) string {
		return c.Tuple(c.Z(int64(s.Q)), coqReq(k.Reqs[s.R]), c.Z(s.Now), c.ZList(s.Later))
	})
	outs := c.MapList(reqSteps(k), func(s Step) string { return c.B(s.Out == "true") })
	return c.Tuple(coqForest(k.Forest), h, outs)
}

// ---------------------------------------------------------------- monitor glue

func byID(f []QDef) map[int]QDef {
	m := map[int]QDef{}
	for _, q := range f {
		m[q.ID] = q
	}
	return m
}

// keys (own first, root last) and costs of request r sent to quota q
func chainKeys(f map[int]QDef, q int, r Req, cfg map[string]keyCfg) ([]string, []int64) {
	var keys []string
	var costs []int64
	for q != 0 {
		d := f[q]
		g := "default"
		if d.Group != 0 {
			if v, ok := r.Hdrs[d.Group]; ok {
				g = valNames[v]
			}
		}
		k := fmt.Sprintf("q%d/%s", q, g)
		cfg[k] = keyCfg{W: d.wsec() * sec, Max: d.Max}
		cost := int64(1)
		if d.Custom {
			cost = 0
			if r.HasCost {
				cost = r.Cost
			}
		}
		keys = append(keys, k)
		costs = append(costs, cost)
		q = d.Parent
	}
	return keys, costs
}

// sequential histories (engine level, and resource-level limiter histories)
func monitorCaseSeq(k *Case) *monHit {
	f := byID(k.Forest)
	cfg := map[string]keyCfg{}
	var evs []seqEvent
	if k.Kind == "eng" || k.Kind == "engt" {
		for i, s := range k.Steps {
			if s.Out == "err" && s.Kind == "scrape" {
				return &monHit{"error:metrics-collection", "a metrics collection succeeds", fmt.Sprintf("step %d: a gauge callback failed or panicked", i)}
			}
			if s.Out == "err" {
				return &monHit{"error:ExecuteFlow", "requests are processed", fmt.Sprintf("step %d failed", i)}
			}
			if s.Kind == "scrape" {
				continue // a metrics collection is not a request
			}
			keys, costs := chainKeys(f, s.Q, k.Reqs[s.R], cfg)
			ev := seqEvent{idx: i, t: s.Now, admitted: s.Out == "true", chain: keys, costs: costs}
			if k.Kind == "engt" {
				// the instant at which each key of the chain was consulted
				cur := s.Now
				for lv := range keys {
					if lv > 0 && lv-1 < len(s.Later) {
						cur = s.Later[lv-1]
					}
					ev.ts = append(ev.ts, cur)
				}
			}
			evs = append(evs, ev)
		}
	} else {
		for i := 0; i+1 < len(k.Steps); i++ {
			s := k.Steps[i]
			if s.Out == "err" {
				return &monHit{"error:quota-step", "steps succeed", fmt.Sprintf("step %d failed", i)}
			}
			if s.Kind != "inc" {
				continue
			}
			// the verdict of this transaction: its Allowed, possibly after metrics collections
			j := i + 1
			for j < len(k.Steps) && k.Steps[j].Kind == "scrape" {
				j++
			}
			if j >= len(k.Steps) || k.Steps[j].Kind != "allowed" || k.Steps[j].R != s.R || k.Steps[j].Q != s.Q {
				continue
			}
			a := k.Steps[j]
			keys, costs := chainKeys(f, s.Q, k.Reqs[s.R], cfg)
			evs = append(evs, seqEvent{idx: i, t: s.Now, admitted: a.Out == "true", chain: keys, costs: costs})
		}
	}
	return monitorSeq(evs, cfg)
}

// arbitrary schedules: only the bound, over the chain-level verdicts; a request
// let through is attributed to one of the instants at which it was counted
func monitorCaseSched(k *Case) *monHit {
	f := byID(k.Forest)
	cfg := map[string]keyCfg{}
	per := map[string][]mPoint{}
	type inc struct {
		t    int64
		keys map[string]bool
	}
	incs := map[int][]inc{} // per request
	for i, s := range k.Steps {
		if s.Out == "err" {
			return &monHit{"error:quota-step", "steps succeed", fmt.Sprintf("step %d failed", i)}
		}
		switch s.Kind {
		case "inc", "kinc":
			keys, _ := chainKeys(f, s.Q, k.Reqs[s.R], cfg)
			if s.Kind == "kinc" {
				keys = keys[:1]
			}
			m := map[string]bool{}
			for _, x := range keys {
				m[x] = true
			}
			incs[s.R] = append(incs[s.R], inc{s.Now, m})
		case "dec", "kdec":
			// the gateway dropped the request (early response, queue time-out): if it
			// had been admitted before, it was not let through after all
			keys, _ := chainKeys(f, s.Q, k.Reqs[s.R], cfg)
			if s.Kind == "kdec" {
				keys = keys[:1]
			}
			for _, key := range keys {
				var kept []mPoint
				for _, p := range per[key] {
					if p.req != s.R {
						kept = append(kept, p)
					}
				}
				per[key] = kept
			}
		case "allowed":
			if s.Out != "true" {
				continue
			}
			keys, costs := chainKeys(f, s.Q, k.Reqs[s.R], cfg)
			for j, key := range keys {
				cands := []int64{}
				for _, in := range incs[s.R] {
					if in.keys[key] {
						cands = append(cands, in.t)
					}
				}
				p := mPoint{ord: i, weight: costs[j], cands: cands, req: s.R}
				if len(cands) > 0 {
					p.t = cands[len(cands)-1]
				}
				per[key] = append(per[key], p)
			}
		}
	}
	return boundAny(per, cfg)
}

// ---------------------------------------------------------------- generators

// styles: 0 = anything; 1 = custom counters (costs around max, refusals at a
// roll-over); 2 = a chain whose ancestors fill up before the descendants (F-C01)
func genForest(r *c.Rng, style int) []QDef {
	switch style {
	case 1:
		f := []QDef{{ID: 1, Max: int64(r.Range(1, 3)), Ival: int64(r.Range(1, 2)), Unit: "second", Custom: true}}
		if r.Chance(1, 3) {
			f[0].Group = 1
		}
		if r.Chance(1, 2) {
			f = append(f, QDef{ID: 2, Max: int64(r.Range(1, 3)), Ival: int64(r.Range(1, 3)), Unit: "second",
				Parent: 1, Custom: r.Bool()})
		}
		return f
	case 2:
		n := r.Range(2, 3)
		var f []QDef
		for id := 1; id <= n; id++ {
			// ancestors: small max, short window; descendants: room, long window
			q := QDef{ID: id, Unit: "second", Parent: id - 1}
			q.Max = int64(r.Range(1, 2) + (id-1)*r.Range(0, 1))
			q.Ival = int64(r.Range(1, 2) + (id-1)*r.Range(0, 2))
			if r.Chance(1, 3) {
				q.Group = r.Range(1, 2)
			}
			f = append(f, q)
		}
		if r.Chance(1, 3) {
			f = append(f, QDef{ID: n + 1, Max: int64(r.Range(1, 3)), Ival: int64(r.Range(1, 3)), Unit: "second", Parent: r.Range(1, n)})
		}
		return f
	}
	n := c.Pick(r, []int{1, 1, 2, 2, 2, 3, 3, 4})
	depth := map[int]int{}
	var f []QDef
	for id := 1; id <= n; id++ {
		q := QDef{ID: id, Max: int64(c.Pick(r, []int{1, 1, 2, 2, 3, 4})), Ival: int64(r.Range(1, 3)), Unit: "second"}
		if r.Chance(1, 40) {
			q.Ival, q.Unit = 1, c.Pick(r, []string{"minute", "minute", "hour", "day"})
		}
		if id > 1 && r.Chance(3, 4) {
			var cand []int
			for p := 1; p < id; p++ {
				if depth[p] < 3 {
					cand = append(cand, p)
				}
			}
			if len(cand) > 0 {
				q.Parent = c.Pick(r, cand)
			}
		}
		depth[id] = depth[q.Parent] + 1
		if r.Chance(2, 5) {
			q.Group = r.Range(1, 2)
		}
		q.Custom = r.Chance(1, 6)
		q.Spill = r.Chance(1, 6)
		if r.Chance(1, 9) {
			q.Renew = &Renew{Day: c.Pick(r, []int{1, 1, 2}), Hour: c.Pick(r, []int{0, 0, 13}), TZ: c.Pick(r, []string{"UTC", "UTC", "Local"})}
		}
		if q.Parent != 0 && r.Chance(1, 8) {
			// allocation_percentage: the parent's strategy with max scaled (30% of 1-3 = 0)
			p := f[q.Parent-1]
			q.Alloc = int64(c.Pick(r, []int{30, 50, 50, 100}))
			q.Max, q.Ival, q.Unit, q.Group, q.Custom, q.Spill = p.Max*q.Alloc/100, p.Ival, p.Unit, p.Group, p.Custom, p.Spill
		}
		f = append(f, q)
	}
	return f
}

func pickStyle(r *c.Rng) int {
	switch x := r.Intn(10); {
	case x < 6:
		return 0
	case x < 8:
		return 1
	}
	return 2
}

func genReqs(r *c.Rng, n int, style int, f []QDef) []Req {
	reqs := make([]Req, n)
	var maxes []int
	for _, q := range f {
		if q.Custom {
			maxes = append(maxes, int(q.Max))
		}
	}
	for i := range reqs {
		q := Req{ID: i + 1, Hdrs: map[int]int{}}
		for h := 1; h <= 2; h++ {
			if r.Chance(3, 4) {
				if style == 0 {
					q.Hdrs[h] = c.Pick(r, []int{1, 1, 1, 2, 2, 0, 3})
				} else {
					q.Hdrs[h] = c.Pick(r, []int{1, 1, 1, 2})
				}
			}
		}
		if r.Chance(2, 3) || style == 1 && r.Chance(4, 5) {
			q.HasCost = true
			q.Cost = int64(c.Pick(r, []int{0, 1, 1, 2, 2, 3, 5}))
			if len(maxes) > 0 && r.Chance(2, 3) {
				m := c.Pick(r, maxes)
				q.Cost = int64(c.Pick(r, []int{m - 1, m, m, m + 1, m + 1, 1}))
				if r.Chance(1, 12) {
					// strconv.ParseInt accepts a sign: a negative cost lowers the counter
					q.Cost = -int64(r.Range(1, 2))
				}
			}
		}
		reqs[i] = q
	}
	return reqs
}

type clockGen struct {
	r       *c.Rng
	cur     int64
	anchors []int64 // whole seconds at which a window may have started
	ws      []int64 // window lengths (seconds) of the forest
	extra   []int64 // other instants worth reading the clock at (a renewal instant +-1 ns)
}

// a forest with a monthly_renewal block: build the resources about a month
// before the history, so that the first renewal instant falls into it
func aimRenewal(k *Case, g *clockGen) {
	var rn *Renew
	for _, q := range k.Forest {
		if q.Renew != nil {
			rn = q.Renew
		}
	}
	if rn == nil {
		return
	}
	target := g.cur + int64(g.r.Range(0, 3))*sec + c.Pick(g.r, []int64{0, 1, 500_000_000})
	b0 := target - 31*86400*sec
	k.Built = b0 - (renewAt(b0, *rn) - target)
	g.extra = []int64{target - 1, target, target + 1, target + 300_000_000}
}

func newClockGen(r *c.Rng, f []QDef) *clockGen {
	g := &clockGen{r: r}
	g.cur = baseSec*sec + c.Pick(r, []int64{0, 1, 300_000_000, 500_000_000, 999_999_999, 999_999_998})
	for _, q := range f {
		g.ws = append(g.ws, q.wsec())
	}
	return g
}

// next clock reading (never decreasing), aimed at window edges +-1 ns
func (g *clockGen) next(first bool) int64 {
	r := g.r
	if first {
		return g.cur
	}
	var cands []int64
	add := func(t int64) {
		if t >= g.cur {
			cands = append(cands, t)
		}
	}
	nextSec := (g.cur/sec + 1) * sec
	switch r.Intn(10) {
	case 0, 1, 2:
		add(g.cur)
	case 3:
		add(g.cur + 1)
		add(g.cur + int64(r.Intn(int(sec/2))))
	case 4:
		add(nextSec - 1)
		add(nextSec)
		add(nextSec + 1)
	default:
		for _, a := range g.anchors {
			for _, w := range g.ws {
				e := (a + w) * sec
				add(e - 1)
				add(e)
				add(e + 1)
				add(e + 300_000_000)
			}
			add(a*sec + sec - 1)
		}
		for _, t := range g.extra {
			add(t)
		}
	}
	if len(cands) == 0 {
		cands = []int64{g.cur, g.cur + int64(r.Intn(int(sec))), nextSec}
	}
	// prefer the nearest edges
	sort.Slice(cands, func(i, j int) bool { return cands[i] < cands[j] })
	n := len(cands)
	if n > 6 {
		n = 6
	}
	g.cur = cands[r.Intn(n)]
	return g.cur
}

func (g *clockGen) counted() { g.anchors = append(g.anchors, g.cur/sec) }

func genRes(r *c.Rng) Case {
	style := pickStyle(r)
	k := Case{Kind: "res", Forest: genForest(r, style)}
	k.Reqs = genReqs(r, r.Range(2, 6), style, k.Forest)
	home := make([]int, len(k.Reqs))
	leaf := k.Forest[len(k.Forest)-1].ID
	for i := range home {
		home[i] = c.Pick(r, k.Forest).ID
		if style != 0 && r.Chance(2, 3) {
			home[i] = leaf
		}
	}
	g := newClockGen(r, k.Forest)
	aimRenewal(&k, g)
	n := r.Range(4, 14)
	k.Seq = r.Chance(1, 4) || style != 0 && r.Chance(1, 3)
	first := true
	if k.Seq {
		// limiter calls one after the other (fresh request each time while they last)
		for i := 0; len(k.Steps)+2 <= n+2 && i < len(k.Reqs)+2; i++ {
			ri := i % len(k.Reqs)
			if i >= len(k.Reqs) {
				// a request id seen before comes again (retry through the same limiter)
				ri = r.Intn(len(k.Reqs))
			}
			t := g.next(first)
			first = false
			g.counted()
			k.Steps = append(k.Steps, Step{Kind: "inc", Q: home[ri], R: ri, Now: t})
			if r.Chance(1, 3) {
				// a metrics collection between the Inc and the Allowed of the
				// transaction; the clock may have passed a window end meanwhile
				t = g.next(false)
				k.Steps = append(k.Steps, Step{Kind: "scrape", Now: t})
			}
			k.Steps = append(k.Steps, Step{Kind: "allowed", Q: home[ri], R: ri, Now: t})
			if r.Chance(1, 4) {
				t = g.next(false)
				k.Steps = append(k.Steps, Step{Kind: "scrape", Now: t})
			}
		}
		return k
	}
	for len(k.Steps) < n {
		ri := r.Intn(len(k.Reqs))
		q := home[ri]
		if r.Chance(1, 8) {
			q = c.Pick(r, k.Forest).ID
		}
		t := g.next(first)
		first = false
		switch x := r.Intn(100); {
		case x < 30:
			g.counted()
			k.Steps = append(k.Steps, Step{Kind: "inc", Q: q, R: ri, Now: t})
			if r.Chance(1, 2) {
				if r.Chance(1, 4) {
					t = g.next(false)
					k.Steps = append(k.Steps, Step{Kind: "scrape", Now: t})
				}
				k.Steps = append(k.Steps, Step{Kind: "allowed", Q: q, R: ri, Now: t})
			}
		case x < 58:
			k.Steps = append(k.Steps, Step{Kind: "allowed", Q: q, R: ri, Now: t})
		case x < 64:
			k.Steps = append(k.Steps, Step{Kind: "dec", Q: q, R: ri, Now: t})
		case x < 80:
			g.counted()
			k.Steps = append(k.Steps, Step{Kind: "kinc", Q: q, R: ri, Now: t})
		case x < 92:
			k.Steps = append(k.Steps, Step{Kind: "kallowed", Q: q, R: ri, Now: t})
		case x < 94:
			k.Steps = append(k.Steps, Step{Kind: "kdec", Q: q, R: ri, Now: t})
		case x < 97:
			k.Steps = append(k.Steps, Step{Kind: "resetin", Q: q, Now: t})
		default:
			k.Steps = append(k.Steps, Step{Kind: "scrape", Now: t})
		}
	}
	return k
}

func genEng(r *c.Rng) Case {
	style := pickStyle(r)
	k := Case{Kind: "eng", Forest: genForest(r, style), Seq: true}
	n := r.Range(3, 9)
	k.Reqs = genReqs(r, n, style, k.Forest)
	g := newClockGen(r, k.Forest)
	aimRenewal(&k, g)
	// most requests go to one or two quotas so that windows fill up
	fav := c.Pick(r, k.Forest).ID
	if style != 0 {
		fav = k.Forest[len(k.Forest)-1].ID
		if len(k.Forest) > 3 {
			fav = k.Forest[2].ID
		}
	}
	for i := 0; i < n; i++ {
		q := fav
		if r.Chance(1, 3) {
			q = c.Pick(r, k.Forest).ID
		}
		t := g.next(i == 0)
		g.counted()
		k.Steps = append(k.Steps, Step{Kind: "limiter", Q: q, R: i, Now: t})
		if r.Chance(1, 3) {
			// a metrics collection between two requests (often at a window edge)
			k.Steps = append(k.Steps, Step{Kind: "scrape", Now: g.next(false)})
		}
	}
	return k
}

func depthOf(f []QDef, q int) int {
	m := byID(f)
	d := 0
	for ; q != 0; q = m[q].Parent {
		d++
	}
	return d
}

// engt: sequential requests through the engine, the clock advancing between
// the levels of the chain walk (aimed at the ancestors' window edges)
func genEngT(r *c.Rng) Case {
	style := c.Pick(r, []int{2, 2, 2, 0})
	k := Case{Kind: "engt", Forest: genForest(r, style), Seq: true}
	n := r.Range(3, 8)
	k.Reqs = genReqs(r, n, style, k.Forest)
	g := newClockGen(r, k.Forest)
	// the deepest quota gets most of the traffic
	fav := k.Forest[0].ID
	for _, q := range k.Forest {
		if depthOf(k.Forest, q.ID) > depthOf(k.Forest, fav) {
			fav = q.ID
		}
	}
	for i := 0; i < n; i++ {
		q := fav
		if r.Chance(1, 4) {
			q = c.Pick(r, k.Forest).ID
		}
		st := Step{Kind: "limiter", Q: q, R: i, Now: g.next(i == 0)}
		g.counted()
		levels := depthOf(k.Forest, q) - 1
		switch r.Intn(8) {
		case 0:
			levels-- // the clock stops before the last level
		case 1:
			levels++ // one reading nobody takes
		}
		for lv := 0; lv < levels; lv++ {
			st.Later = append(st.Later, g.next(false))
			g.counted()
		}
		k.Steps = append(k.Steps, st)
	}
	return k
}

// a window edge of the parent falls between the child's and the parent's
// reading (and the other way round: the child's edge)
func levelEdgeCases() []Case {
	var out []Case
	b := baseSec * sec
	for _, pw := range []int64{1, 2} {
		for _, d1 := range []int64{-1, 0, 1} {
			for _, d0 := range []int64{-1, 0} {
				for _, first := range []int64{0, 300_000_000} {
					edge := b + pw*sec
					k := Case{Kind: "engt", Seq: true,
						Forest: []QDef{{ID: 1, Max: 1, Ival: pw, Unit: "second"}, {ID: 2, Max: 5, Ival: 10, Unit: "second", Parent: 1}},
						Reqs:   []Req{{ID: 1, Hdrs: map[int]int{}}, {ID: 2, Hdrs: map[int]int{}}, {ID: 3, Hdrs: map[int]int{}}},
						Steps: []Step{{Kind: "limiter", Q: 2, R: 0, Now: b + first, Later: []int64{b + first + 1}},
							{Kind: "limiter", Q: 2, R: 1, Now: edge + d0 - 1, Later: []int64{edge + d1}},
							{Kind: "limiter", Q: 2, R: 2, Now: edge + d1, Later: []int64{edge + d1 + 2}}}}
					out = append(out, k)
				}
			}
		}
	}
	return out
}

// the design-phase reproduction of F-C01 and its minimal form
func fc01Cases() []Case {
	t0 := baseSec*sec + 300_000_000
	a := map[int]int{1: 1}
	b := map[int]int{1: 2}
	big := Case{Kind: "eng", Seq: true,
		Forest: []QDef{{ID: 1, Max: 3, Ival: 2, Unit: "second"}, {ID: 2, Max: 2, Ival: 10, Unit: "second", Parent: 1, Group: 1}},
		Reqs:   []Req{{ID: 1, Hdrs: a}, {ID: 2, Hdrs: b}, {ID: 3, Hdrs: b}, {ID: 4, Hdrs: a}, {ID: 5, Hdrs: a}, {ID: 6, Hdrs: b}},
		Steps: []Step{{Kind: "limiter", Q: 2, R: 0, Now: t0}, {Kind: "limiter", Q: 2, R: 1, Now: t0}, {Kind: "limiter", Q: 2, R: 2, Now: t0},
			{Kind: "limiter", Q: 2, R: 3, Now: t0 + 100_000_000}, {Kind: "limiter", Q: 2, R: 4, Now: t0 + 1_800_000_000},
			{Kind: "limiter", Q: 2, R: 5, Now: t0 + 1_800_000_000}}}
	small := Case{Kind: "eng", Seq: true,
		Forest: []QDef{{ID: 1, Max: 1, Ival: 1, Unit: "second"}, {ID: 2, Max: 2, Ival: 10, Unit: "second", Parent: 1}},
		Reqs:   []Req{{ID: 1, Hdrs: map[int]int{}}, {ID: 2, Hdrs: map[int]int{}}, {ID: 3, Hdrs: map[int]int{}}},
		Steps: []Step{{Kind: "limiter", Q: 2, R: 0, Now: baseSec * sec}, {Kind: "limiter", Q: 2, R: 1, Now: baseSec*sec + 100_000_000},
			{Kind: "limiter", Q: 2, R: 2, Now: baseSec*sec + 1_500_000_000}}}
	return []Case{small, big}
}

// a refused restart (cost > max exactly when the stored window is over) followed
// by cheap requests: what is (not) stored on the refusal path decides the rest
func restartRefusalCases() []Case {
	var out []Case
	for _, kind := range []string{"eng", "res"} {
		for m := int64(1); m <= 3; m++ {
			for w := int64(1); w <= 2; w++ {
				for _, first := range []int64{0, 300_000_000} {
					for _, delta := range []int64{0, 1, 400_000_000} {
						for c1 := int64(1); c1 <= m; c1++ {
							t0 := baseSec*sec + first
							t1 := (baseSec+w)*sec + delta
							k := Case{Kind: kind, Seq: true,
								Forest: []QDef{{ID: 1, Max: m, Ival: w, Unit: "second", Custom: true}},
								Reqs: []Req{{ID: 1, Hdrs: map[int]int{}, HasCost: true, Cost: c1},
									{ID: 2, Hdrs: map[int]int{}, HasCost: true, Cost: m + 1},
									{ID: 3, Hdrs: map[int]int{}, HasCost: true, Cost: m - c1 + 1},
									{ID: 4, Hdrs: map[int]int{}, HasCost: true, Cost: m}}}
							ts := []int64{t0, t1, t1 + 1, t1 + 1}
							for i, t := range ts {
								if kind == "eng" {
									k.Steps = append(k.Steps, Step{Kind: "limiter", Q: 1, R: i, Now: t})
								} else {
									k.Steps = append(k.Steps, Step{Kind: "inc", Q: 1, R: i, Now: t}, Step{Kind: "allowed", Q: 1, R: i, Now: t})
								}
							}
							out = append(out, k)
						}
					}
				}
			}
		}
	}
	return out
}

// thorough: every interleaving of the limiter steps of 3 requests on a grouped
// child under a parent x every non-decreasing choice of 3 instants out of 7 x
// group choice
func exhaustive(o *c.Out) {
	forest := []QDef{{ID: 1, Max: 2, Ival: 2, Unit: "second"}, {ID: 2, Max: 1, Ival: 1, Unit: "second", Parent: 1, Group: 1}}
	b := baseSec * sec
	grid := []int64{b + 500_000_000, b + sec - 1, b + sec, b + sec + 1, b + 2*sec - 1, b + 2*sec, b + 2*sec + 1}
	var orders [][]int
	var perm func(cur []int, left [3]int)
	perm = func(cur []int, left [3]int) {
		if len(cur) == 6 {
			orders = append(orders, append([]int(nil), cur...))
			return
		}
		for r := 0; r < 3; r++ {
			if left[r] > 0 {
				l2 := left
				l2[r]--
				perm(append(cur, r), l2)
			}
		}
	}
	perm(nil, [3]int{2, 2, 2})
	for _, ord := range orders {
		for g2 := 1; g2 <= 2; g2++ {
			for g3 := 1; g3 <= 2; g3++ {
				for i1 := 0; i1 < len(grid); i1++ {
					for i2 := i1; i2 < len(grid); i2++ {
						for i3 := i2; i3 < len(grid); i3++ {
							k := Case{Kind: "res", Forest: forest,
								Reqs: []Req{{ID: 1, Hdrs: map[int]int{1: 1}}, {ID: 2, Hdrs: map[int]int{1: g2}}, {ID: 3, Hdrs: map[int]int{1: g3}}}}
							ts := []int64{grid[i1], grid[i2], grid[i3]}
							done := [3]int{}
							ni := 0
							cur := ts[0]
							for _, r := range ord {
								if done[r] == 0 {
									cur = ts[ni]
									ni++
									k.Steps = append(k.Steps, Step{Kind: "inc", Q: 2, R: r, Now: cur})
								} else {
									k.Steps = append(k.Steps, Step{Kind: "allowed", Q: 2, R: r, Now: cur})
								}
								done[r]++
							}
							run(o, k)
						}
					}
				}
			}
		}
	}
}

// ---------------------------------------------------------------- driver

func nontrivial(k *Case) bool {
	// a refusal, and a later admission on the same quota id at least 1 s later
	// (a window rolled over, or another group had room)
	for i, s := range k.Steps {
		if s.Out == "false" || s.Out == "blocked" {
			for _, u := range k.Steps[i+1:] {
				if u.Q == s.Q && (u.Out == "true" || u.Out == "increased") && u.Now-s.Now >= sec {
					return true
				}
			}
		}
	}
	return false
}

// engt: additionally some request read a later instant at an ancestor
func nontrivialT(k *Case) bool {
	adv := false
	for _, s := range k.Steps {
		if n := len(s.Later); n > 0 && s.Later[n-1] > s.Now {
			adv = true
		}
	}
	refused, admitted := false, false
	for _, s := range k.Steps {
		refused = refused || s.Out == "false"
		admitted = admitted || s.Out == "true"
	}
	return adv && refused && admitted
}

// the property counts requests (cost units for custom counters); with a
// negative cost in play it says nothing, so the monitor stays out (the
// correspondence still covers the case)
func negativeCost(k *Case) bool {
	custom := false
	for _, q := range k.Forest {
		custom = custom || q.Custom
	}
	if !custom {
		return false
	}
	for _, r := range k.Reqs {
		if r.HasCost && r.Cost < 0 {
			return true
		}
	}
	return false
}

func run(o *c.Out, k Case) {
	var idx int
	var hit *monHit
	suite := k.Kind
	switch k.Kind {
	case "res":
		execRes(&k)
		idx = o.Case("res", coqRes(&k), k, nontrivial(&k))
		if k.Seq {
			hit = monitorCaseSeq(&k)
		} else {
			hit = monitorCaseSched(&k)
		}
	case "par":
		execPar(&k)
		suite = "res"
		idx = o.Case("res", coqRes(k.linear()), k, nontrivial(&k))
		hit = monitorCasePar(&k)
		o.Count("par=parked-in:" + k.Par.ParkedIn)
		for _, w := range []string{"finished while", "waits for", "neither finished", "not-parked", "did not finish"} {
			if strings.Contains(k.Par.Notes, w) {
				o.Count("par=" + strings.ReplaceAll(w, " ", "-"))
			}
		}
	case "eng":
		execEng(&k)
		idx = o.Case("eng", coqEng(&k), k, nontrivial(&k))
		hit = monitorCaseSeq(&k)
	case "engt":
		execEng(&k)
		idx = o.Case("engt", coqEngT(&k), k, nontrivialT(&k))
		hit = monitorCaseSeq(&k)
	default:
		panic("bad case kind " + k.Kind)
	}
	o.Count("suite=" + k.Kind)
	for _, q := range k.Forest {
		if q.Renew != nil {
			o.Count("forest=with-monthly-renewal")
			break
		}
	}
	o.Count(fmt.Sprintf("quotas=%d", len(k.Forest)))
	o.Count(fmt.Sprintf("steps=%02d", len(k.Steps)))
	depth := 0
	f := byID(k.Forest)
	for _, q := range k.Forest {
		d := 0
		for p := q.ID; p != 0; p = f[p].Parent {
			d++
		}
		if d > depth {
			depth = d
		}
	}
	o.Count(fmt.Sprintf("depth=%d", depth))
	for _, s := range k.Steps {
		o.Count("out=" + s.Out)
		if k.Kind == "res" || k.Kind == "par" {
			o.Count("step=" + s.Kind)
		}
	}
	if negativeCost(&k) {
		o.Count("monitor=skipped-negative-cost")
		return
	}
	o.MonitorChecked(1)
	if hit != nil {
		o.Hit(c.Hit{Suite: suite, Index: idx, Signature: hit.sig, Demanded: hit.demanded, Observed: hit.observed, Case: k})
	}
}

func main() {
	zerolog.SetGlobalLevel(zerolog.Disabled)
	o := c.NewOut("C01")
	o.DeclareSuite("res", "From Verif Require Import C01.Model C01.Metrics C01.Events.", "case_rese", "run_rese")
	o.DeclareSuite("eng", "From Verif Require Import C01.Model C01.Metrics.", "case_engm", "run_engm")
	o.DeclareSuite("engt", "From Verif Require Import C01.Model.", "case_engt", "run_engt")
	o.Rule("res: random quota forests (1-4 quotas, depth <= 3, max 1-4, window 1-3 s or 1 min, 0-1 grouping header per quota, " +
		"unit or custom-counter cost) x schedules of 4-14 Inc/Allowed/Dec/ResetIn and per-key KInc/KAllowed/KDec steps of 2-6 requests " +
		"(a quarter of them limiter calls one after the other), clock readings aimed at s*1e9-1, s*1e9, s*1e9+1, (s+W)*1e9+-1 and " +
		"sub-second first instants; eng: same forests, one Limiter flow per quota, 3-9 sequential requests through ExecuteFlow; " +
		"engt: as eng on chains of depth 2-4 with the mock clock advanced between the levels of the walk (a scripted reading per " +
		"AtomicIncWindow call, aimed at the ancestors' window edges +-1 ns), non-trivial there = a later reading at an ancestor, a refusal and an admission; " +
		"metrics collections (every gauge callback the quota resources registered, invoked as the OTel reader does) are steps of the res schedules " +
		"(between Inc and Allowed of a transaction, anywhere else) and of the eng histories (between requests), clock aimed at window ends; " +
		"corpus: collection in a full window of a group older than one window then more traffic, collection at the window end +-1 ns between Inc and Allowed, " +
		"drop (Dec/KDec) of a request let through late in window 1 after another request opened window 2, then max more requests (alone, grouped, as child, as parent); " +
		"monthly_renewal blocks (on the quota, on every quota, on the ancestors only; day/hour/minute/UTC|Local) with the resources built a month before the history: " +
		"windows of 3-4 months / 75-100 days crossed by two renewal instants with max+1 requests before, between and after, short windows (2-3 s, 1 min/h/day) pinned by the full window before " +
		"(refusal at its last ns) with requests +1 ns / +0.3 s after the renewal instant, random forests with a block and clock readings +-1 ns around the instant; " +
		"par (evaluated in suite res on the observed completion order): a first-ever transaction of a group parked at its n-th clock reading (group creation, AtomicIncWindow, the same at the parent) " +
		"while 1-2 other first transactions of the same / another group are attempted with a bounded wait, then the verdicts in either order, then the window filled up; " +
		"distinct = distinct (forest, schedule, observed verdicts); non-trivial = contains a refusal and, at least 1 s later, an admission on the same quota id")
	repo := os.Getenv("VERIF_REPO")
	if repo == "" {
		repo = "/repo"
	}
	environment.SetProcessorsDirectory(filepath.Join(repo, "proxy/src/services/lunar-engine/streams/processors/registry"))
	mock = context_manager.Get().SetMockClock().GetMockClock()
	lunar_otel.VerifC01SetMeter(meter)
	lvl = &levelClock{MockClock: mock}
	context_manager.Get().VerifC11SetClock(lvl)
	setClock(baseSec * sec)

	var k Case
	if _, ok := o.ReplayCase(&k); ok {
		run(o, k)
		flushScrapeStats(o)
		o.Finish()
		return
	}
	for _, k := range fc01Cases() {
		run(o, k)
	}
	for _, k := range restartRefusalCases() {
		run(o, k)
	}
	for _, k := range scrapeCases() {
		run(o, k)
	}
	for _, k := range dropCases() {
		run(o, k)
	}
	for _, k := range renewalCases() {
		run(o, k)
	}
	for _, k := range parCases() {
		run(o, k)
	}
	rn := o.Rng.Fork(5)
	for i := 0; i < o.Scale(40, 1500, 600); i++ {
		run(o, genRenewal(rn))
	}
	rp := o.Rng.Fork(6)
	for i := 0; i < o.Scale(40, 1000, 600); i++ {
		run(o, genPar(rp))
	}
	rd := o.Rng.Fork(4)
	for i := 0; i < o.Scale(60, 1500, 600); i++ {
		run(o, genDrop(rd))
	}
	rr := o.Rng.Fork(1)
	for i := 0; i < o.Scale(850, 20000, 6000); i++ {
		run(o, genRes(rr))
	}
	re := o.Rng.Fork(2)
	for i := 0; i < o.Scale(400, 4000, 2500); i++ {
		run(o, genEng(re))
	}
	for _, k := range levelEdgeCases() {
		run(o, k)
	}
	rt := o.Rng.Fork(3)
	for i := 0; i < o.Scale(280, 1500, 1500); i++ {
		run(o, genEngT(rt))
	}
	if o.Thorough() {
		exhaustive(o)
	}
	flushScrapeStats(o)
	o.Finish()
}
