// temporary probe
package main

import (
	"fmt"
	"os"
	"path/filepath"
	"time"

	lunar_messages "lunar/engine/messages"
	"lunar/engine/streams"
	stream_config "lunar/engine/streams/config"
	lunar_context "lunar/engine/streams/lunar-context"
	"lunar/engine/streams/resources"
	stream_types "lunar/engine/streams/types"
	"lunar/engine/utils/environment"
	context_manager "lunar/toolkit-core/context-manager"

	"github.com/rs/zerolog"
)

const quotaYAML = `quotas:
  - id: P
    filter:
      url: verif.test/*
    strategy:
      fixed_window:
        max: 3
        interval: 2
        interval_unit: second
internal_limits:
  - id: C
    parent_id: P
    strategy:
      fixed_window:
        max: 2
        interval: 10
        interval_unit: second
        group_by_header: x-g
`

func flowYAML(name, quota, url string) string {
	return fmt.Sprintf(`name: %[1]s
filter:
  url: %[3]s
processors:
  Lim%[1]s:
    processor: Limiter
    parameters:
      - key: quota_id
        value: %[2]s
  Gen%[1]s:
    processor: GenerateResponse
    parameters:
      - key: status
        value: 429
      - key: body
        value: Too Many Requests
      - key: Content-Type
        value: text/plain
flow:
  request:
    - from:
        stream:
          name: globalStream
          at: start
      to:
        processor:
          name: Lim%[1]s
    - from:
        processor:
          name: Lim%[1]s
          condition: above_limit
      to:
        processor:
          name: Gen%[1]s
    - from:
        processor:
          name: Lim%[1]s
          condition: below_limit
      to:
        stream:
          name: globalStream
          at: end
  response:
    - from:
        processor:
          name: Gen%[1]s
      to:
        stream:
          name: globalStream
          at: end
    - from:
        stream:
          name: globalStream
          at: start
      to:
        stream:
          name: globalStream
          at: end
`, name, quota, url)
}

func must(err error) {
	if err != nil {
		panic(err)
	}
}

func main() {
	zerolog.SetGlobalLevel(zerolog.Disabled)
	repo := os.Getenv("VERIF_REPO")
	if repo == "" {
		repo = "/repo"
	}
	eng := filepath.Join(repo, "proxy/src/services/lunar-engine")
	environment.SetProcessorsDirectory(filepath.Join(eng, "streams/processors/registry"))
	wd, _ := os.Getwd()
	qd := filepath.Join(wd, "quotas")
	fd := filepath.Join(wd, "flows")
	pd := filepath.Join(wd, "pp")
	for _, d := range []string{qd, fd, pd} {
		must(os.MkdirAll(d, 0o755))
	}
	must(os.WriteFile(filepath.Join(qd, "q.yaml"), []byte(quotaYAML), 0o644))
	must(os.WriteFile(filepath.Join(fd, "fC.yaml"), []byte(flowYAML("fC", "C", "verif.test/c/*")), 0o644))
	must(os.WriteFile(filepath.Join(fd, "fP.yaml"), []byte(flowYAML("fP", "P", "verif.test/p/*")), 0o644))
	environment.SetQuotasDirectory(qd)
	environment.SetStreamsFlowsDirectory(fd)
	environment.SetPathParamsDirectory(pd)
	clk := context_manager.Get().SetMockClock().GetMockClock()
	t0 := time.Unix(1_700_000_000, 300_000_000)
	clk.Set(t0)

	// resource level
	rm, err := resources.NewResourceManagement()
	must(err)
	shared := lunar_context.NewMemoryState[[]byte]()
	mk := func(id, g string) *lunar_messages.OnRequest {
		h := map[string]string{}
		if g != "" {
			h["x-g"] = g
		}
		return &lunar_messages.OnRequest{ID: id, SequenceID: id, Method: "GET", Scheme: "https", URL: "verif.test/c/x", Path: "/c/x", Headers: h}
	}
	qC, err := rm.GetQuota("C", "")
	must(err)
	lim := func(id, g string, at time.Duration) {
		clk.Set(t0.Add(at))
		s := stream_types.NewRequestAPIStream(*mk(id, g), shared)
		must(qC.Inc(s))
		ok, err := qC.Allowed(s)
		must(err)
		fmt.Printf("res  %s g=%s at=%v allowed=%v\n", id, g, at, ok)
	}
	lim("r1", "a", 0)
	lim("r2", "b", 0)
	lim("r3", "b", 0)
	lim("r4", "a", 100*time.Millisecond) // parent full: refused, but charged to C/a
	lim("r5", "a", 1800*time.Millisecond) // parent rolled (stored start floor => 1.7s after t0-0.3), C/a has 2 charged

	// engine level
	clk.Set(t0)
	st, err := streams.NewStream()
	must(err)
	must(st.Initialize())
	eng2 := func(id, g string, at time.Duration) {
		clk.Set(t0.Add(at))
		s := stream_types.NewRequestAPIStream(*mk(id, g), shared)
		acts := &stream_config.StreamActions{Request: &stream_config.RequestStream{}, Response: &stream_config.ResponseStream{}}
		err := st.ExecuteFlow(s, acts)
		early := false
		for _, a := range acts.Request.Actions {
			if a.IsEarlyReturnType() {
				early = true
			}
		}
		fmt.Printf("eng  %s g=%s at=%v err=%v nreq=%d nresp=%d early=%v\n", id, g, at, err, len(acts.Request.Actions), len(acts.Response.Actions), early)
	}
	eng2("r1", "a", 0)
	eng2("r2", "b", 0)
	eng2("r3", "b", 0)
	eng2("r4", "a", 100*time.Millisecond)
	eng2("r5", "a", 1800*time.Millisecond)
	eng2("r6", "b", 1800*time.Millisecond)
}
