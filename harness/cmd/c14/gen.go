package main

// Generators: URL patterns (hosts with dots, parameters in path and host
// position, odd parameter names, trailing wildcard in path and host, every
// ASCII punctuation character in a segment / a host label, untrimmed
// spellings, malformed ones), method lists, and per pattern the request URL
// spellings aimed at the places where a plausible edit of the translation
// changes the outcome.

import (
	"strings"

	c "verifharness/common"
)

const punct = " !\"#$%&'()*+,-:;<=>?@[\\]^_`{|}~"

var specialSegs = []string{
	"{id}", "{user.id}", "{}", "{a}{b}", "{id}x", "x{id}", "{", "}", "{id", "id}", "{i d}", "{a+b}",
	"a.b", ".x", "x..y", ":::", "a:::b", "$", "^a", "a|b", "(a)", "[ab]", "a\\b", "a?", "a*", "**", "+",
	"a+", "(a", "a)", "[a", "a{2}", "\\", "\\.", "a$", "GET", "v1.2", "x-y_z",
}

var methodLists = [][]string{
	nil, {"GET"}, {"POST", "GET"}, {"HEAD"}, {"get"}, {"M-SEARCH"}, {"A+B"}, {"G.T"}, nil, {"DELETE", "PUT", "PATCH"},
}

func basePatterns() []string {
	out := []string{}
	for i := 0; i < len(punct); i++ {
		ch := string(punct[i])
		out = append(out, "h.com/a"+ch+"b", "h.com/"+ch+"/x", "a"+ch+"b.com/x", "h.com/x/"+ch)
	}
	for _, s := range specialSegs {
		out = append(out, "h.com/"+s, "h.com/"+s+"/y")
		if !strings.Contains(s, "/") {
			out = append(out, s+".com/x", "h."+s+"/x")
		}
	}
	out = append(out,
		// wildcards
		"h.com/*", "h.com/x/*", "h.*", "h.com.*", "*", ".*", "/*", "*/", "*.", "h.com/*/", "h.com/x/*/y", "h.com/**",
		"h.com/{id}/*", "{s}.com/*", "{s}.*", "*.com", "h.com/x*", "h.com/*x", "h/*",
		// untrimmed / malformed spellings
		"h.com/x/", "/h.com/x", "h.com/x.", ".h.com/x", "h.com/x//", "h.com//x", "h..com/x", "h.com/x/./", "",
		"h.com/x/{id}/", "h.com/{id}/.", "h.com",
		// the four of the repository's own test
		"twitter.com/user/1234", "twitter.com/user/{userID}", "twitter.com/user/*", "twitter.com/user/{userID}/messages/*",
		// parameters
		"{sub}.host.com/a", "host.{tld}/a", "host.com/{user.id}/x", "host.com/{a}/{b}", "host.com/{a}/x/{a}", "{a}.{b}/{c}",
		"api.host.com/v1/users/{id}/posts/{post-id}", "host.com/a+b", "host.com/a(1)", "host.com/a$b", "host.com/x/y.json",
	)
	out = append(out, portPatterns...)
	return out
}

// portPatterns: the request host is the Host / x-lunar-host header as sent, so
// it may name a port ("api.com:8443"); filters are declared without one (exact,
// path parameter, host parameter, bare host, wildcard: the first block, whose
// request URLs get a port from urlsFor) or with one (second block: requests
// with the same port, another one, none), plus bracketed IPv6 literals and
// malformed ports
var portPatterns = []string{
	"api.acme.com/v1/orders", "api.acme.com/v1/orders/{orderID}", "{tenant}.acme.com/v1/orders", "acme.com", "acme",
	"{tenant}.acme.com", "acme.{tld}", "acme.com/{id}", "acme.com/v1/*", "acme.*", "{a}.{b}/{c}/x",
	"api.acme.com:8443/v1/orders", "acme.com:8080", "acme.com:8080/{id}", "{tenant}.acme.com:443/v1/orders",
	"acme.com:80/*", "acme.com:8080.*", "acme:8080", "{tenant}:8080/x", "acme.com:{port}/x", "acme.{tld}:8080/x",
	"acme.com:/x", "acme.com:http/x", ":8080/x", "acme.com:80:90/x", "acme.com/x:8080", "acme.com/x:8080/y",
	"[::1]:8080/x", "[::1]/x", "[2001:db8::7]:443/v1/{id}", "[2001:db8::7]/v1/{id}", "[::1]", "[::1]:8080",
}


var hostPool = []string{"api", "com", "h", "a-b", "x_1", "{s}", "a+b", "{t.x}", "EXAMPLE", "a$", "(h)", "h1"}
var segPool = []string{"v1", "users", "x", "y", "{id}", "{user.id}", "a+b", "a.b", "x(1)", "$x", "a|b", "[z]", "q?", "{}", "it's", "a b", "%20", "x:y", "{id}x", "^", "a*"}

func randomPattern(r *c.Rng) string {
	nh, ns := r.Range(1, 3), r.Range(0, 3)
	hs, ss := []string{}, []string{}
	for i := 0; i < nh; i++ {
		hs = append(hs, c.Pick(r, hostPool))
	}
	for i := 0; i < ns; i++ {
		ss = append(ss, c.Pick(r, segPool))
	}
	p := strings.Join(hs, ".")
	if ns > 0 {
		p += "/" + strings.Join(ss, "/")
	}
	switch r.Intn(10) {
	case 0, 1:
		p += "/*"
	case 2:
		if ns == 0 {
			p += ".*"
		}
	case 3:
		p += "/"
	case 4:
		p = "/" + p
	}
	return p
}

// ---------------------------------------------------------------- request URLs for a pattern

func joinParts(ps []mpart) string {
	var sb strings.Builder
	for i, p := range ps {
		if i > 0 {
			if p.host {
				sb.WriteByte('.')
			} else {
				sb.WriteByte('/')
			}
		}
		sb.WriteString(p.v)
	}
	return sb.String()
}

// instance: parameters replaced by the n-th sample value, wildcard by the n-th tail
func instance(pp []mpart, n int) string {
	pathVals := []string{"7", "v.1", "x-y", "{id}"}
	hostVals := []string{"eu", "e-u", "7", "{s}"}
	tails := []string{"/z", "", "/z/w", ".org", ".org/p", "/"}
	out := []mpart{}
	tail := ""
	for i, p := range pp {
		switch {
		case isWildLast(pp, i):
			tail = tails[n%len(tails)]
		case isParamPart(p.v):
			if p.host {
				out = append(out, mpart{true, hostVals[n%len(hostVals)]})
			} else {
				out = append(out, mpart{false, pathVals[n%len(pathVals)]})
			}
		default:
			out = append(out, p)
		}
	}
	return joinParts(out) + tail
}

// metaConfusions: strings an UNQUOTED regular expression made of s would accept
func metaConfusions(s string) []string {
	out := []string{}
	for i := 0; i < len(s); i++ {
		ch := s[i]
		pre, post := s[:i], s[i+1:]
		switch ch {
		case '+':
			if i > 0 {
				out = append(out, pre+string(s[i-1])+post, pre+post)
			}
		case '*', '?':
			if i > 0 {
				out = append(out, pre[:i-1]+post, pre+post)
			}
		case '.':
			out = append(out, pre+"x"+post)
		case '|':
			out = append(out, pre, post)
		case '(', ')', '^', '$', '\\':
			out = append(out, pre+post)
		case '[':
			if j := strings.IndexByte(post, ']'); j > 0 {
				out = append(out, pre+string(post[0])+post[j+1:])
			}
		}
	}
	return out
}

// hostPort splits "host[:digits][/path]" (the first '/' ends the host; the
// port is what follows the LAST ':' of the host when it is made of digits, so a
// bracketed IPv6 literal with a port is read as such): host name, port, rest.
func hostPort(u string) (name, port, rest string) {
	host := u
	if j := strings.IndexByte(u, '/'); j >= 0 {
		host, rest = u[:j], u[j:]
	}
	if j := strings.LastIndexByte(host, ':'); j > 0 && j < len(host)-1 && strings.Trim(host[j+1:], "0123456789") == "" {
		return host[:j], host[j+1:], rest
	}
	return host, "", rest
}

// withPort: the URL with an explicit port on its host (replacing one it has)
func withPort(u, port string) string {
	name, _, rest := hostPort(u)
	return name + ":" + port + rest
}

// portSpellings: the request URLs a client that names the port produces for
// instances of the pattern (Host: api.com:8443), whether or not the filter is
// declared with one: the instance with a port, with another port, without any,
// and a port that is not a number
func portSpellings(pp []mpart) []string {
	i0, i1 := instance(pp, 0), instance(pp, 1)
	name, port, rest := hostPort(i0)
	out := []string{withPort(i0, "8443"), withPort(i1, "80"), name + rest, name + ":http" + rest}
	if port != "" {
		out = append(out, withPort(i0, port+"0"), withPort(instance(pp, 2), port))
	}
	if strings.HasPrefix(name, "[") || strings.Contains(name, ":") {
		// a host that already contains colons (IPv6 literal, malformed port)
		out = append(out, "["+strings.Trim(name, "[]")+"]:8443"+rest)
	}
	return out
}

func urlsFor(pattern string, wide bool) []string {
	pp := monSplit(pattern)
	i0 := instance(pp, 0)
	urls := []string{i0, instance(pp, 1), instance(pp, 2), instance(pp, 3)}
	urls = append(urls, portSpellings(pp)...)
	urls = append(urls, i0+"/", i0+"//", "/"+i0, i0+".", "."+i0, i0+"/extra", i0+"/extra/more", "x"+i0, i0+"x")
	if len(pp) > 1 {
		urls = append(urls, instance(pp[:len(pp)-1], 0))
	}
	// empty part at each parameter position
	for i, p := range pp {
		if isParamPart(p.v) && !isWildLast(pp, i) {
			q := append([]mpart{}, monSplit(i0)...)
			if i < len(q) {
				q[i].v = ""
				urls = append(urls, joinParts(q))
			}
		}
	}
	// a host label too many / a host parameter spanning two labels
	urls = append(urls, "sub."+i0)
	for i, p := range pp {
		if p.host && isParamPart(p.v) {
			q := append([]mpart{}, monSplit(i0)...)
			if i < len(q) {
				q[i].v = "a.b"
				urls = append(urls, joinParts(q))
			}
		}
	}
	// host / path switched at the first path delimiter
	if j := strings.IndexByte(i0, '/'); j > 0 {
		urls = append(urls, i0[:j]+"."+i0[j+1:])
	}
	urls = append(urls, strings.ToUpper(i0), strings.ToLower(i0))
	// single-character mutations of the literal text
	t := strings.Trim(pattern, "./")
	pos := []int{0, len(t) / 2, len(t) - 1}
	for i := 0; i < len(t); i++ {
		if strings.IndexByte(metaChars+".", t[i]) >= 0 {
			pos = append(pos, i)
		}
	}
	for _, i := range pos {
		if i < 0 || i >= len(t) || t[i] == '/' {
			continue
		}
		for _, r := range []byte{'Z', 'a'} {
			if t[i] != r {
				urls = append(urls, t[:i]+string(r)+t[i+1:])
			}
		}
		if !wide {
			continue
		}
		urls = append(urls, t[:i]+t[i+1:])
	}
	urls = append(urls, metaConfusions(t)...)
	seen := map[string]bool{}
	out := []string{}
	for _, u := range urls {
		ok := true
		for k := 0; k < len(u); k++ {
			if u[k] < 32 || u[k] > 126 {
				ok = false
			}
		}
		if ok && !seen[u] {
			seen[u] = true
			out = append(out, u)
		}
	}
	return out
}

var otherVerbs = []string{"HEAD", "get", "OPTIONS", "POST", "XGET", "GET", "PUT", "TRACE", "M-SEARCH", "GE"}

func probesFor(pattern string, methods []string, wide bool) []Probe {
	urls := urlsFor(pattern, wide)
	out := []Probe{}
	for i, u := range urls {
		ms := []string{}
		if len(methods) > 0 {
			ms = append(ms, methods[i%len(methods)])
		} else {
			ms = append(ms, "GET")
		}
		ms = append(ms, otherVerbs[i%len(otherVerbs)])
		if i < 3 {
			ms = append(ms, methods...)
			ms = append(ms, "GET", "HEAD", "get", "Get")
		}
		seen := map[string]bool{}
		for _, m := range ms {
			if !seen[m] {
				seen[m] = true
				out = append(out, Probe{Method: m, URL: u})
			}
		}
	}
	return out
}

// randomEdits: 1-3 random single-character edits of s over an alphabet made of
// its own characters, the separators, and a few characters special to regular
// expressions and to the matcher ('\n' is not matched by '.')
func randomEdits(r *c.Rng, s string) string {
	alpha := s + "/.:x*$\\(+Z\n"
	b := []byte(s)
	for n := r.Range(1, 3); n > 0; n-- {
		ch := alpha[r.Intn(len(alpha))]
		switch pos := r.Intn(len(b) + 1); r.Intn(3) {
		case 0: // insert
			b = append(b[:pos], append([]byte{ch}, b[pos:]...)...)
		case 1: // delete
			if pos < len(b) {
				b = append(b[:pos], b[pos+1:]...)
			}
		default: // replace
			if pos < len(b) {
				b[pos] = ch
			}
		}
	}
	return string(b)
}

func subjectsFor(r *c.Rng, method, pattern string) []Subj {
	out := []Subj{}
	seen := map[string]bool{}
	add := func(s string) {
		if !seen[s] {
			seen[s] = true
			out = append(out, Subj{S: s})
		}
	}
	urls := urlsFor(pattern, true)
	for i, u := range urls {
		add(method + ":::" + u)
		switch i % 5 {
		case 0:
			add("x" + method + ":::" + u)
		case 1:
			add(method + "::" + u)
		case 2:
			add(otherVerbs[i%len(otherVerbs)] + ":::" + u)
		case 3:
			add(method + ":::" + u + "\n")
		case 4:
			add(strings.ToLower(method) + ":::" + u)
		}
	}
	add("")
	add(method + ":::")
	// random subjects, not derived position by position from the pattern: random
	// edits of found and of unfound subjects, two subjects glued, random strings
	for n := 0; n < 10; n++ {
		base := method + ":::" + urls[r.Intn(len(urls))]
		switch r.Intn(4) {
		case 0:
			add(randomEdits(r, base) + base)
		case 1:
			add(base + randomEdits(r, "/z"))
		default:
			add(randomEdits(r, base))
		}
	}
	alpha := method + ":/." + strings.Trim(pattern, "./") + "x\n"
	for n := 0; n < 4; n++ {
		b := make([]byte, r.Range(0, 14))
		for i := range b {
			b[i] = alpha[r.Intn(len(alpha))]
		}
		add(string(b))
	}
	return out
}

// multi-flow sets without host/path collision and with one parameter name
var safeUniverse = []string{
	"a.com/x", "a.com/x/*", "a.com/*", "a.com/{p}", "a.com/{p}/y", "a.com/x/y", "b.org/x", "b.org/*", "{p}.org/x",
	"a.com", "a.*", "*", "a.com/x+y", "b.org/{p}/*",
}

var collisionSets = [][]string{
	{"a.b/c", "a/b/d"}, {"a/b/d", "a.b/c"}, {"a.a", "a/a"}, {"a/a", "a.a"}, {"h.*", "h/*"}, {"h/x/y", "h.x/z", "h/x/z"},
	{"a.{p}/c", "a/{p}/d"},
}
