package main

// Monitor of the suite "reload" — the property restated over the proxy's state
// (the stub's) after every step of a configuration history, independent of the
// Coq model:
//
//   (1) for every flow filter / policy endpoint with an enabled plugin of the
//       configuration IN FORCE and every method it accepts, the expression the
//       engine's formatter produces for it is in the proxy's endpoints.map, or
//       proc.manage_all is set;
//   (2) concrete transactions: the engine in force selects a user flow (an
//       endpoint or global plugin) for METHOD url  =>  proc.manage_all is set or
//       some expression of endpoints.map finds "METHOD:::url" (Go regexp).
//
// Root-cause class of a failure, read off the stub's operation log: the
// expression (the flag) was registered and the LAST operation on it is a DELETE
// (unmanage_global) => "bypass:unmanaged-after-reload"; it was never registered
// => "bypass:not-registered"; the configuration's own expressions do not find the
// subject => the classes of the single-configuration suites (classifyBypass).

import (
	"fmt"
	"regexp"
	"strings"

	"lunar/engine/config"
)

var reCache = map[string]*regexp.Regexp{}

func compiled(e string) *regexp.Regexp {
	if re, ok := reCache[e]; ok {
		return re
	}
	re, err := regexp.Compile(e)
	if err != nil {
		re = nil
	}
	reCache[e] = re
	return re
}

func finds(e, subject string) bool {
	re := compiled(e)
	return re != nil && re.MatchString(subject)
}

// one thing the configuration in force wants managed
type want struct {
	pattern string
	methods []string // listed methods (empty = every method)
	exprs   []string // what the formatter produces for it
}

func isCatchAll(u string) bool { return u == "" || u == "*" || u == ".*" }

func wantsOf(cf *RCfg) (ws []want, needsAll bool) {
	for _, f := range cf.Flows {
		w := want{pattern: f.URL, methods: f.Methods}
		if len(f.Methods) == 0 {
			w.exprs = []string{config.HaproxyAnyMethodEndpointFormat(f.URL, nil).Endpoint}
		}
		for _, m := range f.Methods {
			w.exprs = append(w.exprs, config.HaproxyEndpointFormat(m, f.URL, nil).Endpoint)
		}
		if isCatchAll(f.URL) {
			needsAll = true
		}
		ws = append(ws, w)
	}
	for _, d := range cf.Decls {
		enabled := false
		for _, r := range d.Rem {
			enabled = enabled || r.Enabled
		}
		for _, g := range d.Diag {
			enabled = enabled || g.Enabled
		}
		if enabled {
			ws = append(ws, want{pattern: d.URL, methods: []string{d.Method},
				exprs: []string{config.HaproxyEndpointFormat(d.Method, d.URL, nil).Endpoint}})
		}
	}
	for _, en := range cf.GRem {
		needsAll = needsAll || en
	}
	for _, en := range cf.GDiag {
		needsAll = needsAll || en
	}
	return
}

func reloadProbes(w want) []Probe {
	pp := monSplit(w.pattern)
	// two instances, and the first one as a client that names the port sends it
	urls := []string{instance(pp, 0), instance(pp, 1), withPort(instance(pp, 0), "8443")}
	ms := w.methods
	if len(ms) == 0 {
		ms = []string{"GET", "HEAD"}
	}
	out := []Probe{}
	for _, u := range urls {
		for _, m := range ms {
			out = append(out, Probe{Method: m, URL: u})
		}
	}
	return out
}

func monitorReloadStep(k *ReloadCase, i int, now *engineNow) []reloadHit {
	st := &k.Steps[i]
	if now.cfg == nil {
		return nil
	}
	hits := []reloadHit{}
	ws, needsAll := wantsOf(now.cfg)
	inMap := map[string]bool{}
	for _, e := range st.Managed {
		inMap[e] = true
	}
	proxyManages := func(m, u string) bool {
		if st.SkipAll {
			return false
		}
		if st.All {
			return true
		}
		for _, e := range st.Managed {
			if finds(e, m+":::"+u) {
				return true
			}
		}
		return false
	}
	cause := func(exprs []string) string {
		sig := "bypass:not-registered"
		for _, e := range exprs {
			onKey, _ := stub.lastOp(e)
			switch onKey {
			case "del":
				return "bypass:unmanaged-after-reload"
			case "clear":
				sig = "bypass:unmanage-all"
			}
		}
		if needsAll {
			switch _, onAll := stub.lastOp(""); onAll {
			case "noall":
				return "bypass:unmanaged-after-reload"
			case "clear":
				sig = "bypass:unmanage-all"
			}
		}
		return sig
	}
	// (1) the expressions of the configuration in force
	for _, w := range ws {
		for _, e := range w.exprs {
			theO.MonitorChecked(1)
			if (st.All || inMap[e]) && !st.SkipAll {
				continue
			}
			hits = append(hits, reloadHit{step: i, sig: cause([]string{e}),
				demanded: fmt.Sprintf("the configuration in force after step %d has filter/endpoint %q %v: its expression %q must be in the proxy's endpoints.map (or manage_all set)",
					i, w.pattern, w.methods, e),
				obs: fmt.Sprintf("manage_all=%v skip_all=%v endpoints.map=%q", st.All, st.SkipAll, st.Managed)})
		}
	}
	// (2) concrete transactions
	probes := []struct {
		p Probe
		w want
	}{}
	for _, w := range ws {
		for _, p := range reloadProbes(w) {
			probes = append(probes, struct {
				p Probe
				w want
			}{p, w})
		}
	}
	probes = append(probes, struct {
		p Probe
		w want
	}{Probe{Method: "GET", URL: "zz.example/none"}, want{pattern: "*"}})
	urls := []string{}
	for _, w := range ws {
		urls = append(urls, w.pattern)
	}
	for _, pw := range probes {
		p, w := pw.p, pw.w
		if !now.selects(p.Method, p.URL) {
			continue
		}
		theO.MonitorChecked(1)
		if proxyManages(p.Method, p.URL) {
			continue
		}
		// would the expressions of the configuration in force manage it?
		own := []string{}
		for _, x := range ws {
			for _, e := range x.exprs {
				if finds(e, p.Method+":::"+p.URL) {
					own = append(own, e)
				}
			}
		}
		var sig string
		if len(own) > 0 || needsAll {
			sig = cause(own)
		} else {
			ownManaged := func(m, u string) bool {
				for _, x := range ws {
					for _, e := range x.exprs {
						if finds(e, m+":::"+u) {
							return true
						}
					}
				}
				return false
			}
			cls := sideClass(urls, w.pattern, p.URL)
			if k.Policies {
				cls = urlClass(w.pattern, p.URL)
				if kindCollision(urls) {
					cls = 3
				}
			}
			sig = classifyBypass(w.pattern, w.methods, cls, p.Method, p.URL, ownManaged)
		}
		hits = append(hits, reloadHit{step: i, sig: sig,
			demanded: fmt.Sprintf("after step %d the engine selects a flow / plugin for %s %s (configuration in force: %s), so the proxy must treat %q as managed",
				i, p.Method, p.URL, describeCfg(now.cfg), p.Method+":::"+p.URL),
			obs: fmt.Sprintf("manage_all=%v skip_all=%v, no expression of endpoints.map=%q finds it", st.All, st.SkipAll, st.Managed)})
	}
	return hits
}

func describeCfg(cf *RCfg) string {
	xs := []string{}
	for _, f := range cf.Flows {
		xs = append(xs, fmt.Sprintf("%q%v", f.URL, f.Methods))
	}
	for _, d := range cf.Decls {
		xs = append(xs, fmt.Sprintf("%s %q", d.Method, d.URL))
	}
	for _, en := range cf.GRem {
		if en {
			xs = append(xs, "global remedy")
		}
	}
	for _, en := range cf.GDiag {
		if en {
			xs = append(xs, "global diagnosis")
		}
	}
	return "[" + strings.Join(xs, ", ") + "]"
}
