package main

// Suite "reload": configuration HISTORIES against an in-process HAProxy.
//
// The engine tells HAProxy what is managed through HAProxy's management API
// (haproxy.cfg, frontend manage_endpoints): PUT /managed_endpoint adds the body
// to endpoints.map, DELETE removes it, PUT /manage_all sets proc.manage_all,
// DELETE /unmanage_global unsets it, PUT /unmanage_all clears everything and
// sets proc.skip_all; likewise the body / request-capture maps.  proxyStub is
// that API as an http.RoundTripper installed in http.DefaultClient (the client
// config/update_endpoints.go uses), keeping the state exactly as HAProxy would.
//
// A history is driven through the real code:
//   flows     routing.HandlingDataManager.initializeStreams (first load and
//             every reload: /load_flows, /apply_flows, /configuration all reach
//             it) over flow YAML files written to the flows directory
//   policies  the body of config.BuildInitialFromFile for the first load
//             (ManageHAProxyEndpoints(BuildHAProxyEndpointsRequest), accessor),
//             then TxnPoliciesAccessor.UpdatePoliciesData(data, immediately) —
//             what /apply_policies (false) and the fail-safe reverts (true) call
//   time      the context manager's mock clock: the delayed un-management
//             goroutines (ScheduleUnmanageHAProxyEndpoints /
//             scheduleUnmanageHAProxyGlobal) sleep staleVersionTTL on it
// After every step the stub's state is recorded (compared with the model by
// C14.ReloadReq.run_reload2, which is tied to C14.Reload.run Recheck by
// C14_accepted_reload_case_is_a_run; run_reload2 refuses a case with a negative
// clock step) and the monitor of monitor_reload.go runs.

import (
	"fmt"
	"io"
	"net/http"
	"os"
	"path/filepath"
	"runtime"
	"sort"
	"strings"
	"sync"
	"time"

	"lunar/engine/config"
	"lunar/engine/routing"
	"lunar/engine/runner"
	"lunar/engine/streams"
	public_types "lunar/engine/streams/public-types"
	"lunar/engine/utils/environment"
	sharedConfig "lunar/shared-model/config"
	"lunar/toolkit-core/clock"
	context_manager "lunar/toolkit-core/context-manager"
)

// ---------------------------------------------------------------- HAProxy's management API

type stubOp struct {
	Verb string // put | del | all | noall | clear
	Key  string
}

type proxyStub struct {
	mu         sync.Mutex
	managed    map[string]bool // endpoints.map
	body       map[string]bool // spoe_with_body.map
	capture    map[string]bool // req_capture.map
	all        bool            // proc.manage_all
	bodyAll    bool            // proc.body_from_all
	captureAll bool            // proc.capture_all
	skipAll    bool            // proc.skip_all
	ops        []stubOp        // operations on endpoints.map / proc.manage_all, in order
	refused    []string        // requests HAProxy would answer with 4xx
	requests   int
}

var stub = &proxyStub{}

func (s *proxyStub) reset() {
	s.mu.Lock()
	defer s.mu.Unlock()
	s.managed, s.body, s.capture = map[string]bool{}, map[string]bool{}, map[string]bool{}
	s.all, s.bodyAll, s.captureAll, s.skipAll = false, false, false, false
	s.ops, s.refused, s.requests = nil, nil, 0
}

func answer(r *http.Request, code int, body string) *http.Response {
	return &http.Response{StatusCode: code, Status: fmt.Sprintf("%d", code), Proto: "HTTP/1.1", ProtoMajor: 1, ProtoMinor: 1,
		Header: http.Header{}, Body: io.NopCloser(strings.NewReader(body)), Request: r}
}

func (s *proxyStub) RoundTrip(r *http.Request) (*http.Response, error) {
	body := ""
	if r.Body != nil {
		b, _ := io.ReadAll(r.Body)
		r.Body.Close()
		body = string(b)
	}
	s.mu.Lock()
	defer s.mu.Unlock()
	s.requests++
	path := r.URL.Path
	if strings.HasPrefix(path, "/healthcheck") {
		return answer(r, 200, "OK\n"), nil
	}
	refuse := func(code int) (*http.Response, error) {
		s.refused = append(s.refused, fmt.Sprintf("%d %s %s %q", code, r.Method, path, body))
		return answer(r, code, ""), nil
	}
	if r.Method != "GET" && r.Method != "PUT" && r.Method != "DELETE" {
		return refuse(405)
	}
	needBody := path == "/managed_endpoint" || path == "/include_body_from" || path == "/capture_req_from"
	if needBody && body == "" {
		return refuse(400)
	}
	switch r.Method + " " + path {
	case "PUT /manage_all":
		s.skipAll, s.all = false, true
		s.ops = append(s.ops, stubOp{"all", ""})
	case "PUT /unmanage_all":
		s.all, s.skipAll = false, true
		s.managed = map[string]bool{}
		s.ops = append(s.ops, stubOp{"clear", ""})
	case "DELETE /unmanage_global":
		s.all = false
		s.ops = append(s.ops, stubOp{"noall", ""})
	case "PUT /managed_endpoint":
		s.skipAll = false
		s.managed[body] = true
		s.ops = append(s.ops, stubOp{"put", body})
	case "DELETE /managed_endpoint":
		delete(s.managed, body)
		s.ops = append(s.ops, stubOp{"del", body})
	case "PUT /include_body_from":
		s.body[body] = true
	case "DELETE /include_body_from":
		delete(s.body, body)
	case "PUT /include_body_from_all":
		s.bodyAll = true
	case "PUT /remove_body_from_all":
		s.body, s.bodyAll = map[string]bool{}, false
	case "PUT /capture_req_from":
		s.capture[body] = true
	case "DELETE /capture_req_from":
		delete(s.capture, body)
	case "PUT /capture_req_all":
		s.captureAll = true
	case "PUT /stop_capturing_req_all":
		s.capture, s.captureAll = map[string]bool{}, false
	default:
		return refuse(404)
	}
	return answer(r, 200, "true"), nil
}

func keysOf(m map[string]bool) []string {
	out := []string{}
	for k := range m {
		out = append(out, k)
	}
	sort.Strings(out)
	return out
}

// lastOp: the last operation that decided whether key is in endpoints.map
// ("put", "del", "clear"; "" = never touched) and the last one on proc.manage_all
func (s *proxyStub) lastOp(key string) (onKey, onAll string) {
	s.mu.Lock()
	defer s.mu.Unlock()
	for _, op := range s.ops {
		switch op.Verb {
		case "put", "del":
			if op.Key == key {
				onKey = op.Verb
			}
		case "clear":
			onKey, onAll = "clear", "clear"
		case "all", "noall":
			onAll = op.Verb
		}
	}
	return
}

// ---------------------------------------------------------------- histories

type RCfg struct {
	Flows []Flow `json:"flows,omitempty"`
	Decls []Decl `json:"declarations,omitempty"`
	GRem  []bool `json:"global_remedies_enabled,omitempty"`
	GDiag []bool `json:"global_diagnoses_enabled,omitempty"`
}

type RStep struct {
	Op        string `json:"op"` // load | advance
	Cfg       *RCfg  `json:"config,omitempty"`
	Immediate bool   `json:"unmanage_immediately,omitempty"` // policies: UpdatePoliciesData(.., true)
	AdvanceNs int64  `json:"advance_ns,omitempty"`
	// observed after the step
	Loaded     bool     `json:"loaded"`
	Err        string   `json:"error,omitempty"`
	All        bool     `json:"manage_all"`
	Managed    []string `json:"managed"`
	Body       []string `json:"body_needed,omitempty"`       // recorded, not compared
	Capture    []string `json:"capture_needed,omitempty"`    // recorded, not compared
	BodyAll    bool     `json:"body_from_all,omitempty"`     // recorded, not compared
	CaptureAll bool     `json:"capture_all,omitempty"`       // recorded, not compared
	SkipAll    bool     `json:"skip_all,omitempty"`          // never set by the engine outside its panic handler
	Refused    []string `json:"refused_requests,omitempty"`  // management calls HAProxy would refuse
	Bypasses   []string `json:"monitor,omitempty"`           // what the monitor saw at this step (information)
}

type ReloadCase struct {
	Policies bool    `json:"policies_mode"`
	Label    string  `json:"shape"`
	Steps    []RStep `json:"steps"`
}

const staleTTL = 30 * time.Second // config.staleVersionTTL

type reloadHit struct {
	step               int
	sig, demanded, obs string
}

// ours: goroutine blocks of the delayed un-management (started in package config,
// un-managing); parked: asleep on the mock clock
func unmanageGoroutines() (parked, busy int) {
	buf := make([]byte, 1<<20)
	for {
		n := runtime.Stack(buf, true)
		if n < len(buf) {
			buf = buf[:n]
			break
		}
		buf = make([]byte, 2*len(buf))
	}
	for _, blk := range strings.Split(string(buf), "\n\n") {
		if !strings.Contains(blk, "lunar/engine/config.") ||
			!(strings.Contains(blk, "nmanageHAProxy") || strings.Contains(blk, "nmanageGlobal")) {
			continue
		}
		head := blk
		if i := strings.IndexByte(blk, '\n'); i >= 0 {
			head = blk[:i]
		}
		if strings.Contains(head, "[chan receive") && strings.Contains(blk, "clock.(*MockClock).Sleep") {
			parked++
		} else {
			busy++
		}
	}
	return
}

// settle waits until every delayed un-management goroutine is either asleep on
// the mock clock or gone (wall-clock budget: a loaded machine schedules late).
// -1 = they did not (an implementation whose un-management blocks): the stub is
// read as it is and the history is reported, the harness does not stop.
func settle() int {
	for limit := time.Now().Add(60 * time.Second); time.Now().Before(limit); {
		parked, busy := unmanageGoroutines()
		if busy == 0 {
			return parked
		}
		time.Sleep(50 * time.Microsecond)
	}
	return -1 // reported by execReload (monitor hit), the harness goes on
}

func policiesConfig(cf *RCfg) *sharedConfig.PoliciesConfig {
	eps := []sharedConfig.EndpointConfig{}
	for _, d := range cf.Decls {
		e := sharedConfig.EndpointConfig{Method: d.Method, URL: d.URL,
			Remedies: []sharedConfig.Remedy{}, Diagnosis: []sharedConfig.Diagnosis{}}
		for _, r := range d.Rem {
			e.Remedies = append(e.Remedies, sharedConfig.Remedy{Enabled: r.Enabled, Name: fmt.Sprintf("r%d", r.Name)})
		}
		for _, g := range d.Diag {
			e.Diagnosis = append(e.Diagnosis, sharedConfig.Diagnosis{Enabled: g.Enabled, Name: fmt.Sprintf("g%d", g.Name),
				Config: sharedConfig.DiagnosisConfig{Void: &sharedConfig.VoidConfig{}}, Export: "file"})
		}
		eps = append(eps, e)
	}
	global := sharedConfig.Global{}
	for _, en := range cf.GRem {
		global.Remedies = append(global.Remedies, sharedConfig.Remedy{Enabled: en, Name: "r0"})
	}
	for _, en := range cf.GDiag {
		global.Diagnosis = append(global.Diagnosis, sharedConfig.Diagnosis{Enabled: en, Name: "g0",
			Config: sharedConfig.DiagnosisConfig{Void: &sharedConfig.VoidConfig{}}, Export: "file"})
	}
	return &sharedConfig.PoliciesConfig{Global: global, Endpoints: eps}
}

func writeFlowDirs(flows []Flow) error {
	cwd, err := os.Getwd()
	if err != nil {
		return err
	}
	base := filepath.Join(cwd, "cfg")
	os.RemoveAll(base)
	for _, d := range []string{"flows", "quotas", "pp"} {
		if err := os.MkdirAll(filepath.Join(base, d), 0o755); err != nil {
			return err
		}
	}
	for _, f := range flows {
		if err := os.WriteFile(filepath.Join(base, "flows", flowName(f.ID)+".yaml"), []byte(flowYAML(f)), 0o644); err != nil {
			return err
		}
	}
	environment.SetStreamsFlowsDirectory(filepath.Join(base, "flows"))
	environment.SetQuotasDirectory(filepath.Join(base, "quotas"))
	environment.SetPathParamsDirectory(filepath.Join(base, "pp"))
	return nil
}

func guarded(f func() error) (err error) {
	defer func() {
		if r := recover(); r != nil {
			err = fmt.Errorf("panic: %v", r)
		}
	}()
	return f()
}

// the engine as it stands after a step: what selects, for the probes
type engineNow struct {
	cfg    *RCfg // configuration in force (the last one that loaded)
	stream *streams.Stream
	tree   *config.EndpointPolicyTree
	global *sharedConfig.Global
}

func (e *engineNow) selects(m, u string) bool {
	switch {
	case e.stream != nil:
		_, user, _, found := e.stream.VerifSelectedFlows(mkRequest(m, u), public_types.StreamTypeRequest)
		return found && len(user) > 0
	case e.tree != nil:
		// an enabled plugin applies: of the endpoint the URL matches, or a global one
		if len(runner.VerifC13GetRemedies(m, u, e.tree, e.global)) > 0 ||
			len(runner.VerifC13GetDiagnoses(m, u, e.tree, e.global.Diagnosis)) > 0 {
			return true
		}
	}
	return false
}

var reloadOnce sync.Once

func execReload(k *ReloadCase) []reloadHit {
	setupEnv()
	reloadOnce.Do(func() { http.DefaultClient.Transport = stub })
	stub.reset()
	var clk *clock.MockClock = context_manager.Get().SetMockClock().GetMockClock()
	hits := []reloadHit{}
	now := &engineNow{}
	var mgr *routing.HandlingDataManager
	var acc *config.TxnPoliciesAccessor
	if !k.Policies {
		mgr = routing.VerifC14NewStreamsManager()
	}
	for i := range k.Steps {
		st := &k.Steps[i]
		st.Loaded, st.Err = false, ""
		switch st.Op {
		case "load":
			var err error
			if !k.Policies {
				if err = writeFlowDirs(st.Cfg.Flows); err == nil {
					err = guarded(mgr.VerifC14InitializeStreams)
				}
				if err == nil {
					now.cfg, now.stream = st.Cfg, mgr.VerifC14Stream()
				}
			} else {
				pc := policiesConfig(st.Cfg)
				var pd *config.PoliciesData
				pd, err = config.BuildPolicyData(pc, false)
				if err == nil && acc == nil {
					// config.BuildInitialFromFile without the file and the health-check
					if err = config.ManageHAProxyEndpoints(config.BuildHAProxyEndpointsRequest(&pd.Config)); err == nil {
						a := config.NewTxnPoliciesAccessor(pd)
						acc = &a
					}
				} else if err == nil {
					err = acc.UpdatePoliciesData(pd, st.Immediate)
				}
				if err == nil {
					cur := acc.GetCurrentPoliciesData()
					now.cfg, now.tree, now.global = st.Cfg, &cur.EndpointPolicyTree, &cur.Config.Global
				}
			}
			if err != nil {
				st.Err = err.Error()
			} else {
				st.Loaded = true
			}
		case "advance":
			clk.AdvanceTime(time.Duration(st.AdvanceNs))
		}
		if settle() < 0 {
			hits = append(hits, reloadHit{step: i, sig: "reload:unmanagement-stuck",
				demanded: "a delayed un-management either sleeps on the clock or finishes its calls to the proxy",
				obs:      fmt.Sprintf("after step %d an un-management goroutine was still busy after 60 s; the proxy's state is read as it is", i)})
		}
		stub.mu.Lock()
		st.All, st.Managed = stub.all, keysOf(stub.managed)
		st.Body, st.Capture = keysOf(stub.body), keysOf(stub.capture)
		st.BodyAll, st.CaptureAll, st.SkipAll = stub.bodyAll, stub.captureAll, stub.skipAll
		st.Refused = append([]string{}, stub.refused...)
		stub.mu.Unlock()
		st.Bypasses = nil
		for n, h := range monitorReloadStep(k, i, now) {
			hits = append(hits, h)
			if n < 2 {
				st.Bypasses = append(st.Bypasses, h.sig+": "+h.obs)
			} else if n == 2 {
				st.Bypasses = append(st.Bypasses, "...")
			}
		}
	}
	// nothing of this history may stay asleep: the next one gets a fresh clock
	clk.AdvanceTime(2*staleTTL + time.Second)
	if parked := settle(); parked != 0 {
		clk.AdvanceTime(2*staleTTL + time.Second)
		settle()
	}
	return hits
}
