package main

// Property monitor, independent of the Coq model: the property restated over
// what the implementation did.
//
//   bypass:*   a (method, URL) for which the real engine selects a filter (or an
//              endpoint's remedy / diagnosis) must be managed: manage_all, or some
//              registered expression finds "METHOD:::URL" under Go's regexp.
//   literal:over-match   the expression of a URL pattern without parameter and
//              wildcard parts must not find a URL of the same length that
//              differs from the configured one.
//   invalid-expression:compile   a registered expression is not a regular expression.
//
//              Request hosts may name a port (txn.host is the Host / x-lunar-host
//              header as sent): whatever reading of "host:port" the engine uses to
//              select a filter, the expression registered for that filter must find
//              the subject with the port in it (root-cause class bypass:host-port).
// The classifier (root cause of a bypass) uses its own URL splitter.

import (
	"fmt"
	"regexp"
	"strings"

	c "verifharness/common"
)

type mpart struct {
	host bool
	v    string
}

func monSplit(u string) []mpart {
	u = strings.Trim(u, "./")
	segs := strings.Split(u, "/")
	out := []mpart{}
	for _, h := range strings.Split(segs[0], ".") {
		out = append(out, mpart{true, h})
	}
	for _, p := range segs[1:] {
		out = append(out, mpart{false, p})
	}
	return out
}

func isParamPart(v string) bool { return strings.HasPrefix(v, "{") && strings.HasSuffix(v, "}") }

func isWildLast(ps []mpart, i int) bool { return ps[i].v == "*" && i == len(ps)-1 }

// monMatch: the most permissive reading of "the pattern accepts the URL"
func monMatch(pp, up []mpart) bool {
	for i, p := range pp {
		if p.v == "*" {
			return i == len(pp)-1
		}
		if i >= len(up) || up[i].host != p.host {
			return false
		}
		if !isParamPart(p.v) && p.v != up[i].v {
			return false
		}
	}
	return len(up) == len(pp)
}

// emptyAtParam: some URL part standing at a parameter position is empty
func emptyAtParam(pp, up []mpart) bool {
	for i, p := range pp {
		if p.v == "*" || i >= len(up) {
			return false
		}
		if isParamPart(p.v) && up[i].v == "" {
			return true
		}
	}
	return false
}

func stepKey(p mpart) string {
	switch {
	case p.v == "*":
		return "*"
	case isParamPart(p.v):
		return "{}"
	}
	return "=" + p.v
}

// kindCollision: two patterns reach the same trie node once as a host label and
// once as a path segment (open finding F-C03c / F-C13e)
func kindCollision(urls []string) bool {
	for i := range urls {
		for j := range urls {
			a, b := monSplit(urls[i]), monSplit(urls[j])
			for n := 0; n < len(a) && n < len(b); n++ {
				if stepKey(a[n]) != stepKey(b[n]) {
					break
				}
				if a[n].host != b[n].host {
					return true
				}
			}
		}
	}
	return false
}

var defaultMethods = map[string]bool{"GET": true, "POST": true, "PUT": true, "DELETE": true, "PATCH": true}
var plainParamName = regexp.MustCompile(`^\{[a-zA-Z0-9-_]+\}$`)

const metaChars = `\+*?()|[]{}^$`

// ---- the side conditions of the theorems, computed here on strings ----

// urlPieces: what strings.Trim(u, "./") takes off on the left and on the right
func urlPieces(u string) (lead, mid, trail string) {
	d := strings.TrimLeft(u, "./")
	lead = u[:len(u)-len(d)]
	mid = strings.TrimRight(d, "./")
	trail = d[len(mid):]
	return
}

// urlClass: 1 = the request URL is spelled with leading '.' '/' (and the pattern
// is not the lone wildcard), or with trailing '.' '/' that the expression cannot
// absorb (it can when the pattern ends in a wildcard: no "$"; and when the last
// part is a path parameter and only dots follow: "[^/]+$") — open finding F-C14c;
// 2 = an empty URL part stands at a parameter position — open finding F-C14e;
// 0 = neither
func urlClass(pattern, u string) int {
	pp := monSplit(pattern)
	last := pp[len(pp)-1]
	onlyWild := len(pp) == 1 && last.v == "*"
	endsWild := last.v == "*"
	lastPathParam := !last.host && isParamPart(last.v)
	lead, _, trail := urlPieces(u)
	leadOK := onlyWild || lead == ""
	tailOK := endsWild || trail == "" || (lastPathParam && strings.Trim(trail, ".") == "")
	if !(leadOK && tailOK) {
		return 1
	}
	if emptyAtParam(pp, monSplit(u)) {
		return 2
	}
	return 0
}

// kcAt: no configured pattern collides (host label vs path segment) with this
// pattern on a trie node the look-up of u reads — the open finding F-C03c /
// F-C14h localised to the selected filter and the request URL
func kcAt(urls []string, pattern, u string) bool {
	p, up := monSplit(pattern), monSplit(u)
	for _, o := range urls {
		q := monSplit(o)
		for i := 0; i < len(up) && i < len(p) && i < len(q); i++ {
			if stepKey(p[i]) != stepKey(q[i]) {
				break
			}
			fits := isParamPart(p[i].v) && p[i].v != "*" || (p[i].v != "*" && !isParamPart(p[i].v) && p[i].v == up[i].v)
			if !fits {
				break
			}
			if p[i].host != q[i].host {
				return false
			}
		}
	}
	return true
}

func sideClass(urls []string, pattern, u string) int {
	if !kcAt(urls, pattern, u) {
		return 3
	}
	return urlClass(pattern, u)
}

// probeClasses fills Probe.Classes (handed to the Coq model with the case)
func probeClasses(k *FlowCase) {
	urls := []string{}
	byID := map[int]Flow{}
	for _, f := range k.Flows {
		urls = append(urls, f.URL)
		byID[f.ID] = f
	}
	for i := range k.Probes {
		p := &k.Probes[i]
		p.Classes = []int{}
		for _, id := range p.Selected {
			p.Classes = append(p.Classes, sideClass(urls, byID[id].URL, p.URL))
		}
	}
}

// classifyBypass names the root cause of "engine selects, proxy does not manage".
// cls = sideClass of (pattern, u) (for policies: 3 when any two declarations collide);
// managedFn evaluates is_managed for another spelling of the URL.
func classifyBypass(pattern string, methods []string, cls int, m, u string,
	managedFn func(m, u string) bool) string {
	if cls == 3 {
		return "bypass:host-path-collision"
	}
	if cls == 1 {
		// the spelling is the cause when the trimmed spelling is managed; otherwise
		// the trimmed spelling is judged on its own
		t := strings.Trim(u, "./")
		if managedFn(m, t) {
			return "bypass:trailing-slash"
		}
		u = t
		cls = urlClass(pattern, u)
		if cls == 1 {
			return "bypass:trailing-slash"
		}
	}
	pp := monSplit(pattern)
	if cls == 2 {
		return "bypass:empty-segment"
	}
	// the port named in the request host is the cause when the same request
	// without it is managed (the engine looked the URL up by its host name, the
	// registered expression knows the declared URL only)
	if name, port, rest := hostPort(u); port != "" && managedFn(m, name+rest) {
		return "bypass:host-port"
	}
	// the verb is the cause when the same URL is managed for a default verb
	if len(methods) == 0 && !defaultMethods[m] && managedFn("GET", u) {
		return "bypass:method-default"
	}
	if strings.ContainsAny(m, metaChars+".") && len(methods) > 0 {
		return "bypass:meta-char"
	}
	for i, p := range pp {
		switch {
		case isWildLast(pp, i):
			if p.host {
				return "bypass:host-wildcard"
			}
		case isParamPart(p.v):
			if p.host {
				return "bypass:host-param"
			}
			if !plainParamName.MatchString(p.v) {
				return "bypass:param-name"
			}
		}
	}
	for i, p := range pp {
		if !isWildLast(pp, i) && !isParamPart(p.v) && strings.ContainsAny(p.v, metaChars) {
			return "bypass:meta-char"
		}
	}
	if strings.Trim(pattern, "./") != pattern {
		return "bypass:pattern-trim"
	}
	if len(methods) == 0 && !defaultMethods[m] {
		return "bypass:method-default"
	}
	return "bypass:other"
}

func monitorFlows(o *c.Out, suite string, idx int, k *FlowCase) {
	if !k.Loaded {
		return
	}
	urls := []string{}
	byID := map[int]Flow{}
	for _, f := range k.Flows {
		urls = append(urls, f.URL)
		byID[f.ID] = f
	}
	set := compileAll(k.Endpoints)
	managedFn := func(m, u string) bool { return k.ManageAll || set.anyMatch(m+":::"+u) }
	mini := func(p Probe) FlowCase {
		return FlowCase{Flows: k.Flows, Direct: k.Direct, Loaded: k.Loaded, ManageAll: k.ManageAll,
			Endpoints: k.Endpoints, BadExprs: k.BadExprs, Probes: []Probe{p}}
	}
	for _, e := range k.BadExprs {
		o.Hit(c.Hit{Suite: suite, Index: idx, Signature: "invalid-expression:compile",
			Demanded: "every registered managed-endpoint expression is a regular expression",
			Observed: fmt.Sprintf("%q does not compile", e), Case: mini(Probe{})})
	}
	for _, p := range k.Probes {
		for _, id := range p.Selected {
			o.MonitorChecked(1)
			if p.Managed {
				continue
			}
			f := byID[id]
			sig := classifyBypass(f.URL, f.Methods, sideClass(urls, f.URL, p.URL), p.Method, p.URL, managedFn)
			o.Hit(c.Hit{Suite: suite, Index: idx, Signature: sig,
				Demanded: fmt.Sprintf("the engine selects filter %q %v for %s %s, so the proxy must treat %q as managed",
					f.URL, f.Methods, p.Method, p.URL, p.Method+":::"+p.URL),
				Observed: fmt.Sprintf("manage_all=%v, no registered expression of %q finds it", k.ManageAll, k.Endpoints),
				Case:     mini(p)})
		}
	}
}

func monitorPolicies(o *c.Out, suite string, idx int, k *PolicyCase) {
	if !k.Accepted {
		return
	}
	urls := []string{}
	for _, d := range k.Decls {
		urls = append(urls, d.URL)
	}
	set := compileAll(k.Endpoints)
	managedFn := func(m, u string) bool { return k.ManageAll || set.anyMatch(m+":::"+u) }
	mini := func(p PProbe) PolicyCase {
		kk := *k
		kk.Probes = []PProbe{p}
		return kk
	}
	for _, e := range k.BadExprs {
		o.Hit(c.Hit{Suite: suite, Index: idx, Signature: "invalid-expression:compile",
			Demanded: "every registered managed-endpoint expression is a regular expression",
			Observed: fmt.Sprintf("%q does not compile", e), Case: mini(PProbe{})})
	}
	for _, p := range k.Probes {
		if len(p.Rem)+len(p.Diag) == 0 {
			continue
		}
		o.MonitorChecked(1)
		if p.Managed {
			continue
		}
		sig := "bypass:other"
		pat := ""
		// the endpoint the selected plugins were declared on (names are unique per case)
		for _, d := range k.Decls {
			if d.Method == p.Method && declares(d, p) {
				pat = d.URL
				cls := urlClass(d.URL, p.URL)
				if kindCollision(urls) {
					cls = 3
				}
				sig = classifyBypass(d.URL, []string{d.Method}, cls, p.Method, p.URL, managedFn)
				break
			}
		}
		o.Hit(c.Hit{Suite: suite, Index: idx, Signature: sig,
			Demanded: fmt.Sprintf("the dispatcher selects endpoint plugins (remedies %v, diagnoses %v; endpoint %q) for %s %s, so the proxy must treat it as managed",
				p.Rem, p.Diag, pat, p.Method, p.URL),
			Observed: fmt.Sprintf("manage_all=%v, no registered expression of %q finds it", k.ManageAll, k.Endpoints),
			Case:     mini(p)})
	}
}

func declares(d Decl, p PProbe) bool {
	for _, r := range d.Rem {
		for _, n := range p.Rem {
			if r.Name == n && r.Enabled {
				return true
			}
		}
	}
	for _, g := range d.Diag {
		for _, n := range p.Diag {
			if g.Name == n && g.Enabled {
				return true
			}
		}
	}
	return false
}

func literalPattern(p string) bool {
	pp := monSplit(p)
	for _, x := range pp {
		if x.v == "*" || isParamPart(x.v) || x.v == "" {
			return false
		}
	}
	return true
}

// literalWildPrefix: for a pattern of literal parts followed by a trailing
// wildcard, the text of the literal parts
func literalWildPrefix(p string) (string, bool) {
	pp := monSplit(p)
	if len(pp) < 2 || pp[len(pp)-1].v != "*" {
		return "", false
	}
	for _, x := range pp[:len(pp)-1] {
		if x.v == "*" || isParamPart(x.v) || x.v == "" {
			return "", false
		}
	}
	return joinParts(pp[:len(pp)-1]), true
}

func monitorExpr(o *c.Out, suite string, idx int, k *ExprCase) {
	mini := func(s Subj) ExprCase {
		kk := *k
		kk.Subjects = []Subj{s}
		return kk
	}
	if k.CompileErr != "" {
		o.Hit(c.Hit{Suite: suite, Index: idx, Signature: "invalid-expression:compile",
			Demanded: "the expression registered for a method and URL is a regular expression",
			Observed: fmt.Sprintf("%q: %s", k.Go, k.CompileErr), Case: mini(Subj{})})
		return
	}
	// literal parts in front of a trailing wildcard: the expression finds a subject
	// exactly when it contains "METHOD:::" followed by their text (the proxy
	// searches, and nothing is demanded of what the wildcard stands for)
	if lit, ok := literalWildPrefix(k.URL); ok {
		needle := k.Method + ":::" + lit
		if k.AnyMethod {
			needle = ":::" + lit
		}
		for _, s := range k.Subjects {
			o.MonitorChecked(1)
			has := strings.Contains(s.S, needle)
			if s.Match && !has {
				o.Hit(c.Hit{Suite: suite, Index: idx, Signature: "literal:over-match",
					Demanded: fmt.Sprintf("literal characters of %q are matched literally: a subject without %q is not found", k.URL, needle),
					Observed: fmt.Sprintf("%q finds %q", k.Go, s.S), Case: mini(s)})
			}
			if has && !s.Match {
				o.Hit(c.Hit{Suite: suite, Index: idx, Signature: "literal:under-match",
					Demanded: fmt.Sprintf("the expression for %q finds a subject containing %q", k.URL, needle),
					Observed: fmt.Sprintf("%q does not find %q", k.Go, s.S), Case: mini(s)})
			}
		}
		return
	}
	if k.AnyMethod || !literalPattern(k.URL) {
		return
	}
	want := strings.Trim(k.URL, "./")
	prefix := k.Method + ":::"
	for _, s := range k.Subjects {
		// the exact statement: found iff the subject ends with "METHOD:::URL"
		o.MonitorChecked(1)
		ends := strings.HasSuffix(s.S, prefix+want)
		if ends && !s.Match {
			o.Hit(c.Hit{Suite: suite, Index: idx, Signature: "literal:under-match",
				Demanded: fmt.Sprintf("the expression for %s %q finds its own URL", k.Method, k.URL),
				Observed: fmt.Sprintf("%q does not find %q", k.Go, s.S), Case: mini(s)})
		}
		if !ends && s.Match {
			o.Hit(c.Hit{Suite: suite, Index: idx, Signature: "literal:over-match",
				Demanded: fmt.Sprintf("literal characters of %q are matched literally: only a subject ending in %q is found", k.URL, prefix+want),
				Observed: fmt.Sprintf("%q finds %q", k.Go, s.S), Case: mini(s)})
		}
	}
}
