package main

// Property monitor, independent of the Coq model: the property restated over
// what the implementation did.
//
//   bypass:*   a (method, URL) for which the real engine selects a filter (or an
//              endpoint's remedy / diagnosis) must be managed: manage_all, or some
//              registered expression finds "METHOD:::URL" under Go's regexp.
//   literal:over-match   the expression of a URL pattern without parameter and
//              wildcard parts must not find a URL of the same length that
//              differs from the configured one.
//   invalid-expression:compile   a registered expression is not a regular expression.
//
// The classifier (root cause of a bypass) uses its own URL splitter.

import (
	"fmt"
	"regexp"
	"strings"

	c "verifharness/common"
)

type mpart struct {
	host bool
	v    string
}

func monSplit(u string) []mpart {
	u = strings.Trim(u, "./")
	segs := strings.Split(u, "/")
	out := []mpart{}
	for _, h := range strings.Split(segs[0], ".") {
		out = append(out, mpart{true, h})
	}
	for _, p := range segs[1:] {
		out = append(out, mpart{false, p})
	}
	return out
}

func isParamPart(v string) bool { return strings.HasPrefix(v, "{") && strings.HasSuffix(v, "}") }

func isWildLast(ps []mpart, i int) bool { return ps[i].v == "*" && i == len(ps)-1 }

// monMatch: the most permissive reading of "the pattern accepts the URL"
func monMatch(pp, up []mpart) bool {
	for i, p := range pp {
		if p.v == "*" {
			return i == len(pp)-1
		}
		if i >= len(up) || up[i].host != p.host {
			return false
		}
		if !isParamPart(p.v) && p.v != up[i].v {
			return false
		}
	}
	return len(up) == len(pp)
}

// emptyAtParam: some URL part standing at a parameter position is empty
func emptyAtParam(pp, up []mpart) bool {
	for i, p := range pp {
		if p.v == "*" || i >= len(up) {
			return false
		}
		if isParamPart(p.v) && up[i].v == "" {
			return true
		}
	}
	return false
}

func stepKey(p mpart) string {
	switch {
	case p.v == "*":
		return "*"
	case isParamPart(p.v):
		return "{}"
	}
	return "=" + p.v
}

// kindCollision: two patterns reach the same trie node once as a host label and
// once as a path segment (open finding F-C03c / F-C13e)
func kindCollision(urls []string) bool {
	for i := range urls {
		for j := range urls {
			a, b := monSplit(urls[i]), monSplit(urls[j])
			for n := 0; n < len(a) && n < len(b); n++ {
				if stepKey(a[n]) != stepKey(b[n]) {
					break
				}
				if a[n].host != b[n].host {
					return true
				}
			}
		}
	}
	return false
}

var defaultMethods = map[string]bool{"GET": true, "POST": true, "PUT": true, "DELETE": true, "PATCH": true}
var plainParamName = regexp.MustCompile(`^\{[a-zA-Z0-9-_]+\}$`)

const metaChars = `\+*?()|[]{}^$`

// classifyBypass names the root cause of "engine selects, proxy does not manage".
// managedFn evaluates is_managed for another spelling of the URL.
func classifyBypass(pattern string, methods []string, allURLs []string, m, u string,
	managedFn func(m, u string) bool) string {
	if kindCollision(allURLs) {
		return "bypass:host-path-collision"
	}
	if t := strings.Trim(u, "./"); t != u {
		if managedFn(m, t) {
			return "bypass:trailing-slash"
		}
		u = t
	}
	pp, up := monSplit(pattern), monSplit(u)
	if emptyAtParam(pp, up) {
		return "bypass:empty-segment"
	}
	// the verb is the cause when the same URL is managed for a default verb
	if len(methods) == 0 && !defaultMethods[m] && managedFn("GET", u) {
		return "bypass:method-default"
	}
	if strings.ContainsAny(m, metaChars+".") && len(methods) > 0 {
		return "bypass:meta-char"
	}
	for i, p := range pp {
		switch {
		case isWildLast(pp, i):
			if p.host {
				return "bypass:host-wildcard"
			}
		case isParamPart(p.v):
			if p.host {
				return "bypass:host-param"
			}
			if !plainParamName.MatchString(p.v) {
				return "bypass:param-name"
			}
		}
	}
	for i, p := range pp {
		if !isWildLast(pp, i) && !isParamPart(p.v) && strings.ContainsAny(p.v, metaChars) {
			return "bypass:meta-char"
		}
	}
	if strings.Trim(pattern, "./") != pattern {
		return "bypass:pattern-trim"
	}
	if len(methods) == 0 && !defaultMethods[m] {
		return "bypass:method-default"
	}
	return "bypass:other"
}

func monitorFlows(o *c.Out, suite string, idx int, k *FlowCase) {
	if !k.Loaded {
		return
	}
	urls := []string{}
	byID := map[int]Flow{}
	for _, f := range k.Flows {
		urls = append(urls, f.URL)
		byID[f.ID] = f
	}
	set := compileAll(k.Endpoints)
	managedFn := func(m, u string) bool { return k.ManageAll || set.anyMatch(m+":::"+u) }
	mini := func(p Probe) FlowCase {
		return FlowCase{Flows: k.Flows, Direct: k.Direct, Loaded: k.Loaded, ManageAll: k.ManageAll,
			Endpoints: k.Endpoints, BadExprs: k.BadExprs, Probes: []Probe{p}}
	}
	for _, e := range k.BadExprs {
		o.Hit(c.Hit{Suite: suite, Index: idx, Signature: "invalid-expression:compile",
			Demanded: "every registered managed-endpoint expression is a regular expression",
			Observed: fmt.Sprintf("%q does not compile", e), Case: mini(Probe{})})
	}
	for _, p := range k.Probes {
		for _, id := range p.Selected {
			o.MonitorChecked(1)
			if p.Managed {
				continue
			}
			f := byID[id]
			sig := classifyBypass(f.URL, f.Methods, urls, p.Method, p.URL, managedFn)
			o.Hit(c.Hit{Suite: suite, Index: idx, Signature: sig,
				Demanded: fmt.Sprintf("the engine selects filter %q %v for %s %s, so the proxy must treat %q as managed",
					f.URL, f.Methods, p.Method, p.URL, p.Method+":::"+p.URL),
				Observed: fmt.Sprintf("manage_all=%v, no registered expression of %q finds it", k.ManageAll, k.Endpoints),
				Case:     mini(p)})
		}
	}
}

func monitorPolicies(o *c.Out, suite string, idx int, k *PolicyCase) {
	if !k.Accepted {
		return
	}
	urls := []string{}
	for _, d := range k.Decls {
		urls = append(urls, d.URL)
	}
	set := compileAll(k.Endpoints)
	managedFn := func(m, u string) bool { return k.ManageAll || set.anyMatch(m+":::"+u) }
	mini := func(p PProbe) PolicyCase {
		kk := *k
		kk.Probes = []PProbe{p}
		return kk
	}
	for _, e := range k.BadExprs {
		o.Hit(c.Hit{Suite: suite, Index: idx, Signature: "invalid-expression:compile",
			Demanded: "every registered managed-endpoint expression is a regular expression",
			Observed: fmt.Sprintf("%q does not compile", e), Case: mini(PProbe{})})
	}
	for _, p := range k.Probes {
		if len(p.Rem)+len(p.Diag) == 0 {
			continue
		}
		o.MonitorChecked(1)
		if p.Managed {
			continue
		}
		sig := "bypass:other"
		pat := ""
		// the endpoint the selected plugins were declared on (names are unique per case)
		for _, d := range k.Decls {
			if d.Method == p.Method && declares(d, p) {
				pat = d.URL
				sig = classifyBypass(d.URL, []string{d.Method}, urls, p.Method, p.URL, managedFn)
				break
			}
		}
		o.Hit(c.Hit{Suite: suite, Index: idx, Signature: sig,
			Demanded: fmt.Sprintf("the dispatcher selects endpoint plugins (remedies %v, diagnoses %v; endpoint %q) for %s %s, so the proxy must treat it as managed",
				p.Rem, p.Diag, pat, p.Method, p.URL),
			Observed: fmt.Sprintf("manage_all=%v, no registered expression of %q finds it", k.ManageAll, k.Endpoints),
			Case:     mini(p)})
	}
}

func declares(d Decl, p PProbe) bool {
	for _, r := range d.Rem {
		for _, n := range p.Rem {
			if r.Name == n && r.Enabled {
				return true
			}
		}
	}
	for _, g := range d.Diag {
		for _, n := range p.Diag {
			if g.Name == n && g.Enabled {
				return true
			}
		}
	}
	return false
}

func literalPattern(p string) bool {
	pp := monSplit(p)
	for _, x := range pp {
		if x.v == "*" || isParamPart(x.v) || x.v == "" {
			return false
		}
	}
	return true
}

func monitorExpr(o *c.Out, suite string, idx int, k *ExprCase) {
	mini := func(s Subj) ExprCase {
		kk := *k
		kk.Subjects = []Subj{s}
		return kk
	}
	if k.CompileErr != "" {
		o.Hit(c.Hit{Suite: suite, Index: idx, Signature: "invalid-expression:compile",
			Demanded: "the expression registered for a method and URL is a regular expression",
			Observed: fmt.Sprintf("%q: %s", k.Go, k.CompileErr), Case: mini(Subj{})})
		return
	}
	if k.AnyMethod || !literalPattern(k.URL) {
		return
	}
	want := strings.Trim(k.URL, "./")
	prefix := k.Method + ":::"
	for _, s := range k.Subjects {
		if !strings.HasPrefix(s.S, prefix) {
			continue
		}
		u := s.S[len(prefix):]
		if len(u) != len(want) {
			continue
		}
		o.MonitorChecked(1)
		if u == want {
			if !s.Match {
				o.Hit(c.Hit{Suite: suite, Index: idx, Signature: "literal:under-match",
					Demanded: fmt.Sprintf("the expression for %s %q finds its own URL", k.Method, k.URL),
					Observed: fmt.Sprintf("%q does not find %q", k.Go, s.S), Case: mini(s)})
			}
			continue
		}
		if s.Match {
			o.Hit(c.Hit{Suite: suite, Index: idx, Signature: "literal:over-match",
				Demanded: fmt.Sprintf("literal characters of %q are matched literally: a URL of the same length that differs is not found", k.URL),
				Observed: fmt.Sprintf("%q finds %q", k.Go, s.S), Case: mini(s)})
		}
	}
}
