package main

// Histories of the suite "reload": load configuration 1; reload configuration 2
// (same / overlapping / disjoint / superset / subset expression sets; a catch-all
// filter or an enabled global plugin appearing and disappearing => manage_all);
// mock-clock advances around staleVersionTTL (TTL-1ns, TTL, beyond) so that the
// delayed un-management fires before / between / after later reloads; reloads in
// quick succession (A, B, A inside one TTL); a load the engine refuses; policies
// mode through UpdatePoliciesData, delayed and immediate (fail-safe reverts).

import (
	"fmt"

	c "verifharness/common"
)

const sReload = "reload"

var theO *c.Out

var reloadUniverse = []string{
	"a.com/x", "a.com/x/*", "a.com/{p}", "a.com/{p}/y", "a.com/x/y", "b.org/x", "b.org/*", "{p}.org/x",
	"a.com", "a.com/x+y", "b.org/{p}/*",
}
var reloadMethods = [][]string{nil, {"GET"}, {"POST", "GET"}, {"HEAD"}, {"GET"}}

// what the processors of a flow require from the proxy (Flow.Req)
var reloadReqs = []string{"", "body", "capture", "both", ""}

func otherReq(r *c.Rng, cur string) string {
	for {
		if q := c.Pick(r, reloadReqs); q != cur {
			return q
		}
	}
}

func adv(d int64) RStep { return RStep{Op: "advance", AdvanceNs: d} }

const (
	nsSec = int64(1e9)
	nsTTL = 30 * nsSec
)

func loadStep(cf *RCfg, imm bool) RStep { return RStep{Op: "load", Cfg: cf, Immediate: imm} }

func randFlows(r *c.Rng, n int, avoid map[string]bool) *RCfg {
	cf := &RCfg{}
	seen := map[string]bool{}
	for tries := 0; len(cf.Flows) < n && tries < 100; tries++ {
		p := c.Pick(r, reloadUniverse)
		if seen[p] || avoid[p] {
			continue
		}
		seen[p] = true
		cf.Flows = append(cf.Flows, Flow{ID: len(cf.Flows), URL: p, Methods: reloadMethods[r.Intn(len(reloadMethods))],
			Req: c.Pick(r, reloadReqs)})
	}
	return cf
}

func randDecls(r *c.Rng, n int, avoid map[string]bool) *RCfg {
	cf := &RCfg{}
	seen := map[string]bool{}
	for tries := 0; len(cf.Decls) < n && tries < 100; tries++ {
		p := c.Pick(r, reloadUniverse)
		m := c.Pick(r, []string{"GET", "POST"})
		if seen[m+p] || avoid[p] {
			continue
		}
		seen[m+p] = true
		rem, diag := plugsFor(r.Intn(5))
		for j := range rem {
			rem[j].Name = 10*(len(cf.Decls)+1) + rem[j].Name
		}
		for j := range diag {
			diag[j].Name = 10*(len(cf.Decls)+1) + diag[j].Name
		}
		cf.Decls = append(cf.Decls, Decl{Method: m, URL: p, Rem: rem, Diag: diag})
	}
	return cf
}

func renumber(cf *RCfg) *RCfg {
	for i := range cf.Flows {
		cf.Flows[i].ID = i
	}
	return cf
}

func copyCfg(cf *RCfg) *RCfg {
	out := &RCfg{GRem: append([]bool{}, cf.GRem...), GDiag: append([]bool{}, cf.GDiag...)}
	for _, f := range cf.Flows {
		out.Flows = append(out.Flows, Flow{ID: f.ID, URL: f.URL, Methods: append([]string{}, f.Methods...), Req: f.Req})
	}
	for _, d := range cf.Decls {
		out.Decls = append(out.Decls, Decl{Method: d.Method, URL: d.URL,
			Rem: append([]Plug{}, d.Rem...), Diag: append([]Plug{}, d.Diag...)})
	}
	if len(out.GRem) == 0 {
		out.GRem = nil
	}
	if len(out.GDiag) == 0 {
		out.GDiag = nil
	}
	return out
}

func patternsOf(cf *RCfg) map[string]bool {
	m := map[string]bool{}
	for _, f := range cf.Flows {
		m[f.URL] = true
	}
	for _, d := range cf.Decls {
		m[d.URL] = true
	}
	return m
}

// variant of A for the given relation
func related(r *c.Rng, a *RCfg, policies bool, rel string) *RCfg {
	fresh := func(n int, avoid map[string]bool) *RCfg {
		if policies {
			return randDecls(r, n, avoid)
		}
		return randFlows(r, n, avoid)
	}
	b := copyCfg(a)
	switch rel {
	case "same":
	case "disjoint":
		b = fresh(r.Range(1, 3), patternsOf(a))
	case "superset":
		x := fresh(1, patternsOf(a))
		b.Flows, b.Decls = append(b.Flows, x.Flows...), append(b.Decls, x.Decls...)
	case "subset":
		if policies && len(b.Decls) > 0 {
			b.Decls = b.Decls[1:]
		} else if len(b.Flows) > 0 {
			b.Flows = b.Flows[1:]
		}
	case "overlap":
		x := fresh(1, patternsOf(a))
		if policies {
			if len(b.Decls) > 0 {
				b.Decls = b.Decls[:len(b.Decls)-1]
			}
			b.Decls = append(b.Decls, x.Decls...)
		} else {
			if len(b.Flows) > 0 {
				b.Flows = b.Flows[:len(b.Flows)-1]
			}
			b.Flows = append(b.Flows, x.Flows...)
		}
	case "methods": // same URLs, other method lists: other expressions
		for i := range b.Flows {
			b.Flows[i].Methods = reloadMethods[(i+1+r.Intn(3))%len(reloadMethods)]
		}
		for i := range b.Decls {
			if b.Decls[i].Method == "GET" {
				b.Decls[i].Method = "POST"
			} else {
				b.Decls[i].Method = "GET"
			}
		}
	case "requirements", "req-overlap":
		// the SAME filters (URL, methods: the same expressions); only what the
		// processors of the flows require from the proxy changes (body of the
		// message / request capture: dropped, added, exchanged). Policies: the
		// plugins of every endpoint are exchanged (remedy <-> diagnosis, other
		// names), at least one stays enabled.
		for i := range b.Flows {
			switch {
			case rel == "requirements" && i == 0 && b.Flows[i].Req != "" && r.Bool():
				b.Flows[i].Req = "" // the seeded shape: the flow stops needing anything
			case rel == "requirements" || i == 0 || r.Bool():
				b.Flows[i].Req = otherReq(r, b.Flows[i].Req)
			}
		}
		for i := range b.Decls {
			d := &b.Decls[i]
			d.Rem, d.Diag = nil, nil
			base := 10*(i+1) + 5
			switch r.Intn(3) {
			case 0:
				d.Rem = []Plug{{Name: base, Enabled: true}}
			case 1:
				d.Diag = []Plug{{Name: base, Enabled: true}}
			default:
				d.Rem = []Plug{{Name: base, Enabled: r.Bool()}}
				d.Diag = []Plug{{Name: base + 1, Enabled: true}}
			}
		}
		if rel == "req-overlap" { // plus one filter leaving and one arriving
			x := fresh(1, patternsOf(a))
			if policies {
				if len(b.Decls) > 1 {
					b.Decls = b.Decls[:len(b.Decls)-1]
				}
				b.Decls = append(b.Decls, x.Decls...)
			} else {
				if len(b.Flows) > 1 {
					b.Flows = b.Flows[:len(b.Flows)-1]
				}
				b.Flows = append(b.Flows, x.Flows...)
			}
		}
	case "all-on": // a catch-all filter / an enabled global plugin appears
		if policies {
			if r.Bool() {
				b.GRem = []bool{true}
			} else {
				b.GDiag = []bool{false, true}
			}
		} else {
			b.Flows = append(b.Flows, Flow{URL: c.Pick(r, []string{"*", ".*", "*"}), Methods: reloadMethods[r.Intn(2)],
				Req: c.Pick(r, reloadReqs)})
		}
	case "diagnosis-free": // RevertToDiagnosisFree: the same configuration without diagnoses
		b.GDiag = nil
		for i := range b.Decls {
			b.Decls[i].Diag = nil
		}
	case "disabled": // every endpoint plugin switched off: nothing to register
		for i := range b.Decls {
			for j := range b.Decls[i].Rem {
				b.Decls[i].Rem[j].Enabled = false
			}
			for j := range b.Decls[i].Diag {
				b.Decls[i].Diag[j].Enabled = false
			}
		}
	}
	return renumber(b)
}

func reloadHistories(r *c.Rng, policies bool, rounds int) []*ReloadCase {
	out := []*ReloadCase{}
	base := func() *RCfg {
		if policies {
			return randDecls(r, r.Range(1, 3), nil)
		}
		return randFlows(r, r.Range(1, 3), nil)
	}
	rels := []string{"same", "overlap", "disjoint", "superset", "subset", "methods", "requirements", "req-overlap"}
	if policies {
		rels = append(rels, "diagnosis-free", "disabled")
	}
	add := func(label string, steps ...RStep) {
		steps = append(steps, adv(2*nsTTL+nsSec))
		out = append(out, &ReloadCase{Policies: policies, Label: label, Steps: steps})
	}
	imm := func() bool { return policies && r.Chance(1, 3) }
	for n := 0; n < rounds; n++ {
		for _, rel := range rels {
			a := base()
			b := related(r, a, policies, rel)
			i1 := imm() || (rel == "diagnosis-free")
			// reload, let the delayed un-management fire, reload again
			add("reload:"+rel, loadStep(a, false), loadStep(b, i1), adv(nsTTL+nsSec), loadStep(copyCfg(b), imm()), adv(nsTTL))
			// and back to the first configuration
			add("back:"+rel, loadStep(a, false), loadStep(b, i1), adv(nsTTL+nsSec), loadStep(copyCfg(a), imm()), adv(nsTTL+1))
			// the TTL boundary: not yet at TTL-1ns, fired at TTL
			add("edge:"+rel, loadStep(a, false), adv(7*nsSec), loadStep(b, false), adv(nsTTL-1), adv(1), loadStep(copyCfg(a), false), adv(nsTTL-1), adv(1))
			// quick succession: A, B, A inside one TTL — the un-management computed by
			// the first reload fires after the second one registered the same expressions again
			add("quick:"+rel, loadStep(a, false), loadStep(b, false), loadStep(copyCfg(a), false), adv(nsTTL))
			add("quick-spread:"+rel, loadStep(a, false), adv(10*nsSec), loadStep(b, i1), adv(10*nsSec), loadStep(copyCfg(a), false),
				adv(15*nsSec), adv(10*nsSec), adv(10*nsSec))
		}
		// manage_all appearing and disappearing
		a := base()
		all := related(r, a, policies, "all-on")
		add("all:on-off", loadStep(a, false), loadStep(all, false), adv(nsTTL+nsSec), loadStep(copyCfg(a), imm()), adv(nsTTL+nsSec))
		add("all:first", loadStep(all, false), loadStep(copyCfg(a), imm()), adv(nsTTL), loadStep(related(r, a, policies, "subset"), false), adv(nsTTL))
		add("all:quick", loadStep(all, false), loadStep(copyCfg(a), false), loadStep(copyCfg(all), false), adv(nsTTL), loadStep(copyCfg(a), false), adv(nsTTL))
		add("all:other", loadStep(all, false), loadStep(related(r, all, policies, "disjoint"), imm()), adv(nsTTL+nsSec))
		// a configuration the engine refuses (wildcard in the middle): nothing changes
		if !policies {
			bad := copyCfg(a)
			bad.Flows = append(bad.Flows, Flow{ID: len(bad.Flows), URL: "h.com/x/*/y"})
			add("refused", loadStep(a, false), loadStep(bad, false), adv(nsTTL), loadStep(related(r, a, policies, "overlap"), false), adv(nsTTL))
			add("empty", loadStep(a, false), loadStep(&RCfg{}, false), adv(nsTTL), loadStep(copyCfg(a), false), adv(nsTTL))
		}
		// random walk
		pool := []*RCfg{a, all, related(r, a, policies, "overlap"), related(r, a, policies, "disjoint"), related(r, a, policies, "subset"),
			related(r, a, policies, "requirements"), related(r, a, policies, "req-overlap")}
		steps := []RStep{loadStep(copyCfg(c.Pick(r, pool)), false)}
		for m := r.Range(4, 9); m > 0; m-- {
			if r.Chance(3, 5) {
				steps = append(steps, loadStep(copyCfg(c.Pick(r, pool)), imm()))
			} else {
				steps = append(steps, adv(c.Pick(r, []int64{5 * nsSec, 12 * nsSec, nsTTL - 1, nsTTL, nsTTL + 1, 2 * nsTTL, 1})))
			}
		}
		add("random", steps...)
	}
	return out
}

// ---------------------------------------------------------------- Coq printing

func coqRCfg(policies bool, cf *RCfg, imm bool) string {
	if !policies {
		return "(R2LoadF " + c.MapList(cf.Flows, func(f Flow) string {
			return c.Tuple(c.Tuple(c.Z(int64(f.ID)), str(f.URL), strs(f.Methods)), c.Tuple(c.B(f.needsBody()), c.B(f.needsCapture())))
		}) + ")"
	}
	dl := c.MapList(cf.Decls, func(d Decl) string {
		return c.Tuple(str(d.Method), str(d.URL), coqPlugs(d.Rem), coqPlugs(d.Diag))
	})
	return "(R2LoadP " + dl + " " + c.Tuple(c.MapList(cf.GRem, c.B), c.MapList(cf.GDiag, c.B)) + " " + c.B(imm) + ")"
}

func coqReloadCase(k *ReloadCase) string {
	return c.MapList(k.Steps, func(s RStep) string {
		op := ""
		if s.Op == "load" {
			op = coqRCfg(k.Policies, s.Cfg, s.Immediate)
		} else {
			op = "(R2Advance " + c.Z(s.AdvanceNs) + ")"
		}
		return c.Tuple(op, c.Tuple(c.B(s.Loaded), c.B(s.All), strs(s.Managed)))
	})
}

func (r *run) reloadCase(k *ReloadCase) {
	o := r.o
	hits := execReload(k)
	loads, fired := 0, false
	for i, s := range k.Steps {
		if s.Op == "load" && s.Loaded {
			loads++
		}
		if i > 0 && s.Op == "advance" && len(s.Managed) < len(k.Steps[i-1].Managed) {
			fired = true
		}
	}
	if n := requirementOnlyReloads(k); n > 0 {
		o.CountN("reload:requirement-only-reloads", n)
	}
	idx := o.Case(sReload, coqReloadCase(k), k, loads >= 2 && fired)
	mode := "flows"
	if k.Policies {
		mode = "policies"
	}
	o.Count("reload:" + mode + ":" + k.Label)
	o.CountN("reload:steps", len(k.Steps))
	for _, s := range k.Steps {
		for _, ref := range s.Refused {
			o.Hit(c.Hit{Suite: sReload, Index: idx, Signature: "management-api:refused",
				Demanded: "every management call the engine makes is one HAProxy's manage_endpoints frontend accepts",
				Observed: ref, Case: k})
			break
		}
		if len(s.Refused) > 0 {
			break
		}
	}
	seen := map[string]bool{}
	for _, h := range hits {
		if seen[h.sig] {
			continue
		}
		seen[h.sig] = true
		mini := *k
		mini.Steps = append([]RStep{}, k.Steps[:h.step+1]...)
		o.Hit(c.Hit{Suite: sReload, Index: idx, Signature: h.sig, Demanded: h.demanded, Observed: h.obs, Case: mini})
	}
}

// requirementOnlyReloads counts the successful reloads (flows mode) after which a
// filter of the previous configuration is kept with the same expressions but
// other requirements (what the generator intends with "requirements").
func requirementOnlyReloads(k *ReloadCase) int {
	var prev *RCfg
	n := 0
	for _, s := range k.Steps {
		if s.Op != "load" || !s.Loaded {
			continue
		}
		if prev != nil {
			changed := false
			for _, f := range s.Cfg.Flows {
				for _, g := range prev.Flows {
					if f.URL == g.URL && fmt.Sprint(f.Methods) == fmt.Sprint(g.Methods) && f.Req != g.Req {
						changed = true
					}
				}
			}
			if changed {
				n++
			}
		}
		prev = s.Cfg
	}
	return n
}

func generateReload(r *run) {
	o := r.o
	rg := o.Rng.Fork(7)
	rounds := o.Scale(2, 12, 6)
	for _, k := range reloadHistories(rg, false, rounds) {
		r.reloadCase(k)
	}
	for _, k := range reloadHistories(rg, true, rounds) {
		r.reloadCase(k)
	}
	_ = fmt.Sprint
}
