// C14 harness: the managed-endpoint expressions the engine registers with the
// proxy vs what the engine itself matches.
//
// Suites (each case is executed on the implementation, monitored, and handed to
// the Coq model C14.Model):
//   expr      config.HaproxyEndpointFormat(method, url) (and the any-method
//             expression the engine registers for a filter without methods):
//             the Go string must equal print(format ..) byte for byte, and Go's
//             regexp.MatchString on that string must equal the model's
//             re_search on every subject (validates the regex semantics for the
//             emitted fragment) — both for the model expression and for the Go
//             string read back by the model's independent reader (Reader.parse);
//             subjects: derived from the pattern, plus random ones
//   flows     a flow set loaded by the production loader: manage_all flag and the
//             registered expressions from the real buildHAProxyFlowsEndpointsRequest,
//             the engine's selection per (method, URL) from the stream's own filter
//             tree, is_managed evaluated with Go regexp; per selected filter the
//             class the monitor's classifier gives (pattern, URL) — compared with
//             the side conditions of the theorems (kc_at, url_ok_exact)
//   policies  the same for policies.yaml endpoints (BuildHAProxyEndpointsRequest,
//             BuildEndpointPolicyTree + the dispatcher's selection)
//   reload    configuration HISTORIES (loads, reloads, mock-clock advances) driven
//             through the real initializeStreams / UpdatePoliciesData against an
//             in-process HAProxy management API; the proxy's endpoints.map and
//             manage_all flag after every step (reload.go, monitor_reload.go)
package main

import (
	"fmt"
	"os"

	"github.com/rs/zerolog"

	c "verifharness/common"
)

const (
	sExpr     = "expr"
	sFlows    = "flows"
	sPolicies = "policies"
)

const headerReload = "From Coq Require Import String.\nFrom Verif Require Import C14.Model C14.Reload C14.ReloadReq.\nOpen Scope string_scope."

const header = "From Coq Require Import String.\nFrom Verif Require Import C14.Model.\nOpen Scope string_scope."

type run struct{ o *c.Out }

func (r *run) flowCase(k *FlowCase, label string) {
	o := r.o
	execFlows(k)
	probeClasses(k)
	nontrivial := false
	for _, p := range k.Probes {
		if len(p.Selected) > 0 {
			nontrivial = true
		}
	}
	idx := o.Case(sFlows, coqFlowCase(k), k, nontrivial)
	o.Count("flows:" + label)
	if !k.Loaded {
		o.Count("flows:load-error")
	}
	o.CountN("flows:probes", len(k.Probes))
	monitorFlows(o, sFlows, idx, k)
}

func (r *run) policyCase(k *PolicyCase, label string) {
	o := r.o
	execPolicies(k)
	nontrivial := false
	for _, p := range k.Probes {
		if len(p.Rem)+len(p.Diag) > 0 {
			nontrivial = true
		}
	}
	idx := o.Case(sPolicies, coqPolicyCase(k), k, nontrivial)
	o.Count("policies:" + label)
	if !k.Accepted {
		o.Count("policies:rejected")
	}
	o.CountN("policies:probes", len(k.Probes))
	monitorPolicies(o, sPolicies, idx, k)
}

func (r *run) exprCase(k *ExprCase, label string) {
	o := r.o
	execExpr(k)
	if k.Skip {
		o.Count("expr:any-method-not-a-single-expression")
		return
	}
	nontrivial := false
	for _, s := range k.Subjects {
		if s.Match {
			nontrivial = true
		}
	}
	idx := o.Case(sExpr, coqExprCase(k), k, nontrivial)
	o.Count("expr:" + label)
	o.CountN("expr:subjects", len(k.Subjects))
	monitorExpr(o, sExpr, idx, k)
}

func plugsFor(i int) ([]Plug, []Plug) {
	switch i % 5 {
	case 0:
		return []Plug{{1, true}}, nil
	case 1:
		return nil, []Plug{{2, true}}
	case 2:
		return []Plug{{1, false}, {3, true}}, []Plug{{2, false}}
	case 3:
		return []Plug{{1, false}}, nil // nothing enabled: not registered, nothing selected
	}
	return []Plug{{1, true}}, []Plug{{2, true}}
}

func pprobes(ps []Probe) []PProbe {
	out := []PProbe{}
	for _, p := range ps {
		out = append(out, PProbe{Method: p.Method, URL: p.URL})
	}
	return out
}

func generate(r *run) {
	o := r.o
	wide := o.Thorough()
	pats := basePatterns()
	nRandom := o.Scale(250, 1800, 1500)
	rg := o.Rng.Fork(1)
	for i := 0; i < nRandom; i++ {
		pats = append(pats, randomPattern(rg))
	}
	seen := map[string]bool{}
	uniq := []string{}
	for _, p := range pats {
		if !seen[p] {
			seen[p] = true
			uniq = append(uniq, p)
		}
	}
	pats = uniq

	// ---- single flow per configuration: every pattern, rotating method lists
	for i, p := range pats {
		lists := [][]string{methodLists[i%len(methodLists)]}
		if i%3 == 0 || wide {
			lists = append(lists, methodLists[(i+1)%len(methodLists)])
		}
		for _, ms := range lists {
			k := &FlowCase{Flows: []Flow{{ID: 0, URL: p, Methods: ms}}, Probes: probesFor(p, ms, wide)}
			r.flowCase(k, "single")
		}
	}
	// ---- several flows (collision-free universe, all load orders equivalent)
	rm := o.Rng.Fork(2)
	for n := 0; n < o.Scale(60, 600, 300); n++ {
		cnt := rm.Range(2, 3)
		k := &FlowCase{}
		seenP := map[string]bool{}
		for len(k.Flows) < cnt {
			p := c.Pick(rm, safeUniverse)
			if seenP[p] {
				continue
			}
			seenP[p] = true
			ms := methodLists[rm.Intn(len(methodLists))]
			k.Flows = append(k.Flows, Flow{ID: len(k.Flows), URL: p, Methods: ms})
		}
		for _, f := range k.Flows {
			ps := probesFor(f.URL, f.Methods, false)
			if len(ps) > 14 {
				ps = ps[:14]
			}
			k.Probes = append(k.Probes, ps...)
		}
		r.flowCase(k, "multi")
	}
	// ---- host-label / path-segment collisions (known finding of C03): verdicts from
	//      a FilterTree filled in the listed order
	for _, set := range collisionSets {
		k := &FlowCase{Direct: true}
		for i, p := range set {
			k.Flows = append(k.Flows, Flow{ID: i, URL: p})
		}
		for _, p := range set {
			for _, u := range []string{instance(monSplit(p), 0)} {
				k.Probes = append(k.Probes, Probe{Method: "GET", URL: u})
			}
			if j := len(p); j > 0 {
				sw := []byte(instance(monSplit(p), 0))
				for x := range sw {
					if sw[x] == '/' {
						sw[x] = '.'
						break
					} else if sw[x] == '.' {
						sw[x] = '/'
						break
					}
				}
				k.Probes = append(k.Probes, Probe{Method: "GET", URL: string(sw)})
			}
		}
		k.Probes = append(k.Probes, Probe{Method: "GET", URL: "a.b/d"}, Probe{Method: "GET", URL: "h.x/y"})
		r.flowCase(k, "collision")
	}

	// ---- single expressions: byte-for-byte + regex semantics
	rs := o.Rng.Fork(4)
	for i, p := range pats {
		ms := []string{"GET"}
		if l := methodLists[i%len(methodLists)]; len(l) > 0 {
			ms = []string{l[0]}
		}
		if i%7 == 0 {
			ms = append(ms, "A+B")
		}
		for _, m := range ms {
			r.exprCase(&ExprCase{Method: m, URL: p, Subjects: subjectsFor(rs, m, p)}, "method")
		}
		if i%4 == 0 || (wide && i%2 == 0) {
			r.exprCase(&ExprCase{AnyMethod: true, URL: p, Subjects: subjectsFor(rs, "HEAD", p)}, "any-method")
		}
	}

	// ---- policies
	np := 0
	for i, p := range pats {
		if !(i%3 == 0 || wide) {
			continue
		}
		m := []string{"GET", "POST", "get", "A+B"}[np%4]
		rem, diag := plugsFor(np)
		k := &PolicyCase{Decls: []Decl{{Method: m, URL: p, Rem: rem, Diag: diag}},
			Probes: pprobes(probesFor(p, []string{m}, false))}
		if np%11 == 0 {
			k.GRem = []bool{false}
			k.GDiag = []bool{np%22 == 0}
		}
		np++
		r.policyCase(k, "single")
	}
	rp := o.Rng.Fork(3)
	for n := 0; n < o.Scale(40, 400, 200); n++ {
		cnt := rp.Range(2, 3)
		k := &PolicyCase{}
		for len(k.Decls) < cnt {
			p := c.Pick(rp, safeUniverse)
			m := c.Pick(rp, []string{"GET", "POST"})
			rem, diag := plugsFor(rp.Intn(5))
			for j := range rem {
				rem[j].Name = 10*len(k.Decls) + rem[j].Name
			}
			for j := range diag {
				diag[j].Name = 10*len(k.Decls) + diag[j].Name
			}
			k.Decls = append(k.Decls, Decl{Method: m, URL: p, Rem: rem, Diag: diag})
		}
		for _, d := range k.Decls {
			ps := probesFor(d.URL, []string{d.Method}, false)
			if len(ps) > 12 {
				ps = ps[:12]
			}
			k.Probes = append(k.Probes, pprobes(ps)...)
		}
		r.policyCase(k, "multi")
	}
}

func main() {
	zerolog.SetGlobalLevel(zerolog.Disabled)
	o := c.NewOut("C14")
	o.ShardSize = 60
	o.DeclareSuite(sExpr, header, "case_expr", "run_expr")
	o.DeclareSuite(sFlows, header, "case_flows", "run_flows")
	o.DeclareSuite(sPolicies, header, "case_policies", "run_policies")
	reloadFn := "run_reload2"
	if os.Getenv("VERIF_C14_SAMENESS") == "expr+requirements" {
		// development aid: compare with the model of "registrations compared by
		// expression AND requirements" (seeded change C14-9) instead of the code's
		reloadFn = "(run_reload2_with SameExprReq)"
	}
	o.DeclareSuite(sReload, headerReload, "case_reload2", reloadFn)
	theO = o
	o.Rule("URL patterns: every ASCII punctuation character inside a path segment / alone as a segment / inside a host label, " +
		"a list of special segments ({id}, {user.id}, {}, {a}{b}, {id}x, unbalanced braces, regex operators, ':::') in path and host " +
		"position, trailing wildcards in path and host position, untrimmed and malformed spellings, the four patterns of the " +
		"repository's test, random combinations; x method lists (none, GET, several, lower case, M-SEARCH, A+B, G.T); x request " +
		"URLs derived from the pattern (instances with several parameter values, wildcard tails, trailing/leading '/' and '.', extra / " +
		"missing segments, empty segment at a parameter, extra host label, host/path switched, case variants, single-character " +
		"mutations at every regex-special position, strings an unquoted regex would accept) x verbs (listed, other, lower case). " +
		"A flows/policies case = one configuration loaded by the real loader with all its probes; an expr case = one expression with " +
		"all its subjects; non-trivial = some probe selects a filter / some subject is matched. " +
		"Suite reload: a case = one configuration history (flows mode: initializeStreams; policies mode: UpdatePoliciesData delayed / " +
		"immediate) of 4-10 steps over configurations related as same / overlapping / disjoint / superset / subset / other methods / " +
		"same filters with other REQUIREMENTS of their processors (body of the message: DataSanitation; request capture: " +
		"Retry; dropped / added / exchanged; alone or together with a filter leaving and one arriving; policies: plugins exchanged) / " +
		"diagnosis-free / all plugins disabled / catch-all filter or global plugin on and off / refused load / empty, with mock-clock " +
		"advances at staleVersionTTL-1ns, TTL, TTL+1ns and beyond, reloads in quick succession (A,B,A inside one TTL) and a random walk; " +
		"non-trivial = at least two loads succeeded and some delayed un-management removed an expression from the proxy's map")
	r := &run{o: o}
	if o.Replay != "" {
		replay(r)
		o.Finish()
		return
	}
	only := os.Getenv("VERIF_C14_ONLY") // development aid: run one part only
	if only != "reload" {
		generate(r)
	}
	if only == "" || only == "reload" {
		generateReload(r)
	}
	o.Finish()
}

func replay(r *run) {
	var probe struct {
		Flows []Flow  `json:"flows"`
		Decls []Decl  `json:"declarations"`
		Steps []RStep `json:"steps"`
	}
	suite, _ := r.o.ReplayCase(&probe)
	switch {
	case suite == sReload || len(probe.Steps) > 0:
		var k ReloadCase
		r.o.ReplayCase(&k)
		r.reloadCase(&k)
	case suite == sFlows || len(probe.Flows) > 0:
		var k FlowCase
		r.o.ReplayCase(&k)
		r.flowCase(&k, "replay")
	case suite == sPolicies || len(probe.Decls) > 0:
		var k PolicyCase
		r.o.ReplayCase(&k)
		r.policyCase(&k, "replay")
	default:
		var k ExprCase
		r.o.ReplayCase(&k)
		r.exprCase(&k, "replay")
	}
	fmt.Println("replayed", suite)
}
