package main

import (
	"fmt"
	"os"
	"path/filepath"
	"time"

	"lunar/engine/routing"
	"lunar/engine/streams"
	"lunar/engine/utils/environment"
	context_manager "lunar/toolkit-core/context-manager"

	"github.com/rs/zerolog"
)

func main() {
	zerolog.SetGlobalLevel(zerolog.Disabled)
	environment.SetProcessorsDirectory(filepath.Join(os.Getenv("VERIF_REPO"),
		"proxy/src/services/lunar-engine/streams/processors/registry"))
	context_manager.Get().SetMockClock()
	base := "/tmp/c14probe/cfg"
	os.RemoveAll(base)
	for _, d := range []string{"flows", "quotas", "pp"} {
		os.MkdirAll(filepath.Join(base, d), 0o755)
	}
	dir := `    - from:
        stream:
          name: globalStream
          at: start
      to:
        processor:
          name: probe
    - from:
        processor:
          name: probe
          condition: hit
      to:
        stream:
          name: globalStream
          at: end
    - from:
        processor:
          name: probe
          condition: miss
      to:
        stream:
          name: globalStream
          at: end
`
	y := "name: f00\nfilter:\n  url: \"a.com/x/{id}\"\nprocessors:\n  probe:\n    processor: Filter\n    parameters:\n      - key: header\n        value: x-never=1\nflow:\n  request:\n" + dir + "  response:\n" + dir
	os.WriteFile(filepath.Join(base, "flows", "f00.yaml"), []byte(y), 0o644)
	environment.SetStreamsFlowsDirectory(filepath.Join(base, "flows"))
	environment.SetQuotasDirectory(filepath.Join(base, "quotas"))
	environment.SetPathParamsDirectory(filepath.Join(base, "pp"))
	t := time.Now()
	for i := 0; i < 20; i++ {
		st, err := streams.NewStream()
		if err != nil {
			panic(err)
		}
		if err := st.Initialize(); err != nil {
			panic(err)
		}
		r := routing.VerifC14FlowsEndpointsRequest(st)
		if i == 0 {
			for _, e := range r.ManagedEndpoints {
				fmt.Println(e.Endpoint)
			}
		}
	}
	fmt.Println(time.Since(t) / 20)
}
