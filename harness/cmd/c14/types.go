package main

import (
	"strings"

	c "verifharness/common"
)

// Flow is one user flow: its filter URL and method list (empty = none listed).
type Flow struct {
	ID      int      `json:"id"`
	URL     string   `json:"url"`
	Methods []string `json:"methods,omitempty"`
	// what the flow's processors REQUIRE from the proxy (suite reload only):
	// "" nothing, "body" the body of the message (a DataSanitation
	// processor), "capture" request capture (a Retry processor), "both"
	Req string `json:"requires,omitempty"`
}

func (f Flow) needsBody() bool    { return f.Req == "body" || f.Req == "both" }
func (f Flow) needsCapture() bool { return f.Req == "capture" || f.Req == "both" }

// Probe is one (method, URL) transaction and what the implementation did.
type Probe struct {
	Method   string `json:"method"`
	URL      string `json:"url"`
	Selected []int  `json:"selected"` // sorted ids of the flows the engine selects
	Managed  bool   `json:"managed"`  // is_managed over the registered expressions (Go regexp)
	// per selected id: the monitor's class for (pattern of that flow, URL):
	// 3 host/path collision on the look-up path, 1 leading/trailing spelling,
	// 2 empty part at a parameter, 0 none (compared with the model's side conditions)
	Classes []int `json:"classes"`
}

type FlowCase struct {
	Flows     []Flow   `json:"flows"`
	Direct    bool     `json:"direct_tree,omitempty"` // verdicts from a FilterTree filled in the listed order
	Loaded    bool     `json:"loaded"`
	Err       string   `json:"load_error,omitempty"`
	ManageAll bool     `json:"manage_all"`
	Endpoints []string `json:"endpoints"`
	BadExprs  []string `json:"uncompilable,omitempty"`
	Probes    []Probe  `json:"probes"`
}

type Plug struct {
	Name    int  `json:"name"`
	Enabled bool `json:"enabled"`
}
type Decl struct {
	Method string `json:"method"`
	URL    string `json:"url"`
	Rem    []Plug `json:"remedies"`
	Diag   []Plug `json:"diagnoses"`
}
type PProbe struct {
	Method  string `json:"method"`
	URL     string `json:"url"`
	Rem     []int  `json:"remedies"`
	Diag    []int  `json:"diagnoses"`
	Managed bool   `json:"managed"`
}
type PolicyCase struct {
	Decls     []Decl   `json:"declarations"`
	GRem      []bool   `json:"global_remedies_enabled"`
	GDiag     []bool   `json:"global_diagnoses_enabled"`
	Accepted  bool     `json:"accepted"`
	Err       string   `json:"build_error,omitempty"`
	ManageAll bool     `json:"manage_all"`
	Endpoints []string `json:"endpoints"`
	BadExprs  []string `json:"uncompilable,omitempty"`
	Probes    []PProbe `json:"probes"`
}

type Subj struct {
	S     string `json:"subject"`
	Match bool   `json:"match"`
}
type ExprCase struct {
	AnyMethod  bool   `json:"any_method,omitempty"`
	Method     string `json:"method"`
	URL        string `json:"url"`
	Go         string `json:"expression"`
	CompileErr string `json:"compile_error,omitempty"`
	Subjects   []Subj `json:"subjects"`
	Skip       bool   `json:"-"`
}

// ---------------------------------------------------------------- Coq printing

// str renders a byte string as (bs "...") (C14.Model.bs = C03.Model.bs).
func str(s string) string {
	for i := 0; i < len(s); i++ {
		if s[i] < 32 || s[i] > 126 {
			return c.Bytes(s)
		}
	}
	return `(bs "` + strings.ReplaceAll(s, `"`, `""`) + `")`
}

func strs(xs []string) string { return c.MapList(xs, str) }

func ints(xs []int) string {
	return c.MapList(xs, func(i int) string { return c.Z(int64(i)) })
}

func coqFlowCase(k *FlowCase) string {
	fl := c.MapList(k.Flows, func(f Flow) string {
		return c.Tuple(c.Z(int64(f.ID)), str(f.URL), strs(f.Methods))
	})
	pr := c.MapList(k.Probes, func(p Probe) string {
		return c.Tuple(str(p.Method), str(p.URL), ints(p.Selected), c.B(p.Managed), ints(p.Classes))
	})
	return c.Tuple(fl, c.B(k.Loaded), c.B(k.ManageAll), strs(k.Endpoints), pr)
}

func coqPlugs(ps []Plug) string {
	return c.MapList(ps, func(p Plug) string { return c.Tuple(c.Z(int64(p.Name)), c.B(p.Enabled)) })
}

func coqPolicyCase(k *PolicyCase) string {
	dl := c.MapList(k.Decls, func(d Decl) string {
		return c.Tuple(str(d.Method), str(d.URL), coqPlugs(d.Rem), coqPlugs(d.Diag))
	})
	pr := c.MapList(k.Probes, func(p PProbe) string {
		return c.Tuple(str(p.Method), str(p.URL), ints(p.Rem), ints(p.Diag), c.B(p.Managed))
	})
	gl := c.Tuple(c.MapList(k.GRem, c.B), c.MapList(k.GDiag, c.B))
	return c.Tuple(dl, gl, c.B(k.Accepted), c.B(k.ManageAll), strs(k.Endpoints), pr)
}

func coqExprCase(k *ExprCase) string {
	m := "None"
	if !k.AnyMethod {
		m = c.Some(str(k.Method))
	}
	sb := c.MapList(k.Subjects, func(s Subj) string { return c.Tuple(str(s.S), c.B(s.Match)) })
	return c.Tuple(m, str(k.URL), str(k.Go), sb)
}
