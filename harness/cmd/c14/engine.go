package main

// Execution on the implementation.
//
// flows:    the flow set is written as flow YAML files and loaded by the
//           production loader (streams.NewStream().Initialize()); the registered
//           expressions and the manage-all flag come from the real
//           HandlingDataManager.buildHAProxyFlowsEndpointsRequest (shim
//           routing.VerifC14FlowsEndpointsRequest); the engine's verdict for a
//           (method, URL) is what the stream's own filter tree selects
//           (Stream.VerifSelectedFlows).  For sets with a host-label/path-segment
//           collision (outcome depends on the load order, which the production
//           loader takes from a Go map) the verdicts come from a FilterTree
//           filled by AddFlow in the listed order.
// policies: config.BuildHAProxyEndpointsRequest, config.BuildEndpointPolicyTree
//           and the dispatcher's selection (runner shims of C13).
// expr:     config.HaproxyEndpointFormat called directly.
// is_managed is evaluated with Go's regexp over the registered strings, the
// way haproxy.cfg does it: manage_all, or an unanchored search of some
// expression in "METHOD:::url".

import (
	"fmt"
	"os"
	"path/filepath"
	"regexp"
	"sort"
	"strings"
	"sync"

	"lunar/engine/config"
	lunar_messages "lunar/engine/messages"
	"lunar/engine/routing"
	"lunar/engine/runner"
	"lunar/engine/streams"
	stream_config "lunar/engine/streams/config"
	streamfilter "lunar/engine/streams/filter"
	stream_flow "lunar/engine/streams/flow"
	internaltypes "lunar/engine/streams/internal-types"
	lunar_context "lunar/engine/streams/lunar-context"
	public_types "lunar/engine/streams/public-types"
	stream_types "lunar/engine/streams/types"
	"lunar/engine/utils"
	"lunar/engine/utils/environment"
	sharedConfig "lunar/shared-model/config"
	context_manager "lunar/toolkit-core/context-manager"
)

var (
	envOnce     sync.Once
	sharedState = lunar_context.NewMemoryState[[]byte]()
)

func repoDir() string {
	if r := os.Getenv("VERIF_REPO"); r != "" {
		return r
	}
	return "/repo"
}

func setupEnv() {
	envOnce.Do(func() {
		environment.SetProcessorsDirectory(filepath.Join(repoDir(),
			"proxy/src/services/lunar-engine/streams/processors/registry"))
		context_manager.Get().SetMockClock()
		// the Retry processor (request capture; suite reload) refuses to be created without it
		os.Setenv("LUNAR_RETRY_REQUEST_TIMEOUT_SEC", "5")
	})
}

func flowName(id int) string { return fmt.Sprintf("f%02d", id) }

func idOf(name string) int {
	var n int
	if _, err := fmt.Sscanf(name, "f%02d", &n); err != nil {
		return -1
	}
	return n
}

const flowDirection = `    - from:
        stream:
          name: globalStream
          at: start
      to:
        processor:
          name: probe
    - from:
        processor:
          name: probe
          condition: hit
      to:
        stream:
          name: globalStream
          at: end
    - from:
        processor:
          name: probe
          condition: miss
      to:
        stream:
          name: globalStream
          at: end
`

func flowYAML(f Flow) string {
	var sb strings.Builder
	fmt.Fprintf(&sb, "name: %s\nfilter:\n  url: %q\n", flowName(f.ID), f.URL)
	if len(f.Methods) > 0 {
		sb.WriteString("  method:\n")
		for _, m := range f.Methods {
			fmt.Fprintf(&sb, "    - %q\n", m)
		}
	}
	sb.WriteString("processors:\n  probe:\n    processor: Filter\n    parameters:\n      - key: header\n        value: x-never=1\n")
	if f.needsBody() { // DataSanitation requires the body of the message; declared, not wired into the graph
		sb.WriteString("  inspect:\n    processor: DataSanitation\n")
	}
	if f.needsCapture() { // Retry requires request capture; declared, not wired into the graph
		sb.WriteString("  again:\n    processor: Retry\n    parameters:\n      - key: attempts\n        value: 1\n")
	}
	sb.WriteString("flow:\n  request:\n" + flowDirection + "  response:\n" + flowDirection)
	return sb.String()
}

func loadEngine(flows []Flow) (*streams.Stream, error) {
	setupEnv()
	cwd, err := os.Getwd()
	if err != nil {
		return nil, err
	}
	base := filepath.Join(cwd, "cfg")
	os.RemoveAll(base)
	for _, d := range []string{"flows", "quotas", "pp"} {
		if err := os.MkdirAll(filepath.Join(base, d), 0o755); err != nil {
			return nil, err
		}
	}
	for _, f := range flows {
		if err := os.WriteFile(filepath.Join(base, "flows", flowName(f.ID)+".yaml"), []byte(flowYAML(f)), 0o644); err != nil {
			return nil, err
		}
	}
	environment.SetStreamsFlowsDirectory(filepath.Join(base, "flows"))
	environment.SetQuotasDirectory(filepath.Join(base, "quotas"))
	environment.SetPathParamsDirectory(filepath.Join(base, "pp"))
	st, err := streams.NewStream()
	if err != nil {
		return nil, err
	}
	if err := safeInit(st); err != nil {
		return nil, err
	}
	return st, nil
}

func safeInit(st *streams.Stream) (err error) {
	defer func() {
		if r := recover(); r != nil {
			err = fmt.Errorf("panic: %v", r)
		}
	}()
	return st.Initialize()
}

func mkRequest(method, url string) public_types.APIStreamI {
	return stream_types.NewRequestAPIStream(lunar_messages.OnRequest{
		ID: "r1", SequenceID: "r1", Method: method, Scheme: "https", URL: url,
		Headers: map[string]string{},
	}, sharedState)
}

// compiled expressions; a string Go cannot compile never matches (and is reported)
type exprSet struct {
	strs []string
	res  []*regexp.Regexp
	bad  []string
}

func compileAll(strs []string) *exprSet {
	s := &exprSet{strs: strs}
	for _, e := range strs {
		re, err := regexp.Compile(e)
		if err != nil {
			s.bad = append(s.bad, e)
			re = nil
		}
		s.res = append(s.res, re)
	}
	return s
}

func (s *exprSet) anyMatch(subject string) bool {
	for _, re := range s.res {
		if re != nil && re.MatchString(subject) {
			return true
		}
	}
	return false
}

func sortedUnique(xs []string) []string {
	m := map[string]bool{}
	out := []string{}
	for _, x := range xs {
		if !m[x] {
			m[x] = true
			out = append(out, x)
		}
	}
	sort.Strings(out)
	return out
}

// execFlows fills Loaded / ManageAll / Endpoints and the probes' observations.
func execFlows(k *FlowCase) {
	k.Loaded, k.Err, k.ManageAll, k.Endpoints = false, "", false, []string{}
	st, err := loadEngine(k.Flows)
	if err != nil {
		k.Err = err.Error()
		for i := range k.Probes {
			k.Probes[i].Selected, k.Probes[i].Managed = []int{}, false
		}
		return
	}
	k.Loaded = true
	req := routing.VerifC14FlowsEndpointsRequest(st)
	k.ManageAll = req.ManageAll
	eps := []string{}
	for _, e := range req.ManagedEndpoints {
		eps = append(eps, e.Endpoint)
	}
	k.Endpoints = sortedUnique(eps)
	set := compileAll(k.Endpoints)
	k.BadExprs = set.bad
	var tree internaltypes.FilterTreeI
	ids := map[internaltypes.FlowI]int{}
	if k.Direct {
		tree = streamfilter.NewFilterTree()
		for _, f := range k.Flows {
			fl := stream_flow.NewFlow(nil, &stream_config.FlowRepresentation{
				Name: flowName(f.ID),
				Filter: &stream_config.Filter{Name: flowName(f.ID), URL: f.URL,
					Method: append([]string{}, f.Methods...)},
				Type: internaltypes.UserFlow,
			}, nil)
			ids[fl] = f.ID
			if err := tree.AddFlow(fl); err != nil {
				k.Loaded, k.Err = false, err.Error()
				return
			}
		}
	}
	for i := range k.Probes {
		p := &k.Probes[i]
		sel := []int{}
		api := mkRequest(p.Method, p.URL)
		if k.Direct {
			if res, found := tree.GetFlow(api); found {
				u, _ := res.GetUserFlow()
				for _, fl := range u {
					sel = append(sel, ids[fl])
				}
			}
		} else {
			_, user, _, found := st.VerifSelectedFlows(api, public_types.StreamTypeRequest)
			if found {
				for _, n := range user {
					sel = append(sel, idOf(n))
				}
			}
		}
		sort.Ints(sel)
		p.Selected = sel
		p.Managed = k.ManageAll || set.anyMatch(p.Method+":::"+p.URL)
	}
}

// ---------------------------------------------------------------- policies

func execPolicies(k *PolicyCase) {
	eps := []sharedConfig.EndpointConfig{}
	for _, d := range k.Decls {
		e := sharedConfig.EndpointConfig{Method: d.Method, URL: d.URL,
			Remedies: []sharedConfig.Remedy{}, Diagnosis: []sharedConfig.Diagnosis{}}
		for _, r := range d.Rem {
			e.Remedies = append(e.Remedies, sharedConfig.Remedy{Enabled: r.Enabled, Name: fmt.Sprintf("r%d", r.Name)})
		}
		for _, g := range d.Diag {
			e.Diagnosis = append(e.Diagnosis, sharedConfig.Diagnosis{Enabled: g.Enabled, Name: fmt.Sprintf("g%d", g.Name),
				Config: sharedConfig.DiagnosisConfig{Void: &sharedConfig.VoidConfig{}}, Export: "file"})
		}
		eps = append(eps, e)
	}
	global := sharedConfig.Global{}
	for _, en := range k.GRem {
		global.Remedies = append(global.Remedies, sharedConfig.Remedy{Enabled: en, Name: "r0"})
	}
	for _, en := range k.GDiag {
		global.Diagnosis = append(global.Diagnosis, sharedConfig.Diagnosis{Enabled: en, Name: "g0",
			Config: sharedConfig.DiagnosisConfig{Void: &sharedConfig.VoidConfig{}}, Export: "file"})
	}
	k.Accepted, k.Err, k.ManageAll, k.Endpoints = false, "", false, []string{}
	tree, err := config.BuildEndpointPolicyTree(eps)
	if err != nil {
		k.Err = err.Error()
		for i := range k.Probes {
			k.Probes[i].Rem, k.Probes[i].Diag, k.Probes[i].Managed = []int{}, []int{}, false
		}
		return
	}
	k.Accepted = true
	req := config.BuildHAProxyEndpointsRequest(&sharedConfig.PoliciesConfig{Global: global, Endpoints: eps})
	k.ManageAll = req.ManageAll
	strs := []string{}
	for _, e := range req.ManagedEndpoints {
		strs = append(strs, e.Endpoint)
	}
	k.Endpoints = sortedUnique(strs)
	set := compileAll(k.Endpoints)
	k.BadExprs = set.bad
	num := func(s string) int {
		var n int
		fmt.Sscanf(s[1:], "%d", &n)
		return n
	}
	for i := range k.Probes {
		p := &k.Probes[i]
		p.Rem, p.Diag = []int{}, []int{}
		for _, sr := range runner.VerifC13GetRemedies(p.Method, p.URL, tree, &global) {
			if sr.Scope == utils.ScopeEndpoint {
				p.Rem = append(p.Rem, num(sr.Remedy.Name))
			}
		}
		for _, sd := range runner.VerifC13GetDiagnoses(p.Method, p.URL, tree, global.Diagnosis) {
			if sd.Scope == utils.ScopeEndpoint {
				p.Diag = append(p.Diag, num(sd.Diagnosis.Name))
			}
		}
		p.Managed = k.ManageAll || set.anyMatch(p.Method+":::"+p.URL)
	}
}

// ---------------------------------------------------------------- single expressions

// anyMethodExpr: the expression registered for a filter without methods on this
// URL (through the engine: the formatter for it has no public entry point on
// every tree).  ok=false when the engine refuses the URL or registers several.
func anyMethodExpr(url string) (string, bool) {
	st, err := loadEngine([]Flow{{ID: 0, URL: url}})
	if err != nil {
		return "", false
	}
	req := routing.VerifC14FlowsEndpointsRequest(st)
	if len(req.ManagedEndpoints) != 1 {
		return "", false
	}
	return req.ManagedEndpoints[0].Endpoint, true
}

func execExpr(k *ExprCase) {
	if k.AnyMethod {
		e, ok := anyMethodExpr(k.URL)
		if !ok {
			k.Skip = true
			return
		}
		k.Go = e
	} else {
		k.Go = config.HaproxyEndpointFormat(k.Method, k.URL, nil).Endpoint
	}
	re, err := regexp.Compile(k.Go)
	k.CompileErr = ""
	if err != nil {
		k.CompileErr = err.Error()
	}
	for i := range k.Subjects {
		k.Subjects[i].Match = re != nil && re.MatchString(k.Subjects[i].S)
	}
}
