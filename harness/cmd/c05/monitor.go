// Property monitor, written from the property text and independent of the
// model: a configuration the validator accepts must load, and every transaction
// on it must finish - without killing or panicking the process - after a
// bounded number of processor executions, with actions or an error.  A
// configuration that cannot be run safely must be REJECTED WITH AN ERROR: a
// validator that dies, panics or hangs instead violates the property too.
package main

import (
	"fmt"
	"math"
	"strings"

	c "verifharness/common"
)

// execBound: a finite bound on processor executions per transaction that any
// terminating walk over this configuration satisfies: with P declared
// processors and C connections in total, a walk without repetition visits at
// most P processors in a row and branches at most C ways at each; both
// directions of every flow may run.
func execBound(cf *Config) float64 {
	p, cn := 0, 0
	for _, f := range cf.Flows {
		p += len(f.Procs)
		cn += len(f.Req) + len(f.Res)
	}
	if len(cf.Flows) == 0 { // files given as text (quota / traffic streams): a flat cap
		return 1e6
	}
	b := 2 * float64(len(cf.Flows)+1) * math.Pow(float64(1+cn), float64(p+1))
	if b > 1e7 {
		b = 1e7
	}
	return b
}

// hasCycle: the monitor's own reading of a direction's connection list as a
// graph over processor names (flow references ignored): is there a cycle?
func hasCycle(conns []Conn) bool {
	adj := map[string][]string{}
	for _, cn := range conns {
		if cn.From.Proc != nil && cn.To.Proc != nil {
			adj[cn.From.Proc.Name] = append(adj[cn.From.Proc.Name], cn.To.Proc.Name)
		}
	}
	color := map[string]int{}
	var visit func(n string) bool
	visit = func(n string) bool {
		color[n] = 1
		for _, t := range adj[n] {
			if color[t] == 1 || (color[t] == 0 && visit(t)) {
				return true
			}
		}
		color[n] = 2
		return false
	}
	for n := range adj {
		if color[n] == 0 && visit(n) {
			return true
		}
	}
	return false
}

func hasFlowRef(cf *Config) bool {
	for _, f := range cf.Flows {
		for _, cs := range [][]Conn{f.Req, f.Res} {
			for _, cn := range cs {
				if cn.From.Flow != nil || cn.To.Flow != nil {
					return true
				}
			}
		}
	}
	return false
}

// where a crash happened, from the dead process' stack
func crashSite(text string) string {
	switch {
	case strings.Contains(text, "incorporateFlow"):
		return "flow-reference-cycle"
	case strings.Contains(text, "dfsDetectCycles"):
		return "cycle-detection"
	case strings.Contains(text, "ExecuteFlow"):
		return "ExecuteFlow"
	case strings.Contains(text, "stack overflow"):
		return "stack-overflow"
	}
	return "process-died"
}

func unsafeKind(cf *Config, t *Txn) string {
	resCycle, reqCycle := false, false
	for _, f := range cf.Flows {
		if hasCycle(f.Res) {
			resCycle = true
		}
		if hasCycle(f.Req) {
			reqCycle = true
		}
	}
	switch {
	case resCycle && !reqCycle:
		return "response-cycle"
	case reqCycle && !resCycle:
		return "request-cycle"
	case reqCycle && resCycle:
		return "cycle"
	case hasFlowRef(cf):
		return "cycle-through-flow-reference"
	}
	return "no-cycle-seen"
}

// panic site without the message (stable across inputs)
func panicWhere(text string) string {
	if i := strings.LastIndex(text, " @ "); i >= 0 {
		return text[i+3:]
	}
	return "?"
}

// monitorLoad: checks on the loading of one configuration.
func monitorLoad(cf *Config, r *JobResult) []c.Hit {
	var hits []c.Hit
	add := func(sig, dem, obs string) {
		hits = append(hits, c.Hit{Signature: sig, Demanded: dem, Observed: obs})
	}
	switch r.LoadStatus {
	case "validator-crash":
		add("validator-crash:"+crashSite(r.CrashText),
			"the validator returns (nil or an error) for every set of files",
			"the process running NewValidationStream(dir).Initialize() died: "+r.CrashText)
	case "validator-timeout":
		add("validator-timeout", "the validator returns for every set of files",
			fmt.Sprintf("no answer within %v", stepTimeout))
	case "validator-panic":
		add("validator-panic:"+panicWhere(r.RejectText),
			"the validator rejects with an error, it does not panic", r.RejectText)
	}
	if r.Accepted {
		switch r.EngineLoad {
		case "error":
			obs := "streams.NewStream().Initialize(): " + r.EngineText
			if r.Runs != "" {
				obs += " [" + r.Runs + "]"
			}
			add("accepted-but-load-fails", "accepted by the validator => the gateway loads the files", obs)
		case "panic":
			add("accepted-load-panic:"+panicWhere(r.EngineText), "accepted => loading succeeds", r.EngineText)
		case "crash", "timeout":
			add("accepted-load-"+r.EngineLoad+":"+crashSite(r.CrashText), "accepted => loading succeeds",
				"the process died / hung while loading: "+r.CrashText)
		}
	}
	return hits
}

// monitorTxn: checks on one transaction run on an accepted, loaded configuration.
func monitorTxn(cf *Config, t *Txn, r *TxnResult) []c.Hit {
	var hits []c.Hit
	add := func(sig, dem, obs string) {
		hits = append(hits, c.Hit{Signature: sig, Demanded: dem, Observed: obs})
	}
	switch r.Outcome {
	case "crash":
		add("accepted-unsafe:"+unsafeKind(cf, t),
			"handling a transaction on an accepted configuration finishes with actions or an error",
			"the engine process died: "+r.Text)
	case "timeout":
		if strings.HasPrefix(r.Text, stuckPrefix) { // the child's watchdog names the place
			add("accepted-unsafe:hang:"+strings.TrimPrefix(r.Text, stuckPrefix), "handling a transaction finishes",
				fmt.Sprintf("no result within %v, the transaction is blocked in %s", txnWatchdog, strings.TrimPrefix(r.Text, stuckPrefix)))
		} else {
			add("accepted-unsafe:hang", "handling a transaction finishes",
				fmt.Sprintf("no result within %v", stepTimeout))
		}
	case "panic":
		add("panic:"+panicWhere(r.Text), "handling a transaction never panics", r.Text)
	case "ok", "error":
		if b := execBound(cf); float64(r.NEvents) > b {
			add("unbounded-executions", fmt.Sprintf("at most %.0f processor executions", b),
				fmt.Sprintf("%d executions", r.NEvents))
		}
	}
	return hits
}
