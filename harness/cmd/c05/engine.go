// Child side: drives the real loader and engine.  A job = one configuration
// (flow files, quota files) + transactions.  The configuration is written to
// disk, given to the standalone validator path
// (streams.NewValidationStream(dir).Initialize()), and - when accepted - loaded
// the way the gateway does (streams.NewStream().Initialize() on the same
// directories); the transactions run on that engine.  Everything observable is
// appended line by line to the result file, so that the parent knows where the
// process was when it died.
package main

import (
	"bufio"
	"encoding/json"
	"fmt"
	"os"
	"path/filepath"
	"runtime"
	"runtime/debug"
	"strings"
	"sync"
	"sync/atomic"
	"time"

	"github.com/rs/zerolog"

	"lunar/engine/actions"
	lunar_messages "lunar/engine/messages"
	"lunar/engine/streams"
	stream_config "lunar/engine/streams/config"
	lunar_context "lunar/engine/streams/lunar-context"
	publictypes "lunar/engine/streams/public-types"
	stream_types "lunar/engine/streams/types"
	"lunar/engine/utils/environment"
	"lunar/engine/verifhook"
	context_manager "lunar/toolkit-core/context-manager"
)

type Event struct {
	Flow string `json:"flow"`
	Key  string `json:"key"`
	Dir  string `json:"dir"` // req | res
	Cond string `json:"cond"`
}

// Txn is one transaction.  Headers: steering headers carry value "1".
type Txn struct {
	Dir     string            `json:"dir"` // req | res
	URL     string            `json:"url"`
	Method  string            `json:"method,omitempty"`
	Headers map[string]string `json:"headers"`
	Body    string            `json:"body,omitempty"`
	Status  int               `json:"status,omitempty"`
	NilHdrs bool              `json:"nil_headers,omitempty"` // pass a nil header map
	Query   string            `json:"query,omitempty"`
	// StoredReq (responses only): the request of the same sequence was captured
	// before (APIStream.StoreRequest, what routing does for a full request), so the
	// response-typed stream has a request object; otherwise GetRequest() is nil.
	StoredReq bool `json:"stored_request,omitempty"`
	// Spoe: the transaction enters through the gateway's own SPOE entry
	// (routing.processRequest / processResponse: SPOE message -> readRequestArgs /
	// readResponseArgs -> utils.ParseHeaders -> runner.RunFlow -> getSPOEReqActions /
	// getSPOERespActions), not through Stream.ExecuteFlow directly.  RawHdr is the
	// header block as the proxy hands it over ("hex:<digits>" = raw bytes); Headers is
	// not used.  Full: the message is lunar-on-full-request / lunar-on-full-response.
	Spoe   bool   `json:"spoe,omitempty"`
	RawHdr string `json:"raw_headers,omitempty"`
	Full   bool   `json:"full_message,omitempty"`
}

// TxnResult: what the engine did with one transaction.
type TxnResult struct {
	Outcome  string    `json:"outcome"` // ok | error | panic | crash | timeout | not-run
	Answered bool      `json:"answered,omitempty"`
	NActions int       `json:"actions"`
	Events   []Event   `json:"events"`
	NEvents  int       `json:"n_events"`
	Text     string    `json:"text,omitempty"`            // error / panic text
	SelText  string    `json:"selection_probe,omitempty"` // the harness' own selection probe panicked (not a verdict)
	SelReq   Selection `json:"selected_for_request"`
	SelRes   Selection `json:"selected_for_response"`
}

type Selection struct {
	Found bool     `json:"found"`
	Start []string `json:"start"`
	User  []string `json:"user"`
	End   []string `json:"end"`
}

func sel(st *streams.Stream, api publictypes.APIStreamI, t publictypes.StreamType) Selection {
	s, u, e, ok := st.VerifSelectedFlows(api, t)
	if !ok {
		return Selection{Start: []string{}, User: []string{}, End: []string{}}
	}
	return Selection{true, s, u, e}
}

// Job: files to load + transactions to run.
type Job struct {
	ID     int               `json:"id"`
	Flows  map[string]string `json:"flow_files"`  // file name -> YAML
	Quotas map[string]string `json:"quota_files"` // file name -> YAML
	Txns   []Txn             `json:"txns"`
	Skip   map[int]bool      `json:"skip,omitempty"` // transactions already known to kill the process
	// Gateway: contents of the gateway configuration file (exporters) the
	// processors read at creation; "" = none.  RealClock: run on the real clock
	// (Queue-like processors wait on the engine's clock).
	Gateway   string `json:"gateway_config,omitempty"`
	RealClock bool   `json:"real_clock,omitempty"`
	// Repeat: run the validator path and (when some run accepted) the gateway's
	// load this many ADDITIONAL times.  Both iterate over Go maps of flows, so a
	// verdict that depends on the order in which flows are built shows as runs that
	// disagree; "accepted" = some validator run accepted, "loads" = every load succeeded.
	Repeat int `json:"repeat,omitempty"`
	// PathParams: files of the path_params directory (file name -> YAML).
	// ProcDefs: ADDITIONAL processor-definition files; when present the processors
	// directory of this job is a copy of the registry plus these files.
	PathParams map[string]string `json:"path_param_files,omitempty"`
	ProcDefs   map[string]string `json:"processor_definition_files,omitempty"`
	// GatewayPresent: write the gateway configuration file even when Gateway is "" (a zero-length file)
	GatewayPresent bool `json:"gateway_config_present,omitempty"`
}

// JobResult as reassembled by the parent.
type JobResult struct {
	Accepted   bool        `json:"accepted"` // the validator path returned nil
	LoadStatus string      `json:"load"`     // reject | accept | validator-panic | validator-crash | validator-timeout
	RejectText string      `json:"reject_text,omitempty"`
	EngineLoad string      `json:"engine_load,omitempty"` // ok | error | panic | crash (only when accepted)
	EngineText string      `json:"engine_text,omitempty"`
	Txns       []TxnResult `json:"txns,omitempty"`
	CrashText  string      `json:"crash_text,omitempty"` // tail of the dead child's stderr
	Runs       string      `json:"runs,omitempty"`       // Repeat > 0: how the repeated runs went
}

// one line of the child's result file
type line struct {
	ID    int        `json:"id"`
	What  string     `json:"what"` // start | validated | engine | txn-start | txn | done
	Txn   int        `json:"txn,omitempty"`
	OK    bool       `json:"ok,omitempty"`
	Text  string     `json:"text,omitempty"`
	Panic bool       `json:"panic,omitempty"`
	Runs  string     `json:"runs,omitempty"`
	Res   *TxnResult `json:"res,omitempty"`
}

func repoDir() string {
	if r := os.Getenv("VERIF_REPO"); r != "" {
		return r
	}
	return "/repo"
}

var (
	evMu   sync.Mutex
	evSink *[]Event
	shared = lunar_context.NewMemoryState[[]byte]()
	txnSeq int
)

const maxKeptEvents = 400

func setupEnv() {
	zerolog.SetGlobalLevel(zerolog.Disabled)
	environment.SetProcessorsDirectory(registryDir())
	context_manager.Get().SetMockClock().WithFileExporter(discardExporter{})
	verifhook.SetEvent(func(kind string, args ...string) {
		if kind != "proc" || len(args) < 4 {
			return
		}
		evMu.Lock()
		defer evMu.Unlock()
		if evSink != nil {
			d := "res"
			if args[2] == publictypes.StreamTypeRequest.String() {
				d = "req"
			}
			evCount++
			if len(*evSink) < maxKeptEvents {
				*evSink = append(*evSink, Event{args[0], args[1], d, args[3]})
			}
		}
	})
}

var evCount int

// discardExporter stands for the file exporter (fluent-bit socket) of the gateway
type discardExporter struct{}

func (discardExporter) Write(b []byte) (int, error) { return len(b), nil }
func (discardExporter) Close() error                { return nil }

func writeFiles(base string, j *Job) error {
	os.RemoveAll(base)
	for _, d := range []string{"flows", "quotas", "path_params"} {
		if err := os.MkdirAll(filepath.Join(base, d), 0o755); err != nil {
			return err
		}
	}
	for n, y := range j.Flows {
		if err := os.WriteFile(filepath.Join(base, "flows", n), fileBytes(y), 0o644); err != nil {
			return err
		}
	}
	for n, y := range j.Quotas {
		if err := os.WriteFile(filepath.Join(base, "quotas", n), fileBytes(y), 0o644); err != nil {
			return err
		}
	}
	for n, y := range j.PathParams {
		if err := os.WriteFile(filepath.Join(base, "path_params", n), fileBytes(y), 0o644); err != nil {
			return err
		}
	}
	// processor definitions: the registry of the tree under test, or a copy of it
	// with the job's additional files
	if len(j.ProcDefs) == 0 {
		environment.SetProcessorsDirectory(registryDir())
		return nil
	}
	pd := filepath.Join(base, "processors")
	if err := os.MkdirAll(pd, 0o755); err != nil {
		return err
	}
	ents, err := os.ReadDir(registryDir())
	if err != nil {
		return err
	}
	for _, e := range ents {
		if e.IsDir() {
			continue
		}
		b, err := os.ReadFile(filepath.Join(registryDir(), e.Name()))
		if err != nil {
			return err
		}
		if err := os.WriteFile(filepath.Join(pd, e.Name()), b, 0o644); err != nil {
			return err
		}
	}
	for n, y := range j.ProcDefs {
		if err := os.WriteFile(filepath.Join(pd, n), fileBytes(y), 0o644); err != nil {
			return err
		}
	}
	environment.SetProcessorsDirectory(pd)
	return nil
}

func registryDir() string {
	return filepath.Join(repoDir(), "proxy/src/services/lunar-engine/streams/processors/registry")
}

func guarded(f func() error) (err error, panicked bool, text string) {
	defer func() {
		if r := recover(); r != nil {
			panicked = true
			text = fmt.Sprintf("%v @ %s", r, panicSite(debug.Stack()))
		}
	}()
	err = f()
	return
}

// panicSite: first lunar/ frame below the panic (root-cause call site for the signature)
func panicSite(stack []byte) string {
	lines := strings.Split(string(stack), "\n")
	seenPanic := false
	for _, l := range lines {
		if strings.HasPrefix(l, "panic(") {
			seenPanic = true
			continue
		}
		if seenPanic && strings.HasPrefix(l, "lunar/") {
			if i := strings.LastIndex(l, "("); i > 0 {
				l = l[:i]
			}
			return l
		}
	}
	return "?"
}

// childMain processes the jobs of one batch file.
func childMain(batchFile, resultFile string) {
	debug.SetMaxStack(32 << 20) // a runaway recursion dies quickly instead of eating 1 GB
	setupEnv()
	raw, err := os.ReadFile(batchFile)
	if err != nil {
		panic(err)
	}
	var jobs []Job
	if err := json.Unmarshal(raw, &jobs); err != nil {
		panic(err)
	}
	f, err := os.OpenFile(resultFile, os.O_APPEND|os.O_CREATE|os.O_WRONLY, 0o644)
	if err != nil {
		panic(err)
	}
	w := bufio.NewWriter(f)
	var emitMu sync.Mutex
	emit := func(l line) {
		emitMu.Lock()
		defer emitMu.Unlock()
		b, _ := json.Marshal(l)
		w.Write(b)
		w.WriteByte('\n')
		w.Flush() // the line must be on disk before the next step can kill the process
	}
	cwd, _ := os.Getwd()
	base := filepath.Join(cwd, "cfg")
	for ji := range jobs {
		j := &jobs[ji]
		emit(line{ID: j.ID, What: "start"})
		if err := writeFiles(base, j); err != nil {
			panic(err)
		}
		if j.Gateway != "" || j.GatewayPresent {
			gw := filepath.Join(base, "gateway_config.yaml")
			os.WriteFile(gw, fileBytes(j.Gateway), 0o644)
			environment.SetGatewayConfigPath(gw)
		} else {
			environment.SetGatewayConfigPath("")
		}
		if j.RealClock {
			context_manager.Get().SetRealClock()
		} else {
			context_manager.Get().SetMockClock()
		}
		// the standalone validator's path (1 + Repeat times; accepted = some run accepted)
		var err error
		var pan bool
		var txt string
		nAcc, firstRej, runs := 0, "", ""
		for i := 0; i <= j.Repeat && !pan; i++ {
			var e error
			e, pan, txt = guarded(func() error {
				vs, err := streams.NewValidationStream(base)
				if err != nil {
					return err
				}
				return vs.Initialize()
			})
			if pan {
				break
			}
			if e == nil {
				nAcc++
			} else if firstRej == "" {
				firstRej = e.Error()
			}
		}
		if !pan && nAcc == 0 {
			err = fmt.Errorf("%s", firstRej)
		}
		if j.Repeat > 0 && !pan {
			runs = fmt.Sprintf("validator accepted in %d of %d runs", nAcc, j.Repeat+1)
			if nAcc > 0 && firstRej != "" {
				runs += " (rejected with: " + firstRej + ")"
			}
		}
		switch {
		case pan:
			emit(line{ID: j.ID, What: "validated", Panic: true, Text: txt})
		case err != nil:
			emit(line{ID: j.ID, What: "validated", OK: false, Text: err.Error(), Runs: runs})
		default:
			emit(line{ID: j.ID, What: "validated", OK: true, Runs: runs})
		}
		if pan || err != nil {
			emit(line{ID: j.ID, What: "done"})
			continue
		}
		// the gateway's path
		environment.SetStreamsFlowsDirectory(filepath.Join(base, "flows"))
		environment.SetQuotasDirectory(filepath.Join(base, "quotas"))
		environment.SetPathParamsDirectory(filepath.Join(base, "path_params"))
		var st *streams.Stream
		nFail := 0
		err = nil
		for i := 0; i <= j.Repeat && !pan; i++ {
			var e error
			var s1 *streams.Stream
			e, pan, txt = guarded(func() error {
				var e error
				s1, e = streams.NewStream()
				if e != nil {
					return e
				}
				return s1.Initialize()
			})
			if pan {
				break
			}
			if e != nil {
				nFail++
				if err == nil {
					err = e
				}
			} else {
				st = s1
			}
		}
		if j.Repeat > 0 && !pan {
			runs += fmt.Sprintf("; gateway load failed in %d of %d runs", nFail, j.Repeat+1)
		}
		switch {
		case pan:
			emit(line{ID: j.ID, What: "engine", Panic: true, Text: txt})
		case err != nil:
			emit(line{ID: j.ID, What: "engine", OK: false, Text: err.Error(), Runs: runs})
		default:
			emit(line{ID: j.ID, What: "engine", OK: true, Runs: runs})
		}
		if pan || err != nil {
			emit(line{ID: j.ID, What: "done"})
			continue
		}
		for ti := range j.Txns {
			if j.Skip[ti] {
				continue
			}
			emit(line{ID: j.ID, What: "txn-start", Txn: ti})
			// a transaction that has not returned after txnWatchdog is reported with the place it
			// is blocked in (the parent's no-progress limit would only say "no answer"); the
			// process ends, the parent gives the remaining work to a fresh one
			var finished atomic.Bool
			wd := time.AfterFunc(txnWatchdog, func() {
				if finished.Load() {
					return
				}
				buf := make([]byte, 4<<20)
				buf = buf[:runtime.Stack(buf, true)]
				emit(line{ID: j.ID, What: "txn-stuck", Txn: ti, Text: stuckSite(buf)})
				if !finished.Load() {
					os.Exit(4)
				}
			})
			r := runTxn(st, &j.Txns[ti])
			finished.Store(true)
			wd.Stop()
			emit(line{ID: j.ID, What: "txn", Txn: ti, Res: &r})
		}
		emit(line{ID: j.ID, What: "done"})
	}
	w.Flush()
	f.Close()
}

// txnWatchdog: a transaction not back after this long is reported as stuck (legitimate waits -
// Queue on the real clock - are about a second)
const txnWatchdog = 20 * time.Second

// stuckSite: in a dump of all goroutines, the first lunar/ frame of the goroutine that runs the
// transaction (the one with main.runTxn on its stack) = where the transaction is blocked
func stuckSite(dump []byte) string {
	for _, g := range strings.Split(string(dump), "\n\n") {
		if !strings.Contains(g, "main.runTxn") && !strings.Contains(g, "main.runSpoeTxn") {
			continue
		}
		for _, l := range strings.Split(g, "\n") {
			if strings.HasPrefix(l, "lunar/") {
				if i := strings.LastIndex(l, "("); i > 0 {
					l = l[:i]
				}
				return l
			}
		}
	}
	return "?"
}

// pathOf: the path HAProxy reports next to url = host + path
func pathOf(u string) string {
	if i := strings.Index(u, "/"); i >= 0 {
		return u[i:]
	}
	return ""
}

func copyHdrs(m map[string]string) map[string]string {
	if m == nil {
		return nil
	}
	c := make(map[string]string, len(m))
	for k, v := range m {
		c[k] = v
	}
	return c
}

func dirName(t publictypes.StreamType) string {
	if t.IsRequestType() {
		return "req"
	}
	return "res"
}

// runTxn executes one transaction the way routing/messages_handler.go does
// (NewRequestAPIStream / NewResponseAPIStream + Stream.ExecuteFlow).
func runTxn(st *streams.Stream, t *Txn) TxnResult {
	txnSeq++
	id := fmt.Sprintf("t%d", txnSeq)
	if t.Spoe {
		return runSpoeTxn(st, t, id)
	}
	events := []Event{}
	var api publictypes.APIStreamI
	acts := &stream_config.StreamActions{}
	hdrs := t.Headers
	if t.NilHdrs {
		hdrs = nil
	} else if hdrs == nil {
		hdrs = map[string]string{}
	}
	method := t.Method
	if method == "" {
		method = "GET"
	}
	var res TxnResult
	err, pan, txt := guarded(func() error {
		if t.Dir == "req" {
			api = stream_types.NewRequestAPIStream(lunar_messages.OnRequest{
				ID: id, SequenceID: id, Method: method, Scheme: "https", URL: t.URL, Path: pathOf(t.URL), Query: t.Query,
				Headers: hdrs, Body: t.Body, RawBody: []byte(t.Body), Time: time.Unix(1_700_000_000, 0),
			}, shared)
			acts.Request = &stream_config.RequestStream{}
		} else {
			status := t.Status
			if status == 0 {
				status = 200
			}
			if t.StoredReq {
				stream_types.NewRequestAPIStream(lunar_messages.OnRequest{
					ID: id, SequenceID: id, Method: method, Scheme: "https", URL: t.URL, Path: pathOf(t.URL), Query: t.Query,
					Headers: copyHdrs(hdrs), Body: t.Body, RawBody: []byte(t.Body), Time: time.Unix(1_699_999_999, 0),
				}, shared).StoreRequest()
			}
			api = stream_types.NewResponseAPIStream(lunar_messages.OnResponse{
				ID: id, SequenceID: id, Method: method, URL: t.URL, Status: status,
				Headers: hdrs, Body: t.Body, RawBody: []byte(t.Body), Time: time.Unix(1_700_000_000, 0),
			}, shared)
			acts.Response = &stream_config.ResponseStream{}
		}
		// the selection probes are the harness' own calls: a panic in them is noted, it
		// is not the engine's verdict (only what ExecuteFlow below does is)
		res.SelReq = Selection{Start: []string{}, User: []string{}, End: []string{}}
		res.SelRes = res.SelReq
		if _, p, tx := guarded(func() error {
			if t.Dir == "req" {
				res.SelReq = sel(st, api, publictypes.StreamTypeRequest)
			}
			res.SelRes = sel(st, api, publictypes.StreamTypeResponse)
			return nil
		}); p {
			res.SelText = tx
		}
		evMu.Lock()
		evSink = &events
		evCount = 0
		evMu.Unlock()
		defer func() {
			evMu.Lock()
			evSink = nil
			evMu.Unlock()
		}()
		return st.ExecuteFlow(api, acts)
	})
	res.Events = events
	res.NEvents = evCount
	switch {
	case pan:
		res.Outcome = "panic"
		res.Text = txt
	case err != nil:
		res.Outcome = "error"
		res.Text = err.Error()
		_, _, _ = guarded(func() error { st.OnError(id); return nil })
	default:
		res.Outcome = "ok"
		if t.Dir == "req" {
			res.NActions = len(acts.Request.Actions)
			for _, a := range acts.Request.Actions {
				if _, ok := a.(*actions.EarlyResponseAction); ok {
					res.Answered = true
				}
			}
		} else {
			res.NActions = len(acts.Response.Actions)
		}
	}
	return res
}
