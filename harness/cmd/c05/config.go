// Configuration vocabulary of the C05 harness: flows as they are written in
// YAML (processor declarations with their parameter keys, connection lists whose
// ends may name a stream, a flow, a processor - or several / none of them), the
// YAML rendering, and the Coq rendering handed to the model (C05/Model.v
// `config`).  Nothing in this file consults the implementation.
package main

import (
	"fmt"
	"sort"
	"strings"

	c "verifharness/common"
)

const (
	tFilter = "Filter"
	tGen    = "GenerateResponse"
	tMock   = "MockProcessor"
	tLimit  = "Limiter"
	tNope   = "NoSuchProcessor" // a type the registry does not know
)

// Proc is one entry of a flow's `processors:` section.  Params = the parameter
// keys written, in order (values are fixed per key, see paramValue).
type Proc struct {
	Key    string   `json:"key"`
	Type   string   `json:"type"` // "" = `processor:` left empty
	Params []string `json:"params"`
	Raw    string   `json:"raw_params,omitempty"` // the `parameters:` list as YAML text (zoo only; overrides Params)
	// Metrics: the processor's `metrics:` section is written, enabled, with every label (zoo only)
	Metrics bool `json:"metrics,omitempty"`
}

type StreamRef struct {
	At string `json:"at"` // start | end
}
type FlowRef struct {
	Name string `json:"name"`
	At   string `json:"at"` // start | end
}
type ProcRef struct {
	Name string `json:"name"` // "k" or "B.k" (processor k declared by flow B)
	Cond string `json:"cond,omitempty"`
}

// End is one side of a connection; the schema allows any subset of the three.
type End struct {
	Stream *StreamRef `json:"stream,omitempty"`
	Flow   *FlowRef   `json:"flow,omitempty"`
	Proc   *ProcRef   `json:"proc,omitempty"`
}

type Conn struct {
	From End `json:"from"`
	To   End `json:"to"`
}

type FlowCfg struct {
	Name  string `json:"name"`
	URL   string `json:"url"` // "" = filter without url
	Procs []Proc `json:"processors"`
	Req   []Conn `json:"request"`
	Res   []Conn `json:"response"`
	// Status = the filter's `status_code` list (nil: none).  Not part of the Coq
	// rendering: which flows are selected is read from the implementation.
	Status []int `json:"status_code,omitempty"`
	// FilterExtra: further lines of the filter section, as YAML text (expressions,
	// method, headers, query_params, sample_percentage); not part of the Coq rendering either
	FilterExtra string `json:"filter_extra,omitempty"`
}

type Config struct {
	Flows  []FlowCfg `json:"flows"`
	Quotas []string  `json:"quotas,omitempty"` // ids of (valid, huge) fixed-window quotas on mainURL's host
}

func (cf *Config) flow(name string) *FlowCfg {
	for i := range cf.Flows {
		if cf.Flows[i].Name == name {
			return &cf.Flows[i]
		}
	}
	return nil
}

// ---- shorthands

func s2p(p string) Conn { return Conn{End{Stream: &StreamRef{"start"}}, End{Proc: &ProcRef{Name: p}}} }
func p2p(f, cd, t string) Conn {
	return Conn{End{Proc: &ProcRef{f, cd}}, End{Proc: &ProcRef{Name: t}}}
}
func p2s(f, cd string) Conn { return Conn{End{Proc: &ProcRef{f, cd}}, End{Stream: &StreamRef{"end"}}} }
func f2p(fl, p string) Conn {
	return Conn{End{Flow: &FlowRef{fl, "end"}}, End{Proc: &ProcRef{Name: p}}}
}
func p2f(f, cd, fl string) Conn {
	return Conn{End{Proc: &ProcRef{f, cd}}, End{Flow: &FlowRef{fl, "start"}}}
}
func s2s() Conn { return Conn{End{Stream: &StreamRef{"start"}}, End{Stream: &StreamRef{"end"}}} }

func filt(k string) Proc { return Proc{Key: k, Type: tFilter, Params: []string{"header"}} }
func gen1(k string) Proc { return Proc{Key: k, Type: tGen, Params: []string{"status", "body"}} }
func mock(k string) Proc { return Proc{Key: k, Type: tMock, Params: []string{}} }
func lim(k string) Proc  { return Proc{Key: k, Type: tLimit, Params: []string{"quota_id"}} }

// header that steers Filter <key> (hit iff the transaction carries it with value 1)
func hdrOf(key string) string { return "x-" + strings.ToLower(key) }

// ------------------------------------------------------------------ YAML

func paramValue(p *Proc, key string) string {
	switch key {
	case "header":
		return hdrOf(p.Key) + "=1"
	case "status":
		return "429"
	case "body":
		return "answered by " + p.Key
	case "quota_id":
		return "q1"
	case "quota_missing": // rendered as quota_id naming a quota that does not exist
		return "nosuchquota"
	}
	return "1"
}

func yamlEnd(sb *strings.Builder, side string, e End) {
	if e.Stream == nil && e.Flow == nil && e.Proc == nil {
		fmt.Fprintf(sb, "      %s: {}\n", side) // an end that names nothing
		return
	}
	fmt.Fprintf(sb, "      %s:\n", side)
	if e.Stream != nil {
		fmt.Fprintf(sb, "        stream:\n          name: globalStream\n          at: %s\n", e.Stream.At)
	}
	if e.Flow != nil {
		fmt.Fprintf(sb, "        flow:\n          name: %s\n          at: %s\n", e.Flow.Name, e.Flow.At)
	}
	if e.Proc != nil {
		fmt.Fprintf(sb, "        processor:\n          name: %s\n", e.Proc.Name)
		if e.Proc.Cond != "" {
			fmt.Fprintf(sb, "          condition: %s\n", e.Proc.Cond)
		}
	}
}

func yamlConns(sb *strings.Builder, conns []Conn) {
	for _, cn := range conns {
		var one strings.Builder
		yamlEnd(&one, "from", cn.From)
		yamlEnd(&one, "to", cn.To)
		s := one.String()
		sb.WriteString("    - " + s[6:]) // first line carries the list dash
	}
}

func (f *FlowCfg) YAML() string {
	var sb strings.Builder
	fmt.Fprintf(&sb, "name: %s\nfilter:\n", f.Name)
	if f.URL != "" {
		fmt.Fprintf(&sb, "  url: %s\n", f.URL)
	} else {
		sb.WriteString("  name: nourl\n")
	}
	if len(f.Status) > 0 {
		var ss []string
		for _, c := range f.Status {
			ss = append(ss, fmt.Sprint(c))
		}
		fmt.Fprintf(&sb, "  status_code: [%s]\n", strings.Join(ss, ", "))
	}
	sb.WriteString(f.FilterExtra)
	if len(f.Procs) == 0 {
		sb.WriteString("processors: {}\n")
	} else {
		sb.WriteString("processors:\n")
	}
	for i := range f.Procs {
		p := &f.Procs[i]
		fmt.Fprintf(&sb, "  %s:\n    processor: %s\n", p.Key, p.Type)
		if p.Metrics {
			sb.WriteString("    metrics:\n      enabled: true\n      labels: [flow_name, processor_key, http_method, url, status_code, consumer_tag]\n")
		}
		if p.Raw != "" {
			sb.WriteString("    parameters:\n" + p.Raw)
			continue
		}
		if len(p.Params) > 0 {
			sb.WriteString("    parameters:\n")
		}
		for _, k := range p.Params {
			yk := k
			if k == "quota_missing" {
				yk = "quota_id"
			}
			fmt.Fprintf(&sb, "      - key: %s\n        value: %s\n", yk, paramValue(p, k))
		}
	}
	sb.WriteString("flow:\n")
	if len(f.Req) == 0 {
		sb.WriteString("  request: []\n")
	} else {
		sb.WriteString("  request:\n")
		yamlConns(&sb, f.Req)
	}
	if len(f.Res) == 0 {
		sb.WriteString("  response: []\n")
	} else {
		sb.WriteString("  response:\n")
		yamlConns(&sb, f.Res)
	}
	return sb.String()
}

func (cf *Config) QuotaYAML() string {
	var sb strings.Builder
	sb.WriteString("quotas:\n")
	for _, q := range cf.Quotas {
		fmt.Fprintf(&sb, "  - id: %s\n    filter:\n      url: %s\n    strategy:\n      fixed_window:\n        max: 100000000\n        interval: 1\n        interval_unit: minute\n", q, quotaURL)
	}
	return sb.String()
}

// ------------------------------------------------------------------ Coq

type interner struct {
	m map[string]int64
	n int64
}

func newInterner() *interner { return &interner{m: map[string]int64{}} }
func (in *interner) id(s string) int64 {
	if v, ok := in.m[s]; ok {
		return v
	}
	in.n++
	in.m[s] = in.n
	return in.n
}

var condIDs = map[string]int64{"": 0, "hit": 1, "miss": 2, "below_limit": 3, "above_limit": 4, "output_1": 5, "output_2": 6}

func condID(s string) int64 {
	if v, ok := condIDs[s]; ok {
		return v
	}
	return 99
}

var typeIDs = map[string]int64{"": 0, tFilter: 1, tGen: 2, tMock: 3, tLimit: 4}

func typeID(s string) int64 {
	if v, ok := typeIDs[s]; ok {
		return v
	}
	return 9
}

var paramIDs = map[string]int64{"header": 1, "quota_id": 2, "status": 3, "body": 4, "quota_missing": 6}

func paramID(s string) int64 {
	if v, ok := paramIDs[s]; ok {
		return v
	}
	return 5
}

func atID(s string) int64 {
	switch s {
	case "start":
		return 0
	case "end":
		return 1
	}
	return 2
}

// names: flow names and processor names share nothing; both are interned per case.
type names struct {
	flows *interner
	procs *interner
}

// a processor reference "B.k" -> PR (Some B) k cond; "k" -> PR None k cond
func (n *names) procRef(p *ProcRef) string {
	owner := "None"
	name := p.Name
	if i := strings.Index(name, "."); i >= 0 {
		owner = c.Some(c.Z(n.flows.id(name[:i])))
		name = name[i+1:]
	}
	return "(PR " + owner + " " + c.Z(n.procs.id(name)) + " " + c.Z(condID(p.Cond)) + ")"
}

func (n *names) end(e End) string {
	s, f, p := "None", "None", "None"
	if e.Stream != nil {
		s = c.Some(c.Z(atID(e.Stream.At)))
	}
	if e.Flow != nil {
		f = c.Some(c.Tuple(c.Z(n.flows.id(e.Flow.Name)), c.Z(atID(e.Flow.At))))
	}
	if e.Proc != nil {
		p = c.Some(n.procRef(e.Proc))
	}
	return "(EP " + s + " " + f + " " + p + ")"
}

func (n *names) conns(cs []Conn) string {
	return c.MapList(cs, func(cn Conn) string { return "(CN " + n.end(cn.From) + " " + n.end(cn.To) + ")" })
}

// coq renders the configuration for the model (C05/Model.v, record constructors
// CF / FC / PD / CN / EP / PR)
func (cf *Config) coq(n *names) string {
	fl := c.MapList(cf.Flows, func(f FlowCfg) string { return n.flowCoq(&f) })
	return "(CF " + fl + " " + c.B(len(cf.Quotas) > 0) + ")"
}

// flowCoq renders one flow (record constructor FC)
func (n *names) flowCoq(f *FlowCfg) string {
	procs := c.MapList(f.Procs, func(p Proc) string {
		return "(PD " + c.Z(n.procs.id(p.Key)) + " " + c.B(strings.Contains(p.Key, ".")) + " " + c.Z(typeID(p.Type)) + " " +
			c.MapList(p.Params, func(k string) string { return c.Z(paramID(k)) }) + ")"
	})
	return "(FC " + c.Z(n.flows.id(f.Name)) + " " + c.B(f.URL != "") + " " + procs + " " + n.conns(f.Req) + " " + n.conns(f.Res) + ")"
}

// keyID: the model's node key for a processor reference name ("k" / "B.k")
func (n *names) keyID(ref string) int64 {
	if i := strings.Index(ref, "."); i >= 0 {
		return 1000*n.flows.id(ref[:i]) + n.procs.id(ref[i+1:])
	}
	return n.procs.id(ref)
}

func sortedKeys[V any](m map[string]V) []string {
	ks := make([]string, 0, len(m))
	for k := range m {
		ks = append(ks, k)
	}
	sort.Strings(ks)
	return ks
}
