// Degenerate configuration files: files that hold no YAML document (comments
// only, a document marker, an explicit null), an empty / non-mapping document
// ({}, [], a bare scalar), several documents, byte-order marks, tabs, and files
// whose top-level keys are present but null - in every place the loader reads
// YAML from: flows/, quotas/, path_params/, the processor-definition directory
// and the gateway configuration file.  Each is loaded through the real
// validator path and (when accepted) the gateway's loader in a child process.
// Demanded (property text): accepted => loads and runs; otherwise an ERROR is
// returned - never a panic / crash (signature validator-panic:<function>).
//
// The document-less and lexically degenerate shapes also go through the model
// (suite `files`, C05/Decode.v): the model scans the BYTES, classifies the file
// (no document / not decodable / empty mapping) and says what the loader answers.
package main

import (
	"encoding/hex"
	"fmt"
	"strings"

	c "verifharness/common"
)

// fileBytes: a file content "hex:<digits>" stands for those raw bytes (job and
// replay files are JSON, which cannot carry bytes that are not UTF-8)
func fileBytes(y string) []byte {
	if strings.HasPrefix(y, "hex:") {
		if b, err := hex.DecodeString(y[4:]); err == nil {
			return b
		}
	}
	return []byte(y)
}

type shape struct {
	Name  string `json:"name"`
	Bytes string `json:"bytes"`
	// Claimed: the model's scanner (C05/Decode.v scan) is expected to decide this
	// file; an undecided claimed file is a mismatch (code 98)
	Claimed bool `json:"claimed"`
}

// fixed lexical shapes the scanner does NOT claim (tags, anchors, sequences,
// scalars, other encodings, control characters, directives, flow-collection
// fragments): those items are monitor-only
var unclaimedLex = map[string]bool{"tab": true, "tab-no-newline": true, "tabs-and-comments": true, "tab-null": true,
	"tagged-null": true, "tagged-null-empty": true, "anchored-null": true, "empty-seq": true,
	"seq-of-null": true, "seq-of-tilde": true, "scalar": true, "scalar-number": true, "scalar-true": true, "scalar-empty-quoted": true,
	"scalar-single-quoted": true, "scalar-literal-block": true, "scalar-folded-block": true, "null-key": true, "colon": true,
	"alias-unknown": true, "bom-twice": true, "utf16le-bom": true, "utf16be-bom": true, "utf16le-null": true, "invalid-utf8": true,
	"nul-byte": true, "control-byte": true, "del-byte": true, "open-brace": true, "open-bracket": true, "close-brace": true,
	"directive-only": true, "directive-marker": true, "bad-directive": true, "percent": true, "merge-key": true}

// lexShapes: no mapping with content in sight - the file is decided by its lexical shape alone.
func lexShapes() []shape {
	l := lexShapeList()
	for i := range l {
		l[i].Claimed = !unclaimedLex[l[i].Name]
	}
	return l
}

func lexShapeList() []shape {
	return []shape{
		{Name: "zero-length", Bytes: ""},
		{Name: "newline", Bytes: "\n"},
		{Name: "whitespace", Bytes: "  \n\n   \n"},
		{Name: "whitespace-no-newline", Bytes: "   "},
		{Name: "crlf", Bytes: "\r\n\r\n"},
		{Name: "comment", Bytes: "# disabled\n"},
		{Name: "comment-no-newline", Bytes: "# disabled"},
		{Name: "comments", Bytes: "# disabled for now\n# name: A\n# filter:\n#   url: c05.test/a\n"},
		{Name: "blank-and-comments", Bytes: "\n\n  # a\n\n#b\n   \n"},
		{Name: "indented-comment", Bytes: "    # x\n"},
		{Name: "marker", Bytes: "---\n"},
		{Name: "marker-no-newline", Bytes: "---"},
		{Name: "marker-space", Bytes: "--- \n"},
		{Name: "marker-end", Bytes: "--- \n...\n"},
		{Name: "marker-end-no-newline", Bytes: "---\n..."},
		{Name: "marker-comment", Bytes: "--- # nothing here\n"},
		{Name: "marker-then-comment", Bytes: "---\n# nothing here\n"},
		{Name: "comment-then-marker", Bytes: "# nothing here\n---\n"},
		{Name: "end-marker-only", Bytes: "...\n"},
		{Name: "two-markers", Bytes: "---\n---\n"},
		{Name: "marker-end-marker-end", Bytes: "---\n...\n---\n...\n"},
		{Name: "null", Bytes: "null\n"},
		{Name: "null-no-newline", Bytes: "null"},
		{Name: "Null", Bytes: "Null\n"},
		{Name: "NULL", Bytes: "NULL\n"},
		{Name: "tilde", Bytes: "~\n"},
		{Name: "tilde-no-newline", Bytes: "~"},
		{Name: "tilde-comment", Bytes: "~ # nothing\n"},
		{Name: "marker-tilde", Bytes: "--- ~\n"},
		{Name: "marker-null", Bytes: "--- null\n"},
		{Name: "marker-newline-null", Bytes: "---\nnull\n"},
		{Name: "marker-null-end", Bytes: "---\nnull\n...\n"},
		{Name: "indented-null", Bytes: "  null\n"},
		{Name: "comment-then-null", Bytes: "# c\nnull\n"},
		{Name: "null-then-comment", Bytes: "null\n# c\n"},
		{Name: "null-null", Bytes: "null\nnull\n"},
		{Name: "tilde-tilde", Bytes: "~\n~\n"},
		{Name: "null-then-marker", Bytes: "null\n---\n"},
		{Name: "tagged-null", Bytes: "!!null null\n"},
		{Name: "tagged-null-empty", Bytes: "!!null\n"},
		{Name: "anchored-null", Bytes: "&a ~\n"},
		{Name: "empty-map", Bytes: "{}\n"},
		{Name: "empty-map-no-newline", Bytes: "{}"},
		{Name: "marker-empty-map", Bytes: "--- {}\n"},
		{Name: "empty-map-comment", Bytes: "{} # nothing\n"},
		{Name: "empty-seq", Bytes: "[]\n"},
		{Name: "seq-of-null", Bytes: "-\n"},
		{Name: "seq-of-tilde", Bytes: "- ~\n"},
		{Name: "scalar", Bytes: "hello\n"},
		{Name: "scalar-number", Bytes: "42\n"},
		{Name: "scalar-true", Bytes: "true\n"},
		{Name: "scalar-empty-quoted", Bytes: "\"\"\n"},
		{Name: "scalar-single-quoted", Bytes: "''\n"},
		{Name: "scalar-literal-block", Bytes: "|\n"},
		{Name: "scalar-folded-block", Bytes: ">\n"},
		{Name: "null-key", Bytes: "? \n"},
		{Name: "colon", Bytes: ":\n"},
		{Name: "alias-unknown", Bytes: "*a\n"},
		{Name: "bom", Bytes: "\xef\xbb\xbf"},
		{Name: "bom-newline", Bytes: "\xef\xbb\xbf\n"},
		{Name: "bom-comment", Bytes: "\xef\xbb\xbf# c\n"},
		{Name: "bom-marker", Bytes: "\xef\xbb\xbf---\n"},
		{Name: "bom-null", Bytes: "\xef\xbb\xbfnull\n"},
		{Name: "bom-twice", Bytes: "\xef\xbb\xbf\xef\xbb\xbf"},
		{Name: "utf16le-bom", Bytes: "hex:fffe"},
		{Name: "utf16be-bom", Bytes: "hex:feff"},
		{Name: "utf16le-null", Bytes: "hex:fffe6e0075006c006c000a00"},
		{Name: "invalid-utf8", Bytes: "hex:c328a0a1"},
		{Name: "tab", Bytes: "\t\n"},
		{Name: "tab-no-newline", Bytes: "\t"},
		{Name: "tabs-and-comments", Bytes: "\t# c\n\t\t\n# d\n"},
		{Name: "tab-null", Bytes: "\tnull\n"},
		{Name: "nul-byte", Bytes: "\x00"},
		{Name: "control-byte", Bytes: "\x01\n"},
		{Name: "del-byte", Bytes: "\x7f\n"},
		{Name: "open-brace", Bytes: "{\n"},
		{Name: "open-bracket", Bytes: "[\n"},
		{Name: "close-brace", Bytes: "}\n"},
		{Name: "directive-only", Bytes: "%YAML 1.2\n"},
		{Name: "directive-marker", Bytes: "%YAML 1.2\n---\n"},
		{Name: "bad-directive", Bytes: "%\n"},
		{Name: "percent", Bytes: "%%%\n"},
		{Name: "merge-key", Bytes: "<<: *x\n"},
	}
}

// two documents: only the first is read
func twoDocs(good string) []shape {
	return []shape{
		{Name: "docs:null-then-good", Bytes: "---\n---\n" + good},
		{Name: "docs:tilde-then-good", Bytes: "~\n---\n" + good},
		{Name: "docs:comment-then-good-doc", Bytes: "# c\n---\n" + good},
		{Name: "docs:good-then-null", Bytes: good + "---\nnull\n"},
		{Name: "docs:good-then-good", Bytes: good + "---\n" + good},
		{Name: "docs:good-then-garbage", Bytes: good + "---\n[}\n"},
		{Name: "docs:good-then-end", Bytes: good + "...\n"},
		{Name: "docs:good-after-marker", Bytes: "---\n" + good},
		{Name: "docs:bom-good", Bytes: "\xef\xbb\xbf" + good},
		{Name: "docs:good-crlf", Bytes: strings.ReplaceAll(good, "\n", "\r\n")},
		{Name: "docs:good-tab-indented", Bytes: strings.ReplaceAll(good, "\n  ", "\n\t")},
		{Name: "docs:good-trailing-tab", Bytes: strings.ReplaceAll(good, "\n", "\t\n")},
		{Name: "docs:good-twice-same-doc", Bytes: good + good},
	}
}

const goodPathParams = "path_params:\n  - url: c05.test/users/{id}\n"
const goodProcDef = "name: C05Extra\ndescription: not in the factory table\nexec: c05.go\nparameters:\n  p:\n    type: string\n    required: false\noutput_streams:\n  - name: a\n    type: StreamTypeAny\ninput_stream:\n  name: i\n  type: StreamTypeAny\n"

func nullKeyShapes(where string) []shape {
	g := flowYAML("A", mainURL)
	rep := func(old, new string) string {
		if !strings.Contains(g, old) {
			panic("nullKeyShapes: pattern not found: " + old)
		}
		return strings.Replace(g, old, new, 1)
	}
	u := quotaHost + "/*"
	switch where {
	case "flow":
		procs := g[strings.Index(g, "processors:\n"):strings.Index(g, "flow:\n")]
		flow := g[strings.Index(g, "flow:\n"):]
		head := g[:strings.Index(g, "processors:\n")]
		return []shape{
			{Name: "nullkeys:all", Bytes: "name: A\nfilter: null\nprocessors: null\nflow: null\n"},
			{Name: "nullkeys:all-tilde", Bytes: "name: ~\nfilter: ~\nprocessors: ~\nflow: ~\n"},
			{Name: "nullkeys:all-empty", Bytes: "name:\nfilter:\nprocessors:\nflow:\n"},
			{Name: "nullkeys:flow-style", Bytes: "{name: A, filter: null, processors: null, flow: null}\n"},
			{Name: "nullkeys:name", Bytes: rep("name: A\n", "name: null\n")},
			{Name: "nullkeys:filter", Bytes: rep("filter:\n  url: c05.test/a\n", "filter: null\n")},
			{Name: "nullkeys:filter-url", Bytes: rep("  url: c05.test/a\n", "  url: null\n")},
			{Name: "nullkeys:processors", Bytes: head + "processors: null\n" + flow},
			{Name: "nullkeys:processors-unused", Bytes: head + "processors: null\nflow:\n  request:\n    - from:\n        stream:\n          name: globalStream\n          at: start\n      to:\n        stream:\n          name: globalStream\n          at: end\n  response:\n    - from:\n        stream:\n          name: globalStream\n          at: start\n      to:\n        stream:\n          name: globalStream\n          at: end\n"},
			{Name: "nullkeys:flow", Bytes: head + procs + "flow: null\n"},
			{Name: "nullkeys:request-response", Bytes: head + procs + "flow:\n  request: null\n  response: null\n"},
			{Name: "nullkeys:request", Bytes: head + procs + "flow:\n  request: ~\n" + flow[strings.Index(flow, "  response:\n"):]},
			{Name: "nullkeys:response", Bytes: head + procs + flow[:strings.Index(flow, "  response:\n")] + "  response: ~\n"},
			{Name: "nullkeys:empty-collections", Bytes: "name: A\nfilter: {}\nprocessors: {}\nflow: {request: [], response: []}\n"},
			{Name: "nullkeys:name-only", Bytes: "name: A\n"},
			{Name: "nullkeys:unknown-key-only", Bytes: "nam: A\n"},
			{Name: "nullkeys:processor-entry", Bytes: rep("  b:\n    processor: Filter\n    parameters:\n      - key: header\n        value: x-b=1\n", "  b: null\n")},
			{Name: "nullkeys:processor-fields", Bytes: rep("  b:\n    processor: Filter\n    parameters:\n      - key: header\n        value: x-b=1\n", "  b:\n    processor: null\n    parameters: null\n    metrics: null\n")},
			{Name: "nullkeys:parameter-key-value", Bytes: rep("      - key: header\n        value: x-b=1\n", "      - key: null\n        value: null\n")},
			{Name: "nullkeys:connection-ends", Bytes: rep("    - from:\n        stream:\n          name: globalStream\n          at: start\n      to:\n        processor:\n          name: a\n", "    - from: null\n      to: null\n")},
			{Name: "nullkeys:end-fields", Bytes: rep("    - from:\n        stream:\n          name: globalStream\n          at: start\n      to:\n        processor:\n          name: a\n", "    - from:\n        stream: null\n        flow: null\n        processor: null\n      to:\n        stream: null\n        flow: null\n        processor: null\n")},
			{Name: "nullkeys:ref-fields", Bytes: rep("    - from:\n        stream:\n          name: globalStream\n          at: start\n      to:\n        processor:\n          name: a\n", "    - from:\n        stream:\n          name: null\n          at: null\n      to:\n        processor:\n          name: null\n          condition: null\n")},
		}
	case "quota":
		return []shape{
			{Name: "nullkeys:quotas", Bytes: "quotas: null\n"},
			{Name: "nullkeys:quotas-tilde", Bytes: "quotas: ~\ninternal_limits: ~\n"},
			{Name: "nullkeys:quotas-empty", Bytes: "quotas:\ninternal_limits:\n"},
			{Name: "nullkeys:internal-limits", Bytes: "quotas:\n" + fixedQ("q1", u, 1000, "") + "internal_limits: null\n"},
			{Name: "nullkeys:internal-only-null-quotas", Bytes: "quotas: null\ninternal_limits:\n  - id: c1\n    parent_id: q1\n    strategy:\n      fixed_window:\n        max: 10\n        interval: 1\n        interval_unit: minute\n"},
			{Name: "nullkeys:entry", Bytes: "quotas:\n  - null\n"},
			{Name: "nullkeys:entry-fields", Bytes: "quotas:\n  - id: null\n    filter: null\n    strategy: null\n"},
			{Name: "nullkeys:filter", Bytes: "quotas:\n  - id: q1\n    filter: null\n    strategy:\n      fixed_window:\n        max: 1\n        interval: 1\n        interval_unit: minute\n"},
			{Name: "nullkeys:filter-url", Bytes: "quotas:\n  - id: q1\n    filter:\n      url: null\n    strategy:\n      fixed_window:\n        max: 1\n        interval: 1\n        interval_unit: minute\n"},
			{Name: "nullkeys:strategy", Bytes: "quotas:\n  - id: q1\n    filter:\n      url: " + u + "\n    strategy: null\n"},
			{Name: "nullkeys:fixed-window", Bytes: "quotas:\n  - id: q1\n    filter:\n      url: " + u + "\n    strategy:\n      fixed_window: null\n"},
			{Name: "nullkeys:fixed-window-fields", Bytes: "quotas:\n  - id: q1\n    filter:\n      url: " + u + "\n    strategy:\n      fixed_window:\n        max: null\n        interval: null\n        interval_unit: null\n"},
			{Name: "nullkeys:every-strategy", Bytes: "quotas:\n  - id: q1\n    filter:\n      url: " + u + "\n    strategy:\n      fixed_window: null\n      concurrent: null\n      header_based: null\n      fixed_window_custom_counter: null\n"},
			{Name: "nullkeys:renewal-spillover", Bytes: "quotas:\n" + fixedQ("q1", u, 10, "        spillover: null\n        monthly_renewal: null\n        group_by_header: null\n")},
			{Name: "nullkeys:internal-entry-fields", Bytes: "quotas:\n" + fixedQ("q1", u, 1000, "") + "internal_limits:\n  - id: null\n    parent_id: null\n    filter: null\n    strategy: null\n"},
			{Name: "nullkeys:flow-style", Bytes: "{quotas: null, internal_limits: null}\n"},
			{Name: "nullkeys:unknown-key-only", Bytes: "quota: []\n"},
		}
	case "pathparams":
		return []shape{
			{Name: "nullkeys:path-params", Bytes: "path_params: null\n"},
			{Name: "nullkeys:path-params-empty", Bytes: "path_params:\n"},
			{Name: "nullkeys:path-params-empty-list", Bytes: "path_params: []\n"},
			{Name: "nullkeys:entry", Bytes: "path_params:\n  - null\n"},
			{Name: "nullkeys:entry-empty", Bytes: "path_params:\n  -\n  - url: c05.test/users/{id}\n"},
			{Name: "nullkeys:url", Bytes: "path_params:\n  - url: null\n"},
			{Name: "nullkeys:url-empty", Bytes: "path_params:\n  - url: \"\"\n"},
			{Name: "nullkeys:url-twice", Bytes: "path_params:\n  - url: c05.test/users/{id}\n  - url: c05.test/users/{id}\n"},
			{Name: "nullkeys:url-clash", Bytes: "path_params:\n  - url: c05.test/users/{id}\n  - url: c05.test/users/{name}\n"},
			{Name: "nullkeys:url-of-the-flow", Bytes: "path_params:\n  - url: " + mainURL + "\n"},
			{Name: "nullkeys:url-weird", Bytes: "path_params:\n  - url: \"%%%/{x}/*/{x}\"\n"},
			{Name: "nullkeys:unknown-key-only", Bytes: "pathparams: []\n"},
			{Name: "nullkeys:is-a-string", Bytes: "path_params: hello\n"},
		}
	case "procdef":
		return []shape{
			{Name: "nullkeys:all", Bytes: "name: null\ndescription: null\nexec: null\nparameters: null\noutput_streams: null\ninput_stream: null\n"},
			{Name: "nullkeys:unknown-name-nulls", Bytes: "name: C05Extra\nparameters: null\noutput_streams: null\ninput_stream: null\n"},
			{Name: "nullkeys:unknown-name-null-entries", Bytes: "name: C05Extra\nparameters:\n  p: null\noutput_streams:\n  - null\ninput_stream: null\n"},
			{Name: "nullkeys:filter-redefined-nulls", Bytes: "name: Filter\nparameters: null\noutput_streams: null\ninput_stream: null\n"},
			{Name: "nullkeys:filter-redefined-null-entries", Bytes: "name: Filter\nparameters:\n  header: null\n  url: null\noutput_streams:\n  - null\n  - name: hit\n    type: null\ninput_stream: null\n"},
			{Name: "nullkeys:generate-response-redefined-nulls", Bytes: "name: GenerateResponse\nparameters: null\noutput_streams: null\ninput_stream: null\n"},
			{Name: "nullkeys:name-only", Bytes: "name: Filter\n"},
			{Name: "nullkeys:unknown-key-only", Bytes: "nam: Filter\n"},
		}
	case "gateway":
		return []shape{
			{Name: "nullkeys:exporters", Bytes: "exporters: null\n"},
			{Name: "nullkeys:exporters-empty", Bytes: "exporters:\ntrace_exporter:\n"},
			{Name: "nullkeys:file", Bytes: "exporters:\n  file: null\n"},
			{Name: "nullkeys:file-fields", Bytes: "exporters:\n  file:\n    exporter_id: null\n    file_dir: null\n    file_name: null\n"},
			{Name: "nullkeys:trace-exporter", Bytes: "exporters:\n  file:\n    exporter_id: e1\n    file_dir: /tmp\n    file_name: zoo.log\ntrace_exporter: null\n"},
			{Name: "nullkeys:trace-exporter-fields", Bytes: "exporters:\n  file:\n    exporter_id: e1\n    file_dir: /tmp\n    file_name: zoo.log\ntrace_exporter:\n  trace_exporter_id: null\n  traces_endpoint: null\n"},
			{Name: "nullkeys:unknown-key-only", Bytes: "exporter: {}\n"},
		}
	}
	return nil
}

// DocItem: one degenerate file in one place.
// DocItem: one degenerate file in one place.
type DocItem struct {
	RawItem
	Where string // flow-only | flow-extra | quota-only | quota-extra | pathparams | procdef | gateway-* | everywhere | ...
	Shape shape
	// Modelled: the item goes through the model as well (suite `files`)
	Modelled bool
	// Rendered: "<directory>/<file>" -> what the harness rendered that file from
	// (flow:<name> | quota | pathparams | pathparams-null-entry); every other file
	// of the four directories is given to the model as bytes
	Rendered map[string]string
}

var docFlows = map[string]FlowCfg{"A": goodFlow("A", mainURL, ""), "B": goodFlow("B", "c05.test/b", ""), "C": goodFlow("C", "c05.test/c", ""),
	"L": limiterFlow("L", "c05.test/l", false), "M": limiterFlow("M", mainURL, true)}

// limiterFlow: the good flow plus a Limiter naming quota q1 - created with the
// flow whether connected or not, so the configuration is accepted exactly when
// a quota file defines q1 (extension 4: byte-level quota files with content)
func limiterFlow(name, url string, connected bool) FlowCfg {
	f := cloneFlow(goodFlow(name, url, ""))
	f.Procs = append(f.Procs, lim("l"))
	if connected {
		f.Req = append(f.Req, p2p("b", "miss", "l"), p2s("l", "below_limit"), p2s("l", "above_limit"))
		// b's miss edge to the stream goes: one edge per (processor, condition)
		var req []Conn
		for _, cn := range f.Req {
			if cn.From.Proc != nil && cn.From.Proc.Name == "b" && cn.From.Proc.Cond == "miss" && cn.To.Stream != nil {
				continue
			}
			req = append(req, cn)
		}
		f.Req = req
	}
	return f
}

// quotaByteShapes: valid YAML quota documents written as RAW BYTES (not
// `Rendered`): the document alone, and with comments, blank lines, markers, a
// BOM, CR LF, a second document around it.  The scanner must leave each to the
// decoder proper (SOther); the decoder's answer (a usable quota document) is
// handed to the model in the case's table `qdec` (tag "quota-bytes").
func quotaByteShapes(id, url string) []shape {
	q := "quotas:\n" + fixedQ(id, url, 1000, "")
	return []shape{
		{Name: "qbytes:plain", Bytes: q},
		{Name: "qbytes:comment-before", Bytes: "# the quotas of c05\n" + q},
		{Name: "qbytes:comment-blank-before", Bytes: "# the quotas of c05\n\n   \n#\n" + q},
		{Name: "qbytes:blank-lines-before", Bytes: "\n\n  \n" + q},
		{Name: "qbytes:marker-before", Bytes: "---\n" + q},
		{Name: "qbytes:marker-comment-before", Bytes: "--- # first document\n# c\n\n" + q},
		{Name: "qbytes:comment-marker-before", Bytes: "# c\n\n---\n" + q},
		{Name: "qbytes:comment-after", Bytes: q + "# end\n\n"},
		{Name: "qbytes:end-marker-after", Bytes: q + "...\n"},
		{Name: "qbytes:end-marker-comment-after", Bytes: q + "... # done\n# c\n\n"},
		{Name: "qbytes:around", Bytes: "\n# before\n\n---\n# inside\n" + q + "\n# after\n...\n\n"},
		{Name: "qbytes:trailing-comments", Bytes: strings.Replace(strings.Replace(q, "quotas:\n", "quotas: # list\n", 1), "id: "+id+"\n", "id: "+id+" # the id\n", 1)},
		{Name: "qbytes:blank-inside", Bytes: strings.Replace(q, "    strategy:\n", "\n    # the strategy\n\n    strategy:\n", 1)},
		{Name: "qbytes:null-document-after", Bytes: q + "---\nnull\n"},
		{Name: "qbytes:comment-document-after", Bytes: q + "---\n# nothing\n"},
		{Name: "qbytes:garbage-document-after", Bytes: q + "---\n[]\n"},
		{Name: "qbytes:bom", Bytes: "\xef\xbb\xbf" + q},
		{Name: "qbytes:bom-comment", Bytes: "\xef\xbb\xbf# c\n\n" + q},
		{Name: "qbytes:crlf", Bytes: strings.ReplaceAll("# c\n\n"+q, "\n", "\r\n")},
		{Name: "qbytes:no-final-newline", Bytes: "# c\n" + strings.TrimSuffix(q, "\n")},
	}
}

func docFlowYAML(name string) string {
	f := docFlows[name]
	return f.YAML()
}

func doclessItems(r *c.Rng, nRandom int) []DocItem {
	good, goodB := docFlowYAML("A"), docFlowYAML("B")
	goodQ := "quotas:\n" + fixedQ("q1", quotaHost+"/*", 1000, "")
	goodQ2 := "quotas:\n" + fixedQ("q2", quotaHost+"/b", 10, "")
	txns := []Txn{
		{Dir: "req", URL: mainURL, Headers: h("x-a", "x-b", "x-t")},
		{Dir: "req", URL: mainURL, Headers: h()},
		{Dir: "res", URL: mainURL, Headers: h("x-t")},
		{Dir: "req", URL: "c05.test/users/7", Headers: h("x-a")},
	}
	zooTxns := []Txn{
		{Dir: "req", URL: mainURL, Method: "POST", Headers: map[string]string{"x-k": "k1"}, Body: "{\"a\": 7}"},
		{Dir: "req", URL: mainURL, Method: "POST", Headers: map[string]string{"x-k": "k1", "x-s": "1"}, Body: "{\"a\": 7}"},
		{Dir: "res", URL: mainURL, Method: "POST", Headers: map[string]string{"x-k": "k1", "x-r": "1"}, Body: "{\"a\": 7}", Status: 200, StoredReq: true},
	}
	var out []DocItem
	add := func(where string, sh shape, modelled bool, ri RawItem, rendered map[string]string) {
		ri.Kind = "docless"
		ri.Label = "docless:" + where + ":" + sh.Name
		if ri.Flows == nil {
			ri.Flows = map[string]string{}
		}
		if ri.Quotas == nil {
			ri.Quotas = map[string]string{}
		}
		if ri.Txns == nil {
			ri.Txns = txns
		}
		out = append(out, DocItem{RawItem: ri, Where: where, Shape: sh, Modelled: modelled, Rendered: rendered})
	}
	rA := map[string]string{"flows/A.yaml": "flow:A"}
	with := func(m map[string]string, kv ...string) map[string]string {
		o := map[string]string{}
		for k, v := range m {
			o[k] = v
		}
		for i := 0; i+1 < len(kv); i += 2 {
			o[kv[i]] = kv[i+1]
		}
		return o
	}
	place := func(where string, sh shape, modelled bool) {
		switch where {
		case "flow-only":
			add(where, sh, modelled, RawItem{Flows: map[string]string{"disabled.yaml": sh.Bytes}}, nil)
		case "flow-extra": // next to a valid flow, read before it and after it
			add(where, sh, modelled, RawItem{Flows: map[string]string{"A.yaml": good, "disabled.yaml": sh.Bytes}}, rA)
			add(where+"-first", sh, modelled, RawItem{Flows: map[string]string{"B.yaml": goodB, "A_disabled.yaml": sh.Bytes}},
				map[string]string{"flows/B.yaml": "flow:B"})
		case "quota-only":
			add(where, sh, modelled, RawItem{Flows: map[string]string{"A.yaml": good}, Quotas: map[string]string{"disabled.yaml": sh.Bytes}}, rA)
		case "quota-extra":
			add(where, sh, modelled, RawItem{Flows: map[string]string{"A.yaml": good}, Quotas: map[string]string{"q.yaml": goodQ, "disabled.yaml": sh.Bytes}},
				with(rA, "quotas/q.yaml", "quota"))
			add(where+"-last", sh, modelled, RawItem{Flows: map[string]string{"A.yaml": good}, Quotas: map[string]string{"a.yaml": goodQ, "z_disabled.yaml": sh.Bytes}},
				with(rA, "quotas/a.yaml", "quota"))
		case "pathparams":
			rd := rA
			if sh.Name == "nullkeys:entry" || sh.Name == "nullkeys:entry-empty" {
				rd = with(rA, "path_params/disabled.yaml", "pathparams-null-entry")
				modelled = true
			}
			add(where, sh, modelled, RawItem{Flows: map[string]string{"A.yaml": good}, PathParams: map[string]string{"disabled.yaml": sh.Bytes}}, rd)
			add(where+"-extra", sh, modelled, RawItem{Flows: map[string]string{"A.yaml": good},
				PathParams: map[string]string{"a.yaml": goodPathParams, "disabled.yaml": sh.Bytes}}, with(rd, "path_params/a.yaml", "pathparams"))
		case "procdef":
			add(where, sh, modelled, RawItem{Flows: map[string]string{"A.yaml": good}, ProcDefs: map[string]string{"zz_disabled.yaml": sh.Bytes}}, rA)
			add(where+"-first", sh, modelled, RawItem{Flows: map[string]string{"A.yaml": good}, ProcDefs: map[string]string{"a_disabled.yml": sh.Bytes}}, rA)
		case "gateway": // read by HARCollector / UserDefinedTraces when they are created: monitor only
			add(where+"-har", sh, false, RawItem{Flows: gatewayFlows(), Gateway: sh.Bytes, GatewayPresent: true, Txns: zooTxns}, nil)
			add(where+"-traces", sh, false, RawItem{Flows: tracesFlows(), Gateway: sh.Bytes, GatewayPresent: true, Txns: zooTxns}, nil)
			add(where+"-plain", sh, false, RawItem{Flows: map[string]string{"A.yaml": good}, Gateway: sh.Bytes, GatewayPresent: true}, nil)
		}
	}
	goodOf := map[string]string{"flow-only": good, "flow-extra": docFlowYAML("C"),
		"quota-only": goodQ, "quota-extra": goodQ2, "pathparams": goodPathParams, "procdef": goodProcDef, "gateway": zooGateway}
	nullOf := map[string]string{"flow-only": "flow", "flow-extra": "flow", "quota-only": "quota", "quota-extra": "",
		"pathparams": "pathparams", "procdef": "procdef", "gateway": "gateway"}
	wheres := []string{"flow-only", "flow-extra", "quota-only", "quota-extra", "pathparams", "procdef", "gateway"}
	for _, where := range wheres {
		for _, sh := range lexShapes() {
			place(where, sh, true)
		}
		for _, sh := range twoDocs(goodOf[where]) {
			place(where, sh, true) // the scanner decides the ones whose first document is degenerate
		}
		if nullOf[where] != "" {
			for _, sh := range nullKeyShapes(nullOf[where]) {
				if where == "flow-extra" {
					// next to flow A the degenerate file must not be called A as well
					sh.Bytes = strings.Replace(strings.Replace(sh.Bytes, "name: A\n", "name: C\n", 1), "{name: A,", "{name: C,", 1)
				}
				place(where, sh, false)
			}
		}
	}
	// random compositions of degenerate lines
	for _, where := range []string{"flow-only", "flow-extra", "quota-only", "procdef", "pathparams"} {
		n := nRandom
		if where == "pathparams" || where == "flow-extra" {
			n = nRandom / 4
		}
		for _, sh := range randomLexShapes(r.Fork(uint64(len(where))), n) {
			place(where, sh, true)
		}
	}
	// several degenerate files at once, in every directory
	add("everywhere", shape{Name: "comments", Bytes: "# disabled\n", Claimed: true}, true, RawItem{
		Flows:      map[string]string{"A.yaml": good, "x.yaml": "# disabled\n", "y.yaml": "---\n", "z.yaml": "~\n"},
		Quotas:     map[string]string{"x.yaml": "# disabled\n", "y.yaml": "null\n"},
		PathParams: map[string]string{"x.yaml": "# disabled\n", "y.yaml": "--- ~\n"},
		ProcDefs:   map[string]string{"x.yaml": "# disabled\n", "y.yml": "---\n...\n"},
		Gateway:    "# disabled\n", GatewayPresent: true}, rA)
	add("everywhere-but-quotas", shape{Name: "comments", Bytes: "# disabled\n", Claimed: true}, true, RawItem{
		Flows:      map[string]string{"A.yaml": good, "x.yaml": "# disabled\n", "y.yaml": "---\n", "z.yaml": "~\n"},
		PathParams: map[string]string{"x.yaml": "# disabled\n", "y.yaml": "--- ~\n"},
		ProcDefs:   map[string]string{"x.yaml": "# disabled\n", "y.yml": "---\n...\n"}}, rA)
	add("everywhere-but-flows-and-quotas", shape{Name: "comments", Bytes: "# disabled\n", Claimed: true}, true, RawItem{
		Flows:      map[string]string{"A.yaml": good},
		PathParams: map[string]string{"x.yaml": "# disabled\n", "y.yaml": "--- ~\n"},
		ProcDefs:   map[string]string{"x.yaml": "# disabled\n", "y.yml": "---\n...\n", "z.yaml": "...\n"}}, rA)
	// a degenerate file next to a duplicate flow name: which of the two ends the load
	add("duplicate-then-docless", shape{Name: "comments", Bytes: "# disabled\n", Claimed: true}, true, RawItem{
		Flows: map[string]string{"A.yaml": good, "B_same_name.yaml": good, "z.yaml": "# disabled\n"}},
		map[string]string{"flows/A.yaml": "flow:A", "flows/B_same_name.yaml": "flow:A"})
	add("docless-then-duplicate", shape{Name: "comments", Bytes: "# disabled\n", Claimed: true}, true, RawItem{
		Flows: map[string]string{"0.yaml": "# disabled\n", "A.yaml": good, "B_same_name.yaml": good}},
		map[string]string{"flows/A.yaml": "flow:A", "flows/B_same_name.yaml": "flow:A"})
	// the degenerate files that are NOT *.yaml are not read at all
	add("other-extension", shape{Name: "comments", Bytes: "# disabled\n", Claimed: true}, true, RawItem{
		Flows:      map[string]string{"A.yaml": good, "x.yml": "# disabled\n", "y.yaml.bak": "---\n", "README": "~\n"},
		Quotas:     map[string]string{"q.yaml": goodQ, "x.yml": "# disabled\n", "y.txt": "null\n"},
		PathParams: map[string]string{"x.yml": "# disabled\n"}}, with(rA, "quotas/q.yaml", "quota"))
	// no file at all
	add("empty-directories", shape{Name: "none", Claimed: true}, true, RawItem{}, nil)
	// extension 4 (audit 2, C05-2): byte-level quota files WITH content next to flows
	// whose Limiter names the quota they define.  Not `Claimed` (the scanner leaves
	// them to the decoder proper); the model gets the decoder's answer through the
	// table `qdec` of the case (tag "quota-bytes").
	goodL, goodM := docFlowYAML("L"), docFlowYAML("M")
	rL := map[string]string{"flows/L.yaml": "flow:L"}
	rM := map[string]string{"flows/M.yaml": "flow:M"}
	for _, sh := range quotaByteShapes("q1", quotaHost+"/*") {
		add("quota-bytes-limiter", sh, true, RawItem{Flows: map[string]string{"L.yaml": goodL}, Quotas: map[string]string{"q.yaml": sh.Bytes}},
			with(rL, "quotas/q.yaml", "quota-bytes"))
		add("quota-bytes-limiter-connected", sh, true, RawItem{Flows: map[string]string{"M.yaml": goodM}, Quotas: map[string]string{"q.yaml": sh.Bytes}},
			with(rM, "quotas/q.yaml", "quota-bytes"))
		add("quota-bytes-plain-flow", sh, true, RawItem{Flows: map[string]string{"A.yaml": good}, Quotas: map[string]string{"q.yaml": sh.Bytes}},
			with(rA, "quotas/q.yaml", "quota-bytes"))
	}
	qb := quotaByteShapes("q1", quotaHost+"/*")
	// the second quota file is about ANOTHER host: two files naming one host are
	// rejected by the quota loader's own validation (qd_valid, not modelled)
	qb2 := quotaByteShapes("q2", "c05other.test/*")
	goodQ3 := "quotas:\n" + fixedQ("q2", "c05other.test/*", 10, "")
	for i, sh := range []shape{qb[2], qb[10], qb[12]} {
		other := qb2[[]int{5, 0, 9}[i]]
		// two byte-level quota files; a byte-level one next to a rendered one (either order)
		add("quota-bytes-two-files", sh, true, RawItem{Flows: map[string]string{"L.yaml": goodL},
			Quotas: map[string]string{"a.yaml": sh.Bytes, "b.yaml": other.Bytes}},
			with(rL, "quotas/a.yaml", "quota-bytes", "quotas/b.yaml", "quota-bytes"))
		add("quota-bytes-then-rendered", sh, true, RawItem{Flows: map[string]string{"L.yaml": goodL},
			Quotas: map[string]string{"a.yaml": sh.Bytes, "b.yaml": goodQ3}},
			with(rL, "quotas/a.yaml", "quota-bytes", "quotas/b.yaml", "quota"))
		add("rendered-then-quota-bytes", sh, true, RawItem{Flows: map[string]string{"L.yaml": goodL},
			Quotas: map[string]string{"a.yaml": goodQ3, "b.yaml": sh.Bytes}},
			with(rL, "quotas/a.yaml", "quota", "quotas/b.yaml", "quota-bytes"))
		// ... next to a document-less quota file: the quota loader rejects (stage 4) whichever is read first
		add("quota-bytes-then-docless", sh, true, RawItem{Flows: map[string]string{"L.yaml": goodL},
			Quotas: map[string]string{"a.yaml": sh.Bytes, "z.yaml": "# disabled\n"}},
			with(rL, "quotas/a.yaml", "quota-bytes"))
		add("docless-then-quota-bytes", sh, true, RawItem{Flows: map[string]string{"L.yaml": goodL},
			Quotas: map[string]string{"0.yaml": "--- ~\n", "a.yaml": sh.Bytes}},
			with(rL, "quotas/a.yaml", "quota-bytes"))
		// ... a quota file with another extension is not read: no quota defined (stage 2)
		add("quota-bytes-other-extension", sh, true, RawItem{Flows: map[string]string{"L.yaml": goodL},
			Quotas: map[string]string{"q.yml": sh.Bytes}}, rL)
	}
	// the controls: the Limiter flow without any quota file (stage 2), next to a
	// document-less one (stage 4), next to a rendered one (accepted)
	ctl := shape{Name: "qbytes:control"}
	add("limiter-no-quota-file", ctl, true, RawItem{Flows: map[string]string{"L.yaml": goodL}}, rL)
	add("limiter-docless-quota-file", shape{Name: "qbytes:control-docless", Bytes: "# disabled\n", Claimed: true}, true,
		RawItem{Flows: map[string]string{"L.yaml": goodL}, Quotas: map[string]string{"q.yaml": "# disabled\n"}}, rL)
	add("limiter-rendered-quota-file", ctl, true, RawItem{Flows: map[string]string{"L.yaml": goodL}, Quotas: map[string]string{"q.yaml": goodQ}},
		with(rL, "quotas/q.yaml", "quota"))
	return out
}

// filesCode: the observed verdict in the vocabulary of suite `files`
func filesCode(r *JobResult) int64 {
	switch r.LoadStatus {
	case "accept":
		return 0
	case "validator-panic":
		return 8
	case "reject":
		switch {
		case strings.HasPrefix(r.RejectText, "failed to get flows"):
			return 1
		case strings.HasPrefix(r.RejectText, "failed to create processor"):
			return 2
		case strings.HasPrefix(r.RejectText, "failed to create flows"):
			return 3
		case strings.HasPrefix(r.RejectText, "failed to initialize processors"):
			return 5
		}
		return 4 // NewValidationStream: the quota loader
	}
	return 9
}

// coqFiles: the case of suite `files` (C05/Decode.v FilesCase): the files of the
// four directories in the order the loader reads them (lexical), bytes unless rendered
func (it *DocItem) coqFiles(code int64) string {
	n := &names{newInterner(), newInterner()}
	var qdec []string
	dir := func(name string, files map[string]string, exts []string, rendered func(tag string) string) string {
		var terms []string
		for _, fn := range sortedKeys(files) {
			ok := false
			for _, e := range exts {
				if strings.HasSuffix(fn, e) {
					ok = true
				}
			}
			if !ok {
				continue
			}
			if tag, isR := it.Rendered[name+"/"+fn]; isR && tag == "quota-bytes" {
				// a byte-level quota file with content: bytes for the model, the
				// decoder's answer (a usable quota document) in the table qdec
				b := c.Bytes(string(fileBytes(files[fn])))
				terms = append(terms, "(Bytes "+b+")")
				qdec = append(qdec, "("+b+", QD true true)")
			} else if isR {
				terms = append(terms, "(Rendered "+rendered(tag)+")")
			} else {
				terms = append(terms, "(Bytes "+c.Bytes(string(fileBytes(files[fn])))+")")
			}
		}
		return c.List(terms)
	}
	qs := dir("quotas", it.Quotas, []string{".yaml"}, func(string) string { return "(QD true true)" })
	ps := dir("path_params", it.PathParams, []string{".yaml"}, func(tag string) string {
		return "(PP " + c.B(tag == "pathparams-null-entry") + ")"
	})
	fs := dir("flows", it.Flows, []string{".yaml"}, func(tag string) string {
		f := docFlows[strings.TrimPrefix(tag, "flow:")]
		return n.flowCoq(&f)
	})
	ds := dir("processors", it.ProcDefs, []string{".yaml", ".yml"}, func(string) string { return "DDef" })
	return "(FilesCase " + qs + " " + ps + " " + fs + " " + ds + " " + c.B(it.Shape.Claimed) + " " + c.Z(code) + " " + c.List(qdec) + ")"
}

func gatewayFlows() map[string]string {
	for _, zp := range zooProcs() {
		zp := zp
		if zp.Type == "HARCollector" && zp.Variant == "plain" {
			return map[string]string{"Z.yaml": zooFlow(&zp)}
		}
	}
	panic("no HARCollector in the zoo")
}

func tracesFlows() map[string]string {
	for _, zp := range zooProcs() {
		zp := zp
		if zp.Type == "UserDefinedTraces" {
			return map[string]string{"Z.yaml": zooFlow(&zp)}
		}
	}
	panic("no UserDefinedTraces in the zoo")
}

// random compositions of degenerate lines (blank, comment, markers, nulls,
// tabs, BOM): the lexical class the model's scanner decides
func randomLexShapes(r *c.Rng, n int) []shape {
	pieces := []string{"", " ", "   ", "# c", "  # c", "#", "---", "--- ", "--- # c", "--- ~", "--- null", "...", "... ", "null", "~", "Null", "NULL",
		" null", "~ # c", "null # c", "\t", "\t# c", "{}", "--- {}", "{} # c", "[]", "x", "\r", "---\r", "~\r", "nul", "nulll", "#null", "---x", "....", "--", "-", "- ~", "{ }", "\"\""}
	seen := map[string]bool{}
	var out []shape
	for i := 0; len(out) < n && i < 20*n; i++ {
		k := 1 + r.Intn(4)
		var sb strings.Builder
		if r.Chance(1, 12) {
			sb.WriteString("\xef\xbb\xbf")
		}
		claimed := true
		for j := 0; j < k; j++ {
			p := c.Pick(r, pieces[:25]) // mostly the document-less vocabulary (claimed by the scanner, tabs apart)
			if r.Chance(1, 4) {
				p = c.Pick(r, pieces)
				claimed = false
			}
			if strings.Contains(p, "\t") {
				claimed = false
			}
			sb.WriteString(p)
			if j+1 < k || r.Chance(4, 5) {
				sb.WriteString("\n")
			}
		}
		s := sb.String()
		if seen[s] {
			continue
		}
		seen[s] = true
		out = append(out, shape{Name: fmt.Sprintf("random-%03d", len(out)), Bytes: s, Claimed: claimed})
	}
	return out
}

func flowYAML(name, url string) string {
	f := goodFlow(name, url, "")
	return f.YAML()
}

// runDocless: like runRaw (monitor), plus the suite `files` for the modelled items
func runDocless(o *c.Out, items []DocItem) {
	jobs := make([]Job, len(items))
	for i := range items {
		it := &items[i]
		jobs[i] = Job{ID: i, Flows: it.Flows, Quotas: it.Quotas, Txns: it.Txns, Gateway: it.Gateway,
			PathParams: it.PathParams, ProcDefs: it.ProcDefs, GatewayPresent: it.GatewayPresent}
	}
	res := runJobs(jobs)
	for i := range items {
		it := &items[i]
		r := res[i]
		lo := loadObs(r)
		dump(it.Label, r)
		k := Case{Kind: it.Kind, Label: it.Label, Flows: it.Flows, Quotas: it.Quotas, Load: lo, Gateway: it.Gateway,
			PathParams: it.PathParams, ProcDefs: it.ProcDefs, GatewayPresent: it.GatewayPresent,
			DocWhere: it.Where, DocShape: &it.Shape, DocModelled: it.Modelled, DocRendered: it.Rendered}
		idx := -1
		if it.Modelled {
			lo.Code = filesCode(r)
			idx = o.Case("files", it.coqFiles(lo.Code), k, (it.Shape.Claimed && len(it.Shape.Bytes) > 0) || strings.HasPrefix(it.Shape.Name, "qbytes:"))
		} else {
			o.Case0(k, r.Accepted)
		}
		o.Count("docless:" + it.Where + ":verdict=" + r.LoadStatus)
		o.MonitorChecked(1)
		for _, h := range monitorLoad(nil, r) {
			h.Suite, h.Index, h.Case = "files", idx, k
			o.Hit(h)
		}
		if !r.Accepted || r.EngineLoad != "ok" {
			continue
		}
		for ti := range it.Txns {
			tr := &r.Txns[ti]
			if tr.Outcome == "not-run" {
				continue
			}
			tk := k
			tk.Txn, tk.Result = &it.Txns[ti], tr
			o.Case0(tk, len(tr.Events) > 0)
			o.Count("docless:txn-outcome=" + tr.Outcome)
			o.MonitorChecked(1)
			for _, h := range monitorTxn(&Config{}, &it.Txns[ti], tr) {
				h.Suite, h.Index, h.Case = "docless", -1, tk
				o.Hit(h)
			}
		}
	}
}
