// Parent side of the child-process protocol.  A Go stack overflow is a fatal
// error that no recover() catches, so loading and executing configurations
// happens in re-exec'ed copies of this binary (`c05 child <batch> <results>`);
// the death of a child (or its exceeding the time limit) is the observable
// "crash" / "timeout" of the step it was in.
package main

import (
	"bufio"
	"bytes"
	"context"
	"encoding/json"
	"fmt"
	"os"
	"os/exec"
	"path/filepath"
	"runtime"
	"strings"
	"sync"
	"time"
)

var childSeq int
var childMu sync.Mutex
var childSpawns, childDeaths int

// text of a transaction the child's watchdog found blocked: prefix + the lunar/ function it is blocked in
const stuckPrefix = "stuck in "

// per-step time limit (seconds): a child that makes no progress for this long is killed
const stepTimeout = 45 * time.Second

func workers() int {
	n := runtime.NumCPU()
	if n > 8 {
		n = 8
	}
	if n < 1 {
		n = 1
	}
	return n
}

// runJobs executes all jobs (in parallel children) and returns their results by job id.
func runJobs(jobs []Job) map[int]*JobResult {
	out := map[int]*JobResult{}
	var mu sync.Mutex
	w := workers()
	chunk := (len(jobs) + w*4 - 1) / (w * 4)
	if chunk < 1 {
		chunk = 1
	}
	if chunk > 60 {
		chunk = 60
	}
	type batch struct{ jobs []Job }
	ch := make(chan batch)
	var wg sync.WaitGroup
	for i := 0; i < w; i++ {
		wg.Add(1)
		go func(wi int) {
			defer wg.Done()
			for b := range ch {
				res := runBatch(b.jobs, wi)
				mu.Lock()
				for id, r := range res {
					out[id] = r
				}
				mu.Unlock()
			}
		}(i)
	}
	for i := 0; i < len(jobs); i += chunk {
		j := i + chunk
		if j > len(jobs) {
			j = len(jobs)
		}
		ch <- batch{jobs[i:j]}
	}
	close(ch)
	wg.Wait()
	return out
}

// runBatch runs the jobs in one child; when the child dies the job it was in is
// recorded and the remaining work is given to a new child.
func runBatch(jobs []Job, wi int) map[int]*JobResult {
	res := map[int]*JobResult{}
	for _, j := range jobs {
		res[j.ID] = &JobResult{Txns: make([]TxnResult, len(j.Txns))}
		for i := range res[j.ID].Txns {
			res[j.ID].Txns[i].Outcome = "not-run"
		}
	}
	todo := jobs
	for len(todo) > 0 {
		lines, dead, reason, stderr := spawn(todo, wi)
		done := map[int]bool{}
		last := map[int]line{}
		for _, l := range lines {
			r := res[l.ID]
			if r == nil {
				continue
			}
			switch l.What {
			case "validated":
				r.Runs = l.Runs
				switch {
				case l.Panic:
					r.LoadStatus, r.RejectText = "validator-panic", l.Text
				case l.OK:
					r.LoadStatus, r.Accepted = "accept", true
				default:
					r.LoadStatus, r.RejectText = "reject", l.Text
				}
			case "engine":
				r.Runs = l.Runs
				switch {
				case l.Panic:
					r.EngineLoad, r.EngineText = "panic", l.Text
				case l.OK:
					r.EngineLoad = "ok"
				default:
					r.EngineLoad, r.EngineText = "error", l.Text
				}
			case "txn":
				if l.Res != nil && l.Txn < len(r.Txns) {
					r.Txns[l.Txn] = *l.Res
				}
			case "done":
				done[l.ID] = true
			}
			last[l.ID] = l
		}
		if !dead {
			break
		}
		// which job was the child in?
		var next []Job
		found := false
		for i := range todo {
			j := todo[i]
			if done[j.ID] {
				continue
			}
			if found {
				next = append(next, j)
				continue
			}
			found = true
			r := res[j.ID]
			l, started := last[j.ID]
			kind := "crash"
			if reason == "timeout" {
				kind = "timeout"
			}
			switch {
			case !started || l.What == "start":
				r.LoadStatus = "validator-" + kind
				r.CrashText = stderr
			case l.What == "validated":
				r.EngineLoad = kind
				r.CrashText = stderr
			case l.What == "txn-start" || l.What == "txn-stuck":
				if l.What == "txn-stuck" { // the child's own watchdog: the transaction did not return
					kind = "timeout"
					stderr = stuckPrefix + l.Text
				}
				r.Txns[l.Txn].Outcome = kind
				r.Txns[l.Txn].Text = stderr
				r.CrashText = stderr
				// run the rest of this job's transactions without the ones known to kill
				// (only a few: every further one costs a process)
				if j.Skip == nil {
					j.Skip = map[int]bool{}
				} else {
					cp := map[int]bool{}
					for k, v := range j.Skip {
						cp[k] = v
					}
					j.Skip = cp
				}
				for k := 0; k <= l.Txn; k++ {
					j.Skip[k] = true // earlier ones are already recorded
				}
				crashes := 0
				for _, t := range r.Txns {
					if t.Outcome == "crash" || t.Outcome == "timeout" {
						crashes++
					}
				}
				if crashes < 3 && l.Txn+1 < len(j.Txns) {
					next = append(next, j)
				}
			default:
				// died between steps (should not happen): treat as a crash of the engine load
				r.EngineLoad = kind
				r.CrashText = stderr
			}
		}
		if !found {
			break
		}
		todo = next
	}
	return res
}

func stderrTail(b []byte) string {
	s := string(b)
	// keep the first lines of a fatal error (they name the cause), drop the goroutine dump
	if i := strings.Index(s, "fatal error:"); i >= 0 {
		s = s[i:]
	} else if i := strings.Index(s, "panic:"); i >= 0 {
		s = s[i:]
	}
	lines := strings.Split(s, "\n")
	var keep []string
	for _, l := range lines {
		if strings.TrimSpace(l) == "" {
			continue
		}
		keep = append(keep, l)
		if len(keep) >= 4 {
			break
		}
	}
	// plus the deepest lunar/ frames' function names (where the recursion lives)
	fn := map[string]int{}
	var order []string
	for _, l := range lines {
		if strings.HasPrefix(l, "lunar/") {
			if i := strings.LastIndex(l, "("); i > 0 {
				name := l[:i]
				if fn[name] == 0 {
					order = append(order, name)
				}
				fn[name]++
			}
		}
	}
	for i, n := range order {
		if i >= 6 {
			break
		}
		keep = append(keep, fmt.Sprintf("frame %s x%d", n, fn[n]))
	}
	return strings.Join(keep, " | ")
}

// spawn runs one child over the jobs; returns the lines it wrote, whether it died
// (non-zero exit / killed), why, and the tail of its stderr.
func spawn(jobs []Job, wi int) ([]line, bool, string, string) {
	childMu.Lock()
	childSeq++
	seq := childSeq
	childSpawns++
	childMu.Unlock()
	cwd, _ := os.Getwd()
	dir := filepath.Join(cwd, fmt.Sprintf("w%d", wi))
	os.MkdirAll(dir, 0o755)
	batchFile := filepath.Join(dir, fmt.Sprintf("batch-%d.json", seq))
	resFile := filepath.Join(dir, fmt.Sprintf("res-%d.jsonl", seq))
	b, err := json.Marshal(jobs)
	if err != nil {
		panic(err)
	}
	if err := os.WriteFile(batchFile, b, 0o644); err != nil {
		panic(err)
	}
	os.Remove(resFile)
	// overall limit: generous per job, but a stuck child is noticed by lack of progress
	nSteps := 0
	for _, j := range jobs {
		nSteps += 2 + len(j.Txns)
	}
	ctx, cancel := context.WithCancel(context.Background())
	defer cancel()
	cmd := exec.CommandContext(ctx, os.Args[0], "child", batchFile, resFile)
	cmd.Dir = dir
	var errBuf bytes.Buffer
	cmd.Stderr = &errBuf
	cmd.Stdout = nil
	// LUNAR_RETRY_REQUEST_TIMEOUT_SEC: set by the gateway's image (Dockerfile); Retry needs it
	cmd.Env = append(os.Environ(), "GOTRACEBACK=single", "LUNAR_RETRY_REQUEST_TIMEOUT_SEC=100")
	if err := cmd.Start(); err != nil {
		panic(err)
	}
	doneCh := make(chan error, 1)
	go func() { doneCh <- cmd.Wait() }()
	reason := ""
	var waitErr error
	lastSize := int64(-1)
	lastProgress := time.Now()
	tick := time.NewTicker(250 * time.Millisecond)
	defer tick.Stop()
loop:
	for {
		select {
		case waitErr = <-doneCh:
			break loop
		case <-tick.C:
			var sz int64
			if fi, err := os.Stat(resFile); err == nil {
				sz = fi.Size()
			}
			if sz != lastSize {
				lastSize = sz
				lastProgress = time.Now()
			} else if time.Since(lastProgress) > stepTimeout {
				reason = "timeout"
				cancel()
				waitErr = <-doneCh
				break loop
			}
		}
	}
	var lines []line
	if f, err := os.Open(resFile); err == nil {
		sc := bufio.NewScanner(f)
		sc.Buffer(make([]byte, 1<<20), 64<<20)
		for sc.Scan() {
			var l line
			if json.Unmarshal(sc.Bytes(), &l) == nil {
				lines = append(lines, l)
			}
		}
		f.Close()
	}
	os.Remove(batchFile)
	os.Remove(resFile)
	dead := waitErr != nil
	if dead {
		childMu.Lock()
		childDeaths++
		childMu.Unlock()
		if reason == "" {
			reason = "exit"
		}
	}
	return lines, dead, reason, stderrTail(errBuf.Bytes())
}
