// C05 harness: every configuration the loader accepts runs safely on all traffic.
//
// Configurations (exhaustive families of small graphs, single-defect variants,
// flow-reference shapes, random ones) are rendered to YAML and given, in child
// processes, to the real validator path (streams.NewValidationStream(dir)
// .Initialize()); accepted ones are loaded the way the gateway does and run on
// every assignment of the Filter outcomes, as requests and as responses, with
// the processor-executed hook as step counter.  Correspondence: accept / reject
// (+ stage) must equal the model's `load`, and the executed-processor sequence
// and result class of every transaction must equal C04's executor run on the
// graphs the MODEL built.  Monitor (monitor.go): accepted => loads, every
// transaction finishes within a bound, nothing crashes or panics; the
// validator itself never dies.  Plus two monitor-only streams: quota files and
// malformed traffic.
package main

import (
	"fmt"
	"os"
	"sort"
	"strings"

	c "verifharness/common"
)

const mainURL = "c05.test/a"
const quotaURL = "c05quota.test/*" // quotas of the graph suites never match the traffic

// Case is what a replay file carries.
type Case struct {
	Kind   string            `json:"kind"` // load | txn | quota | traffic
	Label  string            `json:"label"`
	Config *Config           `json:"config,omitempty"`
	Flows  map[string]string `json:"flow_files,omitempty"`  // as written (quota / traffic streams)
	Quotas map[string]string `json:"quota_files,omitempty"` // as written
	Txn    *Txn              `json:"transaction,omitempty"`
	Load   *LoadObs          `json:"observed_load,omitempty"`
	Result *TxnResult        `json:"observed_result,omitempty"`
	// zoo: gateway configuration file given to the engine, real clock
	Gateway   string `json:"gateway_config,omitempty"`
	RealClock bool   `json:"real_clock,omitempty"`
	// additional validator / gateway-load runs (verdicts that depend on map iteration order)
	Repeat int `json:"repeat,omitempty"`
	// degenerate-file streams: files of the path_params directory, additional
	// processor-definition files, "the gateway configuration file is written even if empty"
	PathParams     map[string]string `json:"path_param_files,omitempty"`
	ProcDefs       map[string]string `json:"processor_definition_files,omitempty"`
	GatewayPresent bool              `json:"gateway_config_present,omitempty"`
	// suite `files`: where the degenerate file sits, its shape, what the other files were rendered from
	DocWhere    string            `json:"docless_where,omitempty"`
	DocShape    *shape            `json:"docless_shape,omitempty"`
	DocModelled bool              `json:"docless_modelled,omitempty"`
	DocRendered map[string]string `json:"docless_rendered,omitempty"`
	// suite `hdrs`: a header block ("hex:<digits>" = raw bytes), the class utils.ParseHeaders gave it
	// (0 nil map, 1 empty map, 2 entries, 8 panic), whether the model's scanner is expected to call it refused
	HdrBlock   string `json:"header_block,omitempty"`
	HdrClass   int64  `json:"observed_class,omitempty"`
	HdrClaimed bool   `json:"claimed_refused,omitempty"`
}

type LoadObs struct {
	Status     string `json:"validator"` // accept | reject | validator-crash | validator-panic | validator-timeout
	Code       int64  `json:"code"`
	Text       string `json:"text,omitempty"`
	EngineLoad string `json:"engine_load,omitempty"`
	EngineText string `json:"engine_text,omitempty"`
	CrashText  string `json:"crash_text,omitempty"`
	Runs       string `json:"runs,omitempty"`
}

// verdict code compared with the model: 0 accept, 1 flow files, 2 processors,
// 3 flow graphs, 4 something else, 9 the validator did not answer
func verdictCode(r *JobResult) int64 {
	switch r.LoadStatus {
	case "accept":
		return 0
	case "reject":
		switch {
		case strings.HasPrefix(r.RejectText, "failed to get flows"):
			return 1
		case strings.HasPrefix(r.RejectText, "failed to create processor"):
			return 2
		case strings.HasPrefix(r.RejectText, "failed to create flows"):
			return 3
		}
		return 4
	}
	return 9
}

func loadObs(r *JobResult) *LoadObs {
	return &LoadObs{Status: r.LoadStatus, Code: verdictCode(r), Text: r.RejectText,
		EngineLoad: r.EngineLoad, EngineText: r.EngineText, CrashText: r.CrashText, Runs: r.Runs}
}

// ---------------------------------------------------------------- Coq terms

func coqSel(s Selection, fl *interner) string {
	ids := func(xs []string) string {
		return c.MapList(xs, func(n string) string { return c.Z(fl.id(n)) })
	}
	return "(SEL " + ids(s.Start) + " " + ids(s.User) + " " + ids(s.End) + ")"
}

func coqLoad(cf *Config, code int64) string {
	n := &names{newInterner(), newInterner()}
	return "(LoadCase " + cf.coq(n) + " " + c.Z(code) + ")"
}

func coqTxn(cf *Config, t *Txn, r *TxnResult) string {
	n := &names{newInterner(), newInterner()}
	cfg := cf.coq(n)
	var s1 string
	has2 := false
	s2 := coqSel(Selection{}, n.flows)
	if t.Dir == "req" {
		s1 = coqSel(r.SelReq, n.flows)
		if r.SelRes.Found {
			has2 = true
			s2 = coqSel(r.SelRes, n.flows)
		}
	} else {
		s1 = coqSel(r.SelRes, n.flows)
	}
	var hdrs []string
	seen := map[string]bool{}
	for _, f := range cf.Flows {
		for _, p := range f.Procs {
			if p.Type == tFilter && t.Headers[hdrOf(p.Key)] == "1" && !seen[p.Key] {
				seen[p.Key] = true
				hdrs = append(hdrs, c.Z(n.procs.id(p.Key)))
			}
		}
	}
	evs := c.MapList(r.Events, func(e Event) string {
		return "(EV " + c.Z(n.flows.id(e.Flow)) + " " + c.Z(n.keyID(e.Key)) + " " + c.B(e.Dir == "req") + " " + c.Z(condID(e.Cond)) + ")"
	})
	code := int64(0)
	switch {
	case r.Outcome == "error":
		code = 2
	case r.Answered:
		code = 1
	}
	return "(TxnCase " + cfg + " " + s1 + " " + c.B(has2) + " " + s2 + " " + c.List(hdrs) + " " + c.B(t.Dir == "req") + " " + evs + " " + c.Z(code) + ")"
}

// modelable: the transaction model covers Filter and GenerateResponse (and a
// Limiter on the request side); a processor key has one type in the whole
// configuration.
func modelable(cf *Config) bool {
	ty := map[string]string{}
	for _, f := range cf.Flows {
		for _, p := range f.Procs {
			if prev, ok := ty[p.Key]; ok && prev != p.Type {
				return false
			}
			ty[p.Key] = p.Type
			if p.Type == tMock {
				return false
			}
		}
		for _, cn := range f.Res {
			for _, e := range []End{cn.From, cn.To} {
				if e.Proc != nil {
					name := e.Proc.Name
					if i := strings.Index(name, "."); i >= 0 {
						name = name[i+1:]
					}
					if ty[name] == tLimit {
						return false
					}
				}
			}
		}
	}
	return true
}

// ---------------------------------------------------------------- recording

// debugging aid: C05_DUMP=<file> appends one line per configuration
func dump(label string, r *JobResult) {
	fn := os.Getenv("C05_DUMP")
	if fn == "" {
		return
	}
	if fh, err := os.OpenFile(fn, os.O_APPEND|os.O_CREATE|os.O_WRONLY, 0o644); err == nil {
		var outs []string
		for _, t := range r.Txns {
			s := t.Outcome
			if t.Outcome == "error" || t.Outcome == "panic" {
				s += "(" + t.Text + ")"
			}
			outs = append(outs, s)
		}
		fmt.Fprintf(fh, "%s\t%s\t%s\t%s %s\t%s\n", label, r.LoadStatus, r.RejectText, r.EngineLoad, r.EngineText, strings.Join(outs, ","))
		fh.Close()
	}
}

func record(o *c.Out, it *Item, r *JobResult) {
	cf := &it.Config
	lo := loadObs(r)
	dump(it.Label, r)
	k := Case{Kind: "load", Label: it.Label, Config: cf, Load: lo, Repeat: it.Repeat}
	fam := it.Label
	if i := strings.Index(fam, ":"); i >= 0 {
		fam = fam[:i]
	}
	idx := o.Case("load", coqLoad(cf, lo.Code), k, lo.Code == 0 || lo.Code == 3)
	o.Count("configs:" + fam)
	o.Count(fmt.Sprintf("verdict=%d", lo.Code))
	o.MonitorChecked(1)
	for _, h := range monitorLoad(cf, r) {
		h.Suite, h.Index, h.Case = "load", idx, k
		o.Hit(h)
	}
	if !r.Accepted || r.EngineLoad != "ok" {
		return
	}
	o.Count("accepted:" + fam)
	for ti := range it.Txns {
		t := &it.Txns[ti]
		tr := &r.Txns[ti]
		if tr.Outcome == "not-run" {
			o.Count("txn-not-run-after-crash")
			continue
		}
		tk := Case{Kind: "txn", Label: it.Label, Config: cf, Txn: t, Load: lo, Result: tr, Repeat: it.Repeat}
		tidx := -1
		// (a selection probe that panicked gives the model no selection to work with)
		if (tr.Outcome == "ok" || tr.Outcome == "error") && modelable(cf) && tr.NEvents == len(tr.Events) && tr.SelText == "" {
			handed := false
			for _, e := range tr.Events {
				if e.Dir == "res" && t.Dir == "req" {
					handed = true
				}
			}
			tidx = o.Case("txn", coqTxn(cf, t, tr), tk, len(tr.Events) >= 2 || handed)
			if handed {
				o.Count("txn:hand-over-continuation-ran")
			}
		} else {
			o.Case0(tk, false)
			o.Count("txn:monitor-only")
		}
		o.Count("txn-outcome=" + tr.Outcome)
		o.Count(fmt.Sprintf("txn-executions=%02d", min(tr.NEvents, 20)))
		o.MonitorChecked(1)
		for _, h := range monitorTxn(cf, t, tr) {
			h.Suite, h.Index, h.Case = "txn", tidx, tk
			o.Hit(h)
		}
	}
}

func runItems(o *c.Out, items []Item) {
	jobs := make([]Job, len(items))
	for i := range items {
		jobs[i] = jobOf(i, &items[i].Config, items[i].Txns)
		jobs[i].Repeat = items[i].Repeat
	}
	res := runJobs(jobs)
	for i := range items {
		record(o, &items[i], res[i])
	}
}

// monitor-only streams: files as written, not given to the model
type RawItem struct {
	Kind   string
	Label  string
	Flows  map[string]string
	Quotas map[string]string
	Txns   []Txn
	// zoo only
	Gateway   string
	RealClock bool
	// degenerate-file streams (docless.go)
	PathParams     map[string]string
	ProcDefs       map[string]string
	GatewayPresent bool
}

func runRaw(o *c.Out, items []RawItem) map[int]*JobResult {
	jobs := make([]Job, len(items))
	for i, it := range items {
		jobs[i] = Job{ID: i, Flows: it.Flows, Quotas: it.Quotas, Txns: it.Txns, Gateway: it.Gateway, RealClock: it.RealClock,
			PathParams: it.PathParams, ProcDefs: it.ProcDefs, GatewayPresent: it.GatewayPresent}
	}
	res := runJobs(jobs)
	for i := range items {
		it := &items[i]
		r := res[i]
		lo := loadObs(r)
		dump(it.Label, r)
		k := Case{Kind: it.Kind, Label: it.Label, Flows: it.Flows, Quotas: it.Quotas, Load: lo, Gateway: it.Gateway, RealClock: it.RealClock,
			PathParams: it.PathParams, ProcDefs: it.ProcDefs, GatewayPresent: it.GatewayPresent}
		o.Case0(k, r.Accepted)
		o.Count(it.Kind + ":verdict=" + r.LoadStatus)
		o.MonitorChecked(1)
		for _, h := range monitorLoad(nil, r) {
			h.Suite, h.Index, h.Case = it.Kind, -1, k
			o.Hit(h)
		}
		if !r.Accepted || r.EngineLoad != "ok" {
			continue
		}
		for ti := range it.Txns {
			tr := &r.Txns[ti]
			if tr.Outcome == "not-run" {
				continue
			}
			tk := Case{Kind: it.Kind, Label: it.Label, Flows: it.Flows, Quotas: it.Quotas, Txn: &it.Txns[ti], Load: lo, Result: tr,
				Gateway: it.Gateway, RealClock: it.RealClock, PathParams: it.PathParams, ProcDefs: it.ProcDefs, GatewayPresent: it.GatewayPresent}
			o.Case0(tk, len(tr.Events) > 0)
			o.Count(it.Kind + ":txn-outcome=" + tr.Outcome)
			o.MonitorChecked(1)
			for _, h := range monitorTxn(&Config{}, &it.Txns[ti], tr) {
				h.Suite, h.Index, h.Case = it.Kind, -1, tk
				o.Hit(h)
			}
		}
	}
	return res
}

// ---------------------------------------------------------------- main

func every(n int) func(int) bool { return func(i int) bool { return i%n == 0 } }

func main() {
	if len(os.Args) > 1 && os.Args[1] == "child" {
		childMain(os.Args[2], os.Args[3])
		return
	}
	if len(os.Args) > 1 && os.Args[1] == "probe" {
		probe()
		return
	}
	o := c.NewOut("C05")
	o.ShardSize = 200
	o.DeclareSuite("load", "From Verif Require Import C05.Model.", "case_load", "run_load")
	o.DeclareSuite("txn", "From Verif Require Import C05.Model.", "case_txn", "run_txn")
	filesRun := "run_files"
	if os.Getenv("C05_FILES_VARIANT") == "nil" { // one-off validation of the scanner against the seeded decoder (notes/C05.md)
		filesRun = "run_files_nil"
	}
	o.DeclareSuite("files", "From Verif Require Import C05.Model C05.Decode.", "case_files", filesRun)
	o.DeclareSuite("hdrs", "From Verif Require Import C05.Headers.", "case_hdrs", "run_hdrs")
	o.Rule("hand-written witnesses of the known defect classes; every single-defect variant of a good flow (structure, " +
		"stream/flow/processor ends, conditions, dangling processor / flow references, processor types and parameters, " +
		"roots, unconnected processors, duplicate connections, cycles in either direction, self references); stale foreign " +
		"roots (a flow naming an incorporated flow's processor as its own stream entry x what its response direction does x " +
		"a bystander flow that needs a foreign root it cannot get; order-dependent members run 24 times through the " +
		"validator and the gateway load); layered DAGs of depth 1-10 with two processors per layer, each connected to both " +
		"of the next layer (on one condition up to depth 7: 2^depth paths all walked; on hit / miss up to depth 10); exhaustive " +
		"response directions over GenerateResponse + k Filters (every subset of the possible connections x every entry " +
		"point incl. none; k = 1 complete, k = 2 complete in the thorough tier and every 5th in the quick one, k = 3 a random " +
		"sample of sparse subsets) and exhaustive " +
		"request directions over k Filters + GenerateResponse (every subset of connections x entry point x hit/miss per " +
		"source; k = 1 complete, k = 2 complete in the thorough tier and every 3rd in the quick one, k = 3 a random sample); flow-reference graphs over 1-3 flows (every subset of reference edges incl. self / mutual / long cycles, " +
		"three kinds of reference); random configurations of 1-3 flows with <= 4 Filters each over the whole connection " +
		"vocabulary; each accepted configuration run on every assignment of the Filter outcomes (all header subsets when " +
		"<= 16, else a sample with both extremes) as request and as response; degenerate files (83 fixed lexical shapes: no " +
		"document, null document, {}, [], scalars, markers, BOMs, tabs, control bytes; 13 two-document shapes; random compositions " +
		"of 1-4 degenerate lines; null-valued keys) as the only / an additional file of flows/, quotas/, path_params/, the processor " +
		"definitions and as gateway configuration file, the lexical ones through the model's scanner and file loader (suite files); 20 valid quota documents written as raw bytes " +
		"(comments, blank lines, markers, BOM, CR LF, a second document around them) next to a flow whose Limiter names the quota, " +
		"alone / two files / next to a rendered or a document-less quota file, through the scanner (left to the decoder), the quota stage " +
		"and quota_defined (suite files, table qdec); " +
		"header blocks textproto.ReadMIMEHeader refuses (line without colon, leading space / tab, stray CR, empty or invalid name, control " +
		"and non-ASCII bytes, no final newline; 38 fixed + random compositions) next to well-formed ones, through the gateway's SPOE entry " +
		"(routing.processRequest / processResponse) against one accepted flow per processor of the zoo in which it runs on a request, on a " +
		"response with / without the captured request and after an early response, and a chain of mutating processors; every block " +
		"through utils.ParseHeaders and the model's scanner (suite hdrs).  distinct = distinct (configuration, observed " +
		"verdict) resp. (configuration, selection, headers, observed events); non-trivial = load: accepted or rejected by " +
		"the graph stage; txn: >= 2 processors ran or the hand-over continuation ran; files: a non-empty file the scanner decides, or a byte-level quota file with content whose decoded document the case carries; hdrs: a block the scanner calls refused")

	var k Case
	if _, ok := o.ReplayCase(&k); ok {
		replay(o, &k)
		o.Finish()
		return
	}
	r := o.Rng

	var items []Item
	// 1. witnesses (first, so that each known defect class is reported for every seed)
	for i, cf := range probeConfigs() {
		cf := cf
		items = append(items, Item{Label: fmt.Sprintf("witness:%d", i), Config: cf})
	}
	// 1b. status filters next to early responses on overlapping URLs
	items = append(items, statusEarlyItems(r.Fork(33))...)
	// 1c. stale foreign roots (F-C05l)
	items = append(items, foreignRootItems()...)
	// 1d. layered DAGs (2^depth paths; the cycle search and - when every Filter hits - the walk follow them all)
	for depth := 1; depth <= 10; depth++ {
		if depth <= 7 {
			items = append(items, Item{Label: "ladder-same-condition", Config: ladderConfig(depth, true)})
		}
		items = append(items, Item{Label: "ladder-two-conditions", Config: ladderConfig(depth, false)})
	}
	// 2. single-defect variants
	items = append(items, defectVariants()...)
	// 3. response / request shapes
	for _, cf := range responseShapes(1, nil) {
		items = append(items, Item{Label: "response-shapes-1", Config: cf})
	}
	var s2 func(int) bool
	switch o.Tier {
	case "quick":
		s2 = every(5)
	case "search":
		off := r.Intn(7)
		s2 = func(i int) bool { return i%7 == off }
	}
	for _, cf := range responseShapes(2, s2) {
		items = append(items, Item{Label: "response-shapes-2", Config: cf})
	}
	for _, cf := range responseShapesRandom(r.Fork(31), 3, o.Scale(600, 12000, 4000)) {
		items = append(items, Item{Label: "response-shapes-3", Config: cf})
	}
	for _, cf := range requestShapes(1, nil) {
		items = append(items, Item{Label: "request-shapes-1", Config: cf})
	}
	var q2 func(int) bool
	switch o.Tier {
	case "quick":
		q2 = every(3)
	case "search":
		off := r.Intn(5)
		q2 = func(i int) bool { return i%5 == off }
	}
	for _, cf := range requestShapes(2, q2) {
		items = append(items, Item{Label: "request-shapes-2", Config: cf})
	}
	for _, cf := range requestShapesRandom(r.Fork(32), 3, o.Scale(600, 12000, 4000)) {
		items = append(items, Item{Label: "request-shapes-3", Config: cf})
	}
	// 4. flow references
	for kind := 0; kind < 3; kind++ {
		for n := 1; n <= 2; n++ {
			for _, cf := range refShapes(n, kind, nil) {
				items = append(items, Item{Label: fmt.Sprintf("flow-refs-%d", n), Config: cf})
			}
		}
		var s3 func(int) bool
		if !o.Thorough() {
			s3 = every(9)
		}
		for _, cf := range refShapes(3, kind, s3) {
			items = append(items, Item{Label: "flow-refs-3", Config: cf})
		}
	}
	// 5. random
	nr := o.Scale(900, 8000, 3000)
	for i := 0; i < nr; i++ {
		g := &rgen{r: r.Fork(uint64(i) + 1000)}
		maxp := 3
		if o.Thorough() || i%4 == 0 {
			maxp = 4
		}
		items = append(items, Item{Label: "random", Config: g.config(maxp)})
	}
	for i := range items {
		if items[i].Txns == nil {
			items[i].Txns = txnsFor(r.Fork(uint64(i)+7), &items[i].Config, 16)
		}
	}
	runItems(o, items)

	// 6. quota files and malformed traffic (monitor only)
	runRaw(o, quotaItems())
	runRaw(o, rawFlowItems())
	// 6b. degenerate files (no document, null document, {}, [], scalars, several documents, BOM, tabs, null keys)
	// in flows/, quotas/, path_params/, the processor definitions and the gateway configuration file;
	// the lexical shapes go through the model's scanner and file loader as well (suite `files`)
	runDocless(o, doclessItems(r.Fork(97), o.Scale(120, 1500, 400)))
	runRaw(o, trafficItems(r.Fork(99), o.Scale(60, 400, 200)))
	// 6c. header blocks the gateway cannot parse, through the SPOE entry (routing.processRequest /
	// processResponse) against one flow per processor of the zoo; every block through suite `hdrs` as well
	runRawHdr(o, rawHdrItems(r.Fork(96), o.Scale(10, 120, 40)))

	// 7. processor zoo (monitor only) + its coverage
	zoo := zooItems(r.Fork(98), o.Scale(24, 200, 80))
	raws := make([]RawItem, len(zoo))
	for i := range zoo {
		raws[i] = zoo[i].RawItem
	}
	zres := runRaw(o, raws)
	seen := map[string]*zooSeen{}
	rejected := map[string]string{}
	for i := range zoo {
		zr := zres[i]
		lbl := zoo[i].Label
		if !zr.Accepted || zr.EngineLoad != "ok" {
			rejected[lbl] = zr.LoadStatus + " " + zr.RejectText + " " + zr.EngineLoad + " " + zr.EngineText
			continue
		}
		seen[lbl] = &zooSeen{}
		for ti := range zoo[i].Txns {
			zooObserve(seen[lbl], &zoo[i].Txns[ti], &zr.Txns[ti])
		}
	}
	gaps := zooReport(o, seen, rejected, zooProcs())

	o.Note(fmt.Sprintf("child processes: %d started, %d died or were killed", childSpawns, childDeaths))
	for _, g := range gaps {
		o.Note("zoo coverage gap: " + g)
	}
	o.Finish()
	if len(gaps) > 0 && !o.Search() {
		// not a verdict about the gateway: the harness lost coverage it claims to have
		fmt.Fprintf(os.Stderr, "c05: processor zoo coverage gaps:\n  %s\n", strings.Join(gaps, "\n  "))
		os.Exit(3)
	}
}

func replay(o *c.Out, k *Case) {
	switch k.Kind {
	case "load", "txn":
		it := Item{Label: k.Label, Config: *k.Config, Repeat: k.Repeat}
		if k.Txn != nil {
			it.Txns = []Txn{*k.Txn}
		}
		runItems(o, []Item{it})
	case "hdrs":
		recordHdrBlock(o, strings.TrimPrefix(k.Label, "hdrs:"), k.HdrBlock, map[string]bool{})
	case "docless":
		sh := shape{Name: "replayed"}
		if k.DocShape != nil {
			sh = *k.DocShape
		}
		di := DocItem{RawItem: RawItem{Kind: k.Kind, Label: k.Label, Flows: k.Flows, Quotas: k.Quotas, Gateway: k.Gateway,
			PathParams: k.PathParams, ProcDefs: k.ProcDefs, GatewayPresent: k.GatewayPresent},
			Where: k.DocWhere, Shape: sh, Modelled: k.DocModelled, Rendered: k.DocRendered}
		if k.Txn != nil {
			di.Txns = []Txn{*k.Txn}
		}
		runDocless(o, []DocItem{di})
	default:
		ri := RawItem{Kind: k.Kind, Label: k.Label, Flows: k.Flows, Quotas: k.Quotas, Gateway: k.Gateway, RealClock: k.RealClock,
			PathParams: k.PathParams, ProcDefs: k.ProcDefs, GatewayPresent: k.GatewayPresent}
		if k.Txn != nil {
			ri.Txns = []Txn{*k.Txn}
		}
		runRaw(o, []RawItem{ri})
	}
}

func sortedCopy(xs []string) []string {
	ys := append([]string{}, xs...)
	sort.Strings(ys)
	return ys
}
