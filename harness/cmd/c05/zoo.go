// Processor zoo (monitor only): every processor type of the production registry
// that can be created offline is put into one accepted configuration in which it
// is executed (a) on a request, (b) on a response - with and without the captured
// request - and (c) on the response path after an early response (the stream is
// typed as a response but has no response object), on well-formed and malformed
// traffic.  The monitor is the one of every transaction (no crash, no panic, no
// hang, bounded); main.go checks afterwards that every type expected to be
// executable was in fact executed in the three situations.
package main

import (
	"fmt"
	"sort"
	"strings"

	c "verifharness/common"
)

const zooURL = "c05.test/*"

// zooProc: one processor type with one parameter set.
type zooProc struct {
	Type      string
	Variant   string
	Params    string   // raw YAML of the `parameters:` list ("" = none)
	ReqConds  []string // output conditions the processor may be a connection source with, request direction
	ResConds  []string // ... response direction
	Quota     bool     // needs quota q1 (declared on the traffic's URL, so the quota system flows run too)
	QuotaKind string   // "" fixed window | concurrent | custom-counter | header-based
	Metrics   bool     // the processor's metrics section is enabled with every label
	Gateway   bool     // needs the gateway configuration file (exporters)
	RealClock bool     // waits on the engine's clock
	// Offline = "" when the type can be created without network / external
	// services; else the reason it cannot (the configuration is then expected to be
	// rejected at load time, which is checked too).
	Offline string
}

func kv(pairs ...string) string {
	var sb strings.Builder
	for i := 0; i+1 < len(pairs); i += 2 {
		fmt.Fprintf(&sb, "      - key: %s\n        value: %s\n", pairs[i], pairs[i+1])
	}
	return sb.String()
}

func zooProcs() []zooProc {
	hm := []string{"hit", "miss"}
	any1 := []string{""}
	return []zooProc{
		{Type: tFilter, Variant: "header", Params: kv("header", "x-p=1"), ReqConds: hm, ResConds: hm},
		{Type: tFilter, Variant: "status-range", Params: kv("status_code_range", "200-299"), ReqConds: hm, ResConds: hm},
		{Type: tFilter, Variant: "url-endpoint-method", Params: kv("url", "c05.test/*", "endpoint", "/a", "method", "GET"), ReqConds: hm, ResConds: hm},
		{Type: tFilter, Variant: "lists", Params: kv("urls", "[c05.test/a, c05.test/b]", "methods", "[GET, POST]", "headers", "{x-p: 1, x-q: 2}"), ReqConds: hm, ResConds: hm},
		{Type: tGen, Variant: "teapot", Params: kv("status", "418", "body", "zoo"), ResConds: any1},
		{Type: tMock, Variant: "plain", ReqConds: []string{"output_1", "output_2"}, ResConds: []string{"output_1", "output_2"}},
		{Type: tLimit, Variant: "fixed-window", Params: kv("quota_id", "q1"), ReqConds: []string{"below_limit", "above_limit"}, Quota: true},
		{Type: "Queue", Variant: "small", Params: kv("quota_id", "q1", "queue_size", "2", "ttl_seconds", "1"),
			ReqConds: []string{"allowed", "blocked"}, Quota: true, RealClock: true},
		{Type: "Queue", Variant: "priorities", Params: kv("quota_id", "q1", "queue_size", "2", "ttl_seconds", "1",
			"priority_group_by_header", "x-group", "priority_groups", "{gold: 1, tin: 2}"),
			ReqConds: []string{"allowed", "blocked"}, Quota: true, RealClock: true},
		{Type: "AsyncQueue", Variant: "plain", Params: kv("quota_id", "q1"), ReqConds: any1, Quota: true,
			Offline: "the build under test is the free version, whose AsyncQueue constructor returns an error"},
		{Type: "QuotaProcessorInc", Variant: "plain", Params: kv("quota_id", "q1"), ReqConds: any1, ResConds: any1, Quota: true},
		{Type: "QuotaProcessorDec", Variant: "plain", Params: kv("quota_id", "q1"), ReqConds: any1, ResConds: any1, Quota: true},
		{Type: "Retry", Variant: "two-attempts", Params: kv("attempts", "2"), ResConds: []string{"failed", "retry"}},
		{Type: "UserDefinedMetrics", Variant: "api-call-size", Params: kv("metric_name", "zoo_size", "metric_value", "api_call_size"), ReqConds: any1, ResConds: any1},
		{Type: "UserDefinedMetrics", Variant: "counter", Params: kv("metric_name", "zoo_count"), ReqConds: any1, ResConds: any1},
		{Type: "UserDefinedMetrics", Variant: "json-path-gauge-labels", Params: kv("metric_name", "zoo_gauge", "metric_type", "gauge",
			"metric_value", "$.response.body.a", "labels", "[http_method, url, status_code, consumer_tag, host]",
			"custom_metric_labels", "{who: \"$.request.headers[\\\"x-who\\\"]\", st: $.response.headers.x-st}"), ReqConds: any1, ResConds: any1},
		{Type: "UserDefinedMetrics", Variant: "histogram", Params: kv("metric_name", "zoo_hist", "metric_type", "histogram",
			"metric_value", "$.request.body.a", "buckets", "[1, 10, 100]"), ReqConds: any1, ResConds: any1},
		{Type: "CountLLMTokens", Variant: "defaults", ReqConds: any1,
			Offline: "the tokenizer downloads its encoding tables (tiktoken) when the processor is created"},
		{Type: "HARCollector", Variant: "plain", Params: kv("exporter_id", "e1"), ResConds: any1, Gateway: true},
		{Type: "HARCollector", Variant: "obfuscating", Params: kv("exporter_id", "e1", "obfuscate_enabled", "true",
			"obfuscate_exclusions", "['$.request.headers[\"x-keep\"]', '$.response.body.a']", "transaction_max_size_bytes", "2000"),
			ResConds: any1, Gateway: true},
		{Type: "ReadCache", Variant: "by-path-and-header", Params: kv("caching_key_parts", "[$.request.path, '$.request.headers[\"x-k\"]']"),
			ReqConds: []string{"cache_miss"}, ResConds: []string{"cache_hit"}},
		{Type: "WriteCache", Variant: "by-path", Params: kv("caching_key_parts", "[$.request.path]", "ttl_seconds", "5", "record_max_size_bytes", "500"), ResConds: any1},
		{Type: "WriteCache", Variant: "by-response", Params: kv("caching_key_parts", "[$.response.headers.x-k, $.response.body.a]"), ResConds: any1},
		{Type: "TransformAPICall", Variant: "set-delete-obfuscate", Params: kv(
			"set", "{\"$.request.headers['x-new']\": \"1\", \"$.request.body.added\": \"v\", \"$.response.headers['x-new']\": \"2\", \"$.response.status\": \"201\"}",
			"delete", "[\"$.request.headers['x-del']\", \"$.response.body.a\"]",
			"obfuscate", "[\"$.request.body.email\", \"$.response.body.b\"]"), ReqConds: any1, ResConds: any1},
		{Type: "TransformAPICall", Variant: "set-host-path", Params: kv(
			"set", "{\"$.request.host\": \"other.test\", \"$.request.path\": \"/moved\", \"$.request.query\": \"a=1\"}"), ReqConds: any1, ResConds: any1},
		{Type: "CustomScript", Variant: "reads-both", Params: "      - key: script_text\n        value: |\n" +
			"          request.headers[\"x-script\"] = \"1\";\n" +
			"          var n = request.body.a;\n" +
			"          if (typeof response !== \"undefined\") { response.headers[\"x-script\"] = String(response.status); }\n",
			ReqConds: []string{"success", "failure"}, ResConds: []string{"success", "failure"}},
		{Type: "CustomScript", Variant: "needs-response", Params: "      - key: script_text\n        value: |\n" +
			"          response.status = 202;\n" +
			"          response.body.a = request.url;\n",
			ReqConds: []string{"success", "failure"}, ResConds: []string{"success", "failure"}},
		{Type: "CustomScript", Variant: "reassigns-request-and-response", Params: "      - key: script_text\n        value: |\n" +
			"          request = 5;\n          response = \"gone\";\n",
			ReqConds: []string{"success", "failure"}, ResConds: []string{"success", "failure"}},
		{Type: "CustomScript", Variant: "nulls-and-deletes", Params: "      - key: script_text\n        value: |\n" +
			"          delete request.headers;\n          request.body_map = \"plain\";\n          request.status = \"x\";\n" +
			"          if (typeof response !== \"undefined\" && response) { response.headers = null; response.status = \"teapot\"; response.body_map = [1]; }\n",
			ReqConds: []string{"success", "failure"}, ResConds: []string{"success", "failure"}},
		{Type: "CustomScript", Variant: "throws", Params: "      - key: script_text\n        value: |\n" +
			"          request = null;\n          throw new Error(\"boom\");\n",
			ReqConds: []string{"success", "failure"}, ResConds: []string{"success", "failure"}},
		{Type: "UserDefinedTraces", Variant: "attributes", Params: kv("trace_exporter_id", "t1",
			"custom_trace_attributes", "{who: $.request.headers.x-who, a: $.response.body.a}"), ReqConds: any1, ResConds: any1, Gateway: true},
		// quota kinds behind the quota processors; metrics sections
		{Type: tLimit, Variant: "concurrent", Params: kv("quota_id", "q1"), ReqConds: []string{"below_limit", "above_limit"}, Quota: true, QuotaKind: "concurrent"},
		{Type: tLimit, Variant: "custom-counter", Params: kv("quota_id", "q1"), ReqConds: []string{"below_limit", "above_limit"}, Quota: true, QuotaKind: "custom-counter"},
		{Type: tLimit, Variant: "header-based", Params: kv("quota_id", "q1"), ReqConds: []string{"below_limit", "above_limit"}, Quota: true, QuotaKind: "header-based"},
		{Type: tLimit, Variant: "metrics", Params: kv("quota_id", "q1"), ReqConds: []string{"below_limit", "above_limit"}, Quota: true, Metrics: true},
		{Type: "QuotaProcessorInc", Variant: "concurrent", Params: kv("quota_id", "q1"), ReqConds: any1, ResConds: any1, Quota: true, QuotaKind: "concurrent"},
		{Type: "QuotaProcessorDec", Variant: "concurrent", Params: kv("quota_id", "q1"), ReqConds: any1, ResConds: any1, Quota: true, QuotaKind: "concurrent"},
		{Type: "QuotaProcessorInc", Variant: "custom-counter", Params: kv("quota_id", "q1"), ReqConds: any1, ResConds: any1, Quota: true, QuotaKind: "custom-counter"},
		{Type: "QuotaProcessorDec", Variant: "custom-counter", Params: kv("quota_id", "q1"), ReqConds: any1, ResConds: any1, Quota: true, QuotaKind: "custom-counter"},
		{Type: "Retry", Variant: "metrics", Params: kv("attempts", "1"), ResConds: []string{"failed", "retry"}, Metrics: true},
		{Type: "HARCollector", Variant: "metrics", Params: kv("exporter_id", "e1"), ResConds: any1, Gateway: true, Metrics: true},
		{Type: "WriteCache", Variant: "metrics", Params: kv("caching_key_parts", "[$.request.path]"), ResConds: any1, Metrics: true},
		{Type: "ReadCache", Variant: "metrics", Params: kv("caching_key_parts", "[$.request.path]"), ReqConds: []string{"cache_miss"}, ResConds: []string{"cache_hit"}, Metrics: true},
		{Type: tFilter, Variant: "metrics", Params: kv("header", "x-p=1"), ReqConds: hm, ResConds: hm, Metrics: true},
		{Type: tGen, Variant: "metrics", Params: kv("status", "418"), ResConds: any1, Metrics: true},
		{Type: "DataSanitation", Variant: "defaults", ReqConds: any1},
		{Type: "DataSanitation", Variant: "blocklist", Params: kv("blocklisted_entities", "[Email, CreditCard]", "ignored_entities", "[Phone]"), ReqConds: any1},
	}
}

const zooGateway = "exporters:\n  file:\n    exporter_id: e1\n    file_dir: /tmp\n    file_name: zoo.log\n" +
	"trace_exporter:\n  trace_exporter_id: t1\n  traces_endpoint: http://127.0.0.1:4317\n"

func zooQuota(kind string) string {
	head := "quotas:\n  - id: q1\n    filter:\n      url: " + zooURL + "\n    strategy:\n"
	switch kind {
	case "concurrent":
		return head + "      concurrent:\n        max_request_count: 3\n"
	case "custom-counter":
		return head + "      fixed_window_custom_counter:\n        max: 20\n        interval: 1\n        interval_unit: minute\n" +
			"        counter_value_path: $.response.body.a\n"
	case "header-based":
		return head + "      header_based:\n        quota_header: x-remaining\n        reset_header: x-reset\n"
	}
	return head + "      fixed_window:\n        max: 6\n        interval: 1\n        interval_unit: minute\n"
}

// zooFlow: the processor under test is `p`.  Request: s (x-s) answers through g
// on a hit and passes the request to p on a miss.  Response: r (x-r) passes the
// response to p on a hit; g's hand-over continues at p as well.  p's own
// connections lead to the end of the stream on every condition it may use.
func zooFlow(zp *zooProc) string {
	f := FlowCfg{Name: "Z", URL: zooURL,
		Procs: []Proc{filt("s"), filt("r"), {Key: "g", Type: tGen, Params: []string{"status"}}, {Key: "p", Type: zp.Type, Raw: zp.Params, Metrics: zp.Metrics}},
		Req:   []Conn{s2p("s"), p2p("s", "hit", "g"), p2p("s", "miss", "p")},
		Res:   []Conn{s2p("r"), p2p("r", "hit", "p"), p2s("r", "miss"), p2p("g", "", "p")}}
	for _, cd := range zp.ReqConds {
		f.Req = append(f.Req, p2s("p", cd))
	}
	for _, cd := range zp.ResConds {
		f.Res = append(f.Res, p2s("p", cd))
	}
	return f.YAML()
}

type zooItem struct {
	RawItem
	Proc zooProc
}

func zooLabel(zp *zooProc) string { return "zoo:" + zp.Type + ":" + zp.Variant }

func zooItems(r *c.Rng, nMalformed int) []zooItem {
	goodBody := `{"a": 7, "b": "secret", "email": "jo@example.com", "card": "4111 1111 1111 1111", "phone": "+1 415 555 2671"}`
	urls := []string{mainURL, "c05.test/b", "c05.test/a%zz", "c05.test/a b", "c05.test/" + strings.Repeat("a/", 200), "c05.test/a/../../b",
		"c05.test/\xff\xfe", "c05.test/a#frag", "c05.test//a", "c05.test/", "c05.test/{id}", "c05.test/%", "c05.test/a?x=1"}
	methods := []string{"GET", "POST", "", "get", "B\x00GUS", "DELETE"}
	bodies := []string{"", goodBody, "hello", "{", "{\"a\":", "{\"a\":{\"b\":[1,2,{\"c\":null}]}}", "\x1f\x8b\x08garbage", "[]", "null", "\"s\"",
		"{\"a\":\"x\"}", "{\"a\":1e999}", "{\"a\":null,\"b\":[]}", strings.Repeat("[", 3000), strings.Repeat("x", 50000), "\xff\xfe\x00"}
	hdrSets := []map[string]string{
		{}, {"x-p": "1"}, {"x-k": "k1", "x-who": "me", "x-st": "ok"}, {"x-group": "gold"}, {"x-group": "lead"}, {"content-encoding": "gzip"},
		{"content-type": "application/json", "content-length": "12"}, {"content-length": "-1"}, {"content-length": "x"},
		{"x-del": "1", "x-keep": "1"}, {"traceparent": "00-0af7651916cd43dd8448eb211c80319c-b7ad6b7169203331-01"}, {"traceparent": "garbage"},
		{"x-lunar-consumer-tag": "\xff"}, {"": ""}, {"x-p": strings.Repeat("1", 5000)},
	}
	statuses := []int{200, 0, -1, 99999, 404, 500, 100}
	queries := []string{"", "", "a=1", "%zz", "x=1&x=2"}
	with := func(m map[string]string, ks ...string) map[string]string {
		o := copyHdrs(m)
		for _, k := range ks {
			o[k] = "1"
		}
		return o
	}
	var out []zooItem
	for _, zp := range zooProcs() {
		zp := zp
		txns := []Txn{
			{Dir: "req", URL: mainURL, Method: "POST", Headers: map[string]string{"x-k": "k1"}, Body: goodBody},                          // (a) p on the request
			{Dir: "req", URL: mainURL, Method: "POST", Headers: map[string]string{"x-k": "k1", "x-s": "1"}, Body: goodBody},              // (c) g answers, p continues
			{Dir: "res", URL: mainURL, Method: "POST", Headers: map[string]string{"x-k": "k1", "x-r": "1"}, Body: goodBody, Status: 200}, // (b) p on a response without the request
			{Dir: "res", URL: mainURL, Method: "POST", Headers: map[string]string{"x-k": "k1", "x-r": "1"}, Body: goodBody, Status: 503, StoredReq: true},
			{Dir: "req", URL: mainURL, Method: "POST", Headers: map[string]string{"x-k": "k1"}, Body: goodBody}, // again (caches, counters)
			{Dir: "res", URL: mainURL, Headers: map[string]string{}},                                            // r misses
		}
		// every URL shape with the well-formed body, in the three situations
		for ui, u := range urls {
			if zp.RealClock && ui >= 4 {
				break
			}
			hk := map[string]string{"x-k": "k1", "content-type": "application/json"}
			txns = append(txns,
				Txn{Dir: "req", URL: u, Method: "POST", Headers: copyHdrs(hk), Body: goodBody},
				Txn{Dir: "req", URL: u, Method: "POST", Headers: with(hk, "x-s"), Body: goodBody},
				Txn{Dir: "res", URL: u, Method: "POST", Headers: with(hk, "x-r"), Body: goodBody, Status: 200, StoredReq: ui%2 == 0})
		}
		rr := r.Fork(uint64(len(out)) + 77)
		n := nMalformed
		if zp.RealClock {
			n = n / 4 // every execution waits on the real clock
		}
		for i := 0; i < n; i++ {
			t := Txn{Dir: "req", URL: c.Pick(rr, urls), Method: c.Pick(rr, methods), Body: c.Pick(rr, bodies), Query: c.Pick(rr, queries)}
			hs := c.Pick(rr, hdrSets)
			switch rr.Intn(3) {
			case 0: // p on the request
				t.Headers = copyHdrs(hs)
			case 1: // answered: p on the response path of a request
				t.Headers = with(hs, "x-s")
			default:
				t.Dir = "res"
				t.Headers = with(hs, "x-r")
				t.Status = c.Pick(rr, statuses)
				t.StoredReq = rr.Bool()
			}
			txns = append(txns, t)
		}
		it := zooItem{Proc: zp, RawItem: RawItem{Kind: "zoo", Label: zooLabel(&zp), Flows: map[string]string{"Z.yaml": zooFlow(&zp)},
			Quotas: map[string]string{}, Txns: txns, RealClock: zp.RealClock}}
		if zp.Quota {
			it.Quotas["q.yaml"] = zooQuota(zp.QuotaKind)
		}
		if zp.Gateway {
			it.Gateway = zooGateway
		}
		out = append(out, it)
	}
	return out
}

// zooCoverage: in which situations was `p` executed?  An execution that ended
// in an error leaves no "proc" event; the error names the processor.
type zooSeen struct{ Req, Res, ResStored, AfterEarly bool }

func zooObserve(seen *zooSeen, t *Txn, tr *TxnResult) {
	ran := func(dir string) bool {
		for _, e := range tr.Events {
			if e.Key == "p" && e.Dir == dir {
				return true
			}
		}
		return false
	}
	// an error or a panic (reported by the monitor) inside p is an execution of p too
	failedInP := (tr.Outcome == "error" && strings.Contains(tr.Text, "failed to execute processor p:")) || tr.Outcome == "panic"
	answered := false
	for _, e := range tr.Events {
		if e.Key == "g" && e.Dir == "req" {
			answered = true
		}
	}
	switch {
	case t.Dir == "req" && answered:
		if ran("res") || failedInP {
			seen.AfterEarly = true
		}
	case t.Dir == "req":
		if ran("req") || failedInP {
			seen.Req = true
		}
	default:
		if ran("res") || failedInP {
			if t.StoredReq {
				seen.ResStored = true
			} else {
				seen.Res = true
			}
		}
	}
}

// zooReport: one line per registry type; returns the gaps (a type expected to be
// executable in all situations that was not).
func zooReport(o *c.Out, seen map[string]*zooSeen, rejected map[string]string, procs []zooProc) []string {
	var gaps []string
	byType := map[string]*zooSeen{}
	offline := map[string]string{}
	var types []string
	for i := range procs {
		zp := &procs[i]
		if byType[zp.Type] == nil {
			byType[zp.Type] = &zooSeen{}
			types = append(types, zp.Type)
		}
		if zp.Offline != "" {
			offline[zp.Type] = zp.Offline
		}
		if s := seen[zooLabel(zp)]; s != nil {
			b := byType[zp.Type]
			b.Req, b.Res, b.ResStored, b.AfterEarly = b.Req || s.Req, b.Res || s.Res, b.ResStored || s.ResStored, b.AfterEarly || s.AfterEarly
		}
		if txt, ok := rejected[zooLabel(zp)]; ok && zp.Offline == "" {
			gaps = append(gaps, fmt.Sprintf("%s: not accepted: %s", zooLabel(zp), txt))
		}
		if _, ok := rejected[zooLabel(zp)]; !ok && zp.Offline != "" {
			o.Note(fmt.Sprintf("zoo: %s was expected not to be creatable offline (%s) but its configuration was accepted", zooLabel(zp), zp.Offline))
		}
	}
	sort.Strings(types)
	for _, ty := range types {
		b := byType[ty]
		if why, off := offline[ty]; off {
			o.Note(fmt.Sprintf("zoo: %s not executed: %s", ty, why))
			continue
		}
		o.Note(fmt.Sprintf("zoo: %s executed on request=%v response=%v response-with-captured-request=%v after-early-response=%v",
			ty, b.Req, b.Res, b.ResStored, b.AfterEarly))
		if !(b.Req && b.Res && b.ResStored && b.AfterEarly) {
			gaps = append(gaps, fmt.Sprintf("%s: request=%v response=%v response-with-captured-request=%v after-early-response=%v",
				ty, b.Req, b.Res, b.ResStored, b.AfterEarly))
		}
	}
	return gaps
}
