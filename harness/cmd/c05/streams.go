// Monitor-only streams: quota files (valid and invalid) through the real quota
// validation / loader, and malformed traffic against a few accepted
// configurations.  These are tests, not part of the proof (notes/C05.md).
package main

import (
	"fmt"
	"strings"

	c "verifharness/common"
)

const quotaHost = "c05.test"

func baseFlowFiles() map[string]string {
	f := goodFlow("A", mainURL, "")
	return map[string]string{"A.yaml": f.YAML()}
}

func fixedQ(id, url string, max int, extra string) string {
	return fmt.Sprintf("  - id: %s\n    filter:\n      url: %s\n    strategy:\n      fixed_window:\n        max: %d\n        interval: 1\n        interval_unit: minute\n%s", id, url, max, extra)
}

func quotaItems() []RawItem {
	u := quotaHost + "/*"
	txns := []Txn{
		{Dir: "req", URL: mainURL, Headers: h("x-a", "x-b")},
		{Dir: "req", URL: mainURL, Headers: h("x-a")},
		{Dir: "res", URL: mainURL, Headers: h("x-t")},
	}
	files := map[string]string{
		"valid-fixed":      "quotas:\n" + fixedQ("q1", u, 1000, ""),
		"valid-concurrent": "quotas:\n  - id: q1\n    filter:\n      url: " + u + "\n    strategy:\n      concurrent:\n        max_request_count: 5\n",
		"valid-two":        "quotas:\n" + fixedQ("q1", u, 1000, "") + fixedQ("q2", quotaHost+"/a", 10, ""),
		"valid-header-based": "quotas:\n  - id: q1\n    filter:\n      url: " + u + "\n    strategy:\n      header_based:\n        quota_header: x-remaining\n        reset_header: x-reset\n",
		"valid-internal": "quotas:\n" + fixedQ("q1", u, 1000, "") +
			"internal_limits:\n  - id: c1\n    parent_id: q1\n    strategy:\n      fixed_window:\n        max: 10\n        interval: 1\n        interval_unit: minute\n",
		"internal-percentage": "quotas:\n" + fixedQ("q1", u, 1000, "") +
			"internal_limits:\n  - id: c1\n    parent_id: q1\n    strategy:\n      allocation_percentage: 50\n",
		"internal-percentage-of-concurrent": "quotas:\n  - id: q1\n    filter:\n      url: " + u + "\n    strategy:\n      concurrent:\n        max_request_count: 5\n" +
			"internal_limits:\n  - id: c1\n    parent_id: q1\n    strategy:\n      allocation_percentage: 50\n",
		"internal-percentage-over-100": "quotas:\n" + fixedQ("q1", u, 1000, "") +
			"internal_limits:\n  - id: c1\n    parent_id: q1\n    strategy:\n      allocation_percentage: 150\n",
		"internal-dangling-parent": "quotas:\n" + fixedQ("q1", u, 1000, "") +
			"internal_limits:\n  - id: c1\n    parent_id: nosuch\n    strategy:\n      fixed_window:\n        max: 10\n        interval: 1\n        interval_unit: minute\n",
		"internal-parent-listed-later": "quotas:\n" + fixedQ("q1", u, 1000, "") +
			"internal_limits:\n  - id: c2\n    parent_id: c1\n    strategy:\n      fixed_window:\n        max: 5\n        interval: 1\n        interval_unit: minute\n" +
			"  - id: c1\n    parent_id: q1\n    strategy:\n      fixed_window:\n        max: 10\n        interval: 1\n        interval_unit: minute\n",
		"internal-chain": "quotas:\n" + fixedQ("q1", u, 1000, "") +
			"internal_limits:\n  - id: c1\n    parent_id: q1\n    strategy:\n      fixed_window:\n        max: 10\n        interval: 1\n        interval_unit: minute\n" +
			"  - id: c2\n    parent_id: c1\n    strategy:\n      fixed_window:\n        max: 5\n        interval: 1\n        interval_unit: minute\n",
		"internal-duplicate-id": "quotas:\n" + fixedQ("q1", u, 1000, "") +
			"internal_limits:\n  - id: c1\n    parent_id: q1\n    strategy:\n      fixed_window:\n        max: 10\n        interval: 1\n        interval_unit: minute\n" +
			"  - id: c1\n    parent_id: q1\n    strategy:\n      fixed_window:\n        max: 5\n        interval: 1\n        interval_unit: minute\n",
		"internal-same-id-as-parent": "quotas:\n" + fixedQ("q1", u, 1000, "") +
			"internal_limits:\n  - id: q1\n    parent_id: q1\n    strategy:\n      fixed_window:\n        max: 10\n        interval: 1\n        interval_unit: minute\n",
		"internal-without-strategy": "quotas:\n" + fixedQ("q1", u, 1000, "") + "internal_limits:\n  - id: c1\n    parent_id: q1\n",
		"internal-without-parent-id": "quotas:\n" + fixedQ("q1", u, 1000, "") +
			"internal_limits:\n  - id: c1\n    strategy:\n      fixed_window:\n        max: 10\n        interval: 1\n        interval_unit: minute\n",
		"internal-null-element":  "quotas:\n" + fixedQ("q1", u, 1000, "") + "internal_limits:\n  -\n",
		"internal-other-host": "quotas:\n" + fixedQ("q1", u, 1000, "") +
			"internal_limits:\n  - id: c1\n    parent_id: q1\n    filter:\n      url: other.test/*\n    strategy:\n      fixed_window:\n        max: 10\n        interval: 1\n        interval_unit: minute\n",
		"internal-only":          "internal_limits:\n  - id: c1\n    parent_id: q1\n    strategy:\n      fixed_window:\n        max: 10\n        interval: 1\n        interval_unit: minute\n",
		"quotas-null-element":    "quotas:\n  -\n",
		"quotas-empty-list":      "quotas: []\n",
		"quotas-key-only":        "quotas:\n",
		"empty-file":             "",
		"garbage":                "quotas: [}\n  - :::\n",
		"not-a-map":              "- a\n- b\n",
		"quotas-is-a-string":     "quotas: hello\n",
		"no-id":                  "quotas:\n  - filter:\n      url: " + u + "\n    strategy:\n      fixed_window:\n        max: 1\n        interval: 1\n        interval_unit: minute\n",
		"no-filter":              "quotas:\n  - id: q1\n    strategy:\n      fixed_window:\n        max: 1\n        interval: 1\n        interval_unit: minute\n",
		"filter-without-url":     "quotas:\n  - id: q1\n    filter:\n      name: x\n    strategy:\n      fixed_window:\n        max: 1\n        interval: 1\n        interval_unit: minute\n",
		"no-strategy":            "quotas:\n  - id: q1\n    filter:\n      url: " + u + "\n",
		"empty-strategy":         "quotas:\n  - id: q1\n    filter:\n      url: " + u + "\n    strategy: {}\n",
		"two-strategies":         "quotas:\n  - id: q1\n    filter:\n      url: " + u + "\n    strategy:\n      fixed_window:\n        max: 1\n        interval: 1\n        interval_unit: minute\n      concurrent:\n        max_request_count: 5\n",
		"max-zero":               "quotas:\n" + fixedQ("q1", u, 0, ""),
		"max-negative":           "quotas:\n" + fixedQ("q1", u, -5, ""),
		"interval-unit-bogus":    "quotas:\n  - id: q1\n    filter:\n      url: " + u + "\n    strategy:\n      fixed_window:\n        max: 1\n        interval: 1\n        interval_unit: fortnight\n",
		"interval-zero":          "quotas:\n  - id: q1\n    filter:\n      url: " + u + "\n    strategy:\n      fixed_window:\n        max: 1\n        interval: 0\n        interval_unit: minute\n",
		"interval-month":         "quotas:\n  - id: q1\n    filter:\n      url: " + u + "\n    strategy:\n      fixed_window:\n        max: 1\n        interval: 1\n        interval_unit: month\n",
		"spillover-no-renewal":   "quotas:\n" + fixedQ("q1", u, 10, "        spillover:\n          max: 5\n"),
		"spillover-with-renewal": "quotas:\n" + fixedQ("q1", u, 10, "        spillover:\n          max: 5\n        monthly_renewal:\n          day: 1\n          hour: 0\n          minute: 0\n          timezone: UTC\n"),
		"renewal-bad-timezone":   "quotas:\n" + fixedQ("q1", u, 10, "        monthly_renewal:\n          day: 1\n          hour: 0\n          minute: 0\n          timezone: Mars\n"),
		"renewal-day-40":         "quotas:\n" + fixedQ("q1", u, 10, "        monthly_renewal:\n          day: 40\n          hour: 0\n          minute: 0\n          timezone: UTC\n"),
		"group-by-header":        "quotas:\n" + fixedQ("q1", u, 10, "        group_by_header: x-user\n"),
		"custom-counter-no-path": "quotas:\n  - id: q1\n    filter:\n      url: " + u + "\n    strategy:\n      fixed_window_custom_counter:\n        max: 10\n        interval: 1\n        interval_unit: minute\n",
		"custom-counter":         "quotas:\n  - id: q1\n    filter:\n      url: " + u + "\n    strategy:\n      fixed_window_custom_counter:\n        max: 10\n        interval: 1\n        interval_unit: minute\n        counter_value_path: $.response.body.usage\n",
		"concurrent-zero":        "quotas:\n  - id: q1\n    filter:\n      url: " + u + "\n    strategy:\n      concurrent:\n        max_request_count: 0\n",
		"concurrent-negative-gc": "quotas:\n  - id: q1\n    filter:\n      url: " + u + "\n    strategy:\n      concurrent:\n        max_request_count: 5\n        gc_interval_sec: -1\n",
		"two-hosts-one-file":     "quotas:\n" + fixedQ("q1", u, 10, "") + fixedQ("q2", "other.test/*", 10, ""),
		"duplicate-quota-id":     "quotas:\n" + fixedQ("q1", u, 10, "") + fixedQ("q1", u, 20, ""),
		"same-filter-twice":      "quotas:\n" + fixedQ("q1", u, 10, "") + fixedQ("q2", u, 20, ""),
		"filter-with-method":     "quotas:\n  - id: q1\n    filter:\n      url: " + u + "\n      method: [GET]\n    strategy:\n      fixed_window:\n        max: 1\n        interval: 1\n        interval_unit: minute\n",
		"url-weird":              "quotas:\n" + fixedQ("q1", "\"%%%/{x}/*/\"", 10, ""),
		"url-star-only":          "quotas:\n" + fixedQ("q1", "\"*\"", 10, ""),
		"id-with-dots":           "quotas:\n" + fixedQ("a.b.c", u, 10, ""),
		"allocation-on-parent":   "quotas:\n  - id: q1\n    filter:\n      url: " + u + "\n    strategy:\n      allocation_percentage: 50\n",
	}
	var out []RawItem
	for _, name := range sortedKeys(files) {
		out = append(out, RawItem{Kind: "quota", Label: "quota:" + name, Flows: baseFlowFiles(),
			Quotas: map[string]string{"q.yaml": files[name]}, Txns: txns})
	}
	// two files
	out = append(out, RawItem{Kind: "quota", Label: "quota:two-files-same-host", Flows: baseFlowFiles(),
		Quotas: map[string]string{"q1.yaml": "quotas:\n" + fixedQ("q1", u, 10, ""), "q2.yaml": "quotas:\n" + fixedQ("q2", quotaHost+"/b", 10, "")}, Txns: txns})
	out = append(out, RawItem{Kind: "quota", Label: "quota:two-files-two-hosts", Flows: baseFlowFiles(),
		Quotas: map[string]string{"q1.yaml": "quotas:\n" + fixedQ("q1", u, 10, ""), "q2.yaml": "quotas:\n" + fixedQ("q2", "other.test/*", 10, "")}, Txns: txns})
	// a Limiter on each kind of quota
	limFlow := func() map[string]string {
		f := goodFlow("A", mainURL, "")
		f.Procs = append(f.Procs, lim("l"))
		f.Req = append(f.Req, p2p("b", "miss", "l"), p2s("l", "below_limit"), p2s("l", "above_limit"))
		return map[string]string{"A.yaml": f.YAML()}
	}
	for _, name := range []string{"valid-fixed", "valid-concurrent", "valid-header-based", "valid-internal", "custom-counter", "group-by-header", "spillover-with-renewal"} {
		out = append(out, RawItem{Kind: "quota", Label: "quota:limiter-on-" + name, Flows: limFlow(),
			Quotas: map[string]string{"q.yaml": files[name]}, Txns: txns})
	}
	return out
}

// ---------------------------------------------------------------- malformed traffic

func trafficConfigs() []map[string]string {
	// Filters on every kind of criterion, a GenerateResponse with hand-over, a
	// MockProcessor on the request side
	crit := func(key, param, value string) string {
		return fmt.Sprintf("  %s:\n    processor: Filter\n    parameters:\n      - key: %s\n        value: %s\n", key, param, value)
	}
	var procs strings.Builder
	procs.WriteString(crit("fu", "url", "c05.test/*"))
	procs.WriteString(crit("fe", "endpoint", "/a"))
	procs.WriteString(crit("fm", "method", "GET"))
	procs.WriteString(crit("fh", "header", "x-a=1"))
	procs.WriteString(crit("fs", "status_code_range", "200-299"))
	procs.WriteString("  g:\n    processor: GenerateResponse\n    parameters:\n      - key: status\n        value: 418\n")
	chain := []string{"fu", "fe", "fm", "fh"}
	var req []Conn
	req = append(req, s2p(chain[0]))
	for i, k := range chain {
		if i+1 < len(chain) {
			req = append(req, p2p(k, "hit", chain[i+1]), p2p(k, "miss", chain[i+1]))
		} else {
			req = append(req, p2p(k, "hit", "g"), p2s(k, "miss"))
		}
	}
	var sb strings.Builder
	sb.WriteString("name: T\nfilter:\n  url: c05.test/*\nprocessors:\n" + procs.String() + "flow:\n  request:\n")
	yamlConns(&sb, req)
	sb.WriteString("  response:\n")
	yamlConns(&sb, []Conn{s2p("fs"), p2p("fs", "hit", "fu"), p2p("fs", "miss", "fu"), p2s("fu", "hit"), p2s("fu", "miss"), p2p("g", "", "fs")})
	star := strings.Replace(sb.String(), "name: T\nfilter:\n  url: c05.test/*", "name: T\nfilter:\n  url: \"*\"", 1)
	good := goodFlow("A", mainURL, "")
	mockF := goodFlow("A", mainURL, "")
	mockF.Procs = append(mockF.Procs, mock("m"))
	mockF.Req = append(mockF.Req, p2p("b", "miss", "m"), p2s("m", "output_1"))
	mockR := goodFlow("A", mainURL, "")
	mockR.Procs = append(mockR.Procs, mock("m"))
	mockR.Res = append(mockR.Res, p2p("g", "", "m"), p2s("m", "output_1"))
	return []map[string]string{
		{"A.yaml": mockR.YAML()},
		{"T.yaml": sb.String()},
		{"T.yaml": star},
		{"A.yaml": good.YAML()},
		{"A.yaml": mockF.YAML()},
	}
}

func trafficItems(r *c.Rng, n int) []RawItem {
	urls := []string{mainURL, "c05.test/a?x=1&y=%zz", "c05.test", "c05.test/", "", "%", "%%%", "http://[::1", "://", "c05.test/a b",
		"c05.test/\x00", "c05.test/a/../../b", "c05.test:99999/a", "c05.test/" + strings.Repeat("a/", 300), "C05.TEST/A",
		"c05.test/\xff\xfe", "c05.test/a#frag", "//c05.test/a", "c05.test//a", "*", "c05.test/*", "c05.test/{id}", "xn--c05-.test/a",
		"c05.test/a?" + strings.Repeat("q=1&", 200), "https://c05.test/a", "c05.test./a", ".c05.test/a", "c05..test/a"}
	methods := []string{"GET", "", "get", "POST", "B\x00GUS", strings.Repeat("M", 1000), "DELETE"}
	bodies := []string{"", "hello", "{", "{\"a\":", "{\"a\":{\"b\":[1,2,{\"c\":null}]}}", "\x1f\x8b\x08garbage", "[]", "null", "\"s\"",
		strings.Repeat("[", 5000), strings.Repeat("x", 100000), "\xff\xfe\x00", "{\"a\":1e999}"}
	hdrSets := []map[string]string{
		{}, {"x-a": "1"}, {"X-A": "1"}, {"x-a": ""}, {"": ""}, {"": "1"}, {"x-a": "1", "x-b": "1", "x-t": "1"},
		{"content-encoding": "gzip"}, {"content-encoding": "br"}, {"content-encoding": "deflate"}, {"content-type": "application/json"},
		{"x-a": strings.Repeat("1", 10000)}, {"x-a\x00": "1"}, {"x-lunar-consumer-tag": "\xff"}, {"content-length": "-1"},
	}
	statuses := []int{200, 0, -1, 99999, 299, 300, 100}
	cfgs := trafficConfigs()
	var out []RawItem
	for ci, files := range cfgs {
		txns := []Txn{{Dir: "req", URL: mainURL, Headers: h("x-a", "x-b", "x-t")}, {Dir: "res", URL: mainURL, Headers: h("x-t")}}
		for i := 0; i < n; i++ {
			t := Txn{Dir: "req", URL: c.Pick(r, urls), Method: c.Pick(r, methods), Headers: c.Pick(r, hdrSets), Body: c.Pick(r, bodies)}
			if r.Chance(1, 3) {
				t.Dir = "res"
				t.Status = c.Pick(r, statuses)
			}
			if r.Chance(1, 15) {
				t.NilHdrs = true
			}
			if r.Chance(1, 2) {
				t.URL = c.Pick(r, urls[:4]) // mostly URLs the flow is selected for
			}
			if r.Chance(1, 8) {
				t.Query = c.Pick(r, []string{"a=1", "%zz", strings.Repeat("k=v&", 100)})
			}
			txns = append(txns, t)
		}
		out = append(out, RawItem{Kind: "traffic", Label: fmt.Sprintf("traffic:%d", ci), Flows: files, Quotas: map[string]string{}, Txns: txns})
	}
	return out
}

// ---------------------------------------------------------------- malformed flow files

// flow files whose defect cannot be expressed in the Config vocabulary (null
// entries, missing sections, wrong YAML types): the validator must answer.
func rawFlowItems() []RawItem {
	good := goodFlow("A", mainURL, "")
	g := good.YAML()
	rep := func(old, new string) string {
		if !strings.Contains(g, old) {
			panic("rawFlowItems: pattern not found: " + old)
		}
		return strings.Replace(g, old, new, 1)
	}
	files := map[string]string{
		"good":                     g,
		"empty-file":               "",
		"garbage":                  "name: [}\n",
		"not-a-map":                "- a\n",
		"no-name":                  rep("name: A\n", ""),
		"name-null":                rep("name: A\n", "name:\n"),
		"no-filter":                rep("filter:\n  url: c05.test/a\n", ""),
		"filter-null":              rep("filter:\n  url: c05.test/a\n", "filter:\n"),
		"filter-is-string":         rep("filter:\n  url: c05.test/a\n", "filter: x\n"),
		"no-processors":            "name: A\nfilter:\n  url: c05.test/a\nflow:\n  request:\n    - from:\n        stream:\n          name: globalStream\n          at: start\n      to:\n        stream:\n          name: globalStream\n          at: end\n  response:\n    - from:\n        stream:\n          name: globalStream\n          at: start\n      to:\n        stream:\n          name: globalStream\n          at: end\n",
		"processor-null":           rep("  b:\n    processor: Filter\n    parameters:\n      - key: header\n        value: x-b=1\n", "  b:\n"),
		"parameters-null-element":  rep("  b:\n    processor: Filter\n    parameters:\n      - key: header\n        value: x-b=1\n", "  b:\n    processor: Filter\n    parameters:\n      -\n      - key: header\n        value: x-b=1\n"),
		"parameter-without-value":  rep("      - key: header\n        value: x-b=1\n", "      - key: header\n"),
		"parameter-value-is-list":  rep("        value: x-b=1\n", "        value: [1, 2]\n"),
		"parameter-value-is-map":   rep("        value: x-b=1\n", "        value: {a: 1}\n"),
		"status-not-a-number":      rep("        value: 429\n", "        value: teapot\n"),
		"no-flow-section":          g[:strings.Index(g, "flow:\n")],
		"flow-null":                g[:strings.Index(g, "flow:\n")] + "flow:\n",
		"request-null":             rep("  request:\n", "  request:\n  request_was:\n"),
		"request-null-element":     rep("  request:\n", "  request:\n    -\n"),
		"response-null-element":    rep("  response:\n", "  response:\n    -\n"),
		"from-null":                rep("    - from:\n        stream:\n          name: globalStream\n          at: start\n      to:\n        processor:\n          name: a\n", "    - from:\n      to:\n        processor:\n          name: a\n"),
		"to-missing":               rep("      to:\n        processor:\n          name: a\n", ""),
		"stream-null":              rep("        stream:\n          name: globalStream\n          at: start\n      to:\n        processor:\n          name: a\n", "        stream:\n      to:\n        processor:\n          name: a\n"),
		"stream-without-name":      rep("        stream:\n          name: globalStream\n          at: start\n      to:\n        processor:\n          name: a\n", "        stream:\n          at: start\n      to:\n        processor:\n          name: a\n"),
		"processor-ref-null":       rep("      to:\n        processor:\n          name: a\n", "      to:\n        processor:\n"),
		"processor-ref-no-name":    rep("      to:\n        processor:\n          name: a\n", "      to:\n        processor:\n          condition: hit\n"),
		"processor-ref-two-dots":   rep("      to:\n        processor:\n          name: a\n", "      to:\n        processor:\n          name: A.b.c\n"),
		"processor-ref-dot-only":   rep("      to:\n        processor:\n          name: a\n", "      to:\n        processor:\n          name: \".\"\n"),
		"processor-ref-is-string":  rep("      to:\n        processor:\n          name: a\n", "      to:\n        processor: a\n"),
		"flow-ref-without-name":    rep("        stream:\n          name: globalStream\n          at: start\n      to:\n        processor:\n          name: a\n", "        flow:\n          at: end\n      to:\n        processor:\n          name: a\n"),
		"duplicate-processor-keys": rep("  b:\n    processor: Filter\n", "  a:\n    processor: Filter\n"),
		"metrics-section":          rep("  b:\n    processor: Filter\n", "  b:\n    metrics:\n      enabled: true\n      labels: [flow_name, bogus_label]\n    processor: Filter\n"),
		"filter-all-fields":        rep("filter:\n  url: c05.test/a\n", "filter:\n  url: c05.test/a\n  method: [GET, BOGUS]\n  headers:\n    - key: x\n      value: 1\n  query_params:\n    - key: q\n      value: [1]\n  status_code: [200, -1]\n  expressions: [\"$.request.body.a\", \"nonsense ((\"]\n  sample_percentage: 250\n"),
		"url-weird":                rep("  url: c05.test/a\n", "  url: \"%%%/{x}/*/{x}\"\n"),
		"url-star":                 rep("  url: c05.test/a\n", "  url: \"*\"\n"),
		"url-wildcard-middle":      rep("  url: c05.test/a\n", "  url: c05.test/*/a\n"),
		"url-path-param-twice":     rep("  url: c05.test/a\n", "  url: c05.test/{id}/{id}\n"),
	}
	txns := []Txn{
		{Dir: "req", URL: mainURL, Headers: h("x-a", "x-b", "x-t")},
		{Dir: "req", URL: mainURL, Headers: h()},
		{Dir: "res", URL: mainURL, Headers: h("x-t")},
		{Dir: "req", URL: "c05.test/7/7", Headers: h("x-a", "x-b", "x-t")},
		{Dir: "req", URL: "c05.test/x/a", Headers: h("x-a", "x-b", "x-t"), Method: "BOGUS"},
	}
	var out []RawItem
	for _, name := range sortedKeys(files) {
		out = append(out, RawItem{Kind: "flowfile", Label: "flowfile:" + name, Flows: map[string]string{"A.yaml": files[name]},
			Quotas: map[string]string{}, Txns: txns})
	}
	// path-parameter files are part of the directory the validator reads as well
	return out
}
