// Family "foreign-root": configurations in which a flow names, as its OWN stream
// entry (`stream -> k`), a processor that an incorporated flow brought into the
// direction.  connectStreamToProcessor then files the entry under
// flowBuilder.foreignRoot instead of making it the root, and nothing consumes
// it: the value is stale.  What happens to a stale value is what this family
// is about: a later reference of the same direction to a flow that defines no
// entry (deterministic, key = pointer: modelled), the response direction of the
// same flow and the next flow the builder happens to build (F-C05l: the value
// must not get there).
//
// "race" members: two flows that leave a stale value behind and two bystander
// flows each of which is buildable only by consuming one.  One builder field,
// Go map iteration order and the second pass over the flows that failed decide
// how many bystanders get one - the verdict on the same files changes from run
// to run (Job.Repeat), in the validator and in the gateway independently.
package main

import "fmt"

// referenced flow: request `stream -> <p>1 -hit-> stream`; response rooted
// (`stream -> <p>3 -hit-> stream`) or without any processor (`stream -> stream`)
func refdFlow(name, url, p string, resRooted bool) FlowCfg {
	f := FlowCfg{Name: name, URL: url, Procs: []Proc{filt(p + "1"), filt(p + "3")},
		Req: []Conn{s2p(p + "1"), p2s(p+"1", "hit")},
		Res: []Conn{s2s()}}
	if resRooted {
		f.Res = []Conn{s2p(p + "3"), p2s(p+"3", "hit")}
	}
	return f
}

// a flow whose request direction leaves a stale foreign root behind (it
// incorporates flow `ref`, whose entry <rp>1 it then names as its own)
func staleMaker(name, url, p, ref, rp string) FlowCfg {
	return FlowCfg{Name: name, URL: url, Procs: []Proc{filt(p + "1"), filt(p + "3")},
		Req: []Conn{f2p(ref, p+"1"), p2s(p+"1", "hit"), s2p(rp + "1")},
		Res: []Conn{s2p(p + "3"), p2s(p+"3", "hit")}}
}

// a flow that can only be built by consuming a foreign root it cannot get from
// the flow it refers to (`none`: a flow whose response defines no entry)
func bystander(name, url, p, none string, inReq bool) FlowCfg {
	f := FlowCfg{Name: name, URL: url, Procs: []Proc{filt(p + "1"), filt(p + "3")},
		Req: []Conn{s2p(p + "1"), p2s(p+"1", "hit")},
		Res: []Conn{f2p(none, p+"3"), p2s(p+"3", "hit")}}
	if inReq {
		f.Req = []Conn{f2p(none, p+"1"), p2s(p+"1", "hit")}
		f.Res = []Conn{s2p(p + "3"), p2s(p+"3", "hit")}
	}
	return f
}

const raceRepeat = 23

func foreignRootItems() []Item {
	var out []Item
	add := func(label string, flows ...FlowCfg) {
		out = append(out, Item{Label: "foreign-root:" + label, Config: Config{Flows: flows}})
	}
	u2, u3, u4 := "c05.test/b", "c05.test/c", "c05.test/d"
	// how flow A's request direction leaves a stale foreign root behind
	staleReq := map[string][]Conn{
		// the audit's shape: B incorporated, its entry consumed, then named again as A's own entry
		"after": {f2p("B", "a1"), p2s("a1", "hit"), s2p("b1")},
		// B's processor by qualified name: created on behalf of A, hence A's own root (no stale value)
		"qualified": {s2p("a1"), p2p("a1", "hit", "B.b1"), p2s("a1", "miss"), s2p("B.b1")},
		// no stale value (control)
		"none": {f2p("B", "a1"), p2s("a1", "hit")},
	}
	// what flow A's response direction does
	resOf := map[string][]Conn{
		// `from flow B at end` where B's response defines no entry: only a stale value makes it succeed
		"from-rootless": {f2p("B", "a3"), p2s("a3", "hit")},
		// `p -> flow B at start`, same
		"to-rootless": {s2p("a3"), p2f("a3", "hit", "B"), p2s("a3", "miss")},
		// stale value made AND consumed inside the response direction (key = pointer there):
		// B's response entry b3 named as A's own, then a reference to N whose response has no entry
		"stale-inside": {f2p("B", "a3"), p2s("a3", "hit"), s2p("b3"), p2f("a3", "miss", "N")},
		// a stale value made in the RESPONSE direction and left behind: it is what the next
		// flow's request direction finds (B's response entry b3 named as A's own)
		"stale-left": {f2p("B", "a3"), p2s("a3", "hit"), s2p("b3")},
		// plain response: the stale value is not consumed by this flow
		"plain": {s2p("a3"), p2s("a3", "hit")},
		"none":  {s2s()},
	}
	// N: response direction with processors but without entry (valid: rootless responses are allowed)
	nFlow := FlowCfg{Name: "N", URL: u4, Procs: []Proc{filt("n1"), filt("n2"), filt("n3")},
		Req: []Conn{s2p("n1"), p2s("n1", "hit")},
		Res: []Conn{p2p("n2", "hit", "n3"), p2s("n3", "hit")}}
	for _, sk := range sortedKeys(staleReq) {
		for _, rk := range sortedKeys(resOf) {
			for _, rooted := range []bool{false, true} {
				a := FlowCfg{Name: "A", URL: mainURL, Procs: []Proc{filt("a1"), filt("a3")},
					Req: append([]Conn{}, staleReq[sk]...), Res: append([]Conn{}, resOf[rk]...)}
				b := refdFlow("B", u2, "b", rooted)
				flows := []FlowCfg{a, b}
				if rk == "stale-inside" {
					flows = append(flows, nFlow)
				}
				add(fmt.Sprintf("%s/%s/rooted=%v", sk, rk, rooted), flows...)
				if rk == "stale-inside" {
					continue
				}
				// + one bystander: buildable only with a stale value of ANOTHER flow's build
				for _, inReq := range []bool{true, false} {
					d := FlowCfg{Name: "D", URL: u4, Procs: []Proc{filt("d1"), filt("d2")},
						Req: []Conn{s2p("d1"), p2s("d1", "hit")}, Res: []Conn{s2s()}}
					if inReq {
						// (a request direction without entry is invalid by itself; the
						// configuration is rejected either way, by D or by C)
						d.Req = []Conn{s2s()}
						d.Res = []Conn{s2p("d2"), p2s("d2", "hit")}
					}
					add(fmt.Sprintf("%s/%s/rooted=%v/bystander-req=%v", sk, rk, rooted, inReq),
						a, b, bystander("C", u3, "c", "D", inReq), d)
				}
			}
		}
	}
	// race: two stale values are needed, one builder field; file order = insertion
	// order of the flow map, rotated by Go's map iteration
	b := refdFlow("B", u2, "b", true)
	d := FlowCfg{Name: "D", URL: u4, Procs: []Proc{filt("d1")},
		Req: []Conn{s2p("d1"), p2s("d1", "hit")}, Res: []Conn{s2s()}}
	s1 := staleMaker("S1", mainURL, "s", "B", "b")
	s2 := staleMaker("S2", "c05.test/s2", "t", "B", "b")
	c1 := bystander("C1", u3, "c", "D", false)
	c2 := bystander("C2", "c05.test/c2", "e", "D", false)
	// ... and the same with the stale value left by a RESPONSE direction and picked up by the
	// request direction of the flow built next (the only place it can get to when the field
	// is cleared between the two directions of a flow but not before the first)
	sr := FlowCfg{Name: "S3", URL: "c05.test/s3", Procs: []Proc{filt("u1"), filt("u3")},
		Req: []Conn{s2p("u1"), p2s("u1", "hit")},
		Res: []Conn{f2p("B", "u3"), p2s("u3", "hit"), s2p("b3")}}
	dq := FlowCfg{Name: "E", URL: "c05.test/e", Procs: []Proc{filt("e2")},
		Req: []Conn{s2s()}, Res: []Conn{s2p("e2"), p2s("e2", "hit")}}
	cq := bystander("C3", "c05.test/c3", "g", "E", true)
	cq2 := bystander("C4", "c05.test/c4", "k", "E", true)
	for i, order := range [][]FlowCfg{
		{s1, s2, c1, c2, b, d}, {s1, c1, s2, c2, b, d}, {c1, c2, s1, s2, b, d}, {b, d, s1, s2, c1, c2},
		{s1, s2, c1, b, d}, {s1, c1, c2, b, d},
		{sr, cq, b, dq}, {cq, sr, b, dq}, {b, dq, sr, cq, cq2}, {sr, cq, cq2, b, dq},
	} {
		out = append(out, Item{Label: fmt.Sprintf("foreign-root:race-%d", i), Config: Config{Flows: order}, Repeat: raceRepeat})
	}
	return out
}
