// Generators: exhaustive families of small graphs, single-defect variants of a
// good configuration, flow-reference shapes, random configurations over the
// whole connection vocabulary, and the transactions that go with them.
package main

import (
	"fmt"
	"sort"
	"strings"

	c "verifharness/common"
)

// Item = one configuration with the transactions to run on it when accepted.
type Item struct {
	Label  string
	Config Config
	Txns   []Txn
	Repeat int // additional validator / gateway-load runs (Job.Repeat)
}

// steering headers of the Filters of a configuration
func filterHeaders(cf *Config) []string {
	seen := map[string]bool{}
	var hs []string
	for _, f := range cf.Flows {
		for _, p := range f.Procs {
			if p.Type == tFilter && !seen[hdrOf(p.Key)] {
				seen[hdrOf(p.Key)] = true
				hs = append(hs, hdrOf(p.Key))
			}
		}
	}
	sort.Strings(hs)
	return hs
}

// all subsets when few, else a sample containing both extremes
func headerSets(r *c.Rng, hs []string, limit int) [][]string {
	var out [][]string
	if len(hs) <= 10 && 1<<len(hs) <= limit {
		for m := 0; m < 1<<len(hs); m++ {
			var s []string
			for i, h := range hs {
				if m>>i&1 == 1 {
					s = append(s, h)
				}
			}
			out = append(out, s)
		}
		return out
	}
	out = append(out, append([]string{}, hs...), []string{})
	for len(out) < limit {
		var s []string
		for _, h := range hs {
			if r.Bool() {
				s = append(s, h)
			}
		}
		out = append(out, s)
	}
	return out
}

// branch-oracle assignments as request and as response transactions
func txnsFor(r *c.Rng, cf *Config, limit int) []Txn {
	var out []Txn
	for _, s := range headerSets(r, filterHeaders(cf), limit) {
		out = append(out, Txn{Dir: "req", URL: mainURL, Headers: h(s...)})
	}
	for _, s := range headerSets(r, filterHeaders(cf), limit/2) {
		out = append(out, Txn{Dir: "res", URL: mainURL, Headers: h(s...)})
	}
	return out
}

// ---------------------------------------------------------------- family: response shapes

// Response direction over the processors g (GenerateResponse, the hand-over
// node) and nf Filters, every subset of the possible connections (Filters on
// "hit", g on ""), every choice of entry point (none / one of the processors).
// The request side sends x-s requests to g, which answers them.
type cand struct{ from, cond, to string }

func responseCands(nf int) ([]string, []cand) {
	procs := []string{"g"}
	for i := 0; i < nf; i++ {
		procs = append(procs, string(rune('a'+i)))
	}
	var cands []cand
	for _, f := range procs {
		cd := "hit"
		if f == "g" {
			cd = ""
		}
		for _, t := range procs {
			cands = append(cands, cand{f, cd, t})
		}
		cands = append(cands, cand{f, cd, ""})
	}
	return procs, cands
}

// one response shape: root = index into procs (-1 none), m = subset of cands
func responseShape(nf int, root int, m uint64) Config {
	procs, cands := responseCands(nf)
	var res []Conn
	if root >= 0 {
		res = append(res, s2p(procs[root]))
	}
	for i, cd := range cands {
		if m>>uint(i)&1 == 1 {
			if cd.to == "" {
				res = append(res, p2s(cd.from, cd.cond))
			} else {
				res = append(res, p2p(cd.from, cd.cond, cd.to))
			}
		}
	}
	f := FlowCfg{Name: "A", URL: mainURL, Procs: []Proc{filt("s"), gen1("g")},
		Req: []Conn{s2p("s"), p2p("s", "hit", "g"), p2s("s", "miss")}, Res: res}
	for i := 0; i < nf; i++ {
		f.Procs = append(f.Procs, filt(string(rune('a'+i))))
	}
	return Config{Flows: []FlowCfg{f}}
}

func responseShapes(nf int, sample func(i int) bool) []Config {
	procs, cands := responseCands(nf)
	var out []Config
	idx := 0
	for root := -1; root < len(procs); root++ {
		for m := uint64(1); m < 1<<uint(len(cands)); m++ {
			idx++
			if sample != nil && !sample(idx) {
				continue
			}
			out = append(out, responseShape(nf, root, m))
		}
	}
	return out
}

// n random response shapes (sparse subsets: each connection with probability ~ 1/4)
func responseShapesRandom(r *c.Rng, nf, n int) []Config {
	procs, cands := responseCands(nf)
	var out []Config
	for i := 0; i < n; i++ {
		var m uint64
		for b := range cands {
			if r.Chance(1, 4) {
				m |= 1 << uint(b)
			}
		}
		if m == 0 {
			m = 1
		}
		out = append(out, responseShape(nf, r.Range(-1, len(procs)-1), m))
	}
	return out
}

// ---------------------------------------------------------------- family: request shapes

// Request direction over nf Filters (connections on "hit" or "miss" chosen per
// source) and g (GenerateResponse, only ever a target): every subset of the
// connections, every entry point.  The response side has a node for g.
func requestCands(nf int) ([]string, [][2]string) {
	var fs []string
	for i := 0; i < nf; i++ {
		fs = append(fs, string(rune('a'+i)))
	}
	targets := append(append([]string{}, fs...), "g", "")
	var cands [][2]string
	for _, f := range fs {
		for _, t := range targets {
			cands = append(cands, [2]string{f, t})
		}
	}
	return fs, cands
}

// one request shape: root ("" none), m = subset of cands, cm = Filters connecting on "miss"
func requestShape(nf int, root string, m uint64, cm int) Config {
	fs, cands := requestCands(nf)
	var req []Conn
	if root != "" {
		req = append(req, s2p(root))
	}
	for i, cd := range cands {
		if m>>uint(i)&1 == 0 {
			continue
		}
		cond := "hit"
		if cm>>(int(cd[0][0]-'a'))&1 == 1 {
			cond = "miss"
		}
		if cd[1] == "" {
			req = append(req, p2s(cd[0], cond))
		} else {
			req = append(req, p2p(cd[0], cond, cd[1]))
		}
	}
	f := FlowCfg{Name: "A", URL: mainURL, Procs: []Proc{gen1("g"), filt("r")},
		Req: req, Res: []Conn{s2p("r"), p2s("r", "hit"), p2s("g", "")}}
	for _, k := range fs {
		f.Procs = append(f.Procs, filt(k))
	}
	return Config{Flows: []FlowCfg{f}}
}

func requestShapes(nf int, sample func(i int) bool) []Config {
	fs, cands := requestCands(nf)
	var out []Config
	idx := 0
	roots := append([]string{""}, append(append([]string{}, fs...), "g")...)
	for _, root := range roots {
		for m := uint64(1); m < 1<<uint(len(cands)); m++ {
			for cm := 0; cm < 1<<nf; cm++ {
				idx++
				if sample != nil && !sample(idx) {
					continue
				}
				out = append(out, requestShape(nf, root, m, cm))
			}
		}
	}
	return out
}

// n random request shapes (sparse; mostly rooted at a, mostly on "hit")
func requestShapesRandom(r *c.Rng, nf, n int) []Config {
	fs, cands := requestCands(nf)
	roots := append([]string{""}, append(append([]string{}, fs...), "g")...)
	var out []Config
	for i := 0; i < n; i++ {
		var m uint64
		for b := range cands {
			if r.Chance(1, 3) {
				m |= 1 << uint(b)
			}
		}
		if m == 0 {
			m = 1
		}
		root := "a"
		if r.Chance(1, 4) {
			root = c.Pick(r, roots)
		}
		cm := 0
		if r.Chance(1, 3) {
			cm = r.Intn(1 << nf)
		}
		out = append(out, requestShape(nf, root, m, cm))
	}
	return out
}

// ---------------------------------------------------------------- family: single defects

func goodFlow(name, url, pre string) FlowCfg {
	a, b, g, t := pre+"a", pre+"b", pre+"g", pre+"t"
	return FlowCfg{Name: name, URL: url,
		Procs: []Proc{filt(a), filt(b), gen1(g), filt(t)},
		Req:   []Conn{s2p(a), p2p(a, "hit", b), p2p(b, "hit", g), p2s(a, "miss"), p2s(b, "miss")},
		Res:   []Conn{s2p(t), p2s(t, "hit"), p2p(g, "", t)}}
}

func cloneFlow(f FlowCfg) FlowCfg {
	g := f
	g.Procs = append([]Proc{}, f.Procs...)
	for i := range g.Procs {
		g.Procs[i].Params = append([]string{}, f.Procs[i].Params...)
	}
	g.Req = append([]Conn{}, f.Req...)
	g.Res = append([]Conn{}, f.Res...)
	return g
}

// every single-defect variant of a good configuration (and a few harmless edits)
func defectVariants() []Item {
	var out []Item
	add := func(label string, edit func(f *FlowCfg, cf *Config)) {
		f := cloneFlow(goodFlow("A", mainURL, ""))
		cf := Config{Flows: []FlowCfg{f}}
		edit(&cf.Flows[0], &cf)
		out = append(out, Item{Label: "variant:" + label, Config: cf})
	}
	add("good", func(f *FlowCfg, cf *Config) {})
	add("no-url", func(f *FlowCfg, cf *Config) { f.URL = "" })
	add("request-empty", func(f *FlowCfg, cf *Config) { f.Req = nil })
	add("response-empty", func(f *FlowCfg, cf *Config) { f.Res = nil })
	add("response-stream-only", func(f *FlowCfg, cf *Config) { f.Res = []Conn{s2s()} })
	add("request-stream-only", func(f *FlowCfg, cf *Config) { f.Req = []Conn{s2s()} })
	add("both-stream-only", func(f *FlowCfg, cf *Config) { f.Req = []Conn{s2s()}; f.Res = []Conn{s2s()} })
	add("from-names-nothing", func(f *FlowCfg, cf *Config) { f.Req = append(f.Req, Conn{End{}, End{Proc: &ProcRef{Name: "a"}}}) })
	add("to-names-nothing", func(f *FlowCfg, cf *Config) { f.Req = append(f.Req, Conn{End{Proc: &ProcRef{"a", "hit"}}, End{}}) })
	add("stream-start-as-target", func(f *FlowCfg, cf *Config) {
		f.Req = append(f.Req, Conn{End{Proc: &ProcRef{"b", "miss"}}, End{Stream: &StreamRef{"start"}}})
	})
	add("stream-end-as-source", func(f *FlowCfg, cf *Config) {
		f.Req[0] = Conn{End{Stream: &StreamRef{"end"}}, End{Proc: &ProcRef{Name: "a"}}}
	})
	add("stream-at-other", func(f *FlowCfg, cf *Config) {
		f.Req[0] = Conn{End{Stream: &StreamRef{"middle"}}, End{Proc: &ProcRef{Name: "a"}}}
	})
	add("flow-ref-wrong-at-from", func(f *FlowCfg, cf *Config) {
		f.Req[0] = Conn{End{Flow: &FlowRef{"A", "start"}}, End{Proc: &ProcRef{Name: "a"}}}
	})
	add("flow-ref-wrong-at-to", func(f *FlowCfg, cf *Config) {
		f.Req = append(f.Req, Conn{End{Proc: &ProcRef{"b", "miss"}}, End{Flow: &FlowRef{"A", "end"}}})
	})
	add("flow-to-flow", func(f *FlowCfg, cf *Config) {
		f.Req = append(f.Req, Conn{End{Flow: &FlowRef{"A", "end"}}, End{Flow: &FlowRef{"A", "start"}}})
	})
	add("stream-to-flow", func(f *FlowCfg, cf *Config) {
		f.Req = append(f.Req, Conn{End{Stream: &StreamRef{"start"}}, End{Flow: &FlowRef{"A", "start"}}})
	})
	add("from-stream-and-processor", func(f *FlowCfg, cf *Config) {
		f.Req = append(f.Req, Conn{End{Stream: &StreamRef{"start"}, Proc: &ProcRef{"a", "hit"}}, End{Proc: &ProcRef{Name: "b"}}})
	})
	add("to-stream-and-processor", func(f *FlowCfg, cf *Config) {
		f.Req = append(f.Req, Conn{End{Proc: &ProcRef{"a", "hit"}}, End{Stream: &StreamRef{"end"}, Proc: &ProcRef{Name: "b"}}})
	})
	add("from-flow-and-stream", func(f *FlowCfg, cf *Config) {
		f.Req[0] = Conn{End{Stream: &StreamRef{"start"}, Flow: &FlowRef{"A", "end"}}, End{Proc: &ProcRef{Name: "a"}}}
	})
	add("unknown-condition", func(f *FlowCfg, cf *Config) { f.Req[1] = p2p("a", "bogus", "b") })
	add("empty-condition-on-filter", func(f *FlowCfg, cf *Config) { f.Req[1] = p2p("a", "", "b") })
	add("gen-as-request-source", func(f *FlowCfg, cf *Config) { f.Req = append(f.Req, p2s("g", "")) })
	add("gen-condition-on-response", func(f *FlowCfg, cf *Config) { f.Res[2] = p2p("g", "hit", "t") })
	add("dangling-target", func(f *FlowCfg, cf *Config) { f.Req[1] = p2p("a", "hit", "nosuch") })
	add("dangling-source", func(f *FlowCfg, cf *Config) { f.Req = append(f.Req, p2s("nosuch", "hit")) })
	add("dangling-root", func(f *FlowCfg, cf *Config) { f.Req[0] = s2p("nosuch") })
	add("dangling-foreign-flow", func(f *FlowCfg, cf *Config) { f.Req[1] = p2p("a", "hit", "Z.b") })
	add("dangling-foreign-key", func(f *FlowCfg, cf *Config) { f.Req[1] = p2p("a", "hit", "A.nosuch") })
	add("own-processor-by-qualified-name", func(f *FlowCfg, cf *Config) {
		f.Req[1] = p2p("a", "hit", "A.b")
		f.Req = append(f.Req, p2s("A.b", "hit"))
	})
	add("dangling-flow-ref-to", func(f *FlowCfg, cf *Config) { f.Req = append(f.Req, p2f("b", "miss", "Z")) })
	add("dangling-flow-ref-from", func(f *FlowCfg, cf *Config) { f.Req[0] = f2p("Z", "a") })
	add("unknown-processor-type", func(f *FlowCfg, cf *Config) { f.Procs[1].Type = tNope })
	add("empty-processor-type", func(f *FlowCfg, cf *Config) { f.Procs[1].Type = "" })
	add("filter-without-criteria", func(f *FlowCfg, cf *Config) { f.Procs[1].Params = nil })
	add("filter-with-unknown-param-only", func(f *FlowCfg, cf *Config) { f.Procs[1].Params = []string{"zzz"} })
	add("duplicate-param", func(f *FlowCfg, cf *Config) { f.Procs[1].Params = []string{"header", "header"} })
	add("extra-unknown-param", func(f *FlowCfg, cf *Config) { f.Procs[1].Params = []string{"header", "zzz"} })
	add("gen-without-params", func(f *FlowCfg, cf *Config) { f.Procs[2].Params = nil })
	add("key-with-dot", func(f *FlowCfg, cf *Config) {
		f.Procs = append(f.Procs, Proc{Key: "x.y", Type: tFilter, Params: []string{"header"}})
	})
	add("unused-processor", func(f *FlowCfg, cf *Config) { f.Procs = append(f.Procs, filt("unused")) })
	add("unused-broken-processor", func(f *FlowCfg, cf *Config) { f.Procs = append(f.Procs, Proc{Key: "unused", Type: tFilter}) })
	add("limiter-without-quota-id", func(f *FlowCfg, cf *Config) {
		f.Procs = append(f.Procs, Proc{Key: "l", Type: tLimit})
		cf.Quotas = []string{"q1"}
	})
	add("limiter-unknown-quota", func(f *FlowCfg, cf *Config) {
		f.Procs = append(f.Procs, Proc{Key: "l", Type: tLimit, Params: []string{"quota_missing"}})
		cf.Quotas = []string{"q1"}
	})
	add("limiter-no-quota-files", func(f *FlowCfg, cf *Config) { f.Procs = append(f.Procs, lim("l")) })
	add("limiter-in-request", func(f *FlowCfg, cf *Config) {
		f.Procs = append(f.Procs, lim("l"))
		f.Req = append(f.Req, p2p("b", "miss", "l"), p2s("l", "below_limit"))
		cf.Quotas = []string{"q1"}
	})
	add("limiter-condition-in-response", func(f *FlowCfg, cf *Config) {
		f.Procs = append(f.Procs, lim("l"))
		f.Res = append(f.Res, p2p("t", "miss", "l"), p2s("l", "below_limit"))
		cf.Quotas = []string{"q1"}
	})
	add("two-roots", func(f *FlowCfg, cf *Config) { f.Req = append(f.Req, s2p("b")) })
	add("two-roots-first-left-alone", func(f *FlowCfg, cf *Config) {
		f.Procs = append(f.Procs, filt("c"))
		f.Req = append([]Conn{s2p("c")}, f.Req...)
	})
	add("root-without-connections", func(f *FlowCfg, cf *Config) { f.Req = []Conn{s2p("a")} })
	add("request-without-root", func(f *FlowCfg, cf *Config) { f.Req = f.Req[1:] })
	add("response-without-root", func(f *FlowCfg, cf *Config) { f.Res = f.Res[1:] })
	add("unconnected-processor", func(f *FlowCfg, cf *Config) {
		f.Procs = append(f.Procs, filt("c"))
		f.Req = append(f.Req, s2p("c"), s2p("a"))
	})
	add("duplicate-connection", func(f *FlowCfg, cf *Config) { f.Req = append(f.Req, f.Req[1], f.Req[1]) })
	add("same-target-two-conditions", func(f *FlowCfg, cf *Config) { f.Req = append(f.Req, p2p("a", "miss", "b")) })
	add("self-loop-request", func(f *FlowCfg, cf *Config) { f.Req = append(f.Req, p2p("b", "miss", "b")) })
	add("request-cycle-through-root", func(f *FlowCfg, cf *Config) { f.Req = append(f.Req, p2p("b", "miss", "a")) })
	add("request-cycle-off-root", func(f *FlowCfg, cf *Config) {
		f.Procs = append(f.Procs, filt("c"), filt("d"))
		f.Req = append(f.Req, p2p("c", "hit", "d"), p2p("d", "hit", "c"))
	})
	add("response-cycle-on-root", func(f *FlowCfg, cf *Config) { f.Res = append(f.Res, p2p("t", "miss", "t")) })
	add("response-cycle-behind-hand-over", func(f *FlowCfg, cf *Config) {
		f.Procs = append(f.Procs, filt("c"), filt("d"))
		f.Res = append(f.Res, p2p("g", "", "c"), p2p("c", "hit", "d"), p2p("d", "hit", "c"))
	})
	add("response-cycle-rootless", func(f *FlowCfg, cf *Config) {
		f.Procs = append(f.Procs, filt("c"))
		f.Res = []Conn{p2p("g", "", "c"), p2p("c", "hit", "c")}
	})
	add("response-cycle-different-conditions", func(f *FlowCfg, cf *Config) {
		f.Procs = append(f.Procs, filt("c"), filt("d"))
		f.Res = append(f.Res, p2p("g", "", "c"), p2p("c", "hit", "d"), p2p("d", "miss", "c"))
	})
	add("diamond-same-condition", func(f *FlowCfg, cf *Config) {
		f.Procs = append(f.Procs, filt("c"), filt("d"))
		f.Req = []Conn{s2p("a"), p2p("a", "hit", "b"), p2p("b", "hit", "c"), p2p("b", "hit", "d"), p2p("c", "hit", "d"),
			p2s("d", "hit"), p2s("a", "miss")}
	})
	add("diamond-behind-hand-over", func(f *FlowCfg, cf *Config) {
		f.Procs = append(f.Procs, filt("c"), filt("d"), filt("e"))
		f.Res = append(f.Res, p2p("g", "", "c"), p2p("c", "hit", "d"), p2p("c", "hit", "e"), p2p("d", "hit", "e"), p2s("e", "hit"))
	})
	add("double-diamond", func(f *FlowCfg, cf *Config) {
		f.Procs = append(f.Procs, filt("c"), filt("d"), filt("e"))
		f.Req = []Conn{s2p("a"), p2p("a", "hit", "b"), p2p("a", "hit", "c"), p2p("b", "hit", "d"), p2p("c", "hit", "d"),
			p2p("d", "hit", "e"), p2p("d", "miss", "e"), p2s("e", "hit"), p2s("a", "miss")}
	})
	add("answering-processor-without-response-node", func(f *FlowCfg, cf *Config) { f.Res = f.Res[:2] })
	add("self-flow-reference", func(f *FlowCfg, cf *Config) { f.Req = append(f.Req, p2f("b", "miss", "A")) })
	add("self-flow-reference-from", func(f *FlowCfg, cf *Config) { f.Req[0] = f2p("A", "a") })
	add("self-flow-reference-response", func(f *FlowCfg, cf *Config) { f.Res = append(f.Res, p2f("t", "miss", "A")) })
	// two files with the same flow name
	{
		f1 := goodFlow("A", mainURL, "")
		f2 := goodFlow("A", mainURL, "x")
		out = append(out, Item{Label: "variant:duplicate-flow-name", Config: Config{Flows: []FlowCfg{f1, f2}}})
	}
	return out
}

// ---------------------------------------------------------------- family: status filters x early responses

// A flow whose filter carries a `status_code` list next to (or being) a flow
// that answers requests itself, on overlapping URLs: after the hand-over the
// transaction is looked up again as a response although no response exists.
// Every combination of: URL of the status flow (same / wildcard parent / "*"),
// status list, declaration order, who answers (the other flow, the status flow
// itself, both), plus a third unconstrained flow on the wildcard.
func statusEarlyItems(r *c.Rng) []Item {
	answering := func(name, url, pre string) FlowCfg {
		f1, g, t1 := pre+"f", pre+"g", pre+"t"
		return FlowCfg{Name: name, URL: url, Procs: []Proc{filt(f1), gen1(g), filt(t1)},
			Req: []Conn{s2p(f1), p2p(f1, "hit", g), p2s(f1, "miss")},
			Res: []Conn{p2p(g, "", t1), p2s(t1, "hit")}}
	}
	plain := func(name, url, pre string) FlowCfg {
		b1, b2 := pre+"1", pre+"2"
		return FlowCfg{Name: name, URL: url, Procs: []Proc{filt(b1), filt(b2)},
			Req: []Conn{s2p(b1), p2s(b1, "hit")},
			Res: []Conn{s2p(b2), p2s(b2, "hit")}}
	}
	urls := []string{mainURL, "c05.test/*", "\"*\""}
	lists := [][]int{{200}, {429}, {200, 404}, {500}}
	var out []Item
	add := func(label string, flows ...FlowCfg) {
		cf := Config{Flows: flows}
		txns := txnsFor(r.Fork(uint64(len(out))+500), &cf, 16)
		for _, st := range []int{404, 429} {
			txns = append(txns, Txn{Dir: "res", URL: mainURL, Status: st, Headers: h(filterHeaders(&cf)...)})
		}
		out = append(out, Item{Label: "status-early:" + label, Config: cf, Txns: txns})
	}
	for ui, u := range urls {
		for li, l := range lists {
			a := answering("A", mainURL, "a")
			b := plain("B", u, "b")
			b.Status = l
			add(fmt.Sprintf("other-answers-%d-%d", ui, li), a, b)
			add(fmt.Sprintf("other-answers-declared-later-%d-%d", ui, li), b, a)
			// the status flow answers as well
			b2 := answering("B", u, "b")
			b2.Status = l
			add(fmt.Sprintf("both-answer-%d-%d", ui, li), a, b2)
			// a third, unconstrained flow on the wildcard
			add(fmt.Sprintf("three-flows-%d-%d", ui, li), a, b, plain("C", "c05.test/*", "c"))
		}
	}
	// the other fields of a filter next to an answering flow (and on it)
	extras := []string{
		"  expressions: [\"$.response.status\"]\n",
		"  expressions: [\"$.response.body.a\", \"$.response.headers.x-a\"]\n",
		"  expressions: [\"$.request.body.a\"]\n",
		"  expressions: [\"$.request.headers.x-af\", \"$.response.status\"]\n",
		"  method: [GET]\n",
		"  method: [POST]\n",
		"  headers:\n    - key: x-af\n      value: \"1\"\n",
		"  query_params:\n    - key: q\n      value: 1\n",
		"  sample_percentage: 100\n", // (anything below 100 makes the selection random)
		"  status_code: [200]\n  method: [GET]\n  headers:\n    - key: x-af\n      value: \"1\"\n",
	}
	for ei, ex := range extras {
		a := answering("A", mainURL, "a")
		b := plain("B", mainURL, "b")
		b.FilterExtra = ex
		add(fmt.Sprintf("other-answers-filter-%d", ei), a, b)
		a2 := answering("A", mainURL, "a")
		a2.FilterExtra = ex
		add(fmt.Sprintf("answering-flow-has-filter-%d", ei), a2, plain("B", "c05.test/*", "b"))
	}
	for li, l := range lists {
		a := answering("A", mainURL, "a")
		a.Status = l
		add(fmt.Sprintf("answering-flow-has-status-%d", li), a)
		add(fmt.Sprintf("answering-flow-has-status-and-neighbour-%d", li), a, plain("B", mainURL, "b"))
	}
	return out
}

// ---------------------------------------------------------------- family: flow references

// nFlows flows X_i = entry x_i1 -hit-> x_i2; reference edges (i,j) chosen by the
// bit mask: kind 0 `x_i2 -miss-> flow X_j at start` (request), kind 1 the same
// in the response direction, kind 2 `from flow X_j at end -> x_i1` (request,
// replaces the stream entry of X_i).
func refShapes(nFlows int, kind int, sample func(i int) bool) []Config {
	var out []Config
	n := nFlows * nFlows
	idx := 0
	for m := 0; m < 1<<n; m++ {
		idx++
		if sample != nil && !sample(idx) {
			continue
		}
		var cf Config
		for i := 0; i < nFlows; i++ {
			name := string(rune('A' + i))
			p := strings.ToLower(name)
			x1, x2, x3 := p+"1", p+"2", p+"3"
			url := mainURL
			if i > 0 {
				url = fmt.Sprintf("c05.test/%s", p)
			}
			f := FlowCfg{Name: name, URL: url, Procs: []Proc{filt(x1), filt(x2), filt(x3)},
				Req: []Conn{s2p(x1), p2p(x1, "hit", x2), p2s(x2, "hit")},
				Res: []Conn{s2p(x3), p2s(x3, "hit")}}
			for j := 0; j < nFlows; j++ {
				if m>>(i*nFlows+j)&1 == 0 {
					continue
				}
				to := string(rune('A' + j))
				switch kind {
				case 0:
					f.Req = append(f.Req, p2f(x2, "miss", to))
				case 1:
					f.Res = append(f.Res, p2f(x3, "miss", to))
				case 2:
					f.Req[0] = f2p(to, x1)
				}
			}
			cf.Flows = append(cf.Flows, f)
		}
		out = append(out, cf)
	}
	return out
}

// ---------------------------------------------------------------- family: random

type rgen struct {
	r *c.Rng
}

// randomFlow draws connection lists from the whole vocabulary: mostly sensible
// connections between the flow's processors, sometimes defects.
func (g *rgen) flow(name, url string, others []string, nproc int, defects bool) FlowCfg {
	r := g.r
	pre := strings.ToLower(name)
	f := FlowCfg{Name: name, URL: url}
	var filters []string
	for i := 0; i < nproc; i++ {
		k := fmt.Sprintf("%s%d", pre, i)
		f.Procs = append(f.Procs, filt(k))
		filters = append(filters, k)
	}
	gk := pre + "g"
	f.Procs = append(f.Procs, gen1(gk))
	pickF := func() string { return c.Pick(r, filters) }
	cond := func() string {
		if r.Chance(3, 4) {
			return "hit"
		}
		return "miss"
	}
	dir := func(isReq bool) []Conn {
		var cs []Conn
		if isReq || r.Chance(2, 3) {
			cs = append(cs, s2p(filters[0]))
		}
		ne := r.Range(1, 2*nproc)
		for e := 0; e < ne; e++ {
			from := pickF()
			switch x := r.Intn(20); {
			case x < 9: // forward-ish processor connection
				cs = append(cs, p2p(from, cond(), pickF()))
			case x < 13:
				cs = append(cs, p2s(from, cond()))
			case x < 15:
				cs = append(cs, p2p(from, cond(), gk))
			case x < 16 && !isReq:
				cs = append(cs, p2p(gk, "", pickF()))
			case x < 17 && !isReq:
				cs = append(cs, p2s(gk, ""))
			case x < 18 && len(others) > 0:
				if isReq && r.Bool() {
					cs = append(cs, f2p(c.Pick(r, others), from))
				} else {
					cs = append(cs, p2f(from, cond(), c.Pick(r, others)))
				}
			case x < 19 && len(others) > 0:
				o := c.Pick(r, others)
				cs = append(cs, p2p(from, cond(), o+"."+strings.ToLower(o)+"0"))
			default:
				if defects {
					switch r.Intn(6) {
					case 0:
						cs = append(cs, p2p(from, "bogus", pickF()))
					case 1:
						cs = append(cs, p2p(from, cond(), "nosuch"))
					case 2:
						cs = append(cs, s2p(pickF()))
					case 3:
						cs = append(cs, Conn{End{Stream: &StreamRef{"end"}}, End{Proc: &ProcRef{Name: from}}})
					case 4:
						cs = append(cs, s2s())
					case 5:
						cs = append(cs, p2f(from, cond(), "Z"))
					}
				} else {
					cs = append(cs, p2s(from, cond()))
				}
			}
		}
		// make acyclic most of the time: keep only forward processor connections
		if r.Chance(3, 5) {
			var keep []Conn
			for _, cn := range cs {
				if cn.From.Proc != nil && cn.To.Proc != nil && !strings.Contains(cn.To.Proc.Name, ".") &&
					cn.From.Proc.Name != gk && cn.To.Proc.Name != gk && cn.To.Proc.Name <= cn.From.Proc.Name {
					continue
				}
				keep = append(keep, cn)
			}
			cs = keep
		}
		if len(cs) == 0 {
			cs = append(cs, s2s())
		}
		if r.Chance(1, 4) {
			r2 := r
			for i := len(cs) - 1; i > 0; i-- {
				j := r2.Intn(i + 1)
				cs[i], cs[j] = cs[j], cs[i]
			}
		}
		return cs
	}
	f.Req = dir(true)
	f.Res = dir(false)
	return f
}

func (g *rgen) config(nprocMax int) Config {
	r := g.r
	nf := 1
	if r.Chance(2, 5) {
		nf = r.Range(2, 3)
	}
	names := []string{"A", "B", "C"}[:nf]
	var cf Config
	for i, n := range names {
		var others []string
		for j, o := range names {
			if j != i {
				others = append(others, o)
			}
		}
		if r.Chance(1, 6) {
			others = append(others, n) // self references now and then
		}
		url := mainURL
		if i > 0 && r.Bool() {
			url = "c05.test/" + strings.ToLower(n)
		}
		cf.Flows = append(cf.Flows, g.flow(n, url, others, r.Range(1, nprocMax), r.Chance(1, 4)))
		if r.Chance(1, 4) { // a status requirement on the flow's filter
			cf.Flows[i].Status = c.Pick(r, [][]int{{200}, {429}, {200, 404}})
		}
	}
	return cf
}

// ---------------------------------------------------------------- family: layered DAGs

// ladderConfig: a request direction of `depth` layers of two Filters, each
// connected to both Filters of the next layer - on "hit" only (sameCond: every
// path is followed when all hit; the cycle search, which keeps no set of
// finished processors, follows every path as well) or on "hit" to the one and
// "miss" to the other (a walk follows one path).  Acyclic, so accepted; the
// number of paths is 2^depth.
func ladderConfig(depth int, sameCond bool) Config {
	f := FlowCfg{Name: "A", URL: mainURL, Res: []Conn{s2s()}}
	name := func(l int, side string) string { return fmt.Sprintf("%s%d", side, l) }
	f.Procs = append(f.Procs, filt("r"))
	f.Req = append(f.Req, s2p("r"), p2p("r", "hit", name(0, "a")), p2p("r", "miss", name(0, "b")))
	for l := 0; l < depth; l++ {
		f.Procs = append(f.Procs, filt(name(l, "a")), filt(name(l, "b")))
		for _, side := range []string{"a", "b"} {
			if l+1 < depth {
				other := "miss"
				if sameCond {
					other = "hit"
				}
				f.Req = append(f.Req, p2p(name(l, side), "hit", name(l+1, "a")), p2p(name(l, side), other, name(l+1, "b")))
			} else {
				f.Req = append(f.Req, p2s(name(l, side), "hit"))
			}
		}
	}
	return Config{Flows: []FlowCfg{f}}
}
