// Header blocks the gateway cannot parse (strengthening round 9, seed C05-12).
//
// The other streams hand the engine a header MAP.  The gateway itself gets a
// header BLOCK (one string) from the proxy and parses it with
// utils.ParseHeaders (textproto.ReadMIMEHeader); a block that reader refuses - a
// line without a colon, a first line that starts with a space, a stray CR, a
// control byte, no final newline - is "continued without any headers".  Those
// transactions are sent here through the gateway's own SPOE entry
// (routing.processRequest / processResponse via the verif shims: SPOE message ->
// readRequestArgs / readResponseArgs -> utils.ParseHeaders -> runner.RunFlow ->
// getSPOEReqActions / getSPOERespActions -> EnsureRequestIsUpdated ...), against
// one accepted flow per processor of the zoo in which the processor runs whatever
// the headers are: on a request, on a response (with / without the captured
// request) and on the response path after an early response.
//
// Monitor (the existing monitorTxn): the call returns - actions or an error - and
// nothing panics, crashes or hangs.  Nothing is demanded about WHICH actions.
//
// Suite `hdrs` (C05/Headers.v): utils.ParseHeaders itself on every block of the
// stream; observed class 0 = nil map, 1 = empty map, 2 = map with entries; the
// model's scanner decides a small lexical class of refused blocks (first byte a
// space or tab; first line non-empty without a colon) and says "empty map".
package main

import (
	"encoding/hex"
	"fmt"
	"os"
	"path/filepath"
	"strings"
	"sync"
	"unicode/utf8"

	"github.com/negasus/haproxy-spoe-go/action"
	"github.com/negasus/haproxy-spoe-go/message"
	spoekv "github.com/negasus/haproxy-spoe-go/payload/kv"

	"lunar/engine/actions"
	"lunar/engine/metrics"
	"lunar/engine/routing"
	"lunar/engine/streams"
	"lunar/engine/utils"

	c "verifharness/common"
)

// ---------------------------------------------------------------- child side

var (
	spoeOnce sync.Once
	spoeMM   *metrics.MetricManager
	spoeSt   *streams.Stream
	spoeMgr  *routing.HandlingDataManager
)

// spoeManager: the routing manager serving the loaded stream (one per stream; the
// metric manager - as Setup() creates it - once per process)
func spoeManager(st *streams.Stream) *routing.HandlingDataManager {
	spoeOnce.Do(func() {
		if os.Getenv("LUNAR_PROXY_METRICS_CONFIG_DEFAULT") == "" {
			// the image's default metrics file; absent => the manager is inactive, which the gateway tolerates too
			os.Setenv("LUNAR_PROXY_METRICS_CONFIG_DEFAULT", filepath.Join(repoDir(), "proxy", "metrics.yaml"))
		}
		_, pan, _ := guarded(func() error {
			mm, _ := metrics.NewMetricManager()
			spoeMM = mm
			return nil
		})
		if pan || spoeMM == nil {
			spoeMM = &metrics.MetricManager{}
		}
	})
	if spoeSt != st || spoeMgr == nil {
		spoeSt = st
		spoeMgr = routing.VerifC05NewStreamsManager(st, spoeMM)
	}
	return spoeMgr
}

func spoeMessage(t *Txn, id string, req bool, full bool) *message.Message {
	method := t.Method
	if method == "" {
		method = "GET"
	}
	k := spoekv.NewKV()
	k.Add("id", id)
	k.Add("sequence_id", id)
	k.Add("method", method)
	name := "lunar-on-request"
	if req {
		k.Add("scheme", "https")
		k.Add("url", t.URL)
		k.Add("path", pathOf(t.URL))
		k.Add("query", t.Query)
		if full {
			name = "lunar-on-full-request"
		}
	} else {
		name = "lunar-on-response"
		if full {
			name = "lunar-on-full-response"
		}
		k.Add("url", t.URL)
		status := t.Status
		if status == 0 {
			status = 200
		}
		k.Add("status", int64(status))
	}
	k.Add("headers", string(fileBytes(t.RawHdr)))
	k.Add("body", []byte(t.Body))
	return &message.Message{Name: name, KV: k}
}

// runSpoeTxn: one transaction through routing.processRequest / processResponse.
func runSpoeTxn(st *streams.Stream, t *Txn, id string) TxnResult {
	empty := Selection{Start: []string{}, User: []string{}, End: []string{}}
	res := TxnResult{SelReq: empty, SelRes: empty}
	events := []Event{}
	var acts action.Actions
	err, pan, txt := guarded(func() error {
		mgr := spoeManager(st)
		evMu.Lock()
		evSink = &events
		evCount = 0
		evMu.Unlock()
		defer func() {
			evMu.Lock()
			evSink = nil
			evMu.Unlock()
		}()
		var e error
		if t.Dir == "req" {
			acts, e = routing.VerifC11ProcessRequest(spoeMessage(t, id, true, t.Full), mgr)
			return e
		}
		if t.StoredReq {
			// the full request of the same sequence first: processRequest captures it (StoreRequest)
			if _, e = routing.VerifC11ProcessRequest(spoeMessage(t, id, true, true), mgr); e != nil {
				_, _, _ = guarded(func() error { st.OnError(id); return nil })
			}
		}
		acts, e = routing.VerifC11ProcessResponse(spoeMessage(t, id, false, t.Full), mgr)
		return e
	})
	res.Events = events
	res.NEvents = evCount
	switch {
	case pan:
		res.Outcome = "panic"
		res.Text = txt
	case err != nil:
		res.Outcome = "error"
		res.Text = err.Error()
		_, _, _ = guarded(func() error { st.OnError(id); return nil })
	default:
		res.Outcome = "ok"
		res.NActions = len(acts)
		for _, a := range acts {
			if a.Name == actions.ReturnEarlyResponseActionName {
				res.Answered = true
			}
		}
	}
	return res
}

// ---------------------------------------------------------------- generator

// rawBlock: a header block as bytes; JSON-safe spelling for job / replay files
func rawBlock(b string) string {
	if utf8.ValidString(b) && !strings.HasPrefix(b, "hex:") {
		return b
	}
	return "hex:" + hex.EncodeToString([]byte(b))
}

// header blocks: named shapes.  "ok-*" are well-formed controls.
func headerBlocks() [][2]string {
	long := strings.Repeat("x", 3000)
	return [][2]string{
		{"ok-two", "Accept: */*\nUser-Agent: demo\n"},
		{"ok-crlf", "Accept: */*\r\nContent-Type: application/json\r\nX-K: k1\r\n"},
		{"ok-json-gzip", "Content-Type: application/json\nContent-Encoding: gzip\nX-K: k1\n"},
		{"ok-empty", ""},
		{"ok-continuation", "X-A: 1\n  continued\nX-B: 2\n"},
		{"no-colon-line", "Accept: */*\nthis line has no colon\n"},
		{"no-colon-first", "this line has no colon\nAccept: */*\n"},
		{"no-colon-only", "garbage"},
		{"no-colon-last", "X-K: k1\nContent-Type: application/json\nbroken"},
		{"leading-space", " leading-space: x\n"},
		{"leading-tab", "\tX-K: k1\nAccept: */*\n"},
		{"leading-space-only", " "},
		{"stray-cr-value", "X-K: k\r1\nAccept: */*\n"},
		{"stray-cr-name", "X\r-K: k1\n"},
		{"cr-only-lines", "X-K: k1\rAccept: */*\r"},
		{"empty-name", ": value\nX-K: k1\n"},
		{"empty-name-only", ":\n"},
		{"space-in-name", "X K: k1\n"},
		{"space-before-colon", "X-K : k1\n"},
		{"nul-in-value", "X-K: k\x001\n"},
		{"nul-in-name", "X\x00K: k1\n"},
		{"del-in-value", "X-K: k\x7f1\n"},
		{"non-ascii-name", "X-\xff\xfe: 1\n"},
		{"non-ascii-value", "X-K: \xff\xfe\n"},
		{"utf8-name", "X-é: 1\n"},
		{"no-final-newline", "X-K: k1"},
		{"no-final-newline-two", "X-K: k1\nAccept: */*"},
		{"blank-line-then-garbage", "X-K: k1\n\nthis is after the end\n"},
		{"only-newlines", "\n\n\n"},
		{"only-crlf", "\r\n"},
		{"colon-only-lines", ":::\n::\n"},
		{"json-instead", "{\"x-k\": \"k1\"}\n"},
		{"request-line-first", "GET /a HTTP/1.1\nHost: c05.test\n"},
		{"long-line-no-colon", long + "\n"},
		{"long-value", "X-K: " + long + "\n"},
		{"content-length-then-broken", "Content-Length: 12\nContent-Type: application/json\nbroken line\n"},
		{"gzip-then-broken", "Content-Encoding: gzip\nbroken line\n"},
		{"traceparent-then-broken", "traceparent: 00-0af7651916cd43dd8448eb211c80319c-b7ad6b7169203331-01\n broken\nnocolon\n"},
	}
}

// rawHdrFlow: `p` runs whatever the headers are.  Request: s (Filter on method
// POST) hands a POST to g (GenerateResponse: early response, the continuation
// goes to p on the response side) and anything else to p.  Response: p.
func rawHdrFlow(zp *zooProc) string {
	f := FlowCfg{Name: "H", URL: zooURL,
		Procs: []Proc{{Key: "s", Type: tFilter, Raw: kv("method", "POST")}, {Key: "g", Type: tGen, Params: []string{"status"}},
			{Key: "p", Type: zp.Type, Raw: zp.Params, Metrics: zp.Metrics}},
		Req: []Conn{s2p("s"), p2p("s", "hit", "g"), p2p("s", "miss", "p")},
		Res: []Conn{s2p("p"), p2p("g", "", "p")}}
	for _, cd := range zp.ReqConds {
		f.Req = append(f.Req, p2s("p", cd))
	}
	for _, cd := range zp.ResConds {
		f.Res = append(f.Res, p2s("p", cd))
	}
	return f.YAML()
}

// rawHdrChain: several mutating processors in a row (the prioritised action is
// then a Modify* action combined from several)
func rawHdrChain() string {
	tr := kv("set", "{\"$.request.headers['x-new']\": \"1\", \"$.request.body.added\": \"v\", \"$.response.headers['x-new']\": \"2\"}",
		"delete", "[\"$.request.headers['x-del']\"]")
	cs := "      - key: script_text\n        value: |\n          request.headers[\"x-script\"] = \"1\";\n" +
		"          if (typeof response !== \"undefined\" && response) { response.headers[\"x-script\"] = \"2\"; }\n"
	f := FlowCfg{Name: "H", URL: zooURL,
		Procs: []Proc{{Key: "t", Type: "TransformAPICall", Raw: tr}, {Key: "d", Type: "DataSanitation"},
			{Key: "u", Type: "UserDefinedTraces", Raw: kv("trace_exporter_id", "t1")}, {Key: "cs", Type: "CustomScript", Raw: cs},
			{Key: "t2", Type: "TransformAPICall", Raw: tr}},
		Req: []Conn{s2p("t"), p2p("t", "", "d"), p2p("d", "", "u"), p2p("u", "", "cs"), p2s("cs", "success"), p2s("cs", "failure")},
		Res: []Conn{s2p("t2"), p2p("t2", "", "cs"), p2s("cs", "success"), p2s("cs", "failure")}}
	return f.YAML()
}

type hdrItem struct {
	RawItem
	Blocks []string // name of the block of each transaction
}

func rawHdrItems(r *c.Rng, nRandom int) []hdrItem {
	goodBody := `{"a": 7, "b": "secret", "email": "jo@example.com", "card": "4111 1111 1111 1111"}`
	blocks := headerBlocks()
	pieces := []string{"X-K: k1", "Accept: */*", "nocolon", " lead: 1", "\tlead", ": v", "X-K: k\r1", "", "Content-Type: application/json",
		"Content-Length: 5", "x y: 1", "X-\x01: 1", "traceparent: garbage", "X-Del: 1"}
	seps := []string{"\n", "\r\n", "\r"}
	randomBlock := func(rr *c.Rng) string {
		var sb strings.Builder
		for i, n := 0, 1+rr.Intn(4); i < n; i++ {
			sb.WriteString(c.Pick(rr, pieces))
			if i+1 < n || rr.Chance(2, 3) {
				sb.WriteString(c.Pick(rr, seps))
			}
		}
		return sb.String()
	}
	mk := func(label string, files map[string]string, zp *zooProc) hdrItem {
		it := hdrItem{RawItem: RawItem{Kind: "rawhdr", Label: label, Flows: files, Quotas: map[string]string{}}}
		if zp != nil {
			it.RealClock = zp.RealClock
			if zp.Quota {
				it.Quotas["q.yaml"] = zooQuota(zp.QuotaKind)
			}
			if zp.Gateway {
				it.Gateway = zooGateway
			}
		}
		add := func(name, block string, sit int) {
			t := Txn{Spoe: true, RawHdr: rawBlock(block), URL: mainURL, Body: goodBody}
			switch sit {
			case 0: // p on the request
				t.Dir, t.Method = "req", "PUT"
			case 1: // answered early, p on the continuation
				t.Dir, t.Method = "req", "POST"
			case 2: // p on a response, request not captured
				t.Dir, t.Method, t.Status = "res", "PUT", 200
			case 3: // p on a full response after the full request was captured
				t.Dir, t.Method, t.Status, t.StoredReq, t.Full = "res", "PUT", 503, true, true
			case 4: // full request
				t.Dir, t.Method, t.Full = "req", "PUT", true
			}
			it.Txns = append(it.Txns, t)
			it.Blocks = append(it.Blocks, name)
		}
		slow := zp != nil && zp.RealClock
		mutating := zp == nil
		if zp != nil {
			switch zp.Type {
			case "TransformAPICall", "DataSanitation", "UserDefinedTraces", "CustomScript", tGen, "HARCollector", "ReadCache", "WriteCache", tMock:
				mutating = true
			}
		}
		for bi, b := range blocks {
			if slow && bi%6 != 0 && bi != 5 {
				continue // every execution waits on the real clock
			}
			for sit := 0; sit < 5; sit++ {
				if slow && sit > 2 {
					continue
				}
				// processors that only read the transaction: two of the five situations per block, in rotation
				if !mutating && !slow && sit != bi%5 && sit != (bi+2)%5 {
					continue
				}
				add(b[0], b[1], sit)
			}
		}
		rr := r.Fork(uint64(len(label))*131 + uint64(len(it.Txns)))
		n := nRandom
		if slow {
			n /= 6
		}
		for i := 0; i < n; i++ {
			sit := rr.Intn(5)
			if slow && sit == 3 {
				sit = 4 // F-C05n (below): once, not at random
			}
			add("random", randomBlock(rr), sit)
		}
		if zp != nil && zp.Type == "Queue" && zp.Variant == "small" {
			// known finding F-C05n: the request and then the response of one transaction through the same
			// Queue (same request id registered twice) blocks for ever; one such transaction, last
			add("ok-two", blocks[0][1], 3)
		}
		return it
	}
	var out []hdrItem
	for _, zp := range zooProcs() {
		zp := zp
		if zp.Offline != "" {
			continue
		}
		out = append(out, mk("rawhdr:"+zp.Type+":"+zp.Variant, map[string]string{"H.yaml": rawHdrFlow(&zp)}, &zp))
	}
	chain := mk("rawhdr:chain", map[string]string{"H.yaml": rawHdrChain()}, nil)
	chain.Gateway = zooGateway
	out = append(out, chain)
	return out
}

// ---------------------------------------------------------------- suite hdrs

// hdrClass: what utils.ParseHeaders (the function readRequestArgs / readResponseArgs
// call) returns for the block: 0 nil map, 1 empty map, 2 map with entries, 8 panic
func hdrClass(block string) int64 {
	cls := int64(8)
	_, _, _ = guarded(func() error {
		b := block
		m := utils.ParseHeaders(&b)
		switch {
		case m == nil:
			cls = 0
		case len(m) == 0:
			cls = 1
		default:
			cls = 2
		}
		return nil
	})
	return cls
}

// claimedRefused: the harness' own reading of the class the model's scanner decides
// (so that the claimed class cannot shrink silently): first byte a space or a tab,
// or a non-empty first line (up to LF, one trailing CR dropped) without a colon
func claimedRefused(b string) bool {
	if b == "" {
		return false
	}
	if b[0] == ' ' || b[0] == '\t' {
		return true
	}
	line := b
	if i := strings.IndexByte(b, '\n'); i >= 0 {
		line = b[:i]
	}
	line = strings.TrimSuffix(line, "\r")
	return line != "" && !strings.Contains(line, ":")
}

func recordHdrBlock(o *c.Out, name, block string, seen map[string]bool) {
	if seen[block] {
		return
	}
	seen[block] = true
	raw := string(fileBytes(block))
	cls := hdrClass(raw)
	claimed := claimedRefused(raw)
	k := Case{Kind: "hdrs", Label: "hdrs:" + name, HdrBlock: block, HdrClass: cls, HdrClaimed: claimed}
	idx := o.Case("hdrs", "(HdrCase "+c.Bytes(raw)+" "+c.B(claimed)+" "+c.Z(cls)+")", k, claimed)
	o.Count(fmt.Sprintf("hdrs:class=%d", cls))
	if claimed {
		o.Count("hdrs:claimed-refused")
	}
	o.MonitorChecked(1)
	if cls == 8 {
		o.Hit(c.Hit{Suite: "hdrs", Index: idx, Signature: "panic:utils.ParseHeaders", Demanded: "parsing a header block never panics",
			Observed: "utils.ParseHeaders panicked", Case: k})
	}
}

// runRawHdr: the transactions through the SPOE entry (monitor) + every block through suite hdrs
func runRawHdr(o *c.Out, items []hdrItem) {
	raws := make([]RawItem, len(items))
	for i := range items {
		raws[i] = items[i].RawItem
	}
	res := runRaw(o, raws)
	seen := map[string]bool{}
	for i := range items {
		r := res[i]
		if r == nil || !r.Accepted || r.EngineLoad != "ok" {
			o.Note("rawhdr: configuration not accepted / not loaded: " + items[i].Label + " " + r.LoadStatus + " " + r.RejectText + " " + r.EngineText)
			o.Count("rawhdr:config-not-run")
			continue
		}
		for ti := range items[i].Txns {
			t := &items[i].Txns[ti]
			o.Count("rawhdr:" + t.Dir + ":outcome=" + r.Txns[ti].Outcome)
			recordHdrBlock(o, items[i].Blocks[ti], t.RawHdr, seen)
		}
	}
}
