// Debugging aid (`c05 probe`): a few hand-written configurations, printed.
package main

import (
	"encoding/json"
	"fmt"
)

func jobOf(id int, cf *Config, txns []Txn) Job {
	j := Job{ID: id, Flows: map[string]string{}, Quotas: map[string]string{}, Txns: txns}
	for i := range cf.Flows {
		j.Flows[fmt.Sprintf("f%d_%s.yaml", i, cf.Flows[i].Name)] = cf.Flows[i].YAML()
	}
	if len(cf.Quotas) > 0 {
		j.Quotas["quotas.yaml"] = cf.QuotaYAML()
	}
	return j
}

func h(names ...string) map[string]string {
	m := map[string]string{}
	for _, n := range names {
		m[n] = "1"
	}
	return m
}

func probeConfigs() []Config {
	u := mainURL
	return []Config{
		// sane
		{Flows: []FlowCfg{{Name: "A", URL: u, Procs: []Proc{filt("f1"), gen1("g"), filt("t1")},
			Req: []Conn{s2p("f1"), p2p("f1", "hit", "g"), p2s("f1", "miss")},
			Res: []Conn{p2p("g", "", "t1"), p2s("t1", "hit")}}}},
		// F-C05a: response cycle behind the hand-over, rootless response
		{Flows: []FlowCfg{{Name: "A", URL: u, Procs: []Proc{filt("f1"), gen1("g"), filt("t1"), filt("t2")},
			Req: []Conn{s2p("f1"), p2p("f1", "hit", "g"), p2s("f1", "miss")},
			Res: []Conn{p2p("g", "", "t1"), p2p("t1", "hit", "t2"), p2p("t2", "hit", "t1")}}}},
		// F-C05a: rooted response, cycle off the root
		{Flows: []FlowCfg{{Name: "A", URL: u, Procs: []Proc{filt("f1"), gen1("g"), filt("t1"), filt("t2"), filt("w")},
			Req: []Conn{s2p("f1"), p2p("f1", "hit", "g"), p2s("f1", "miss")},
			Res: []Conn{s2p("w"), p2s("w", "hit"), p2p("g", "", "t1"), p2p("t1", "hit", "t2"), p2p("t2", "hit", "t1")}}}},
		// F-C05b: mutual flow references
		{Flows: []FlowCfg{
			{Name: "A", URL: u, Procs: []Proc{filt("f1")},
				Req: []Conn{s2p("f1"), p2f("f1", "hit", "B")}, Res: []Conn{s2s()}},
			{Name: "B", URL: "c05.test/b", Procs: []Proc{filt("f2")},
				Req: []Conn{s2p("f2"), p2f("f2", "hit", "A")}, Res: []Conn{s2s()}}}},
		// self reference
		{Flows: []FlowCfg{
			{Name: "A", URL: u, Procs: []Proc{filt("f1")},
				Req: []Conn{s2p("f1"), p2f("f1", "hit", "A")}, Res: []Conn{s2s()}}}},
	}
}

func probe() {
	var jobs []Job
	cfgs := probeConfigs()
	for i := range cfgs {
		jobs = append(jobs, jobOf(i, &cfgs[i], []Txn{
			{Dir: "req", URL: mainURL, Headers: h("x-f1", "x-t1", "x-t2", "x-w")},
			{Dir: "req", URL: mainURL, Headers: h()},
			{Dir: "res", URL: mainURL, Headers: h("x-t1", "x-t2", "x-w")},
		}))
	}
	res := runJobs(jobs)
	for i := range cfgs {
		b, _ := json.MarshalIndent(res[i], "", " ")
		fmt.Printf("== config %d\n%s\n", i, b)
	}
	fmt.Printf("spawns=%d deaths=%d\n", childSpawns, childDeaths)
}
