// Debugging aid (`c05 probe`): a few hand-written configurations, printed.
package main

import (
	"encoding/json"
	"fmt"
	"os"
	"strings"
	"time"

	c "verifharness/common"
)

func jobOf(id int, cf *Config, txns []Txn) Job {
	j := Job{ID: id, Flows: map[string]string{}, Quotas: map[string]string{}, Txns: txns}
	for i := range cf.Flows {
		j.Flows[fmt.Sprintf("f%d_%s.yaml", i, cf.Flows[i].Name)] = cf.Flows[i].YAML()
	}
	if len(cf.Quotas) > 0 {
		j.Quotas["quotas.yaml"] = cf.QuotaYAML()
	}
	return j
}

func h(names ...string) map[string]string {
	m := map[string]string{}
	for _, n := range names {
		m[n] = "1"
	}
	return m
}

func probeConfigs() []Config {
	u := mainURL
	return []Config{
		// sane
		{Flows: []FlowCfg{{Name: "A", URL: u, Procs: []Proc{filt("f1"), gen1("g"), filt("t1")},
			Req: []Conn{s2p("f1"), p2p("f1", "hit", "g"), p2s("f1", "miss")},
			Res: []Conn{p2p("g", "", "t1"), p2s("t1", "hit")}}}},
		// F-C05a: response cycle behind the hand-over, rootless response
		{Flows: []FlowCfg{{Name: "A", URL: u, Procs: []Proc{filt("f1"), gen1("g"), filt("t1"), filt("t2")},
			Req: []Conn{s2p("f1"), p2p("f1", "hit", "g"), p2s("f1", "miss")},
			Res: []Conn{p2p("g", "", "t1"), p2p("t1", "hit", "t2"), p2p("t2", "hit", "t1")}}}},
		// F-C05a: rooted response, cycle off the root
		{Flows: []FlowCfg{{Name: "A", URL: u, Procs: []Proc{filt("f1"), gen1("g"), filt("t1"), filt("t2"), filt("w")},
			Req: []Conn{s2p("f1"), p2p("f1", "hit", "g"), p2s("f1", "miss")},
			Res: []Conn{s2p("w"), p2s("w", "hit"), p2p("g", "", "t1"), p2p("t1", "hit", "t2"), p2p("t2", "hit", "t1")}}}},
		// F-C05b: mutual flow references
		{Flows: []FlowCfg{
			{Name: "A", URL: u, Procs: []Proc{filt("f1")},
				Req: []Conn{s2p("f1"), p2f("f1", "hit", "B")}, Res: []Conn{s2s()}},
			{Name: "B", URL: "c05.test/b", Procs: []Proc{filt("f2")},
				Req: []Conn{s2p("f2"), p2f("f2", "hit", "A")}, Res: []Conn{s2s()}}}},
		// self reference
		{Flows: []FlowCfg{
			{Name: "A", URL: u, Procs: []Proc{filt("f1")},
				Req: []Conn{s2p("f1"), p2f("f1", "hit", "A")}, Res: []Conn{s2s()}}}},
	}
}

// `c05 probe foreign`: the foreign-root family, one line per configuration
// (verdicts of the validator path and of the gateway path, executed processors)
func probeForeign() {
	items := foreignRootItems()
	var jobs []Job
	for i := range items {
		hs := filterHeaders(&items[i].Config)
		jobs = append(jobs, jobOf(i, &items[i].Config, []Txn{
			{Dir: "req", URL: mainURL, Headers: h(hs...)},
			{Dir: "res", URL: mainURL, Headers: h(hs...)},
		}))
		jobs[i].Repeat = items[i].Repeat
	}
	res := runJobs(jobs)
	for i := range items {
		r := res[i]
		line := fmt.Sprintf("%-60s %s %s | %s %s %s", items[i].Label, r.LoadStatus, r.RejectText, r.EngineLoad, r.EngineText, r.Runs)
		for _, t := range r.Txns {
			line += " || " + t.Outcome
			for _, e := range t.Events {
				line += fmt.Sprintf(" %s.%s/%s:%s", e.Flow, e.Key, e.Dir, e.Cond)
			}
		}
		fmt.Println(line)
	}
}

// `c05 probe ladder <n>...`: layered DAGs of the given depths, time of the validator
func probeLadder(args []string) {
	for _, a := range args {
		var n int
		fmt.Sscan(a, &n)
		cf := ladderConfig(n, true)
		t0 := time.Now()
		res := runJobs([]Job{jobOf(0, &cf, []Txn{{Dir: "req", URL: mainURL, Headers: h()}})})
		r := res[0]
		fmt.Printf("ladder depth %d: %s %s | %s | %v\n", n, r.LoadStatus, r.RejectText, r.EngineLoad, time.Since(t0))
	}
}

// `c05 probe docless [substring]`: the degenerate-file stream, one line per item
func probeDocless(filter string) {
	items := doclessItems(c.NewRng(1), 60)
	var sel []DocItem
	for _, it := range items {
		if filter == "" || strings.Contains(it.Label, filter) {
			sel = append(sel, it)
		}
	}
	jobs := make([]Job, len(sel))
	for i, it := range sel {
		jobs[i] = Job{ID: i, Flows: it.Flows, Quotas: it.Quotas, Txns: it.Txns, Gateway: it.Gateway,
			PathParams: it.PathParams, ProcDefs: it.ProcDefs, GatewayPresent: it.GatewayPresent}
	}
	res := runJobs(jobs)
	for i, it := range sel {
		r := res[i]
		line := fmt.Sprintf("%-55s %-16s %s | %s %s", it.Label, r.LoadStatus, r.RejectText, r.EngineLoad, r.EngineText)
		for _, t := range r.Txns {
			line += " || " + t.Outcome
			if t.Outcome != "ok" {
				line += "(" + t.Text + ")"
			}
		}
		fmt.Println(strings.ReplaceAll(line, "\n", " "))
	}
}

func probe() {
	if len(os.Args) > 2 && os.Args[2] == "docless" {
		f := ""
		if len(os.Args) > 3 {
			f = os.Args[3]
		}
		probeDocless(f)
		return
	}
	if len(os.Args) > 2 && os.Args[2] == "foreign" {
		probeForeign()
		return
	}
	if len(os.Args) > 3 && os.Args[2] == "ladder" {
		probeLadder(os.Args[3:])
		return
	}
	var jobs []Job
	cfgs := probeConfigs()
	for i := range cfgs {
		jobs = append(jobs, jobOf(i, &cfgs[i], []Txn{
			{Dir: "req", URL: mainURL, Headers: h("x-f1", "x-t1", "x-t2", "x-w")},
			{Dir: "req", URL: mainURL, Headers: h()},
			{Dir: "res", URL: mainURL, Headers: h("x-t1", "x-t2", "x-w")},
		}))
	}
	res := runJobs(jobs)
	for i := range cfgs {
		b, _ := json.MarshalIndent(res[i], "", " ")
		fmt.Printf("== config %d\n%s\n", i, b)
	}
	fmt.Printf("spawns=%d deaths=%d\n", childSpawns, childDeaths)
}
