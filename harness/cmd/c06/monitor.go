// Property monitor of C06: the property text restated over what the
// implementation did in one case (operations with their observations).
// Written independently of the Coq model.
package main

import (
	"fmt"

	c "verifharness/common"
)

// slackNs is the "scheduling slack" the monitor grants on top of the
// time-to-live: one period of the processor's processing loop
// (queueProcessor.getNextProcessTime: 100 ms), the only polling constant of the
// queue code.  The TTL watcher itself does not poll (it sets a timer for the
// earliest expiry), so what can legitimately delay a time-out is the loop
// holding the request during a pass; one loop period beyond the last instant the
// loop held it is granted.
const slackNs = int64(100_000_000)

type monReq struct {
	prio      int
	seq       int   // order in which requests entered the queue
	expire    int64 // entry instant of the call + ttl
	waiting   bool  // entered the queue, Execute has not returned
	returned  bool
	admitted  bool // the quota answered "admit" to a question about this request
	reasked   bool // was asked about, refused, and put back
	heldBack  bool // returned while removals from the watch list were held back
	lateEntry bool // entered the queue after the drain
	created   bool
	createdAt int64
	entered   int64 // instant at which it entered the queue (registration)
	lastHeld  int64 // last instant at which the processing loop held it (-1: never)
}

func prioOf(cfg *Cfg, g int) int {
	if !cfg.Header {
		return 0
	}
	if g < 0 || g >= len(cfg.Groups) {
		return 999
	}
	return cfg.Groups[g]
}

func monitor(k *Case) []c.Hit {
	var hits []c.Hit
	add := func(sig, dem, obs string) {
		hits = append(hits, c.Hit{Signature: sig, Demanded: dem, Observed: obs, Case: k})
	}
	cfg := &k.Cfg
	ttl := int64(cfg.TTLSec) * 1_000_000_000
	maxWait := cfg.Max
	if maxWait < 0 {
		maxWait = 0
	}
	reqs := map[int]*monReq{}
	var now int64
	seq := 0
	gateOpen := true
	drained := false
	asking := 0 // request the loop currently holds (quota question open or answered, not yet signalled)
	// suite "sched": was the TTL watcher given the chance to run?  The clock of a
	// case moves only at "advance"; a step is FAIR when it does not pass the
	// watcher's timer (nextExpireAt as observed after the previous operation)
	// and, when the timer is already due, when a wake/scan operation ran at this
	// instant and the step is at most slack/2.  unfairAt = the instant the last
	// unfair step ended: the watcher was kept from running until then.
	timer := ttl // NewRequestsWatcher: creation + TTL
	timerKnown := k.Sched
	wokeAt := int64(-1)
	unfairAt := int64(-1)
	held := func() {
		if m := reqs[asking]; asking != 0 && m != nil {
			m.lastHeld = now
		}
	}
	countWaiting := func() int {
		n := 0
		for _, r := range reqs {
			if r.waiting {
				n++
			}
		}
		return n
	}
	// skip = the request the loop has just signalled (it stopped waiting before the next one was taken)
	selected := func(i int, r int, skip int) {
		m := reqs[r]
		if m == nil || !m.waiting {
			add("quota-asked-for-non-waiting", "only waiting requests are considered for admission",
				fmt.Sprintf("op %d: quota asked about r%d which is not waiting", i, r))
			return
		}
		for n2, m2 := range reqs {
			if n2 == r || n2 == skip || !m2.waiting {
				continue
			}
			if m2.prio < m.prio {
				add("order:priority-inverted", "a lower priority number is admitted before a higher one",
					fmt.Sprintf("op %d: r%d (priority %d) considered while r%d (priority %d) waits", i, r, m.prio, n2, m2.prio))
			} else if m2.prio == m.prio && m2.seq < m.seq {
				sig := "fifo-lost:other"
				if m2.reasked {
					sig = "fifo-lost:reenqueue"
				}
				add(sig, "within one priority earlier arrivals are admitted before later ones",
					fmt.Sprintf("op %d: r%d (arrival #%d) considered while r%d (arrival #%d, same priority %d) waits",
						i, r, m.seq, n2, m2.seq, m.prio))
			}
		}
	}
	for i := range k.Ops {
		op := &k.Ops[i]
		o := &op.Obs
		prevAsking := asking
		held()
		switch op.K {
		case OpArrive, OpCheck:
			reqs[op.R] = &monReq{prio: prioOf(cfg, op.G), created: true, createdAt: now, expire: now + ttl, lastHeld: -1}
		case OpAdvance:
			if op.D > 0 && !drained {
				fair := timerKnown
				if timer > now {
					fair = fair && now+op.D <= timer
				} else {
					fair = fair && wokeAt == now && op.D <= slackNs/2
				}
				if !fair {
					unfairAt = now + op.D
				}
			}
			now += op.D
		case OpWake, OpScan:
			wokeAt = now
		case OpGate:
			gateOpen = op.B
			if gateOpen {
				for _, m := range reqs {
					m.heldBack = false
				}
			}
		}
		if (op.K == OpArrive || op.K == OpEnter) && !o.Rejected {
			if m := reqs[op.R]; m != nil {
				m.waiting = true
				m.entered = now
				m.seq = seq
				m.lateEntry = drained
				seq++
			}
			if n := countWaiting(); n > maxWait {
				add("bound-exceeded:slot-check", fmt.Sprintf("at most queue_size = %d requests wait", maxWait),
					fmt.Sprintf("op %d: %d requests wait after r%d was queued", i, n, op.R))
			}
		}
		if o.Panic {
			sig := "panic:" + op.K
			if op.K == OpDrain {
				sig = "drain-panic:other"
				for _, m := range reqs {
					if m.heldBack {
						sig = "drain-panic:processed-in-watchlist"
					}
				}
			}
			add(sig, "no crash (shutdown releases all waiters without crashing)", fmt.Sprintf("op %d (%s) panicked", i, op.K))
		}
		if len(o.Stranded) > 0 {
			add("stranded-waiter", "a request marked processed releases its waiter",
				fmt.Sprintf("op %d: waiters of %v did not return", i, o.Stranded))
		}
		// quota questions
		switch op.K {
		case OpTick, OpAnswer, OpSignal:
			if op.K == OpAnswer && prevAsking != 0 {
				if m := reqs[prevAsking]; m != nil {
					if op.B {
						m.admitted = true
					} else {
						m.reasked = true
					}
				}
			}
			newQuestion := o.Asking != 0 && (op.K == OpTick || op.K == OpSignal || (op.K == OpAnswer && !op.B))
			if op.K == OpAnswer && op.B {
				// admitting answer: the loop still holds the request until it has signalled
				asking = prevAsking
			} else {
				asking = o.Asking
			}
			if newQuestion {
				skip := 0
				if op.K == OpSignal {
					skip = prevAsking
				}
				selected(i, o.Asking, skip)
			}
		}
		// verdicts
		back := map[int]bool{}
		for _, v := range o.Returned {
			back[v.R] = true
			m := reqs[v.R]
			if m == nil || !m.waiting || m.returned {
				add("verdict-twice", "exactly one verdict per request", fmt.Sprintf("op %d: verdict for r%d which is not waiting", i, v.R))
				continue
			}
			if v.Allowed && !m.admitted {
				add("allowed-without-quota", "a request is allowed only when the attached quota admits it",
					fmt.Sprintf("op %d: r%d allowed, the quota never admitted it", i, v.R))
			}
			if !v.Allowed && !(drained || op.K == OpDrain) && now < m.expire {
				add("early-timeout", "a waiting request is rejected only at its time-to-live or at shutdown",
					fmt.Sprintf("op %d: r%d rejected at %d ns, expires at %d ns", i, v.R, now, m.expire))
			}
			// no later than the time-to-live plus scheduling slack: counted from the
			// instant the request entered the queue; the loop holding the request, and
			// a watcher that was not given the chance to run, postpone the deadline
			if k.Sched && !(drained || op.K == OpDrain) {
				base, why := m.entered+ttl, "entry + TTL"
				if m.lastHeld > base {
					base, why = m.lastHeld, "the last instant the loop held it"
				}
				if unfairAt > base {
					base, why = unfairAt, "the first instant the watcher could run again"
				}
				if now > base+slackNs {
					add("ttl-late:watcher-timer", "a verdict no later than the time-to-live plus scheduling slack (one 100 ms loop period)",
						fmt.Sprintf("op %d: r%d entered the queue at %d ns (TTL %d ns) and got its verdict at %d ns, %d ns after %s, although the "+
							"watcher was given the chance to run whenever its timer was due (timer after the previous operation: %d ns)",
							i, v.R, m.entered, ttl, now, now-base, why, timer))
				}
			}
			m.waiting, m.returned = false, true
			m.heldBack = !gateOpen
		}
		held()
		if o.Nea != nil {
			timer = *o.Nea
		} else {
			timerKnown = false
		}
		if op.K == OpScan {
			for n, m := range reqs {
				if m.waiting && now > m.expire && n != asking {
					add("ttl-missed:scan", "a verdict no later than the time-to-live (relative to the watcher's scan)",
						fmt.Sprintf("op %d: r%d still waits after a scan at %d ns, expired at %d ns", i, n, now, m.expire))
				}
			}
		}
		if op.K == OpDrain {
			drained = true
			if !o.Panic {
				for n, m := range reqs {
					if m.waiting {
						add("drain-strands-waiter", "shutdown releases all waiters", fmt.Sprintf("op %d: r%d still waits after the drain", i, n))
					}
				}
			}
		}
	}
	for n, m := range reqs {
		if m.waiting && m.lateEntry {
			add("no-verdict:registered-after-drain", "every request gets a verdict; shutdown releases all waiters",
				fmt.Sprintf("r%d was queued after the drain (loop and TTL watcher are gone) and still waits at the end of the case", n))
		} else if m.waiting {
			add("no-verdict", "every request gets a verdict", fmt.Sprintf("r%d still waits at the end of the case (after expiry + scan)", n))
		}
	}
	return hits
}
