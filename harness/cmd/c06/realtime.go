// Real-time run of the TTL watcher's own goroutine (property C06).
package main

import (
	"context"
	"fmt"
	"time"

	context_manager "lunar/toolkit-core/context-manager"

	c "verifharness/common"
)

// ---------------------------------------------------------------- the watcher's own goroutine, in real time

// realtimeWatcher lets the REAL manageTTLs goroutine run (real clock, real
// timer, live context) through the schedule of seed C06-7 with a TTL of one
// second: the loop (under the harness) takes the request 100 ms before its
// expiry and sits in the quota call until 50 ms after it; the quota refuses.
// The watcher woke at the expiry, could not signal the request, and has to come
// back for it: the verdict is due within the slack (100 ms) of the instant the
// loop let go.  Real time is not deterministic: 600 ms of jitter are granted on
// top, and a late run is repeated up to three times; only four late runs in a row
// are reported (the skipped-entry defect is ~950 ms late every time).
// Monitor only (no model, no replayable input: the hit carries the timings).
func realtimeWatcher(o *c.Out) {
	const jitter = 600 * time.Millisecond
	var runs []map[string]any
	for attempt := 0; attempt < 4; attempt++ {
		after, verdict, ok := realtimeOnce()
		runs = append(runs, map[string]any{"verdict_after_release_ms": after.Milliseconds(), "verdict": verdict, "completed": ok})
		if ok && verdict == "blocked" && after <= time.Duration(slackNs)+jitter {
			o.MonitorChecked(1)
			o.Count("realtime-watcher=in-time")
			return
		}
	}
	o.MonitorChecked(1)
	o.Hit(c.Hit{Suite: "sched", Index: -1, Signature: "ttl-late:watcher-goroutine",
		Demanded: "a verdict no later than the time-to-live plus scheduling slack (one 100 ms loop period), with the watcher's own goroutine running in real time",
		Observed: fmt.Sprintf("TTL 1 s; the loop held the request from 0.9 s to 1.05 s after its arrival and the quota refused; verdict after the release (four runs): %v (allowed: %v + %v jitter)",
			runs, time.Duration(slackNs), jitter),
		Case: Case{Name: "realtime: arrive; +900ms tick; +150ms answer false; wait", Realtime: true,
			Cfg: Cfg{Max: 1, SMax: -1, TTLSec: 1}, Runs: runs}})
}

func realtimeOnce() (afterRelease time.Duration, verdict string, ok bool) {
	cm := context_manager.Get()
	ctx, cancel := context.WithCancel(context.Background())
	cm.WithContext(ctx)
	w := newWorldOpt(Cfg{Max: 1, SMax: -1, TTLSec: 1}, false, true)
	defer func() {
		cancel()
		waitGone(watcherGoroutine)
		cm.WithContext(deadCtx)
		w.close()
	}()
	start := time.Now()
	arrive := Op{K: OpArrive, R: 1, G: -1}
	if !w.exec(&arrive) || arrive.Obs.Rejected {
		return 0, "rejected", false
	}
	r := w.reqs[1]
	time.Sleep(time.Until(start.Add(900 * time.Millisecond)))
	tick := Op{K: OpTick}
	if !w.exec(&tick) || tick.Obs.Asking != 1 {
		return 0, "not-taken-by-the-loop", false
	}
	time.Sleep(time.Until(start.Add(1050 * time.Millisecond)))
	release := time.Now()
	answer := Op{K: OpAnswer, B: false}
	w.exec(&answer)
	verdict = "none"
	if r.back {
		for _, v := range answer.Obs.Returned {
			if v.R == 1 {
				verdict = map[bool]string{true: "allowed", false: "blocked"}[v.Allowed]
			}
		}
	} else {
		select {
		case res := <-r.done:
			r.back = true
			verdict = map[bool]string{true: "allowed", false: "blocked"}[res.allowed]
			select {
			case <-w.removed:
			case <-time.After(waitLimit):
			}
		case <-time.After(4 * time.Second):
			return 4 * time.Second, "none", true
		}
	}
	return time.Since(release), verdict, true
}
