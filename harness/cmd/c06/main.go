// C06 harness: drives the real flows-mode queue processor
// (streams/processors/queue + lunar-context/shared_queue.go) through chosen
// schedules of its atomic steps; observable = immediate rejections, the request
// the processing loop asks the quota about (order of admissions), verdicts,
// panics.  See exec.go for how a schedule is forced, monitor.go for the
// property monitor.
package main

import (
	"fmt"
	"strings"
	"time"

	"github.com/rs/zerolog"

	lunar_context "lunar/engine/streams/lunar-context"

	c "verifharness/common"
)

const sec = int64(1_000_000_000)

// ---------------------------------------------------------------- Coq rendering

func coqOp(op *Op, sched bool) string {
	g := "None"
	if op.G >= 0 {
		g = c.Some(c.Z(int64(op.G)))
	}
	var t string
	switch op.K {
	case OpArrive:
		t = fmt.Sprintf("HArrive %s %s", c.Z(int64(op.R)), g)
	case OpCheck:
		t = fmt.Sprintf("HCheck %s %s", c.Z(int64(op.R)), g)
	case OpEnter:
		t = "HEnter " + c.Z(int64(op.R))
	case OpTick:
		t = "HTick"
	case OpAnswer:
		t = "HAnswer " + c.B(op.B)
	case OpSignal:
		t = "HSignal"
	case OpScan:
		t = "HScan"
	case OpAdvance:
		t = "HAdvance " + c.Z(op.D)
	case OpGate:
		t = "HGate " + c.B(op.B)
	case OpDrain:
		t = "HDrain"
	}
	o := &op.Obs
	obs := c.Tuple(c.B(o.Rejected), c.Z(int64(o.Asking)), c.B(o.Panic || len(o.Stranded) > 0),
		c.MapList(o.Returned, func(v Verdict) string { return c.Tuple(c.Z(int64(v.R)), c.B(v.Allowed)) }))
	if sched {
		if op.K == OpWake {
			t = "SWake"
		} else {
			t = "SOp (" + t + ")"
		}
		nea := int64(-1)
		if o.Nea != nil {
			nea = *o.Nea
		}
		obs = c.Tuple(obs, c.Z(nea))
	}
	return c.Tuple(t, obs)
}

func coqCase(k *Case) string {
	g := make([]int64, len(k.Cfg.Groups))
	for i, p := range k.Cfg.Groups {
		g[i] = int64(p)
	}
	cfg := c.Tuple(c.Z(int64(k.Cfg.Max)), c.Z(int64(k.Cfg.SMax)), c.Z(int64(k.Cfg.TTLSec)*sec), c.B(k.Cfg.Header), c.ZList(g))
	ops := make([]string, len(k.Ops))
	for i := range k.Ops {
		ops[i] = coqOp(&k.Ops[i], k.Sched)
	}
	return c.Tuple(cfg, c.List(ops))
}

// ---------------------------------------------------------------- running a case

// session = a world plus the list of operations actually executed.
type session struct {
	w      *world
	k      Case
	ng     int   // next fresh request number
	now    int64 // clock, ns since the processor was created
	wokeAt int64 // instant of the last wake / scan operation (-1: none)
}

func newSession(cfg Cfg, hooked bool, name string) *session {
	return &session{w: newWorld(cfg, hooked), k: Case{Name: name, Hooked: hooked, Cfg: cfg}, ng: 1, wokeAt: -1}
}

// newSchedSession: a case of the suite "sched" (needs the yield points and the
// timer shim; the caller checks both).
func newSchedSession(cfg Cfg, name string) *session {
	s := newSession(cfg, true, name)
	s.w.sched = true
	s.k.Sched = true
	return s
}

func (s *session) do(op Op) *Obs {
	if !s.w.exec(&op) {
		return nil
	}
	switch op.K {
	case OpAdvance:
		s.now += op.D
	case OpWake, OpScan:
		s.wokeAt = s.now
	}
	s.k.Ops = append(s.k.Ops, op)
	return &s.k.Ops[len(s.k.Ops)-1].Obs
}

// spin = how far the clock may move between two runs of a watcher whose timer
// is due (it re-arms with a zero wait): half of the slack the monitor allows.
const spin = slackNs / 2

// fairAdvance moves the clock forward by d (or less, when that takes too many
// steps) the way time passes under a watcher that wakes whenever its timer is
// due: the clock never passes nextExpireAt without a wake operation at that
// instant, and while the timer stays due a wake follows every step of at most
// spin.  Only for cases of the suite "sched".
func (s *session) fairAdvance(d int64) {
	w := s.w
	for steps := 0; d > 0 && steps < 12; steps++ {
		if w.drained { // the watcher has left
			s.do(Op{K: OpAdvance, D: d})
			return
		}
		nea, _ := w.nea()
		if nea <= s.now && s.wokeAt != s.now {
			s.do(Op{K: OpWake})
			continue
		}
		step := d
		if nea > s.now {
			if nea-s.now < step {
				step = nea - s.now
			}
		} else if spin < step {
			step = spin
		}
		s.do(Op{K: OpAdvance, D: step})
		d -= step
		if nea, _ = w.nea(); nea <= s.now {
			s.do(Op{K: OpWake})
		}
	}
}

// finishSched brings a case of the suite "sched" to rest: the loop is ended,
// parked arrivals proceed, removals are released, and then time passes under a
// fair watcher (to its timer, wake, ...) until nobody waits any more.
func (s *session) finishSched() Case {
	w := s.w
	for w.ticking {
		if w.atSignal {
			s.do(Op{K: OpSignal})
		} else {
			s.do(Op{K: OpAnswer, B: false})
		}
	}
	for _, n := range append([]int(nil), w.order...) {
		if w.reqs[n].parked {
			s.do(Op{K: OpEnter, R: n})
		}
	}
	s.do(Op{K: OpGate, B: true})
	for round := 0; round < 10 && w.waiting() > 0 && !w.drained; round++ {
		d := int64(1)
		if nea, _ := w.nea(); nea > s.now {
			d = nea - s.now
		}
		s.fairAdvance(d)
	}
	w.close()
	return s.k
}

// finish appends the tail that brings every case to rest: the loop is ended,
// parked arrivals proceed, removals are released, every request expires and a
// scan runs.  All of it is part of the case (the model executes it too).
func (s *session) finish() Case {
	if s.k.Sched {
		return s.finishSched()
	}
	w := s.w
	for w.ticking {
		if w.atSignal {
			s.do(Op{K: OpSignal})
		} else {
			s.do(Op{K: OpAnswer, B: false})
		}
	}
	for _, n := range append([]int(nil), w.order...) {
		if w.reqs[n].parked {
			s.do(Op{K: OpEnter, R: n})
		}
	}
	if w.hooked {
		s.do(Op{K: OpGate, B: true})
	}
	s.do(Op{K: OpAdvance, D: int64(s.k.Cfg.TTLSec)*sec + 1})
	s.do(Op{K: OpScan})
	w.close()
	return s.k
}

func record(o *c.Out, suite string, k Case) {
	nAdm, nRej, nTO, reask := 0, 0, 0, false
	for i := range k.Ops {
		op := &k.Ops[i]
		if op.Obs.Rejected {
			nRej++
		}
		if op.K == OpAnswer && !op.B {
			reask = true
		}
		for _, v := range op.Obs.Returned {
			if v.Allowed {
				nAdm++
			} else {
				nTO++
			}
		}
		o.Count("op=" + op.K)
	}
	o.Count(fmt.Sprintf("ops=%02d", len(k.Ops)/5*5))
	o.Count(fmt.Sprintf("admitted=%d", nAdm))
	nontrivial := nAdm > 0 && (nRej > 0 || nTO > 0) && reask
	idx := o.Case(suite, coqCase(&k), k, nontrivial)
	o.MonitorChecked(1)
	for _, h := range monitor(&k) {
		h.Suite, h.Index = suite, idx
		o.Hit(h)
	}
}

// replay a recorded case: same configuration, same operations.
func replay(k Case, hooked bool) Case {
	s := newSession(k.Cfg, hooked, k.Name)
	if k.Sched {
		s.w.sched, s.k.Sched = true, true
	}
	for _, op := range k.Ops {
		s.do(Op{K: op.K, R: op.R, G: op.G, D: op.D, B: op.B})
	}
	if s.w.ticking || anyParked(s.w) {
		return s.finish()
	}
	s.w.close()
	return s.k
}

func anyParked(w *world) bool {
	for _, r := range w.reqs {
		if r.parked {
			return true
		}
	}
	return false
}

// ---------------------------------------------------------------- hook probe

// probeHooks runs one request through admission and removal and reports which
// yield points of the hook patch fired.
func probeHooks() (all bool, missing []string) {
	s := newSession(Cfg{Max: 1, SMax: -1, TTLSec: 1}, false, "probe")
	s.do(Op{K: OpArrive, R: 1, G: -1})
	s.do(Op{K: OpTick})
	s.do(Op{K: OpAnswer, B: true})
	s.do(Op{K: OpSignal})
	w := s.w
	w.gateMu.Lock()
	for _, p := range []string{"queue.slot_checked", "queue.before_signal", "queue.before_remove"} {
		if !w.seenPoints[p] {
			missing = append(missing, p)
		}
	}
	w.gateMu.Unlock()
	s.finish()
	return len(missing) == 0, missing
}

// probeShim tells whether the tree under check exports the watcher's timer.
func probeShim() bool {
	s := newSession(Cfg{Max: 1, SMax: -1, TTLSec: 1}, false, "probe")
	ok := s.w.shim != nil
	s.finish()
	return ok
}

// ---------------------------------------------------------------- generators

func randomCfg(r *c.Rng) Cfg {
	cfg := Cfg{Max: c.Pick(r, []int{0, -1, 1, 1, 1, 2, 2, 2, 2, 3, 3, 3, 3, 4, 4}), SMax: -1, TTLSec: r.Range(1, 3)}
	if r.Chance(1, 5) {
		cfg.SMax = r.Range(0, 3)
	}
	if r.Chance(3, 4) {
		cfg.Header = true
		switch r.Intn(3) {
		case 0:
			cfg.Groups = []int{0, 1, 2}
		case 1:
			cfg.Groups = []int{5, 1, 1, 1000}
		default:
			cfg.Groups = []int{2, 2}
		}
	}
	return cfg
}

func randomGroup(r *c.Rng, cfg *Cfg, sticky int) int {
	if r.Chance(1, 2) {
		return sticky // equal priorities are where FIFO matters
	}
	return r.Range(-1, len(cfg.Groups)) // -1 no header ... len = unknown group
}

// one random history, generated on line (the next operation is chosen knowing
// what the implementation did so far, only to keep the schedule well-formed).
func genRandom(r *c.Rng, hooked bool, sched bool) Case {
	cfg := randomCfg(r)
	var s *session
	if sched {
		s = newSchedSession(cfg, "")
	} else {
		s = newSession(cfg, hooked, "")
	}
	w := s.w
	ttl := int64(cfg.TTLSec) * sec
	sticky := r.Range(-1, len(cfg.Groups))
	steps := r.Range(6, 40)
	var lastArrival int64
	for i := 0; i < steps; i++ {
		if w.ticking && r.Chance(7, 10) {
			if w.atSignal {
				s.do(Op{K: OpSignal})
			} else {
				b := r.Chance(3, 5)
				s.do(Op{K: OpAnswer, B: b})
				if b && !hooked {
					s.do(Op{K: OpSignal})
				}
			}
			continue
		}
		if sched && !w.ticking && !w.drained && w.waiting() > 0 && r.Chance(1, 10) {
			// the loop takes the head shortly before the expiry of the latest
			// arrival and is still inside the quota call when time passes over it
			ms := sec / 1000
			if d := lastArrival + ttl - s.now; d > ms {
				s.fairAdvance(d - ms)
			}
			s.do(Op{K: OpTick})
			if w.ticking && !w.atSignal {
				s.fairAdvance(ms + int64(r.Range(0, 2)))
				b := r.Chance(1, 4)
				s.do(Op{K: OpAnswer, B: b})
				if b {
					s.do(Op{K: OpSignal})
				}
			}
			continue
		}
		x := r.Intn(100)
		switch {
		case x < 30 || (x < 55 && len(w.order) < 2):
			n := s.ng
			s.ng++
			g := randomGroup(r, &cfg, sticky)
			if hooked && r.Chance(1, 4) {
				s.do(Op{K: OpCheck, R: n, G: g})
			} else {
				s.do(Op{K: OpArrive, R: n, G: g})
			}
			lastArrival = s.now
		case x < 38:
			var parked []int
			for _, n := range w.order {
				if w.reqs[n].parked {
					parked = append(parked, n)
				}
			}
			if len(parked) > 0 {
				s.do(Op{K: OpEnter, R: c.Pick(r, parked)})
			}
		case x < 64:
			if !w.ticking {
				s.do(Op{K: OpTick})
			}
		case x < 76:
			// mostly short steps; sometimes an instant around a time-to-live edge
			d := c.Pick(r, []int64{1, sec / 10, sec / 10, sec / 2, sec / 2, ttl - 1, ttl, ttl + 1})
			if r.Chance(1, 3) {
				if e := lastArrival + ttl - s.now + int64(r.Range(-1, 1)); e > 0 {
					d = e
				}
			}
			if sched && r.Chance(4, 5) {
				// time passes under a watcher that wakes whenever its timer is due
				s.fairAdvance(d)
				break
			}
			s.do(Op{K: OpAdvance, D: d})
			if r.Chance(2, 3) {
				s.do(Op{K: scanOp(r, sched)})
			}
		case x < 84:
			s.do(Op{K: scanOp(r, sched)})
		case x < 93:
			if hooked {
				s.do(Op{K: OpGate, B: r.Chance(1, 2)})
			}
		default:
			// shutdown at any point: mostly late (what follows a drain is short),
			// sometimes early (arrivals, removals and held-back waiters after it)
			if !w.ticking && (3*i > 2*steps || r.Chance(1, 4)) {
				s.do(Op{K: OpDrain})
			}
		}
	}
	return s.finish()
}

// a scan by hand, or (suite "sched", mostly) a look at the watcher's timer
func scanOp(r *c.Rng, sched bool) string {
	if sched && r.Chance(3, 4) {
		return OpWake
	}
	return OpScan
}

// named schedules of the suite "sched": the watcher's timer (nextExpireAt) in
// the situations the theorems of the scheduling section mention.
func schedSchedules() []scripted {
	one := Cfg{Max: 1, SMax: -1, TTLSec: 2}
	two := Cfg{Max: 2, SMax: -1, TTLSec: 2}
	ttl := 2 * sec
	ms := sec / 1000
	T, F := true, false
	return []scripted{
		// the watcher is half a second late; its scan lands inside the loop's quota
		// check of the expired request; the check comes back blocked (seed C06-7)
		{"scan-inside-quota-check-watcher-late", one, []Op{
			{K: OpArrive, R: 1, G: -1}, {K: OpAdvance, D: ttl + sec/2}, {K: OpTick}, {K: OpWake},
			{K: OpAnswer, B: F}}},
		// the same with a watcher that is on time: the loop takes the request 1 ms
		// before its expiry and still holds it when the timer fires
		{"scan-inside-quota-check-watcher-on-time", one, []Op{
			{K: OpArrive, R: 1, G: -1}, {K: OpAdvance, D: ttl - ms}, {K: OpTick}, {K: OpAdvance, D: ms}, {K: OpWake},
			{K: OpAdvance, D: 1}, {K: OpWake}, {K: OpAnswer, B: F}}},
		// ... and the quota admits: allowed after the expiry, the loop held it
		{"scan-inside-quota-check-admitted", one, []Op{
			{K: OpArrive, R: 1, G: -1}, {K: OpAdvance, D: ttl - ms}, {K: OpTick}, {K: OpAdvance, D: ms}, {K: OpWake},
			{K: OpAdvance, D: 1}, {K: OpWake}, {K: OpAnswer, B: T}, {K: OpWake}, {K: OpSignal}, {K: OpWake}}},
		// the loop takes the request again before the watcher runs: held at two scans
		{"held-at-two-scans", one, []Op{
			{K: OpArrive, R: 1, G: -1}, {K: OpAdvance, D: ttl}, {K: OpWake}, {K: OpTick}, {K: OpAdvance, D: 1}, {K: OpWake},
			{K: OpAnswer, B: F}, {K: OpTick}, {K: OpAdvance, D: spin}, {K: OpWake}, {K: OpAnswer, B: F}}},
		// a scan between slot check and registration: the timer goes to now + TTL,
		// the request registers with its expiry already behind: bound = registration + TTL
		{"registration-lag", two, []Op{
			{K: OpCheck, R: 1, G: -1}, {K: OpAdvance, D: ttl}, {K: OpWake}, {K: OpEnter, R: 1}}},
		// a signalled entry whose removal is held back keeps the timer in the past
		{"stale-entry-keeps-timer-due", two, []Op{
			{K: OpGate, B: F}, {K: OpArrive, R: 1, G: -1}, {K: OpAdvance, D: ttl}, {K: OpWake}, {K: OpAdvance, D: 1}, {K: OpWake},
			{K: OpAdvance, D: spin}, {K: OpWake}, {K: OpArrive, R: 2, G: -1}, {K: OpAdvance, D: spin}, {K: OpWake},
			{K: OpGate, B: T}, {K: OpWake}}},
		// two requests half a second apart: the timer steps from one expiry to the next
		{"timer-steps-through-expiries", two, []Op{
			{K: OpArrive, R: 1, G: -1}, {K: OpAdvance, D: sec / 2}, {K: OpArrive, R: 2, G: -1},
			{K: OpAdvance, D: ttl - sec/2}, {K: OpWake}, {K: OpAdvance, D: 1}, {K: OpWake}, {K: OpWake},
			{K: OpAdvance, D: sec/2 - 1}, {K: OpWake}, {K: OpAdvance, D: 1}, {K: OpWake}, {K: OpWake}}},
		// a wake-up before the timer is due does nothing; a scan by hand recalculates
		{"early-wake-is-a-no-op", one, []Op{
			{K: OpArrive, R: 1, G: -1}, {K: OpAdvance, D: sec}, {K: OpWake}, {K: OpScan}, {K: OpAdvance, D: sec - 1}, {K: OpWake},
			{K: OpAdvance, D: 1}, {K: OpWake}, {K: OpAdvance, D: 1}, {K: OpWake}}},
		// admitted long before the expiry: the timer passes over the removed entry
		{"admitted-entry-leaves-the-table", one, []Op{
			{K: OpArrive, R: 1, G: -1}, {K: OpTick}, {K: OpAnswer, B: T}, {K: OpSignal}, {K: OpAdvance, D: ttl}, {K: OpWake},
			{K: OpArrive, R: 2, G: -1}, {K: OpAdvance, D: ttl}, {K: OpWake}}},
		// shutdown: the watcher has left, the drain releases everybody
		{"drain-before-expiry", two, []Op{
			{K: OpArrive, R: 1, G: -1}, {K: OpAdvance, D: sec}, {K: OpDrain}, {K: OpAdvance, D: 2 * ttl}}},
	}
}

func runSched(sc scripted) Case {
	s := newSchedSession(sc.cfg, sc.name)
	for _, op := range sc.ops {
		s.do(op)
	}
	return s.finish()
}

// named schedules: the interleavings the theorems mention.
type scripted struct {
	name string
	cfg  Cfg
	ops  []Op
}

func namedSchedules() []scripted {
	eq := Cfg{Max: 3, SMax: -1, TTLSec: 2, Header: true, Groups: []int{1, 1, 0}}
	one := Cfg{Max: 1, SMax: -1, TTLSec: 2}
	two := Cfg{Max: 2, SMax: -1, TTLSec: 2}
	T, F := true, false
	return []scripted{
		{"fifo-after-reenqueue", eq, []Op{
			{K: OpArrive, R: 2, G: 0}, {K: OpArrive, R: 3, G: 0}, {K: OpArrive, R: 4, G: 1},
			{K: OpTick}, {K: OpAnswer, B: F}, // window full: head goes back
			{K: OpAdvance, D: sec / 10}, {K: OpTick}, {K: OpAnswer, B: T}, {K: OpSignal}, {K: OpAnswer, B: F},
			{K: OpAdvance, D: sec / 10}, {K: OpTick}, {K: OpAnswer, B: T}, {K: OpSignal}, {K: OpAnswer, B: F},
			{K: OpAdvance, D: sec / 10}, {K: OpTick}, {K: OpAnswer, B: T}, {K: OpSignal}}},
		{"priority-beats-arrival", eq, []Op{
			{K: OpArrive, R: 1, G: 0}, {K: OpArrive, R: 2, G: 2}, {K: OpArrive, R: 3, G: 0},
			{K: OpTick}, {K: OpAnswer, B: T}, {K: OpSignal}, {K: OpAnswer, B: F},
			{K: OpTick}, {K: OpAnswer, B: T}, {K: OpSignal}, {K: OpAnswer, B: T}, {K: OpSignal}}},
		{"two-arrivals-pass-slot-check", one, []Op{
			{K: OpCheck, R: 1, G: -1}, {K: OpCheck, R: 2, G: -1}, {K: OpEnter, R: 1}, {K: OpEnter, R: 2},
			{K: OpTick}, {K: OpAnswer, B: T}, {K: OpSignal}, {K: OpAnswer, B: T}, {K: OpSignal}}},
		{"three-arrivals-pass-slot-check", two, []Op{
			{K: OpCheck, R: 1, G: -1}, {K: OpCheck, R: 2, G: -1}, {K: OpCheck, R: 3, G: -1},
			{K: OpEnter, R: 3}, {K: OpEnter, R: 1}, {K: OpEnter, R: 2}}},
		{"drain-with-processed-in-watchlist", two, []Op{
			{K: OpGate, B: F}, {K: OpArrive, R: 1, G: -1}, {K: OpArrive, R: 2, G: -1},
			{K: OpTick}, {K: OpAnswer, B: T}, {K: OpSignal}, {K: OpAnswer, B: F},
			{K: OpDrain}}},
		{"drain-with-timed-out-in-watchlist", two, []Op{
			{K: OpGate, B: F}, {K: OpArrive, R: 1, G: -1}, {K: OpAdvance, D: 2*sec + 1}, {K: OpArrive, R: 2, G: -1},
			{K: OpScan}, {K: OpDrain}}},
		{"drain-releases-all", two, []Op{
			{K: OpArrive, R: 1, G: -1}, {K: OpArrive, R: 2, G: -1}, {K: OpArrive, R: 3, G: -1}, {K: OpDrain}}},
		{"arrivals-around-drain", two, []Op{
			{K: OpArrive, R: 1, G: -1}, {K: OpCheck, R: 2, G: -1}, {K: OpDrain}, {K: OpEnter, R: 2}, {K: OpArrive, R: 3, G: -1}}},
		{"ttl-vs-success", one, []Op{
			{K: OpArrive, R: 1, G: -1}, {K: OpTick}, {K: OpAdvance, D: 2*sec + 1}, {K: OpScan},
			{K: OpAnswer, B: T}, {K: OpScan}, {K: OpSignal}, {K: OpScan}}},
		{"ttl-vs-refusal", one, []Op{
			{K: OpArrive, R: 1, G: -1}, {K: OpTick}, {K: OpAdvance, D: 2*sec + 1}, {K: OpScan},
			{K: OpAnswer, B: F}, {K: OpScan}, {K: OpTick}}},
		{"ttl-edge", two, []Op{
			{K: OpArrive, R: 1, G: -1}, {K: OpAdvance, D: 1}, {K: OpArrive, R: 2, G: -1},
			{K: OpAdvance, D: 2*sec - 1}, {K: OpScan}, {K: OpAdvance, D: 1}, {K: OpScan}, {K: OpAdvance, D: 1}, {K: OpScan}}},
		{"slot-freed-on-removal", one, []Op{
			{K: OpGate, B: F}, {K: OpArrive, R: 1, G: -1}, {K: OpTick}, {K: OpAnswer, B: T}, {K: OpSignal},
			{K: OpArrive, R: 2, G: -1}, {K: OpGate, B: T}, {K: OpArrive, R: 3, G: -1}, {K: OpArrive, R: 4, G: -1}}},
		{"stale-entries-skipped", two, []Op{
			{K: OpGate, B: F}, {K: OpArrive, R: 1, G: -1}, {K: OpArrive, R: 2, G: -1}, {K: OpAdvance, D: 2*sec + 1},
			{K: OpScan}, {K: OpTick}, {K: OpGate, B: T}, {K: OpArrive, R: 3, G: -1}, {K: OpTick}, {K: OpAnswer, B: T}, {K: OpSignal}}},
		{"shared-queue-size", Cfg{Max: 3, SMax: 1, TTLSec: 1}, []Op{
			{K: OpArrive, R: 1, G: -1}, {K: OpArrive, R: 2, G: -1}, {K: OpTick}, {K: OpAnswer, B: T}, {K: OpSignal},
			{K: OpArrive, R: 3, G: -1}}},
		{"arrival-while-loop-holds-head", eq, []Op{
			{K: OpArrive, R: 1, G: 0}, {K: OpTick}, {K: OpArrive, R: 2, G: 2}, {K: OpAnswer, B: F},
			{K: OpTick}, {K: OpAnswer, B: T}, {K: OpSignal}, {K: OpAnswer, B: T}, {K: OpSignal}}},
	}
}

func runScripted(sc scripted, hooked bool) (Case, bool) {
	if !hooked {
		for _, op := range sc.ops {
			if op.K == OpCheck || op.K == OpEnter || op.K == OpGate {
				return Case{}, false
			}
		}
	}
	s := newSession(sc.cfg, hooked, sc.name)
	for _, op := range sc.ops {
		s.do(op)
	}
	return s.finish(), true
}

// all merges of the given programs that respect each program's order
func merges(progs [][]Op, emit func([]Op) bool) {
	idx := make([]int, len(progs))
	total := 0
	for _, p := range progs {
		total += len(p)
	}
	cur := make([]Op, 0, total)
	var rec func() bool
	rec = func() bool {
		if len(cur) == total {
			return emit(append([]Op(nil), cur...))
		}
		for i, p := range progs {
			if idx[i] < len(p) {
				cur = append(cur, p[idx[i]])
				idx[i]++
				ok := rec()
				idx[i]--
				cur = cur[:len(cur)-1]
				if !ok {
					return false
				}
			}
		}
		return true
	}
	rec()
}

type mergeFamily struct {
	name   string
	cfg    Cfg
	prefix []Op
	progs  [][]Op
}

func mergeFamilies() []mergeFamily {
	T, F := true, false
	var fams []mergeFamily
	for _, max := range []int{1, 2} {
		for _, b := range []bool{T, F} {
			for _, g2 := range []int{0, 1} {
				cfg := Cfg{Max: max, SMax: -1, TTLSec: 1, Header: true, Groups: []int{1, 0}}
				fams = append(fams, mergeFamily{
					name: fmt.Sprintf("arrivals-vs-loop max=%d answer=%v g2=%d", max, b, g2), cfg: cfg,
					progs: [][]Op{
						{{K: OpCheck, R: 1, G: 0}, {K: OpEnter, R: 1}},
						{{K: OpCheck, R: 2, G: g2}, {K: OpEnter, R: 2}},
						{{K: OpTick}, {K: OpAnswer, B: b}, {K: OpSignal}},
					}})
			}
		}
		for _, b := range []bool{T, F} {
			cfg := Cfg{Max: max, SMax: -1, TTLSec: 1}
			fams = append(fams, mergeFamily{
				name: fmt.Sprintf("loop-vs-ttl-vs-drain max=%d answer=%v", max, b), cfg: cfg,
				prefix: []Op{{K: OpGate, B: F}, {K: OpArrive, R: 9, G: -1}},
				progs: [][]Op{
					{{K: OpCheck, R: 1, G: -1}, {K: OpEnter, R: 1}},
					{{K: OpTick}, {K: OpAnswer, B: b}, {K: OpSignal}},
					{{K: OpAdvance, D: sec + 1}, {K: OpScan}},
					{{K: OpDrain}},
				}})
		}
	}
	return fams
}

// ---------------------------------------------------------------- trusted clock assumption

// burstFIFO checks, on the real in-memory queue, the one assumption about the
// environment that the FIFO theorems rest on: the stamps that consecutive
// Enqueue calls take (time.Now().UnixNano()) are strictly increasing, so that
// requests of one priority pushed back to back come out in the order they went
// in.  (With equal stamps container/heap's order is unspecified; with a clock
// stepping back it is reversed: theories/C06/Property.v,
// C06_fifo_needs_increasing_stamps.)  Monitor only: no model is involved.
func burstFIFO(o *c.Out) {
	mem := lunar_context.NewMemoryState[string]()
	reps := o.Scale(40, 400, 100)
	const n = 250
	for rep := 0; rep < reps; rep++ {
		q := mem.NewQueue(fmt.Sprintf("c06burst%d", rep), time.Second)
		for i := 0; i < n; i++ {
			_ = q.Enqueue(fmt.Sprintf("b%03d", i), 1)
		}
		for i := 0; i < n; i++ {
			if got := q.DequeueIfValueRelevant(); got != fmt.Sprintf("b%03d", i) {
				o.Hit(c.Hit{Suite: "forced", Index: -1, Signature: "fifo-lost:equal-stamps",
					Demanded: "within one priority earlier arrivals are admitted before later ones",
					Observed: fmt.Sprintf("burst %d: %d back-to-back Enqueue calls of one priority; position %d came out as %s", rep, n, i, got),
					Case:     map[string]any{"burst": rep, "n": n, "position": i, "got": got}})
				break
			}
		}
		o.MonitorChecked(1)
	}
	o.CountN("burst-enqueues", reps*n)
}

// ---------------------------------------------------------------- main

func main() {
	zerolog.SetGlobalLevel(zerolog.Disabled)
	o := c.NewOut("C06")
	const caseType = "case"
	o.DeclareSuite("histories", "From Verif Require Import C06.Model.", caseType, "run_case")
	o.DeclareSuite("forced", "From Verif Require Import C06.Model.", caseType, "run_case")
	o.DeclareSuite("sched", "From Verif Require Import C06.Model C06.Sched.", "scase", "run_scase")
	o.Rule("histories: random schedules of arrive / check+enter (split at queue.slot_checked) / tick+answer+signal " +
		"(quota answers scripted, split at queue.before_signal) / advance (around TTL edges) / scan / gate (holds " +
		"queue.before_remove) / drain over random settings (queue size -1..4, shared size, TTL 1..3 s, priority groups); " +
		"forced: the named interleavings of the theorems plus merges of arrival, loop, TTL and drain programs; " +
		"sched: the watcher's timer — named schedules (scan inside the loop's quota check of the expiring request with the check " +
		"coming back blocked, registration lag, stale entries, ...) and random schedules in which time passes under a " +
		"watcher that wakes whenever nextExpireAt is due (wake = the real scan + recalculation run when the real " +
		"nextExpireAt <= mock clock); nextExpireAt is compared after every operation; " +
		"burst (monitor only): back-to-back Enqueue calls of one priority on the real in-memory queue come out in order " +
		"(the trusted strictly-increasing-stamps assumption); " +
		"distinct = distinct (settings, operations, observations); non-trivial = at least one admission, one " +
		"rejection or time-out, and one refused head put back")

	hooked, missing := probeHooks()
	if !hooked {
		o.Note("yield points missing in the tree under check: " + strings.Join(missing, ", ") +
			" (patches/C06/hook-queue-yield.patch not applied): only schedules that need no yield point were run")
		o.Hit(c.Hit{Suite: "forced", Index: -1, Signature: "hooks-missing:queue-yield-points",
			Demanded: "yield points queue.slot_checked / queue.before_signal / queue.before_remove present so that the interleavings of C06 can be forced",
			Observed: "missing: " + strings.Join(missing, ", "), Case: map[string]any{"missing": missing}})
	}

	schedOK := hooked && probeShim()
	if hooked && !schedOK {
		o.Note("the tree under check does not export the TTL watcher's timer (verif_c06b.go, NextExpireAt): the suite sched was not run")
		o.Hit(c.Hit{Suite: "sched", Index: -1, Signature: "hooks-missing:watcher-timer-shim",
			Demanded: "VerifHandle.NextExpireAt (add-only shim streams/processors/queue/verif_c06b.go) present so that the scheduling of the TTL watcher can be observed",
			Observed: "the handle returned by VerifHandleOf has no method NextExpireAt", Case: map[string]any{"missing": "verif_c06b.go"}})
	}

	burstFIFO(o)
	if o.Replay == "" {
		realtimeWatcher(o)
	}

	var k Case
	if _, ok := o.ReplayCase(&k); ok {
		if k.Realtime {
			realtimeWatcher(o)
		} else if len(k.Ops) > 0 {
			if k.Sched {
				if schedOK {
					record(o, "sched", replay(k, true))
				}
			} else {
				record(o, "forced", replay(k, hooked && k.Hooked))
			}
		}
		o.Finish()
		return
	}

	for _, sc := range namedSchedules() {
		if k, ok := runScripted(sc, hooked); ok {
			record(o, "forced", k)
		}
	}
	if hooked {
		fams := mergeFamilies()
		budget := o.Scale(900, 1<<30, 3000)
		per := budget / len(fams)
		fr := o.Rng.Fork(6)
		for _, f := range fams {
			var all [][]Op
			merges(f.progs, func(ops []Op) bool { all = append(all, ops); return true })
			pick := all
			if len(all) > per {
				pick = nil
				for i := 0; i < per; i++ {
					pick = append(pick, all[fr.Intn(len(all))])
				}
			}
			for _, ops := range pick {
				k, _ := runScripted(scripted{f.name, f.cfg, append(append([]Op(nil), f.prefix...), ops...)}, true)
				record(o, "forced", k)
			}
		}
	}
	if schedOK {
		for _, sc := range schedSchedules() {
			record(o, "sched", runSched(sc))
		}
		ns := o.Scale(500, 6000, 3000)
		sr := o.Rng.Fork(7)
		for i := 0; i < ns; i++ {
			record(o, "sched", genRandom(sr, true, true))
		}
	}
	n := o.Scale(2500, 25000, 8000)
	hr := o.Rng.Fork(1)
	for i := 0; i < n; i++ {
		record(o, "histories", genRandom(hr, hooked, false))
	}
	o.Finish()
}
