// Execution of one C06 case on the real queue processor.
//
// A case is a configuration plus a list of harness-level operations; each
// operation makes the real code take one (or a fixed short sequence of) of the
// atomic steps of the model, on goroutines that the harness parks at
//   - the three yield points of the queue processor (hook patch),
//   - the quota resource (harness-supplied, scripted: it blocks in Allowed()
//     until the case says what the quota answers),
//
// so that a chosen schedule is executed deterministically.
package main

import (
	"bytes"
	"context"
	"fmt"
	"os"
	"runtime"
	"sort"
	"sync"
	"time"

	lunar_messages "lunar/engine/messages"
	lunar_context "lunar/engine/streams/lunar-context"
	queue_processor "lunar/engine/streams/processors/queue"
	public_types "lunar/engine/streams/public-types"
	stream_types "lunar/engine/streams/types"
	"lunar/engine/verifhook"
	"lunar/toolkit-core/clock"
	context_manager "lunar/toolkit-core/context-manager"
)

// ---------------------------------------------------------------- case format

type Cfg struct {
	Max    int   `json:"queue_size"`
	SMax   int   `json:"shared_queue_size"` // redis_queue_size; -1 = unlimited
	TTLSec int   `json:"ttl_seconds"`
	Header bool  `json:"priority_header_configured"`
	Groups []int `json:"group_priorities"` // group "g<i>" -> Groups[i]
}

// Op kinds.
const (
	OpArrive  = "arrive"  // whole arrival: slot check, registration, push (then the request waits)
	OpCheck   = "check"   // arrival up to the slot check (parks at queue.slot_checked)
	OpEnter   = "enter"   // rest of the arrival of a request parked at queue.slot_checked
	OpTick    = "tick"    // start one iteration of the processing loop; runs to the first quota question
	OpAnswer  = "answer"  // the quota answers the pending question
	OpSignal  = "signal"  // after an admitting answer: let the loop signal the waiter and go on
	OpScan    = "scan"    // one TTL-watcher scan
	OpWake    = "wake"    // the TTL watcher's timer is consulted: due (nextExpireAt <= now) -> one scan, else nothing
	OpAdvance = "advance" // clock += D
	OpGate    = "gate"    // B=false: removals from the watch list are held back; B=true: released
	OpDrain   = "drain"   // shutdown
)

type Verdict struct {
	R       int  `json:"r"`
	Allowed bool `json:"allowed"`
}

type Obs struct {
	Rejected bool      `json:"rejected,omitempty"` // arrive/check/enter: the call returned "blocked" at once
	Asking   int       `json:"asking,omitempty"`   // request the loop is asking the quota about (0 = loop not running)
	Panic    bool      `json:"panic,omitempty"`
	Returned []Verdict `json:"returned,omitempty"` // waiters that came back after this op (sorted)
	Stranded []int     `json:"stranded,omitempty"` // marked processed but Execute did not return (harness time-out)
	// suite "sched" only: the watcher's nextExpireAt after the operation, in ns since the processor was created
	Nea *int64 `json:"next_scan_ns,omitempty"`
}

type Op struct {
	K   string `json:"op"`
	R   int    `json:"r,omitempty"`
	G   int    `json:"group,omitempty"` // -1: no priority header; i: header "g<i>" (i >= len(groups): unknown group)
	D   int64  `json:"d_ns,omitempty"`
	B   bool   `json:"b,omitempty"`
	Obs Obs    `json:"obs"`
}

type Case struct {
	Name   string `json:"name,omitempty"`
	Hooked bool   `json:"hooked"`
	Sched  bool   `json:"sched,omitempty"` // suite "sched": the watcher's timer is observed and drives the scans
	// the real-time run of the watcher's own goroutine (realtime.go): no operations, the schedule is fixed
	Realtime bool             `json:"realtime,omitempty"`
	Runs     []map[string]any `json:"runs,omitempty"`
	Cfg      Cfg              `json:"cfg"`
	Ops      []Op             `json:"ops"`
}

// ---------------------------------------------------------------- plumbing

// loopClock is the clock handed to the processor's 100 ms loop: its After never
// fires while the case runs (the harness runs the loop body through the shim
// instead); closing ch at the end of the case lets the goroutine see the
// cancelled context and leave.
type loopClock struct{ ch chan time.Time }

func (l loopClock) Now() time.Time                       { return context_manager.Get().GetClock().Now() }
func (l loopClock) Sleep(time.Duration)                  {}
func (l loopClock) After(time.Duration) <-chan time.Time { return l.ch }
func (l loopClock) Since(t time.Time) time.Duration {
	return context_manager.Get().GetClock().Now().Sub(t)
}
func (l loopClock) Until(t time.Time) time.Duration {
	return t.Sub(context_manager.Get().GetClock().Now())
}

// waitGone waits until no goroutine whose stack dump contains the marker is
// left (the "created by" line is used: it is printed even for a goroutine that
// is running on another thread, whose frames are not).
func waitGone(fn string) {
	buf := make([]byte, 1<<16)
	deadline := time.Now().Add(waitLimit)
	for {
		n := runtime.Stack(buf, true)
		if n == len(buf) {
			buf = make([]byte, 2*len(buf))
			continue
		}
		if !bytes.Contains(buf[:n], []byte(fn)) {
			return
		}
		if time.Now().After(deadline) {
			fatal("goroutine in %s does not leave", fn)
		}
		runtime.Gosched()
	}
}

// shared memory wrapper: the real memory state; NewQueue returns the real
// in-memory queue behind a thin wrapper that tells the harness when a call
// has completed.
type shm struct {
	public_types.SharedStateI[string]
	w *world
}

func (s *shm) NewQueue(k string, ttl time.Duration) public_types.SharedQueueI {
	return &qwrap{inner: s.SharedStateI.NewQueue(k, ttl), w: s.w}
}

type qwrap struct {
	inner public_types.SharedQueueI
	w     *world
}

func (q *qwrap) Enqueue(id string, prio float64) error {
	err := q.inner.Enqueue(id, prio)
	q.w.enq <- id
	return err
}
func (q *qwrap) DequeueIfValueRelevant() string { return q.inner.DequeueIfValueRelevant() }
func (q *qwrap) Remove(id string) {
	q.inner.Remove(id)
	q.w.removed <- id
}
func (q *qwrap) Size() int64 { return q.inner.Size() }

// scripted quota
type resources struct{ w *world }

func (r *resources) GetQuota(string, string) (public_types.QuotaResourceI, error) {
	return &quota{w: r.w}, nil
}
func (r *resources) OnRequestDrop(public_types.APIStreamI)    {}
func (r *resources) OnResponseFinish(public_types.APIStreamI) {}

type quota struct{ w *world }

func (q *quota) Inc(public_types.APIStreamI) error { q.w.incs++; return nil }
func (q *quota) Dec(public_types.APIStreamI) error { return nil }
func (q *quota) ResetIn() time.Duration            { return 0 }
func (q *quota) GetParentID() string               { return "" }
func (q *quota) Allowed(s public_types.APIStreamI) (bool, error) {
	q.w.tickEv <- tickEvent{ask: s.GetID()}
	return <-q.w.tickAns, nil
}

type tickEvent struct {
	ask          string // non-empty: the loop asks the quota about this request
	beforeSignal bool
	end          bool
	panicked     bool
	panicMsg     string
}

type reqRun struct {
	n       int
	id      string
	stream  public_types.APIStreamI
	split   bool // parks at queue.slot_checked
	atSlot  chan struct{}
	resume  chan struct{}
	done    chan reqResult
	entered bool
	parked  bool // at slot_checked
	back    bool
}

type reqResult struct {
	allowed  bool
	panicked bool
}

// schedShim is what the add-only shim verif_c06b.go exports; the harness asks
// for it dynamically, so a tree without that file is reported, not a build failure.
type schedShim interface {
	NextExpireAt() (time.Time, bool)
}

type world struct {
	cfg    Cfg
	hooked bool
	sched  bool      // suite "sched"
	shim   schedShim // nil: the tree under check does not export the watcher's timer
	t0     time.Time // mock clock when the processor was created
	proc   stream_types.ProcessorI
	h      *queue_processor.VerifHandle
	mock   *clock.MockClock
	loopCh chan time.Time

	enq     chan string
	removed chan string
	tickEv  chan tickEvent
	tickAns chan bool
	tickGo  chan struct{}
	incs    int

	cur      *reqRun // arrival goroutine currently running towards slot_checked
	reqs     map[int]*reqRun
	order    []int
	ticking  bool
	drained  bool // the loop goroutine has drained and left: no more ticks, no more TTL scans
	asking   int
	atSignal bool

	gateMu         sync.Mutex
	gateCond       *sync.Cond
	gateOpen       bool
	scanHold       bool // removals are held back while a scan body runs (suite "sched": the recalculation must not race with them)
	pendingRemoves int

	seenPoints map[string]bool
}

var (
	theWorld *world
	worldMu  sync.RWMutex
	state    = lunar_context.NewMemoryState[[]byte]()
)

func yieldHandler(point string) {
	worldMu.RLock()
	w := theWorld
	worldMu.RUnlock()
	if w == nil {
		return
	}
	w.gateMu.Lock()
	w.seenPoints[point] = true
	w.gateMu.Unlock()
	switch point {
	case "queue.slot_checked":
		r := w.cur
		if r != nil && r.split {
			r.atSlot <- struct{}{}
			<-r.resume
		}
	case "queue.before_signal":
		if w.hooked {
			w.tickEv <- tickEvent{beforeSignal: true}
			<-w.tickGo
		}
	case "queue.before_remove":
		w.gateMu.Lock()
		for !w.gateOpen || w.scanHold {
			w.gateCond.Wait()
		}
		w.gateMu.Unlock()
	}
}

func param(name string, v any) stream_types.ProcessorParam {
	kv := &public_types.KeyValue{Key: name, Value: v}
	return stream_types.ProcessorParam{Name: name, Value: kv.GetParamValue()}
}

func newWorld(cfg Cfg, hooked bool) *world { return newWorldOpt(cfg, hooked, false) }

// newWorldOpt: realtime = the process clock is the real clock and the
// process-wide context is alive, so the watcher's own goroutine (manageTTLs,
// real timer) runs by itself; the processing loop stays under the harness.
func newWorldOpt(cfg Cfg, hooked bool, realtime bool) *world {
	w := &world{cfg: cfg, hooked: hooked, reqs: map[int]*reqRun{}, gateOpen: true,
		enq: make(chan string, 64), removed: make(chan string, 64),
		tickEv: make(chan tickEvent), tickAns: make(chan bool), tickGo: make(chan struct{}),
		seenPoints: map[string]bool{}}
	w.gateCond = sync.NewCond(&w.gateMu)
	w.loopCh = make(chan time.Time)
	cm := context_manager.Get()
	var clk clock.Clock
	if realtime {
		cm.SetRealClock()
		clk = cm.GetClock()
	} else {
		cm.SetMockClock()
		w.mock = cm.GetMockClock()
		clk = w.mock
	}
	worldMu.Lock()
	theWorld = w
	worldMu.Unlock()

	mem := lunar_context.NewMemoryState[string]()
	var header any
	groups := map[string]any{}
	if cfg.Header {
		header = "x-prio"
	}
	for i, p := range cfg.Groups {
		groups[fmt.Sprintf("g%d", i)] = p
	}
	var groupsParam any
	if len(groups) > 0 {
		groupsParam = groups
	}
	md := &stream_types.ProcessorMetaData{
		Name:         "c06",
		SharedMemory: &shm{SharedStateI: mem.WithClock(clk), w: w},
		Clock:        loopClock{w.loopCh}, // the 100 ms loop never fires by itself; Tick() runs its body
		Resources:    &resources{w: w},
		Parameters: map[string]stream_types.ProcessorParam{
			"quota_id":                 param("quota_id", "q"),
			"queue_size":               param("queue_size", cfg.Max),
			"redis_queue_size":         param("redis_queue_size", cfg.SMax),
			"ttl_seconds":              param("ttl_seconds", cfg.TTLSec),
			"priority_group_by_header": param("priority_group_by_header", header),
			"priority_groups":          param("priority_groups", groupsParam),
		},
	}
	proc, err := queue_processor.NewProcessor(md)
	if err != nil {
		panic(err)
	}
	w.proc = proc
	h, ok := queue_processor.VerifHandleOf(proc)
	if !ok {
		panic("not a queue processor")
	}
	w.h = h
	w.shim, _ = any(h).(schedShim)
	w.t0 = clk.Now()
	if realtime {
		return w
	}
	// The watcher's own goroutine (real-time timer) must not scan behind the
	// harness's back: the process-wide context is cancelled, so it leaves at its
	// first select; wait for that before the clock is moved.
	waitGone(watcherGoroutine)
	return w
}

func (w *world) close() {
	w.gateMu.Lock()
	w.gateOpen = true
	w.gateCond.Broadcast()
	w.gateMu.Unlock()
	if w.h.Count() == 0 { // let the loop goroutine see the cancelled context and leave (drain of an empty watch list)
		close(w.loopCh)
	}
	worldMu.Lock()
	theWorld = nil
	worldMu.Unlock()
}

const waitLimit = 5 * time.Second

const watcherGoroutine = "created by lunar/engine/streams/processors/queue.NewRequestsWatcher"

func fatal(format string, a ...any) {
	fmt.Fprintf(os.Stderr, "c06 harness: "+format+"\n", a...)
	os.Exit(3)
}

func (w *world) newReq(n, group int, split bool) *reqRun {
	headers := map[string]string{}
	if group >= 0 {
		headers["x-prio"] = fmt.Sprintf("g%d", group)
	}
	id := fmt.Sprintf("r%d", n)
	r := &reqRun{n: n, id: id, split: split, atSlot: make(chan struct{}), resume: make(chan struct{}),
		done: make(chan reqResult, 1)}
	r.stream = stream_types.NewRequestAPIStream(lunar_messages.OnRequest{
		ID: id, SequenceID: id, Method: "GET", URL: "api.example.com/x", Headers: headers}, state)
	w.reqs[n] = r
	w.order = append(w.order, n)
	return r
}

func (w *world) start(r *reqRun) {
	w.cur = r
	go func() {
		res := reqResult{}
		defer func() {
			if e := recover(); e != nil {
				res.panicked = true
			}
			r.done <- res
		}()
		io, _ := w.proc.Execute("flow", r.stream)
		res.allowed = io.Name == "allowed"
	}()
}

// waitEntered waits until the arrival goroutine of r has pushed its request
// (then it waits for its verdict) or has returned.
func (w *world) waitEntered(r *reqRun, o *Obs) {
	for {
		select {
		case id := <-w.enq:
			if id != r.id {
				continue // a head that the loop put back earlier
			}
			r.entered = true
		case res := <-r.done:
			r.back = true
			o.Rejected = !res.allowed
			o.Panic = o.Panic || res.panicked
			if res.allowed {
				fatal("request %s allowed without being queued", r.id)
			}
		case <-time.After(waitLimit):
			fatal("arrival of %s neither queued nor returned", r.id)
		}
		return
	}
}

func (w *world) waitTick(o *Obs) {
	select {
	case ev := <-w.tickEv:
		switch {
		case ev.ask != "":
			var n int
			fmt.Sscanf(ev.ask, "r%d", &n)
			w.asking = n
		case ev.beforeSignal:
			w.atSignal = true
		case ev.end:
			w.ticking, w.asking, w.atSignal = false, 0, false
			o.Panic = o.Panic || ev.panicked
		}
	case <-time.After(waitLimit):
		fatal("processing loop neither asked the quota nor ended")
	}
}

func (w *world) protect(o *Obs, f func()) {
	defer func() {
		if e := recover(); e != nil {
			o.Panic = true
		}
	}()
	f()
}

// exec runs one operation; false = the operation is not applicable in the
// current harness state (generator error) and was skipped.
func (w *world) exec(op *Op) bool {
	o := &op.Obs
	*o = Obs{}
	switch op.K {
	case OpArrive:
		if w.reqs[op.R] != nil {
			return false
		}
		r := w.newReq(op.R, op.G, false)
		w.start(r)
		w.waitEntered(r, o)
	case OpCheck:
		if w.reqs[op.R] != nil || !w.hooked {
			return false
		}
		r := w.newReq(op.R, op.G, true)
		w.start(r)
		select {
		case <-r.atSlot:
			r.parked = true
		case res := <-r.done:
			r.back = true
			o.Rejected = !res.allowed
			o.Panic = res.panicked
		case <-time.After(waitLimit):
			fatal("arrival of %s neither reached the slot check nor returned", r.id)
		}
	case OpEnter:
		r := w.reqs[op.R]
		if r == nil || !r.parked {
			return false
		}
		r.parked = false
		r.resume <- struct{}{}
		w.waitEntered(r, o)
	case OpTick:
		if w.ticking || w.drained {
			return false
		}
		w.ticking = true
		go func() {
			ev := tickEvent{end: true}
			defer func() {
				if e := recover(); e != nil {
					ev.panicked = true
					ev.panicMsg = fmt.Sprint(e)
				}
				w.tickEv <- ev
			}()
			w.h.Tick()
		}()
		w.waitTick(o)
	case OpAnswer:
		if !w.ticking || w.asking == 0 || w.atSignal {
			return false
		}
		if op.B && !w.hooked {
			// no yield point before the signal: the answer itself is held back
			// until OpSignal (the loop stays parked inside the quota meanwhile)
			w.atSignal = true
		} else {
			w.tickAns <- op.B
			w.waitTick(o)
		}
	case OpSignal:
		if !w.ticking || !w.atSignal {
			return false
		}
		w.atSignal = false
		w.asking = 0
		if w.hooked {
			w.tickGo <- struct{}{}
		} else {
			w.tickAns <- true
		}
		w.waitTick(o)
	case OpScan:
		if w.drained {
			return false // the watcher goroutine leaves on the cancellation that caused the drain
		}
		w.scan(o)
	case OpWake:
		if w.drained || !w.sched || w.shim == nil {
			return false
		}
		// what manageTTLs does with its timer: wait nextExpireAt - now, not at all when that is negative
		if nea, ok := w.shim.NextExpireAt(); ok && !nea.After(w.mock.Now()) {
			w.scan(o)
		}
	case OpAdvance:
		w.mock.Set(w.mock.Now().Add(time.Duration(op.D)))
	case OpGate:
		if !w.hooked {
			return false
		}
		w.gateMu.Lock()
		w.gateOpen = op.B
		w.gateCond.Broadcast()
		w.gateMu.Unlock()
	case OpDrain:
		if w.ticking || w.drained {
			return false
		}
		w.drained = true
		w.protect(o, w.h.Drain)
	default:
		fatal("unknown op %q", op.K)
	}
	o.Asking = w.asking // the request the loop holds (quota asked, or admitted and not yet signalled)
	w.collect(o)
	if w.sched && w.shim != nil {
		v := int64(-1)
		if nea, ok := w.shim.NextExpireAt(); ok {
			v = nea.Sub(w.t0).Nanoseconds()
		}
		o.Nea = &v
	}
	return true
}

// scan runs the body of one watcher iteration (scan + recalculation). In the
// suite "sched" the removals of the waiters it releases are held back until the
// body has returned: in the code they are asynchronous (go removeRequest) and
// may or may not land before the recalculation reads the table; holding them
// back fixes the one order the model describes (recalculation first).
func (w *world) scan(o *Obs) {
	hold := w.sched && w.hooked
	if hold {
		w.gateMu.Lock()
		w.scanHold = true
		w.gateMu.Unlock()
	}
	w.protect(o, w.h.TTLScan)
	if hold {
		w.gateMu.Lock()
		w.scanHold = false
		w.gateCond.Broadcast()
		w.gateMu.Unlock()
	}
}

// nea is the watcher's timer in ns since the processor was created.
func (w *world) nea() (int64, bool) {
	if w.shim == nil {
		return 0, false
	}
	t, ok := w.shim.NextExpireAt()
	return t.Sub(w.t0).Nanoseconds(), ok
}

// collect waits for every waiter whose request has been marked processed and
// then (gate open) for the completion of their removal from the watch list.
func (w *world) collect(o *Obs) {
	for drained := false; !drained; {
		select {
		case <-w.enq: // re-enqueues by the loop
		default:
			drained = true
		}
	}
	ns := append([]int(nil), w.order...)
	sort.Ints(ns)
	for _, n := range ns {
		r := w.reqs[n]
		if !r.entered || r.back {
			continue
		}
		// still registered and not marked processed: it keeps waiting. (No longer
		// registered = its removal already ran, which only happens after the return.)
		if reg, sig := w.h.Signalled(r.id); reg && !sig {
			continue
		}
		select {
		case res := <-r.done:
			r.back = true
			o.Returned = append(o.Returned, Verdict{n, res.allowed})
			o.Panic = o.Panic || res.panicked
			w.pendingRemoves++
		case <-time.After(waitLimit):
			o.Stranded = append(o.Stranded, n)
			r.back = true
		}
	}
	w.gateMu.Lock()
	open := w.gateOpen
	w.gateMu.Unlock()
	for open && w.pendingRemoves > 0 {
		select {
		case <-w.removed:
			w.pendingRemoves--
		case <-time.After(waitLimit):
			fatal("removal from the watch list did not complete")
		}
	}
}

// waiting = requests that entered the queue and whose Execute has not returned.
func (w *world) waiting() int {
	n := 0
	for _, r := range w.reqs {
		if r.entered && !r.back {
			n++
		}
	}
	return n
}

// deadCtx is the process-wide context of every case on the mock clock: cancelled
// from the start, so that the goroutines a processor starts leave at once.
var deadCtx context.Context

func init() {
	os.Setenv("LUNAR_SPOE_PROCESSING_TIMEOUT_SEC", "100000")
	ctx, cancel := context.WithCancel(context.Background())
	cancel()
	deadCtx = ctx
	context_manager.Get().WithContext(ctx)
	verifhook.SetYield(yieldHandler)
}
