// Wide configurations: directions (and incorporated flows, and response sides
// entered by a hand-over) with MORE THAN 12 connections, the entry-point
// connection (`stream start -> processor` / `flow X at end -> processor`)
// written first, in the middle or last, and fan-outs of 8-16 siblings under one
// condition whose order of execution shows in the processor events; some
// sibling answers the request itself (the siblings written after it must not
// run).  Nothing here is special to the engine: the order of a processor's
// connections in the YAML list is the order the text gives to its targets, the
// place of the entry-point connection in the list carries no meaning.
package main

import (
	"fmt"
	"sort"
	"strings"

	c "verifharness/common"
)

// perm: a random permutation of xs (copy).
func perm(r *c.Rng, xs []string) []string {
	out := append([]string{}, xs...)
	for i := len(out) - 1; i > 0; i-- {
		j := r.Intn(i + 1)
		out[i], out[j] = out[j], out[i]
	}
	return out
}

// placeEntry inserts the entry-point connection into the list: 0 first, 1 in
// the middle, 2 last, else anywhere.
func placeEntry(r *c.Rng, conns []Conn, entry Conn, where int) []Conn {
	at := 0
	switch where {
	case 0:
	case 1:
		at = len(conns) / 2
	case 2:
		at = len(conns)
	default:
		at = r.Intn(len(conns) + 1)
	}
	out := append([]Conn{}, conns[:at]...)
	out = append(out, entry)
	return append(out, conns[at:]...)
}

// moveEntry moves the entry-point connection of a list (if it is the first
// element) to another place.
func moveEntry(r *c.Rng, conns []Conn, where int) []Conn {
	if len(conns) < 2 || !(conns[0].From.Kind == "stream" || conns[0].From.Kind == "flow") || conns[0].To.Kind != "proc" {
		return conns
	}
	return placeEntry(r, append([]Conn{}, conns[1:]...), conns[0], where)
}

type wideSide struct {
	Conns []Conn   // without the entry-point connection
	Root  string   // the fan-out processor (entry point)
	Sibs  []string // the siblings, in the order their connections are written
	Gens  []string // request side: the siblings that answer the request
	All   []string // every processor of the side that may be a target
}

// wideDir builds one direction: Filter <tag>fan -hit-> n siblings (written in a
// random order of their names), a few of them also under `miss` in another
// order; siblings are Filters (leaf / to the stream / to a child / one with a
// nested fan-out), on the request side also MockProcessor and GenerateResponse.
// genMode: 0 no answering sibling, 1 first, 2 middle, 3 last, 4 middle and last
// (of the `hit` list).  toStream: how many siblings may lead to the stream end
// (an incorporated flow goes on at the referencing flow's processor there).
func (g *gen) wideDir(f *FlowCfg, tag string, isReq bool, n, genMode, toStream int) wideSide {
	r := g.r
	var w wideSide
	decl := func(k, typ string) string {
		p := Proc{Key: k, Type: typ}
		if typ == tFilter {
			p.Hdr = "x-" + k
		}
		f.Procs = append(f.Procs, p)
		return k
	}
	w.Root = decl(tag+"fan", tFilter)
	var names []string
	for i := 1; i <= n; i++ {
		names = append(names, fmt.Sprintf("%ss%02d", tag, i))
	}
	w.Sibs = perm(r, names)
	typ := map[string]string{}
	for i, k := range w.Sibs {
		t := tFilter
		isGen := false
		switch genMode {
		case 1:
			isGen = i == 0
		case 2:
			isGen = i == n/2
		case 3:
			isGen = i == n-1
		case 4:
			isGen = i == n/2 || i == n-1
		}
		switch {
		case isGen:
			t = tGen
		case isReq && r.Chance(1, 7):
			t = tMock
		case !isReq && r.Chance(1, 8):
			t = tGen // on a response it outputs "" and goes on
		}
		typ[k] = t
		decl(k, t)
		if isGen && isReq {
			w.Gens = append(w.Gens, k)
		}
	}
	var cs []Conn
	for _, k := range w.Sibs {
		cs = append(cs, p2p(w.Root, "hit", k))
	}
	// some of them under `miss` too, in another order
	if m := r.Range(0, 4); m > 0 {
		if m > n {
			m = n
		}
		for _, k := range perm(r, w.Sibs)[:m] {
			cs = append(cs, p2p(w.Root, "miss", k))
		}
	}
	// children shared by several siblings
	var kids []string
	for i, nk := 0, r.Range(1, 3); i < nk; i++ {
		k := decl(fmt.Sprintf("%sc%d", tag, i+1), tFilter)
		kids = append(kids, k)
		if r.Chance(2, 3) {
			cs = append(cs, p2s(k, c.Pick(r, []string{"hit", "miss"})))
		}
	}
	nested := r.Intn(n) // one sibling with a fan-out of its own
	streams := 0
	for i, k := range w.Sibs {
		switch typ[k] {
		case tMock:
			cs = append(cs, p2s(k, "output_1"))
		case tGen:
			if !isReq {
				if r.Chance(1, 2) {
					cs = append(cs, p2p(k, "", c.Pick(r, kids)))
				} else if streams < toStream {
					cs = append(cs, p2s(k, ""))
					streams++
				}
			}
		case tFilter:
			if i == nested {
				var sub []string
				for j, ns := 0, r.Range(3, 5); j < ns; j++ {
					sub = append(sub, decl(fmt.Sprintf("%sn%d", tag, j+1), tFilter))
				}
				for _, s := range perm(r, sub) {
					cs = append(cs, p2p(k, "hit", s))
				}
				w.All = append(w.All, sub...)
				continue
			}
			switch x := r.Intn(8); {
			case x < 2: // a leaf: it is only a target
			case x < 5:
				if streams < toStream {
					cs = append(cs, p2s(k, c.Pick(r, []string{"hit", "hit", "miss"})))
					streams++
				}
			default:
				cs = append(cs, p2p(k, c.Pick(r, []string{"hit", "hit", "miss"}), c.Pick(r, kids)))
				if r.Chance(1, 3) {
					cs = append(cs, p2p(k, "hit", c.Pick(r, kids))) // (the same twice is one connection)
				}
			}
		}
	}
	w.All = append(append(w.All, w.Sibs...), kids...)
	w.Conns = cs
	return w
}

// order of the connection list: as built (the fan-out's connections first, as
// in a hand-written file) or shuffled - whatever results IS the configured order.
func arrange(r *c.Rng, cs []Conn) []Conn {
	if r.Chance(1, 2) {
		return cs
	}
	out := append([]Conn{}, cs...)
	for i := len(out) - 1; i > 0; i-- {
		j := r.Intn(i + 1)
		out[i], out[j] = out[j], out[i]
	}
	return out
}

// wideFlow: a user flow whose request and response sides are wide; every
// request-side processor that answers gets response connections - a wide list
// (8-16 targets: the hand-over continues at all of them, in that order), a short
// one, one to the stream, or (rarely) none at all.
func (g *gen) wideFlow(name, url string, idx int) FlowCfg {
	r := g.r
	f := FlowCfg{Name: name, URL: url}
	tag := strings.ToLower(name)
	nq := r.Range(8, 16)
	if idx%5 == 4 {
		nq = r.Range(4, 6) // few connections, entry point not first
	}
	q := g.wideDir(&f, tag+"q", true, nq, []int{0, 2, 3, 0, 1, 4, 2, 0}[idx%8], 16)
	np := r.Range(8, 16)
	if idx%7 == 6 {
		np = r.Range(3, 5)
	}
	p := g.wideDir(&f, tag+"p", false, np, 0, 16)
	rs := p.Conns
	for gi, k := range q.Gens {
		switch x := (idx/2 + gi) % 6; {
		case x == 5 && r.Chance(1, 2): // no response-side node (F-C04d when it answers)
		case x == 4:
			rs = append(rs, p2s(k, ""))
		case x == 3:
			for _, t := range perm(r, p.All)[:r.Range(1, 3)] {
				rs = append(rs, p2p(k, "", t))
			}
		default: // wide hand-over
			ts := perm(r, p.All)
			m := r.Range(8, 16)
			if m > len(ts) {
				m = len(ts)
			}
			sAt := -1
			if r.Chance(1, 3) {
				sAt = r.Intn(m)
			}
			for i, t := range ts[:m] {
				if i == sAt {
					rs = append(rs, p2s(k, ""))
				}
				rs = append(rs, p2p(k, "", t))
			}
		}
	}
	f.Req = placeEntry(r, arrange(r, q.Conns), s2p(q.Root), []int{2, 1, 2, 3, 0, 2, 1, 3}[idx%8])
	rs = arrange(r, rs)
	if idx%6 != 5 { // (else: a response side without entry point, only reached by a hand-over)
		rs = placeEntry(r, rs, s2p(p.Root), []int{1, 2, 3, 2, 0}[idx%5])
	}
	f.Res = rs
	return f
}

// wideShared: the flow X other flows incorporate (`from flow X at end` on
// requests, `to flow X at start` on responses): wide on both sides, its own
// entry-point connections anywhere in its lists; only a few of its request-side
// processors lead to the stream end (= on to the referencing flow's processor).
func (g *gen) wideShared(url string, idx int) FlowCfg {
	r := g.r
	f := FlowCfg{Name: "X", URL: url}
	gm := 0
	if idx%4 == 3 {
		gm = 3
	}
	q := g.wideDir(&f, "xq", true, r.Range(8, 14), gm, 2)
	if !hasToStream(q.Conns) {
		q.Conns = append(q.Conns, p2s(q.Sibs[len(q.Sibs)-1], "hit"))
		if f.procType(q.Sibs[len(q.Sibs)-1]) != tFilter {
			q.Conns[len(q.Conns)-1] = p2s(q.Root, "miss")
		}
	}
	p := g.wideDir(&f, "xp", false, r.Range(8, 14), 0, 16)
	rs := p.Conns
	for _, k := range q.Gens {
		for _, t := range perm(r, p.All)[:r.Range(2, 9)] {
			rs = append(rs, p2p(k, "", t))
		}
	}
	f.Req = placeEntry(r, arrange(r, q.Conns), s2p(q.Root), []int{2, 1, 3, 2}[idx%4])
	f.Res = placeEntry(r, arrange(r, rs), s2p(p.Root), []int{1, 2, 2, 3}[idx%4])
	return f
}

func hasToStream(cs []Conn) bool {
	for _, cn := range cs {
		if cn.From.Kind == "proc" && cn.To.Kind == "stream" {
			return true
		}
	}
	return false
}

func (f *FlowCfg) procType(k string) string {
	for _, p := range f.Procs {
		if p.Key == k {
			return p.Type
		}
	}
	return ""
}

// genWideConfig draws the idx-th wide configuration.
func genWideConfig(r *c.Rng, idx int) (Config, string) {
	g := &gen{r: r}
	var cfg Config
	if idx%3 == 1 {
		g.quotas = []QuotaCfg{{ID: "q1", URL: c.Pick(r, []string{mainURL, "c04.test/*"}), Strategy: "concurrent", Max: 1000000}}
		if r.Chance(1, 2) {
			g.quotas = append(g.quotas, QuotaCfg{ID: "q2", URL: mainURL, Strategy: "fixed", Max: 1000000})
		}
		cfg.Quotas = g.quotas
	}
	label := "wide"
	switch idx % 4 {
	case 0, 3: // one wide flow
		cfg.Flows = []FlowCfg{g.wideFlow("A", mainURL, idx/4*2+idx%4/3)}
	case 1: // a wide flow next to an ordinary one
		cfg.Flows = []FlowCfg{g.wideFlow("A", mainURL, idx/4), g.flow("B", mainURL, 3, 2, false)}
		cfg.Flows[1].Req = moveEntry(r, cfg.Flows[1].Req, 3)
		if r.Chance(1, 2) {
			cfg.Flows[0], cfg.Flows[1] = cfg.Flows[1], cfg.Flows[0]
		}
		label = "wide+ordinary"
	default: // an ordinary flow through the wide shared flow X
		x := g.wideShared(c.Pick(r, []string{"c04.test/x", "c04.test/x", mainURL}), idx/4)
		a := g.flow("A", mainURL, 3, 2, false)
		a.Req[0] = f2p("X", a.Req[0].To.Name)
		a.Req = moveEntry(r, a.Req, []int{2, 1, 0, 3}[idx/4%4])
		done := false
		for i, cn := range a.Res {
			if cn.From.Kind == "proc" && cn.To.Kind == "stream" && (!done || r.Chance(1, 2)) {
				a.Res[i] = p2f(cn.From.Name, cn.From.Cond, "X")
				done = true
			}
		}
		cfg.Flows = []FlowCfg{a, x}
		label = "wide-incorporated"
	}
	if len(cfg.Quotas) > 0 {
		label += "+quotas"
	}
	return cfg, label
}

// wideTxns: the fan-outs run their `hit` lists when their steering headers are
// carried: all headers, none, and samples in which most are present.
func wideTxns(r *c.Rng, cfg *Config, nReq, nRes int) []Txn {
	hs := filtersOf(cfg)
	sort.Strings(hs)
	sample := func(num, den int) []string {
		var s []string
		for _, h := range hs {
			if r.Chance(num, den) {
				s = append(s, h)
			}
		}
		return s
	}
	out := []Txn{{Dir: "req", URL: mainURL, Headers: append([]string{}, hs...)}, {Dir: "req", URL: mainURL}}
	for len(out) < nReq {
		out = append(out, Txn{Dir: "req", URL: mainURL, Headers: sample(c.Pick(r, []int{7, 6, 4}), 8)})
	}
	out = append(out, Txn{Dir: "res", URL: mainURL, Headers: append([]string{}, hs...)}, Txn{Dir: "res", URL: mainURL})
	for len(out) < nReq+nRes {
		out = append(out, Txn{Dir: "res", URL: mainURL, Headers: sample(c.Pick(r, []int{7, 6, 4}), 8)})
	}
	return out
}

// maxConns / widest fan-out of a configuration (for the distribution counts).
func connStats(cfg *Config) (maxList, maxFan int, entryNotFirst bool) {
	for _, f := range cfg.Flows {
		for _, cs := range [][]Conn{f.Req, f.Res} {
			if len(cs) > maxList {
				maxList = len(cs)
			}
			fan := map[string]int{}
			for i, cn := range cs {
				if cn.From.Kind == "proc" && cn.To.Kind == "proc" {
					k := cn.From.Name + "\x00" + cn.From.Cond
					fan[k]++
					if fan[k] > maxFan {
						maxFan = fan[k]
					}
				}
				if (cn.From.Kind == "stream" || cn.From.Kind == "flow") && cn.To.Kind == "proc" && i > 0 {
					entryNotFirst = true
				}
			}
		}
	}
	return
}
