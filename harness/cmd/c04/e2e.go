// Suite "e2e": selection + graph execution + action combination in ONE run of
// the real engine, compared with the composed model theories/C04/EndToEnd.v.
//
// Configurations = the processor graphs of the C04 generator (Filter /
// GenerateResponse / Limiter / MockProcessor, flow references, quotas giving
// system flows) under REAL filters: overlapping URL patterns (literal, `{id}`,
// trailing `*`, bare `*`), method / header / query / status requirements, loaded
// by streams.NewStream().Initialize().  Transactions: URLs matching several /
// one / no flow (also host labels lined up with path segments), several methods,
// with / without the headers the filters ask for, every one through
// Stream.ExecuteFlow as routing/messages_handler.go does.
//
// Recorded: processor-executed events (verifhook "proc"), GetFlowInvocations
// deltas, the actions the engine appended (projected: kind, early-response
// fields, header map), their combination by the loop of getSPOEReqActions /
// getSPOERespActions over the public Req/RespPrioritize, and the combination of
// a SYNTHETIC action per executed processor (whole C07 alphabet) laid over the
// observed trace.  The Coq case carries configuration (filters + graphs as read
// by config.go), branch oracle, action oracles and the observables; run_e2e
// recomputes selection, execution and combination.
//
// Load order: the production loader ranges over a Go map.  C03's selection (as
// a set) does not depend on it for the sets generated here (no host/path
// collision, equal parameter names); the ORDER inside one filter node does, so
// the flows are handed to the model in an order that agrees with the relative
// order observed (VerifSelectedFlows) for flows declared on the same URL.
//
// Monitor (independent of the model; its own matcher, copied in minimal form
// from the C03 harness' spec): signatures prefixed "e2e:".
package main

import (
	"encoding/json"
	"fmt"
	"os"
	"path/filepath"
	"sort"
	"strings"

	"lunar/engine/actions"
	lunar_messages "lunar/engine/messages"
	"lunar/engine/streams"
	stream_config "lunar/engine/streams/config"
	publictypes "lunar/engine/streams/public-types"
	stream_types "lunar/engine/streams/types"
	"lunar/engine/utils/environment"

	c "verifharness/common"
)

const e2eSuite = "e2e"

const e2eRule = "; suite e2e: the same graph generator under real filters (overlapping URL patterns: literal, {id}, trailing *, " +
	"bare *; method / header / query / status requirements; several flows on one URL; quotas giving system flows), one case = one " +
	"configuration loaded by the production loader + 12 (thorough 16) transactions (URLs matching several / one / no flow, host labels " +
	"lined up with path segments, one segment more, several methods, with / without the required headers, every fourth a response); " +
	"compared per transaction: processor events, result, invoked user flows, the actions appended, their combination, and the " +
	"combination of a synthetic action per executed processor; non-trivial = some transaction ran processors of two flows and some " +
	"transaction with two or more events was answered by a processor or ran two flows"

// ---------------------------------------------------------------- data

type KV struct {
	K string `json:"k"`
	V string `json:"v"`
}

// EFilter is the filter of one flow (user flows: as written in the flow file;
// system flows: the URL of their quotas).
type EFilter struct {
	URL     string   `json:"url"`
	Methods []string `json:"methods,omitempty"`
	Headers []KV     `json:"headers,omitempty"`
	Query   []KV     `json:"query,omitempty"`
	Status  []int    `json:"status,omitempty"`
}

// EAct is an action as projected (C07's vocabulary).
type EAct struct {
	Kind    string            `json:"kind"` // none noop mod_headers mod_request gen_request early mod_response retry
	Headers map[string]string `json:"headers,omitempty"`
	Host    string            `json:"host,omitempty"`
	Path    string            `json:"path,omitempty"`
	Query   string            `json:"query,omitempty"`
	Body    string            `json:"body,omitempty"`
	Remove  []string          `json:"remove,omitempty"`
	Status  int               `json:"status,omitempty"`
}

type ARow struct {
	Flow string `json:"flow"`
	Key  string `json:"key"`
	Dir  string `json:"dir"`
	Act  EAct   `json:"action"`
}

type E2ETxn struct {
	Resp    bool   `json:"resp"`
	URL     string `json:"url"`
	Method  string `json:"method"`
	Headers []KV   `json:"headers,omitempty"` // sorted by key
	Query   []KV   `json:"query,omitempty"`
	Status  int    `json:"status"`
	// observed
	SelReq   Selection `json:"selected_for_request"`
	SelRes   Selection `json:"selected_for_response"`
	Events   []Event   `json:"events"`
	Early    []string  `json:"early_response_of_event,omitempty"` // as Txn.Early
	AllEarly []string  `json:"early_responses,omitempty"`
	Result   string    `json:"result"` // none | answered | error
	ErrText  string    `json:"error,omitempty"`
	Invoked  []string  `json:"invoked"`
	Actions  []EAct    `json:"actions"`
	Final    EAct      `json:"combined_action"`
	Oracle   []Row     `json:"oracle"`
	Real     []ARow    `json:"action_oracle_predicted"`
	Syn      []ARow    `json:"action_oracle_synthetic"`
	SynFinal EAct      `json:"combined_synthetic_action"`
	skip     bool
	orc      Oracle
}

type E2ECase struct {
	Config  Config             `json:"config"`
	Filters map[string]EFilter `json:"filters"`
	Graphs  []GFlow            `json:"graphs_as_read_by_harness,omitempty"`
	Order   []string           `json:"load_order_used_by_model,omitempty"`
	Txns    []E2ETxn           `json:"transactions"`
}

// ---------------------------------------------------------------- YAML / loading

func yamlFilter(f EFilter) string {
	var sb strings.Builder
	fmt.Fprintf(&sb, "filter:\n  url: %q\n", f.URL)
	if len(f.Methods) > 0 {
		sb.WriteString("  method:\n")
		for _, m := range f.Methods {
			fmt.Fprintf(&sb, "    - %s\n", m)
		}
	}
	kvs := func(key string, l []KV) {
		if len(l) == 0 {
			return
		}
		fmt.Fprintf(&sb, "  %s:\n", key)
		for _, kv := range l {
			fmt.Fprintf(&sb, "    - key: %q\n      value: %q\n", kv.K, kv.V)
		}
	}
	kvs("headers", f.Headers)
	kvs("query_params", f.Query)
	if len(f.Status) > 0 {
		sb.WriteString("  status_code:\n")
		for _, s := range f.Status {
			fmt.Fprintf(&sb, "    - %d\n", s)
		}
	}
	return sb.String()
}

// e2eFlowYAML = the C04 rendering of the flow with the real filter in place of
// the bare URL, and a Content-Type of its own on every GenerateResponse (the
// only header parameter the processor declares) so that the early response
// says who produced it.
func e2eFlowYAML(f *FlowCfg, flt EFilter) string {
	s := f.YAML()
	old := fmt.Sprintf("filter:\n  url: %s\n", f.URL)
	if !strings.Contains(s, old) {
		panic("e2e: flow YAML has no filter block")
	}
	s = strings.Replace(s, old, yamlFilter(flt), 1)
	for _, p := range f.Procs {
		if p.Type == tGen {
			body := fmt.Sprintf("        value: %s\n", genBody(f.Name, p.Key))
			s = strings.Replace(s, body, body+fmt.Sprintf("      - key: Content-Type\n        value: text/%s\n", p.Key), 1)
		}
	}
	return s
}

func e2eLoad(k *E2ECase) (*streams.Stream, error) {
	setupEnv()
	cwd, err := os.Getwd()
	if err != nil {
		return nil, err
	}
	base := filepath.Join(cwd, "cfg-e2e")
	os.RemoveAll(base)
	for _, d := range []string{"flows", "quotas", "pp"} {
		if err := os.MkdirAll(filepath.Join(base, d), 0o755); err != nil {
			return nil, err
		}
	}
	for i := range k.Config.Flows {
		f := &k.Config.Flows[i]
		if err := os.WriteFile(filepath.Join(base, "flows", f.Name+".yaml"), []byte(e2eFlowYAML(f, k.Filters[f.Name])), 0o644); err != nil {
			return nil, err
		}
	}
	if len(k.Config.Quotas) > 0 {
		qy := strings.ReplaceAll(k.Config.QuotaYAML(), "      url: *\n", "      url: \"*\"\n")
		if err := os.WriteFile(filepath.Join(base, "quotas", "quotas.yaml"), []byte(qy), 0o644); err != nil {
			return nil, err
		}
	}
	environment.SetStreamsFlowsDirectory(filepath.Join(base, "flows"))
	environment.SetQuotasDirectory(filepath.Join(base, "quotas"))
	environment.SetPathParamsDirectory(filepath.Join(base, "pp"))
	st, err := streams.NewStream()
	if err != nil {
		return nil, err
	}
	if err := st.Initialize(); err != nil {
		return nil, err
	}
	return st, nil
}

// ---------------------------------------------------------------- actions

func copyHdr(m map[string]string) map[string]string {
	r := map[string]string{}
	for k, v := range m {
		r[k] = v
	}
	return r
}

func projReq(a actions.ReqLunarAction) EAct {
	switch x := a.(type) {
	case nil:
		return EAct{Kind: "nil"}
	case *actions.NoOpAction:
		return EAct{Kind: "noop"}
	case *actions.ModifyHeadersAction:
		return EAct{Kind: "mod_headers", Headers: copyHdr(x.HeadersToSet)}
	case *actions.ModifyRequestAction:
		return EAct{Kind: "mod_request", Headers: copyHdr(x.HeadersToSet), Host: x.Host, Path: x.Path, Query: x.QueryParams, Body: x.Body}
	case *actions.GenerateRequestAction:
		return EAct{Kind: "gen_request", Headers: copyHdr(x.HeadersToSet), Remove: append([]string(nil), x.HeadersToRemove...), Body: x.Body}
	case *actions.EarlyResponseAction:
		return EAct{Kind: "early", Headers: copyHdr(x.Headers), Status: x.Status, Body: x.Body}
	}
	return EAct{Kind: fmt.Sprintf("other:%T", a)}
}

func projResp(a actions.RespLunarAction) EAct {
	switch x := a.(type) {
	case nil:
		return EAct{Kind: "nil"}
	case *actions.NoOpAction:
		return EAct{Kind: "noop"}
	case *actions.ModifyResponseAction:
		return EAct{Kind: "mod_response", Headers: copyHdr(x.HeadersToSet), Body: x.Body, Status: x.Status}
	case *actions.RetryRequestAction:
		return EAct{Kind: "retry", Headers: copyHdr(x.HeadersToSet)}
	}
	return EAct{Kind: fmt.Sprintf("other:%T", a)}
}

func (a EAct) req() actions.ReqLunarAction {
	switch a.Kind {
	case "noop":
		return &actions.NoOpAction{}
	case "mod_headers":
		return &actions.ModifyHeadersAction{HeadersToSet: copyHdr(a.Headers)}
	case "mod_request":
		return &actions.ModifyRequestAction{HeadersToSet: copyHdr(a.Headers), Host: a.Host, Path: a.Path, QueryParams: a.Query, Body: a.Body}
	case "gen_request":
		return &actions.GenerateRequestAction{HeadersToSet: copyHdr(a.Headers), HeadersToRemove: append([]string(nil), a.Remove...), Body: a.Body}
	case "early":
		return &actions.EarlyResponseAction{Status: a.Status, Body: a.Body, Headers: copyHdr(a.Headers)}
	}
	return nil
}

func (a EAct) resp() actions.RespLunarAction {
	switch a.Kind {
	case "noop":
		return &actions.NoOpAction{}
	case "mod_response":
		return &actions.ModifyResponseAction{HeadersToSet: copyHdr(a.Headers), Body: a.Body, Status: a.Status}
	case "retry":
		return &actions.RetryRequestAction{HeadersToSet: copyHdr(a.Headers)}
	}
	return nil
}

// the loop of routing.getSPOEReqActions / getSPOERespActions over the public
// methods (the resulting action itself is what is observed)
func foldReq(args lunar_messages.OnRequest, l []actions.ReqLunarAction) (res EAct) {
	defer func() {
		if r := recover(); r != nil {
			res = EAct{Kind: fmt.Sprint("panic:", r)}
		}
	}()
	var acc actions.ReqLunarAction = &actions.NoOpAction{}
	for _, a := range l {
		a.EnsureRequestIsUpdated(&args)
		acc = acc.ReqPrioritize(a)
	}
	return projReq(acc)
}

func foldResp(args lunar_messages.OnResponse, l []actions.RespLunarAction) (res EAct) {
	defer func() {
		if r := recover(); r != nil {
			res = EAct{Kind: fmt.Sprint("panic:", r)}
		}
	}()
	var acc actions.RespLunarAction = &actions.NoOpAction{}
	for _, a := range l {
		a.EnsureResponseIsUpdated(&args)
		acc = acc.RespPrioritize(a)
	}
	return projResp(acc)
}

// ---------------------------------------------------------------- running one transaction

func hdrMap(kvs []KV) map[string]string {
	m := map[string]string{}
	for _, kv := range kvs {
		m[kv.K] = kv.V
	}
	return m
}

func queryStr(q []KV) string {
	parts := []string{}
	for _, kv := range q {
		parts = append(parts, kv.K+"="+kv.V)
	}
	return strings.Join(parts, "&")
}

func selSafe(st *streams.Stream, api publictypes.APIStreamI, t publictypes.StreamType) (s Selection) {
	defer func() {
		if r := recover(); r != nil {
			s = Selection{Start: []string{}, User: []string{}, End: []string{}}
		}
	}()
	return sel(st, api, t)
}

func e2eRun(st *streams.Stream, t *E2ETxn) {
	txnSeq++
	id := fmt.Sprintf("e%d", txnSeq)
	var events []Event
	var api publictypes.APIStreamI
	acts := &stream_config.StreamActions{}
	reqArgs := lunar_messages.OnRequest{ID: id, SequenceID: id, Method: t.Method, Scheme: "https", URL: t.URL,
		Query: queryStr(t.Query), Headers: hdrMap(t.Headers)}
	respArgs := lunar_messages.OnResponse{ID: id, SequenceID: id, Method: t.Method, URL: t.URL, Status: t.Status,
		Headers: hdrMap(t.Headers)}
	if !t.Resp {
		api = stream_types.NewRequestAPIStream(reqArgs, shared)
		acts.Request = &stream_config.RequestStream{}
	} else {
		api = stream_types.NewResponseAPIStream(respArgs, shared)
		acts.Response = &stream_config.ResponseStream{}
	}
	empty := Selection{Start: []string{}, User: []string{}, End: []string{}}
	t.SelReq, t.SelRes = empty, empty
	if !t.Resp {
		t.SelReq = sel(st, api, publictypes.StreamTypeRequest)
	}
	// (for a request: the lookup executeReq makes after a hand-over - the stream typed
	// as a response, no response object)
	t.SelRes = selSafe(st, api, publictypes.StreamTypeResponse)
	before := st.GetFlowInvocations()
	var at []int
	evMu.Lock()
	evSink, evActs = &events, &at
	curActs = func() int {
		if acts.Request != nil {
			return len(acts.Request.Actions)
		}
		return 0
	}
	evMu.Unlock()
	var err error
	func() {
		defer func() {
			if r := recover(); r != nil {
				err = fmt.Errorf("panic: %v", r)
			}
		}()
		err = st.ExecuteFlow(api, acts)
	}()
	evMu.Lock()
	evSink, evActs, curActs = nil, nil, nil
	evMu.Unlock()
	after := st.GetFlowInvocations()
	if events == nil {
		events = []Event{}
	}
	t.Events = events
	t.Early = earlyPerEvent(len(events), at, acts)
	t.AllEarly = allEarly(acts)
	t.Invoked = []string{}
	for name, n := range after {
		for i := before[name]; i < n; i++ {
			t.Invoked = append(t.Invoked, name)
		}
	}
	sort.Strings(t.Invoked)
	t.Result, t.ErrText = "none", ""
	t.Actions = []EAct{}
	t.Final = EAct{Kind: "none"}
	if err != nil {
		t.Result, t.ErrText = "error", err.Error()
		st.OnError(id)
		return
	}
	if !t.Resp {
		for _, a := range acts.Request.Actions {
			p := projReq(a)
			t.Actions = append(t.Actions, p)
			if p.Kind == "early" {
				t.Result = "answered"
			}
		}
		// combination on fresh objects (the fold updates some actions in place)
		fresh := []actions.ReqLunarAction{}
		for _, p := range t.Actions {
			if a := p.req(); a != nil {
				fresh = append(fresh, a)
			}
		}
		t.Final = foldReq(reqArgs, fresh)
	} else {
		for _, a := range acts.Response.Actions {
			t.Actions = append(t.Actions, projResp(a))
		}
		fresh := []actions.RespLunarAction{}
		for _, p := range t.Actions {
			if a := p.resp(); a != nil {
				fresh = append(fresh, a)
			}
		}
		t.Final = foldResp(respArgs, fresh)
	}
}

// predicted action of every processor (independent of what was observed):
// request transactions: Filter -> no-op (either direction), GenerateResponse on
// the request side -> early response <status> "answered by <declaring flow>.<key>", Content-Type text/<key>,
// anything else appends nothing; response transactions: GenerateResponse ->
// no-op, anything else nothing.
func realOracle(cfg *Config, gs []GFlow, t *E2ETxn) []ARow {
	var out []ARow
	for i := range gs {
		g := &gs[i]
		for di, d := range []*GDir{&g.Req, &g.Res} {
			dn := []string{"req", "res"}[di]
			if t.Resp && dn == "req" {
				continue
			}
			for _, n := range d.Nodes {
				in := g.instOf(n.Key)
				p := cfg.proc(in)
				if p == nil {
					continue
				}
				switch {
				case !t.Resp && p.Type == tFilter:
					out = append(out, ARow{g.Name, n.Key, dn, EAct{Kind: "noop"}})
				case !t.Resp && p.Type == tGen && dn == "req":
					// the early response of the instance the configuration names
					out = append(out, ARow{g.Name, n.Key, dn, EAct{Kind: "early", Status: p.genStatus(),
						Body: genBody(in.Flow, in.Name), Headers: map[string]string{"Content-Type": "text/" + in.Name}}})
				case t.Resp && p.Type == tGen:
					out = append(out, ARow{g.Name, n.Key, dn, EAct{Kind: "noop"}})
				}
			}
		}
	}
	return out
}

var synMaps = []map[string]string{{}, {"a": "1"}, {"a": "2"}, {"b": "1"}, {"a": "1", "b": "2"}, {"a": "2", "b": "1"}}

// synthetic action oracle over the executed processors: the whole C07 alphabet
func synOracle(r *c.Rng, t *E2ETxn) []ARow {
	var out []ARow
	seen := map[string]bool{}
	for i, e := range t.Events {
		k := e.Flow + "\x00" + e.Key + "\x00" + e.Dir
		if seen[k] {
			continue
		}
		seen[k] = true
		tag := fmt.Sprintf("%d", i)
		h := copyHdr(c.Pick(r, synMaps))
		var a EAct
		if !t.Resp {
			switch x := r.Intn(12); {
			case x < 2:
				continue // appends nothing
			case x < 4:
				a = EAct{Kind: "noop"}
			case x < 6:
				a = EAct{Kind: "mod_headers", Headers: h}
			case x < 8:
				a = EAct{Kind: "mod_request", Headers: h, Host: c.Pick(r, []string{"", "h" + tag}), Path: c.Pick(r, []string{"", "/p" + tag}),
					Query: c.Pick(r, []string{"", "q=" + tag}), Body: c.Pick(r, []string{"", "b" + tag})}
			case x < 10:
				a = EAct{Kind: "gen_request", Headers: h, Remove: c.Pick(r, [][]string{nil, {"r" + tag}}), Body: "g" + tag}
			default:
				a = EAct{Kind: "early", Headers: h, Status: 400 + i, Body: "e" + tag}
			}
		} else {
			switch x := r.Intn(8); {
			case x < 1:
				continue
			case x < 3:
				a = EAct{Kind: "noop"}
			case x < 6:
				a = EAct{Kind: "mod_response", Headers: h, Body: "b" + tag, Status: 200 + i}
			default:
				a = EAct{Kind: "retry", Headers: h}
			}
		}
		out = append(out, ARow{e.Flow, e.Key, e.Dir, a})
	}
	return out
}

func findARow(rows []ARow, e Event) *EAct {
	for i := range rows {
		if rows[i].Flow == e.Flow && rows[i].Key == e.Key && rows[i].Dir == e.Dir {
			return &rows[i].Act
		}
	}
	return nil
}

// the synthetic actions laid over the observed trace, combined by the real fold
func synCombine(t *E2ETxn) (list []EAct, fin EAct) {
	list = []EAct{}
	if t.Result == "error" {
		return list, EAct{Kind: "none"}
	}
	if !t.Resp {
		l := []actions.ReqLunarAction{}
		for _, e := range t.Events {
			if a := findARow(t.Syn, e); a != nil {
				list = append(list, *a)
				l = append(l, a.req())
			}
		}
		return list, foldReq(lunar_messages.OnRequest{ID: "syn", Method: t.Method, Scheme: "https", URL: t.URL,
			Headers: hdrMap(t.Headers)}, l)
	}
	l := []actions.RespLunarAction{}
	for _, e := range t.Events {
		if a := findARow(t.Syn, e); a != nil {
			list = append(list, *a)
			l = append(l, a.resp())
		}
	}
	return list, foldResp(lunar_messages.OnResponse{ID: "syn", Method: t.Method, URL: t.URL, Status: t.Status,
		Headers: hdrMap(t.Headers)}, l)
}

// ---------------------------------------------------------------- monitor: the spec matcher (minimal copy)

type e2ePart struct {
	host bool
	tok  string
}

func e2eSplit(url string) []e2ePart {
	url = strings.Trim(url, "./")
	hostStr, pathStr, hasPath := strings.Cut(url, "/")
	out := []e2ePart{}
	for _, l := range strings.Split(hostStr, ".") {
		out = append(out, e2ePart{true, l})
	}
	if hasPath {
		for _, s := range strings.Split(pathStr, "/") {
			out = append(out, e2ePart{false, s})
		}
	}
	return out
}

const (
	vNo  = 0 // the filter does not accept
	vMay = 1 // the text does not decide
	vYes = 2
)

// literal = same token, same kind; {p} = exactly one part of that kind; trailing
// * = at least one further part (whether it may also swallow parts of the other
// kind, or nothing at all, is not decided here: May)
func e2eURL(pat, url string) int {
	p, u := e2eSplit(pat), e2eSplit(url)
	for i, x := range p {
		if x.tok == "*" && i == len(p)-1 {
			if i >= len(u) {
				return vMay
			}
			if u[i].host == x.host {
				return vYes
			}
			return vMay
		}
		if i >= len(u) || u[i].host != x.host {
			return vNo
		}
		isParam := len(x.tok) >= 2 && x.tok[0] == '{' && x.tok[len(x.tok)-1] == '}'
		if !isParam && x.tok != u[i].tok {
			return vNo
		}
	}
	if len(u) == len(p) {
		return vYes
	}
	return vNo
}

var e2eDefaultMethods = map[string]bool{"GET": true, "POST": true, "PUT": true, "DELETE": true, "PATCH": true}

// the flow's own requirements; asResp: judged for the transaction typed as a
// response (headers / query are request-side requirements)
func e2eConstraints(f *EFilter, system bool, t *E2ETxn, asResp bool) int {
	v := vYes
	if len(f.Methods) > 0 {
		ok := false
		for _, m := range f.Methods {
			ok = ok || m == t.Method
		}
		if !ok {
			return vNo
		}
	} else if system && !e2eDefaultMethods[t.Method] {
		v = vMay
	}
	if asResp {
		if len(f.Status) > 0 {
			// a status requirement is met by a response carrying one of the codes; a
			// request that a processor answered has no response: not met
			ok := false
			for _, s := range f.Status {
				ok = ok || (t.Resp && s == t.Status)
			}
			if !ok {
				return vNo
			}
		}
		if len(f.Headers)+len(f.Query) > 0 {
			v = vMay
		}
		return v
	}
	have := hdrMap(t.Headers)
	for _, h := range f.Headers {
		if got, ok := have[strings.ToLower(h.K)]; !ok || got != h.V {
			return vNo
		}
	}
	q := hdrMap(t.Query)
	for _, kv := range f.Query {
		if got, ok := q[kv.K]; !ok || got != kv.V {
			return vNo
		}
	}
	return v
}

func e2eAccepts(f *EFilter, system bool, t *E2ETxn, asResp bool) int {
	u := e2eURL(f.URL, t.URL)
	k := e2eConstraints(f, system, t, asResp)
	if u < k {
		return u
	}
	return k
}

func sameHdr(a, b map[string]string) bool {
	if len(a) != len(b) {
		return false
	}
	for k, v := range a {
		if w, ok := b[k]; !ok || w != v {
			return false
		}
	}
	return true
}

func e2eMonitor(k *E2ECase, gs []GFlow, t *E2ETxn) []c.Hit {
	var hits []c.Hit
	mini := E2ECase{Config: k.Config, Filters: k.Filters, Txns: []E2ETxn{*t}}
	hit := func(sig, dem, obs string) {
		hits = append(hits, c.Hit{Suite: e2eSuite, Signature: sig, Demanded: dem, Observed: obs, Case: mini})
	}
	kindOf := map[string]string{}
	for i := range gs {
		kindOf[gs[i].Name] = gs[i].Kind
	}
	// (1) a processor of flow F ran => F's own filter accepts the transaction
	for _, e := range t.Events {
		f, ok := k.Filters[e.Flow]
		if !ok {
			hit("e2e:unknown-flow-ran", "only configured flows run", e.String())
			continue
		}
		asResp := t.Resp || e.Dir == "res"
		if e2eAccepts(&f, kindOf[e.Flow] != "user", t, asResp) == vNo {
			sig := "e2e:unmatched-flow-ran:constraint"
			if e2eURL(f.URL, t.URL) == vNo {
				sig = "e2e:unmatched-flow-ran:url"
			}
			hit(sig, fmt.Sprintf("flow %s (filter %+v) runs only for transactions its own filter accepts", e.Flow, f),
				fmt.Sprintf("processor %s ran for %s %s headers=%v", e.String(), t.Method, t.URL, t.Headers))
			break
		}
	}
	// (2) no filter accepts => nothing ran, no action, nobody invoked
	any := false
	for name, f := range k.Filters {
		f := f
		if e2eAccepts(&f, kindOf[name] != "user", t, t.Resp) != vNo {
			any = true
		}
	}
	if !any && (len(t.Events) > 0 || len(t.Actions) > 0 || len(t.Invoked) > 0 || t.Result != "none") {
		hit("e2e:no-match-not-untouched", "no filter accepts the transaction: no processor runs, no action, no invocation",
			fmt.Sprintf("events=%v actions=%d invoked=%v result=%s", t.Events, len(t.Actions), t.Invoked, t.Result))
	}
	// (3) group order: start-system, user, end-system (both directions, same group order)
	rank := map[string]int{"start": 0, "user": 1, "end": 2}
	for _, d := range []string{"req", "res"} {
		last := -1
		for _, e := range t.Events {
			if e.Dir != d {
				continue
			}
			r := rank[kindOf[e.Flow]]
			if r < last {
				hit("e2e:group-order:"+d, "system-start flows, then user flows, then system-end flows", fmt.Sprint(t.Events))
				break
			}
			last = r
		}
	}
	// (3b) which processor ran at a node: the one its connection names
	{
		var hs []string
		for _, h := range t.Headers {
			if h.V == "1" {
				hs = append(hs, h.K)
			}
		}
		if dir, dem, obs, bad := instanceHit(&k.Config, gs, t.Events, t.Early, t.AllEarly, hs); bad {
			hit("e2e:wrong-processor-instance:"+dir, dem, obs)
			return hits
		}
	}
	if t.Result == "error" {
		// an error is never what the text asks for; the open finding F-C04d (the
		// processor that answered has no node on the response side of its flow) has
		// its own signature
		var d *Event
		if t.orc != nil && !t.Resp {
			d = droppedAnswer(gs, t.Events, t.orc)
		}
		if h, ok := droppedHit(d, t.Result, t.ErrText); ok {
			hit(h.Signature, h.Demanded, h.Observed)
		} else {
			hit("e2e:unexpected-error", "the transaction is handled", "error: "+t.ErrText)
		}
		return hits
	}
	// (4) early response: it is the final action, unchanged; nothing of a later
	// user flow ran on the request side
	if !t.Resp {
		first := -1
		for i, a := range t.Actions {
			if a.Kind == "early" {
				first = i
				break
			}
		}
		ansAt := -1
		for i, e := range t.Events {
			if e.Dir != "req" {
				continue
			}
			var p *Proc
			if g := flowByName(gs, e.Flow); g != nil {
				p = procOf(&k.Config, g.Owner[e.Key], e.Key)
			}
			if p != nil && p.Type == tGen {
				ansAt = i
				break
			}
		}
		if first >= 0 {
			a := t.Actions[first]
			if t.Final.Kind != "early" || t.Final.Status != a.Status || t.Final.Body != a.Body || !sameHdr(t.Final.Headers, a.Headers) {
				hit("e2e:early-not-final", fmt.Sprintf("the early response %+v is the resulting action", a), fmt.Sprintf("%+v", t.Final))
			}
		} else if t.Final.Kind == "early" {
			hit("e2e:early-invented", "no processor produced an early response", fmt.Sprintf("%+v", t.Final))
		}
		if ansAt >= 0 {
			if first < 0 {
				hit("e2e:early-lost", "a processor answered the request: its early response is among the actions",
					fmt.Sprintf("events=%v actions=%v", t.Events, t.Actions))
			}
			for _, e := range t.Events[ansAt+1:] {
				if e.Dir == "req" && kindOf[e.Flow] != "end" {
					hit("e2e:ran-after-early", "after a processor answered the request nothing more runs on the request side except system-end flows",
						fmt.Sprintf("%s ran after %s", e.String(), t.Events[ansAt].String()))
					break
				}
			}
		}
	}
	// (6) every flow that ran walked its own graph: from its entry point, or -
	// the flow in which a processor answered the request, on the response side -
	// from the response connections of that processor
	if t.orc != nil {
		type fd struct{ f, d string }
		obs := map[fd][]Event{}
		var order []fd
		ansFlow, ansKey := "", ""
		for _, e := range t.Events {
			kk := fd{e.Flow, e.Dir}
			if _, ok := obs[kk]; !ok {
				order = append(order, kk)
			}
			obs[kk] = append(obs[kk], e)
			if ansFlow == "" && !t.Resp && e.Dir == "req" && t.orc.get(e.Flow, e.Key, "req").Early {
				ansFlow, ansKey = e.Flow, e.Key
			}
		}
		for _, kk := range order {
			f := flowByName(gs, kk.f)
			if f == nil {
				continue
			}
			d := &f.Req
			if kk.d == "res" {
				d = &f.Res
			}
			var starts []string
			if d.Root != "" {
				starts = []string{d.Root}
			}
			handOver := !t.Resp && kk.d == "res" && kk.f == ansFlow
			if handOver {
				cp := f.Res.node(ansKey)
				if cp == nil {
					continue // the text presupposes a response connection
				}
				starts = nil
				for _, e := range cp.Edges {
					if e.To != "" {
						starts = append(starts, e.To)
					}
				}
			}
			want, _ := refWalk(f, kk.d, starts, t.orc)
			if !sameEvents(obs[kk], want) {
				sig := "e2e:walk-mismatch:" + kk.d
				if handOver {
					sig = "e2e:hand-over-continuation"
				}
				hit(sig, fmt.Sprintf("flow %s %s runs %s", kk.f, kk.d, evString(want)), "ran "+evString(obs[kk]))
				break
			}
		}
	}
	// (5) the synthetic actions over the observed trace: first early response wins
	// unchanged; otherwise header edits merge, the later one winning
	list, _ := synCombine(t)
	if !t.Resp && len(list) > 0 {
		first := -1
		for i, a := range list {
			if a.Kind == "early" {
				first = i
				break
			}
		}
		if first >= 0 {
			a := list[first]
			f := t.SynFinal
			if f.Kind != "early" || f.Status != a.Status || f.Body != a.Body || !sameHdr(f.Headers, a.Headers) {
				hit("e2e:early-not-final:synthetic", fmt.Sprintf("the first early response %+v of %v is the resulting action", a, list), fmt.Sprintf("%+v", f))
			}
		} else {
			want := map[string]string{}
			nonNoop := false
			for _, a := range list {
				if a.Kind != "noop" {
					nonNoop = true
				}
				for k, v := range a.Headers {
					want[k] = v
				}
			}
			f := t.SynFinal
			switch {
			case f.Kind == "early":
				hit("e2e:early-invented:synthetic", "no early response among "+fmt.Sprint(list), fmt.Sprintf("%+v", f))
			case nonNoop && f.Kind == "noop":
				hit("e2e:modification-lost:synthetic", "a modification among "+fmt.Sprint(list), fmt.Sprintf("%+v", f))
			case !sameHdr(f.Headers, want):
				hit("e2e:header-union:synthetic", fmt.Sprintf("header edits of %v merged, later wins: %v", list, want), fmt.Sprintf("%+v", f))
			}
		}
	}
	return hits
}

// ---------------------------------------------------------------- load order

// modelOrder: the configuration's flows in an order that agrees, for flows
// declared on the same URL, with the relative order in which the engine
// returned them (Go-map load order).
func modelOrder(k *E2ECase, gs []GFlow) ([]string, bool) {
	before := map[string]map[string]bool{}
	note := func(l []string) {
		for i := range l {
			for j := i + 1; j < len(l); j++ {
				a, b := l[i], l[j]
				if k.Filters[a].URL != k.Filters[b].URL {
					continue
				}
				if before[a] == nil {
					before[a] = map[string]bool{}
				}
				before[a][b] = true
			}
		}
	}
	for i := range k.Txns {
		for _, s := range []Selection{k.Txns[i].SelReq, k.Txns[i].SelRes} {
			note(s.Start)
			note(s.User)
			note(s.End)
		}
	}
	var names, out []string
	for i := range gs {
		names = append(names, gs[i].Name)
	}
	done := map[string]bool{}
	for len(out) < len(names) {
		progressed := false
		for _, n := range names {
			if done[n] {
				continue
			}
			ready := true
			for _, m := range names {
				if !done[m] && m != n && before[m][n] {
					ready = false
				}
			}
			if ready {
				out = append(out, n)
				done[n] = true
				progressed = true
				break
			}
		}
		if !progressed {
			return names, false
		}
	}
	return out, true
}

// ---------------------------------------------------------------- Coq printing

func qs(s string) string {
	for i := 0; i < len(s); i++ {
		if s[i] < 32 || s[i] > 126 {
			panic("e2e: non-printable string in a case")
		}
	}
	return `"` + strings.ReplaceAll(s, `"`, `""`) + `"`
}

func coqKV(l []KV) string {
	return c.MapList(l, func(kv KV) string { return "KV " + qs(kv.K) + " " + qs(kv.V) })
}

func coqHdrs(m map[string]string) string {
	var l []KV
	for k, v := range m {
		l = append(l, KV{k, v})
	}
	sort.Slice(l, func(i, j int) bool { return l[i].K < l[j].K })
	return coqKV(l)
}

func coqAct(a EAct) string {
	switch a.Kind {
	case "noop":
		return "ANoOp"
	case "mod_headers":
		return "(AModH " + coqHdrs(a.Headers) + ")"
	case "mod_request":
		return "(AModReq " + coqHdrs(a.Headers) + " " + qs(a.Host) + " " + qs(a.Path) + " " + qs(a.Query) + " " + qs(a.Body) + ")"
	case "gen_request":
		return "(AGen " + coqHdrs(a.Headers) + " " + c.MapList(a.Remove, qs) + " " + qs(a.Body) + ")"
	case "early":
		return "(AEarly " + c.Z(int64(a.Status)) + " " + qs(a.Body) + " " + coqHdrs(a.Headers) + ")"
	case "mod_response":
		return "(AModResp " + coqHdrs(a.Headers) + " " + qs(a.Body) + " " + c.Z(int64(a.Status)) + ")"
	case "retry":
		return "(ARetry " + coqHdrs(a.Headers) + ")"
	}
	return "ANone" // none / nil / anything the model does not know: never equal to a model action
}

func coqGDir(d *GDir, keys *interner) string {
	root := int64(-1)
	if d.Root != "" {
		root = keys.id(d.Root)
	}
	return "(GD " + c.Z(root) + " " + c.MapList(d.Nodes, func(n GNode) string {
		return "GN " + c.Z(keys.id(n.Key)) + " " + c.MapList(n.Edges, func(e GEdge) string {
			to := int64(-1)
			if e.To != "" {
				to = keys.id(e.To)
			}
			return "GE " + c.Z(condID(e.Cond)) + " " + c.Z(to)
		})
	}) + ")"
}

func coqE2E(k *E2ECase, gs []GFlow) string {
	keys := &interner{m: map[string]int64{}}
	fl := &interner{m: map[string]int64{}}
	byName := map[string]*GFlow{}
	for i := range gs {
		byName[gs[i].Name] = &gs[i]
	}
	kindID := map[string]int64{"user": 0, "start": 1, "end": 2}
	flows := c.MapList(k.Order, func(n string) string {
		g := byName[n]
		f := k.Filters[n]
		st := make([]int64, len(f.Status))
		for i, s := range f.Status {
			st[i] = int64(s)
		}
		return "FL " + strings.Join([]string{c.Z(fl.id(n)), c.Z(kindID[g.Kind]), qs(f.URL), c.MapList(f.Methods, qs),
			coqKV(f.Headers), coqKV(f.Query), c.ZList(st), coqGDir(&g.Req, keys), coqGDir(&g.Res, keys)}, " ")
	})
	arows := func(rows []ARow) string {
		return c.MapList(rows, func(r ARow) string {
			return "AR " + c.Z(fl.id(r.Flow)) + " " + c.Z(keys.id(r.Key)) + " " + c.B(r.Dir == "req") + " " + coqAct(r.Act)
		})
	}
	var txns []string
	for i := range k.Txns {
		t := &k.Txns[i]
		if t.skip {
			continue
		}
		tx := "(TX " + strings.Join([]string{c.B(t.Resp), qs(t.URL), qs(t.Method), coqKV(t.Headers), coqKV(t.Query), c.Z(int64(t.Status))}, " ") + ")"
		orc := c.MapList(t.Oracle, func(r Row) string {
			return "OR " + c.Z(fl.id(r.Flow)) + " " + c.Z(keys.id(r.Key)) + " " + c.B(r.Dir == "req") + " " + c.Z(condID(r.Cond)) + " " + c.B(r.Early)
		})
		evs := c.MapList(t.Events, func(e Event) string {
			return "EV " + c.Z(fl.id(e.Flow)) + " " + c.Z(keys.id(e.Key)) + " " + c.B(e.Dir == "req") + " " + c.Z(condID(e.Cond))
		})
		code := map[string]int64{"none": 0, "answered": 1, "error": 2}[t.Result]
		inv := []int64{}
		for _, n := range t.Invoked {
			inv = append(inv, fl.id(n))
		}
		sort.Slice(inv, func(a, b int) bool { return inv[a] < inv[b] })
		fin, synFin := t.Final, t.SynFinal
		if t.Result == "error" { // nothing is sent: the model says the neutral action
			fin, synFin = EAct{Kind: "noop"}, EAct{Kind: "noop"}
		}
		txns = append(txns, "TC "+strings.Join([]string{tx, orc, arows(t.Real), arows(t.Syn), evs, c.Z(code), c.ZList(inv),
			c.MapList(t.Actions, coqAct), coqAct(fin), coqAct(synFin)}, " "))
	}
	return "E2E " + flows + " " + c.List(txns)
}

// ---------------------------------------------------------------- generation

var e2ePatterns = []string{
	"e2e.test/v1/items", "e2e.test/v1/items", "e2e.test/v1/items", "e2e.test/v1/*", "e2e.test/v1/*", "e2e.test/*", "*",
	"e2e.test/v1/{id}", "e2e.test/v1/{id}/sub", "e2e.test/v1/items/sub", "e2e.test/v2/items", "e2e.test/v1",
}

// (a quota file holds one host)
var e2eQuotaPatterns = []string{"e2e.test/v1/items", "e2e.test/*", "e2e.test/v1/*", "e2e.test/v2/items", "e2e.test/v1/{id}"}

func e2eGenFilters(r *c.Rng, cfg *Config) map[string]EFilter {
	out := map[string]EFilter{}
	// status requirements also next to processors that answer requests: the second
	// GetFlow (the request typed as a response, no response object) does not satisfy
	// them (repo fix 22527f1; before it that lookup dereferenced the missing response)
	for i := range cfg.Flows {
		f := &cfg.Flows[i]
		flt := EFilter{URL: c.Pick(r, e2ePatterns)}
		if i == 0 && r.Chance(2, 3) {
			flt.URL = "e2e.test/v1/items"
		}
		if r.Chance(1, 3) {
			flt.Methods = c.Pick(r, [][]string{{"POST"}, {"GET"}, {"GET", "POST"}, {"HEAD", "GET"}})
		}
		if r.Chance(1, 4) {
			flt.Headers = c.Pick(r, [][]KV{{{"x-tenant", "a"}}, {{"x-tenant", "b"}}, {{"x-tenant", "a"}, {"x-mode", "m"}}})
		}
		if r.Chance(1, 8) {
			flt.Query = []KV{{"v", "1"}}
		}
		if r.Chance(1, 4) {
			flt.Status = c.Pick(r, [][]int{{200}, {404}, {200, 201}})
		}
		f.URL = flt.URL
		out[f.Name] = flt
	}
	for i := range cfg.Quotas {
		cfg.Quotas[i].URL = c.Pick(r, e2eQuotaPatterns)
	}
	return out
}

func instanceOf(pat string, r *c.Rng) string {
	parts := strings.Split(pat, "/")
	for i, p := range parts {
		switch {
		case p == "*" && i == 0:
			parts[i] = c.Pick(r, []string{"other.test/v1/items", "e2e.test/v1/items", "e2e.test"})
		case p == "*":
			parts[i] = c.Pick(r, []string{"items", "zz", "items/sub", "zz/y"})
		case strings.HasPrefix(p, "{"):
			parts[i] = c.Pick(r, []string{"42", "items"})
		}
	}
	return strings.Join(parts, "/")
}

func e2eTxns(r *c.Rng, k *E2ECase, n int) []E2ETxn {
	cfg := &k.Config
	names := []string{}
	for n := range k.Filters {
		names = append(names, n)
	}
	sort.Strings(names) // (never range over the map itself: the PRNG draws must not depend on its order)
	mainU := instanceOf(k.Filters[cfg.Flows[0].Name].URL, r)
	// host labels lined up with the path segments of the pattern; one segment
	// more / less; nothing matches
	odd := []string{"e2e.test/v1", "nomatch.example/zz", "e2e.test"}
	if i := strings.Index(mainU, "/"); i >= 0 {
		odd = append(odd, mainU[:i]+"."+mainU[i+1:], mainU+"/more")
	}
	steer := filtersOf(cfg)
	sort.Strings(steer)
	needHdr := [][]KV{nil}
	needQ := false
	methods := []string{"HEAD", "PUT"}
	for _, nme := range names {
		f := k.Filters[nme]
		if len(f.Headers) > 0 {
			needHdr = append(needHdr, f.Headers, f.Headers, []KV{{f.Headers[0].K, "zz"}})
		}
		if len(f.Query) > 0 {
			needQ = true
		}
		methods = append(methods, f.Methods...)
	}
	var out []E2ETxn
	for len(out) < n {
		t := E2ETxn{URL: mainU}
		switch x := r.Intn(8); {
		case x < 4:
			t.Method = "GET"
		case x < 6:
			t.Method = "POST"
		default:
			t.Method = c.Pick(r, methods)
		}
		if len(out) == 1 {
			t.Method = "POST"
		}
		if len(out) >= 2 {
			switch x := r.Intn(20); {
			case x < 10:
			case x < 17:
				t.URL = instanceOf(k.Filters[c.Pick(r, names)].URL, r)
			default:
				t.URL = c.Pick(r, odd)
			}
		}
		hm := map[string]string{}
		switch x := r.Intn(4); {
		case len(out) == 0 || x == 0: // every Filter hits
			for _, h := range steer {
				hm[h] = "1"
			}
		case x == 1: // none
		default:
			for _, h := range steer {
				if r.Chance(1, 2) {
					hm[h] = "1"
				}
			}
		}
		for _, kv := range c.Pick(r, needHdr) {
			hm[kv.K] = kv.V
		}
		for hk, hv := range hm {
			t.Headers = append(t.Headers, KV{hk, hv})
		}
		sort.Slice(t.Headers, func(i, j int) bool { return t.Headers[i].K < t.Headers[j].K })
		if needQ && r.Chance(2, 3) {
			t.Query = []KV{{"v", c.Pick(r, []string{"1", "1", "2"})}}
		}
		if len(out)%4 == 3 {
			t.Resp = true
			t.Status = c.Pick(r, []int{200, 200, 404, 201})
		}
		out = append(out, t)
	}
	return out
}

// ---------------------------------------------------------------- one configuration

func e2eExec(o *c.Out, k *E2ECase, label string) {
	gs, err := k.Config.Compile()
	if err != nil {
		panic(fmt.Sprintf("e2e: generator produced a configuration the harness cannot read: %v", err))
	}
	for i := range gs {
		if gs[i].Kind != "user" {
			// system flows: the filter of their quotas (URL only)
			for _, q := range k.Config.Quotas {
				if strings.HasPrefix(gs[i].Name, "SystemFlow_"+q.ID+"_") {
					k.Filters[gs[i].Name] = EFilter{URL: q.URL}
				}
			}
		}
	}
	st, err := e2eLoad(k)
	if err != nil {
		o.Count("e2e:loader-rejected")
		loadErrors++
		if loadErrors <= 5 {
			fmt.Fprintf(os.Stderr, "e2e: loader rejected a configuration: %v\n", err)
		}
		return
	}
	o.Count("e2e:configs:" + label)
	r := o.Rng.Fork(uint64(len(k.Txns))*977 + 13)
	kept := 0
	for i := range k.Txns {
		t := &k.Txns[i]
		e2eRun(st, t)
		ct := Txn{Dir: "req", URL: t.URL, Events: t.Events}
		if t.Resp {
			ct.Dir = "res"
		}
		for _, h := range t.Headers {
			if h.V == "1" {
				ct.Headers = append(ct.Headers, h.K)
			}
		}
		orc, rows, consistent := oracle(&k.Config, gs, &ct)
		t.orc = orc
		if !consistent {
			o.Count("e2e:skipped:stateful-processor-changed-output-within-transaction")
			t.skip = true
			continue
		}
		kept++
		t.Oracle = rows
		t.Real = realOracle(&k.Config, gs, t)
		t.Syn = synOracle(r, t)
		_, t.SynFinal = synCombine(t)
	}
	order, ok := modelOrder(k, gs)
	k.Order = order
	k.Graphs = gs
	if !ok {
		o.Hit(c.Hit{Suite: e2eSuite, Signature: "e2e:selection-order-inconsistent",
			Demanded: "flows declared on one URL are returned in one relative order for every transaction",
			Observed: "the observed selections order them both ways", Case: *k})
	}
	multi, rich := false, false
	for i := range k.Txns {
		t := &k.Txns[i]
		if t.skip {
			continue
		}
		flows := map[string]bool{}
		for _, e := range t.Events {
			flows[e.Flow] = true
		}
		if len(flows) >= 2 {
			multi = true
		}
		if len(t.Events) >= 2 && (t.Result == "answered" || len(flows) >= 2) {
			rich = true
		}
		o.Count("e2e:txn:result=" + t.Result)
		if !t.Resp && t.orc != nil {
			// a request answered by a processor of a flow that lists status codes: the
			// flow is not found again by the second lookup (no response object)
			for _, e := range t.Events {
				if e.Dir == "req" && t.orc.get(e.Flow, e.Key, "req").Early {
					if len(k.Filters[e.Flow].Status) > 0 {
						o.Count("e2e:txn:answered-in-flow-with-status-filter")
					}
					break
				}
			}
		}
		o.Count(fmt.Sprintf("e2e:txn:flows-ran=%d", len(flows)))
		if len(t.Events) == 0 {
			o.Count("e2e:txn:nothing-selected")
		}
	}
	o.CountN("e2e:transactions", kept)
	js := *k
	js.Graphs = nil
	idx := o.Case(e2eSuite, coqE2E(k, gs), js, multi && rich)
	for i := range k.Txns {
		t := &k.Txns[i]
		if t.skip {
			continue
		}
		o.MonitorChecked(1)
		for _, h := range e2eMonitor(k, gs, t) {
			h.Index = idx
			o.Hit(h)
			if f := os.Getenv("C04_DUMP_HITS"); f != "" {
				if fh, err := os.OpenFile(f, os.O_APPEND|os.O_CREATE|os.O_WRONLY, 0o644); err == nil {
					fmt.Fprintf(fh, "e2e %d %s\n", idx, h.Signature)
					fh.Close()
				}
			}
		}
	}
}

// hand-written configurations: the first cases of every run
func e2eFixed() []E2ECase {
	u := "e2e.test/v1/items"
	twoUsers := Config{Flows: []FlowCfg{
		{Name: "A", URL: "e2e.test/v1/*", Procs: []Proc{filt("f1"), gen1("g"), filt("w")},
			Req: []Conn{s2p("f1"), p2p("f1", "hit", "g"), p2s("f1", "miss")},
			Res: []Conn{s2p("w"), p2s("w", "hit"), p2s("g", "")}},
		{Name: "B", URL: u, Procs: []Proc{filt("f2"), filt("t2")},
			Req: []Conn{s2p("f2"), p2s("f2", "hit")},
			Res: []Conn{s2p("t2"), p2s("t2", "hit")}}},
		Quotas: []QuotaCfg{{"q1", "e2e.test/*", "fixed", 1000000}, {"q2", "e2e.test/v1/*", "concurrent", 1000000}}}
	sameURL := Config{Flows: []FlowCfg{
		{Name: "A", URL: u, Procs: []Proc{filt("f1"), gen1("g")},
			Req: []Conn{s2p("f1"), p2p("f1", "hit", "g"), p2s("f1", "miss")},
			Res: []Conn{p2s("g", "")}},
		{Name: "B", URL: u, Procs: []Proc{filt("f2"), gen1("g2")},
			Req: []Conn{s2p("f2"), p2p("f2", "hit", "g2"), p2s("f2", "miss")},
			Res: []Conn{p2s("g2", "")}},
		{Name: "C", URL: u, Procs: []Proc{filt("f3")},
			Req: []Conn{s2p("f3"), p2s("f3", "hit")}, Res: []Conn{s2s()}}}}
	hdr := func(names ...string) []KV {
		var l []KV
		for _, n := range names {
			l = append(l, KV{n, "1"})
		}
		sort.Slice(l, func(i, j int) bool { return l[i].K < l[j].K })
		return l
	}
	// a status requirement on the flow whose processor answers the request: the
	// request is answered, the flow is not found again (no response object), the
	// other flow runs its response side from its entry point
	withStatus := Config{Flows: []FlowCfg{
		{Name: "A", URL: u, Procs: []Proc{filt("f1"), gen1("g"), filt("w"), filt("t1")},
			Req: []Conn{s2p("f1"), p2p("f1", "hit", "g"), p2s("f1", "miss")},
			Res: []Conn{s2p("w"), p2s("w", "hit"), p2p("g", "", "t1"), p2s("t1", "hit")}},
		{Name: "B", URL: u, Procs: []Proc{filt("f2"), filt("t2")},
			Req: []Conn{s2p("f2"), p2s("f2", "hit")},
			Res: []Conn{s2p("t2"), p2s("t2", "hit")}}}}
	return []E2ECase{
		{Config: withStatus, Filters: map[string]EFilter{"A": {URL: u, Status: []int{200}}, "B": {URL: u}},
			Txns: []E2ETxn{
				{URL: u, Method: "POST", Headers: hdr("x-f1", "x-f2", "x-t1", "x-t2")},
				{URL: u, Method: "GET", Headers: hdr("x-f2")},
				{Resp: true, URL: u, Method: "GET", Status: 200, Headers: hdr("x-w", "x-t2")},
				{Resp: true, URL: u, Method: "GET", Status: 404, Headers: hdr("x-w", "x-t2")},
			}},
		{Config: twoUsers, Filters: map[string]EFilter{"A": {URL: "e2e.test/v1/*"}, "B": {URL: u, Methods: []string{"POST"}}},
			Txns: []E2ETxn{
				{URL: u, Method: "POST", Headers: hdr("x-f1", "x-f2", "x-w", "x-t2")},
				{URL: u, Method: "POST", Headers: hdr("x-f2")},
				{URL: u, Method: "GET", Headers: hdr("x-f1", "x-f2")},
				{URL: u, Method: "HEAD", Headers: hdr("x-f1")},
				{URL: "e2e.test/v1/zz", Method: "POST", Headers: hdr("x-f2")},
				{URL: "e2e.test.v1/items", Method: "POST", Headers: hdr("x-f1", "x-f2")},
				{URL: "nomatch.example/zz", Method: "OPTIONS"},
				{Resp: true, URL: u, Method: "POST", Status: 200, Headers: hdr("x-w", "x-t2")},
				{Resp: true, URL: u, Method: "GET", Status: 200, Headers: hdr("x-w")},
			}},
		{Config: sameURL, Filters: map[string]EFilter{"A": {URL: u}, "B": {URL: u, Headers: []KV{{"x-tenant", "a"}}}, "C": {URL: u, Methods: []string{"GET"}}},
			Txns: []E2ETxn{
				{URL: u, Method: "GET", Headers: append(hdr("x-f1", "x-f2", "x-f3"), KV{"x-tenant", "a"})},
				{URL: u, Method: "GET", Headers: append(hdr("x-f2", "x-f3"), KV{"x-tenant", "a"})},
				{URL: u, Method: "GET", Headers: append(hdr("x-f3"), KV{"x-tenant", "a"})},
				{URL: u, Method: "GET", Headers: append(hdr("x-f2", "x-f3"), KV{"x-tenant", "b"})},
				{URL: u, Method: "POST", Headers: hdr("x-f2")},
				{URL: u + "/more", Method: "GET", Headers: hdr("x-f1")},
				{Resp: true, URL: u, Method: "GET", Status: 200},
			}},
	}
}

func e2eLabel(cfg *Config) string {
	label := "one-flow"
	if len(cfg.Flows) > 1 {
		label = "several-flows"
	}
	for _, f := range cfg.Flows {
		if f.Name == "X" {
			label = "flow-reference"
		}
	}
	if len(cfg.Quotas) > 0 {
		label += "+quotas"
	}
	return label
}

// e2eReplay re-executes a recorded e2e case (whole case or a monitor's
// single-transaction case).
func e2eReplay(o *c.Out) bool {
	if o.Replay == "" {
		return false
	}
	raw, err := os.ReadFile(o.Replay)
	if err != nil {
		return false
	}
	var r struct {
		Suite string          `json:"suite"`
		Case  json.RawMessage `json:"case"`
	}
	if json.Unmarshal(raw, &r) != nil || r.Suite != e2eSuite {
		return false
	}
	var k E2ECase
	if err := json.Unmarshal(r.Case, &k); err != nil {
		panic(err)
	}
	for i := range k.Txns {
		t := &k.Txns[i]
		k.Txns[i] = E2ETxn{Resp: t.Resp, URL: t.URL, Method: t.Method, Headers: t.Headers, Query: t.Query, Status: t.Status}
	}
	user := map[string]EFilter{}
	for _, f := range k.Config.Flows {
		user[f.Name] = k.Filters[f.Name]
	}
	k.Filters = user
	e2eExec(o, &k, "replay")
	return true
}

func e2eDeclare(o *c.Out) {
	o.DeclareSuite(e2eSuite, "From Coq Require Import String.\nFrom Verif Require Import C04.EndToEnd.\nOpen Scope string_scope.",
		"case_e2e", "run_e2e")
}

// e2eMain generates and runs the suite.
func e2eMain(o *c.Out) {
	for _, k := range e2eFixed() {
		k := k
		e2eExec(o, &k, "hand-written")
	}
	r := o.Rng.Fork(424242)
	n := o.Scale(260, 2600, 1500)
	for i := 0; i < n; i++ {
		cr := r.Fork(uint64(i) + 7)
		cfg := genConfig(cr, o.Thorough() || i%3 == 0)
		k := E2ECase{Config: cfg}
		k.Filters = e2eGenFilters(cr, &k.Config)
		k.Txns = e2eTxns(cr, &k, o.Scale(12, 16, 12))
		e2eExec(o, &k, e2eLabel(&cfg))
	}
}
