// Debugging aid (`c04 probe`): a few hand-written configurations, printed.
package main

import (
	"encoding/json"
	"fmt"
)

func probe() {
	type pc struct {
		name string
		cfg  Config
		txns []Txn
	}
	u := "c04.test/a"
	all := []string{"x-f1", "x-f2", "x-f3", "x-t1", "x-t2", "x-w"}
	cases := []pc{
		{"fanout Gen,F2 rootless response", Config{Flows: []FlowCfg{{Name: "A", URL: u,
			Procs: []Proc{filt("F1"), filt("F2"), gen1("G"), filt("T1")},
			Req:   []Conn{s2p("F1"), p2p("F1", "hit", "G"), p2p("F1", "hit", "F2"), p2s("F2", "hit")},
			Res:   []Conn{p2p("G", "", "T1"), p2s("T1", "hit")}}}},
			[]Txn{{Dir: "req", URL: u, Headers: all}}},
		{"fanout F2,Gen rooted response", Config{Flows: []FlowCfg{{Name: "A", URL: u,
			Procs: []Proc{filt("F1"), filt("F2"), gen1("G"), filt("T1"), filt("W")},
			Req:   []Conn{s2p("F1"), p2p("F1", "hit", "F2"), p2p("F1", "hit", "G"), p2s("F2", "hit")},
			Res:   []Conn{s2p("W"), p2s("W", "hit"), p2p("G", "", "T1"), p2s("T1", "hit")}}}},
			[]Txn{{Dir: "req", URL: u, Headers: all}, {Dir: "res", URL: u, Headers: all}}},
		{"no response counterpart", Config{Flows: []FlowCfg{{Name: "A", URL: u,
			Procs: []Proc{filt("F1"), gen1("G"), filt("W")},
			Req:   []Conn{s2p("F1"), p2p("F1", "hit", "G")},
			Res:   []Conn{s2p("W"), p2s("W", "hit")}}}},
			[]Txn{{Dir: "req", URL: u, Headers: all}}},
		{"counterpart without connection", Config{Flows: []FlowCfg{{Name: "A", URL: u,
			Procs: []Proc{filt("F1"), gen1("G"), filt("W")},
			Req:   []Conn{s2p("F1"), p2p("F1", "hit", "G")},
			Res:   []Conn{s2p("W"), p2p("W", "hit", "G")}}}},
			[]Txn{{Dir: "req", URL: u, Headers: all}}},
		{"counterpart with two connections", Config{Flows: []FlowCfg{{Name: "A", URL: u,
			Procs: []Proc{filt("F1"), gen1("G"), filt("W"), filt("T1"), filt("T2")},
			Req:   []Conn{s2p("F1"), p2p("F1", "hit", "G")},
			Res:   []Conn{s2p("W"), p2s("W", "hit"), p2p("G", "", "T1"), p2p("G", "", "T2"), p2s("T1", "hit"), p2s("T2", "hit")}}}},
			[]Txn{{Dir: "req", URL: u, Headers: all}}},
		{"counterpart first connection to stream", Config{Flows: []FlowCfg{{Name: "A", URL: u,
			Procs: []Proc{filt("F1"), gen1("G"), filt("W"), filt("T1")},
			Req:   []Conn{s2p("F1"), p2p("F1", "hit", "G")},
			Res:   []Conn{s2p("W"), p2s("W", "hit"), p2s("G", ""), p2p("G", "", "T1"), p2s("T1", "hit")}}}},
			[]Txn{{Dir: "req", URL: u, Headers: all}}},
		{"two user flows, quota fixed + concurrent", Config{Flows: []FlowCfg{
			{Name: "A", URL: u, Procs: []Proc{filt("F1"), gen1("G"), filt("W")},
				Req: []Conn{s2p("F1"), p2p("F1", "hit", "G"), p2s("F1", "miss")},
				Res: []Conn{s2p("W"), p2s("W", "hit"), p2s("G", "")}},
			{Name: "B", URL: u, Procs: []Proc{filt("F2"), filt("T2"), mock("M")},
				Req: []Conn{s2p("F2"), p2p("F2", "hit", "M"), p2s("M", "output_1")},
				Res: []Conn{s2p("T2"), p2s("T2", "hit")}}},
			Quotas: []QuotaCfg{{"q1", "c04.test/*", "fixed", 1000000}, {"q2", u, "concurrent", 1000000}}},
			[]Txn{{Dir: "req", URL: u, Headers: all}, {Dir: "req", URL: u, Headers: []string{"x-f2"}}, {Dir: "res", URL: u, Headers: all}}},
		{"flow references", Config{Flows: []FlowCfg{
			{Name: "A", URL: u, Procs: []Proc{filt("F1"), gen1("G"), filt("W")},
				Req: []Conn{f2p("X", "F1"), p2p("F1", "hit", "G"), p2s("F1", "miss")},
				Res: []Conn{s2p("W"), p2f("W", "hit", "X"), p2f("G", "", "X")}},
			{Name: "X", URL: "c04.test/x", Procs: []Proc{filt("F2"), filt("F3"), filt("T2")},
				Req: []Conn{s2p("F2"), p2p("F2", "hit", "F3"), p2s("F2", "miss"), p2s("F3", "hit")},
				Res: []Conn{s2p("T2"), p2s("T2", "hit")}}}},
			[]Txn{{Dir: "req", URL: u, Headers: all}, {Dir: "req", URL: u, Headers: []string{"x-f2", "x-f3"}}, {Dir: "res", URL: u, Headers: all}}},
	}
	cases = append(cases, pc{"two quotas same filter", Config{Flows: []FlowCfg{
		{Name: "A", URL: u, Procs: []Proc{filt("F1")}, Req: []Conn{s2p("F1"), p2s("F1", "hit")}, Res: []Conn{s2s()}}},
		Quotas: []QuotaCfg{{"q1", u, "fixed", 1000000}, {"q2", u, "concurrent", 1000000}, {"q3", u, "concurrent", 1000000}}},
		[]Txn{{Dir: "req", URL: u, Headers: all}, {Dir: "res", URL: u, Headers: all}}})
	ab := []string{"x-a-k", "x-b-k", "x-f1", "x-w"}
	cases = append(cases,
		pc{"A uses B.k and declares its own k (Filter/Filter)", Config{Flows: []FlowCfg{
			{Name: "A", URL: u, Procs: []Proc{filt("f1"), filtH("k", "x-a-k"), filt("w")},
				Req: []Conn{s2p("f1"), p2p("f1", "hit", "B.k"), p2s("B.k", "hit")},
				Res: []Conn{s2p("k"), p2s("k", "hit")}},
			{Name: "B", URL: "c04.test/other", Procs: []Proc{filtH("k", "x-b-k")},
				Req: []Conn{s2p("k"), p2s("k", "hit")}, Res: []Conn{s2s()}}}},
			[]Txn{{Dir: "req", URL: u, Headers: []string{"x-f1", "x-a-k"}}, {Dir: "req", URL: u, Headers: []string{"x-f1", "x-b-k"}}, {Dir: "res", URL: u, Headers: ab}}},
		pc{"A uses B.k (Filter) and declares its own k (Gen)", Config{Flows: []FlowCfg{
			{Name: "A", URL: u, Procs: []Proc{filt("f1"), genS("k", 503), filt("w")},
				Req: []Conn{s2p("f1"), p2p("f1", "hit", "B.k"), p2s("B.k", "hit"), p2p("f1", "miss", "k")},
				Res: []Conn{s2p("w"), p2s("w", "hit"), p2s("k", "")}},
			{Name: "B", URL: "c04.test/other", Procs: []Proc{filtH("k", "x-b-k")},
				Req: []Conn{s2p("k"), p2s("k", "hit")}, Res: []Conn{s2s()}}}},
			[]Txn{{Dir: "req", URL: u, Headers: []string{"x-f1", "x-b-k"}}, {Dir: "req", URL: u, Headers: nil}}},
		pc{"A uses B.k (Gen) and declares its own k (Gen)", Config{Flows: []FlowCfg{
			{Name: "A", URL: u, Procs: []Proc{filt("f1"), genS("k", 503), filt("w")},
				Req: []Conn{s2p("f1"), p2p("f1", "hit", "B.k"), p2p("f1", "miss", "k")},
				Res: []Conn{s2p("w"), p2s("w", "hit"), p2s("k", ""), p2s("B.k", "")}},
			{Name: "B", URL: u, Procs: []Proc{filt("f2"), genS("k", 418)},
				Req: []Conn{s2p("f2"), p2p("f2", "hit", "k"), p2s("f2", "miss")}, Res: []Conn{p2s("k", "")}}}},
			[]Txn{{Dir: "req", URL: u, Headers: []string{"x-f1"}}, {Dir: "req", URL: u, Headers: nil}, {Dir: "req", URL: u, Headers: []string{"x-f2"}}}},
	)
	for _, k := range cases {
		fmt.Println("=====", k.name)
		st, err := Load(&k.cfg)
		if err != nil {
			fmt.Println("LOAD ERROR", err)
			continue
		}
		g, err := k.cfg.Compile()
		b, _ := json.Marshal(g)
		fmt.Println("graph", string(b), err)
		for _, t := range k.txns {
			Run(st, &t)
			fmt.Println(t.Dir, t.Headers, "->", t.Events, t.Early, t.Result, t.ErrText, "sel", t.SelReq, t.SelRes)
		}
	}
}
