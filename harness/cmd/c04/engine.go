// Drives the real engine: writes a configuration to disk, loads it through
// streams.NewStream().Initialize(), runs one transaction and records the
// processor-executed events (verifhook) and the kind of the resulting action.
package main

import (
	"fmt"
	"os"
	"path/filepath"
	"sync"

	"lunar/engine/actions"
	lunar_messages "lunar/engine/messages"
	"lunar/engine/streams"
	stream_config "lunar/engine/streams/config"
	lunar_context "lunar/engine/streams/lunar-context"
	publictypes "lunar/engine/streams/public-types"
	stream_types "lunar/engine/streams/types"
	"lunar/engine/utils/environment"
	"lunar/engine/verifhook"
	context_manager "lunar/toolkit-core/context-manager"
)

type Event struct {
	Flow string `json:"flow"`
	Key  string `json:"key"`
	Dir  string `json:"dir"` // req | res
	Cond string `json:"cond"`
}

func (e Event) String() string { return e.Flow + ":" + e.Key + "/" + e.Dir + "=" + e.Cond }

type Selection struct {
	Found bool     `json:"found"`
	Start []string `json:"start"`
	User  []string `json:"user"`
	End   []string `json:"end"`
}

// Txn is one transaction: a request (with the hand-over to the response flows
// when a processor answers it) or a response.
type Txn struct {
	Dir     string   `json:"dir"` // req | res
	URL     string   `json:"url"`
	Headers []string `json:"headers"` // header names carried with value "1"
	// filled by the engine run
	SelReq Selection `json:"selected_for_request"`
	SelRes Selection `json:"selected_for_response"`
	Events []Event   `json:"events"`
	// Early[i]: the early response the processor of Events[i] appended to the
	// actions while it ran ("" = none), as "<status> <body>": its content says
	// which processor INSTANCE ran (config.go genBody)
	Early    []string `json:"early_response_of_event"`
	AllEarly []string `json:"early_responses"` // every early response among the actions, in order
	Result   string   `json:"result"`          // none | answered | error
	ErrText  string   `json:"error,omitempty"`
	NActions int      `json:"actions"`
}

var (
	evMu    sync.Mutex
	evSink  *[]Event
	evActs  *[]int     // number of actions already appended when the event fired
	curActs func() int // reads that number off the action list of the running transaction
	cfgSeq  int
	shared  = lunar_context.NewMemoryState[[]byte]()
	txnSeq  int
	envOnce sync.Once
)

func repoDir() string {
	if r := os.Getenv("VERIF_REPO"); r != "" {
		return r
	}
	return "/repo"
}

func dirName(t publictypes.StreamType) string {
	if t.IsRequestType() {
		return "req"
	}
	if t.IsResponseType() {
		return "res"
	}
	return t.String()
}

func setupEnv() {
	envOnce.Do(func() {
		environment.SetProcessorsDirectory(filepath.Join(repoDir(),
			"proxy/src/services/lunar-engine/streams/processors/registry"))
		context_manager.Get().SetMockClock()
		verifhook.SetEvent(func(kind string, args ...string) {
			if kind != "proc" || len(args) < 4 {
				return
			}
			evMu.Lock()
			defer evMu.Unlock()
			if evSink != nil {
				d := "res"
				if args[2] == publictypes.StreamTypeRequest.String() {
					d = "req"
				}
				*evSink = append(*evSink, Event{args[0], args[1], d, args[3]})
				if evActs != nil && curActs != nil {
					*evActs = append(*evActs, curActs())
				}
			}
		})
	})
}

// Load writes the configuration into a fresh directory under the harness cwd
// and initialises a new engine from it.
func Load(c *Config) (st *streams.Stream, err error) {
	defer func() { // a loader that panics has not accepted the configuration
		if r := recover(); r != nil {
			st, err = nil, fmt.Errorf("panic while loading: %v", r)
		}
	}()
	setupEnv()
	cwd, err := os.Getwd()
	if err != nil {
		return nil, err
	}
	cfgSeq++
	base := filepath.Join(cwd, "cfg")
	os.RemoveAll(base)
	for _, d := range []string{"flows", "quotas", "pp"} {
		if err := os.MkdirAll(filepath.Join(base, d), 0o755); err != nil {
			return nil, err
		}
	}
	for _, f := range c.Flows {
		if err := os.WriteFile(filepath.Join(base, "flows", f.Name+".yaml"), []byte(f.YAML()), 0o644); err != nil {
			return nil, err
		}
	}
	if len(c.Quotas) > 0 {
		if err := os.WriteFile(filepath.Join(base, "quotas", "quotas.yaml"), []byte(c.QuotaYAML()), 0o644); err != nil {
			return nil, err
		}
	}
	environment.SetStreamsFlowsDirectory(filepath.Join(base, "flows"))
	environment.SetQuotasDirectory(filepath.Join(base, "quotas"))
	environment.SetPathParamsDirectory(filepath.Join(base, "pp"))
	st, err = streams.NewStream()
	if err != nil {
		return nil, err
	}
	if err = st.Initialize(); err != nil {
		return nil, err
	}
	return st, nil
}

func headerMap(names []string) map[string]string {
	m := map[string]string{}
	for _, h := range names {
		m[h] = "1"
	}
	return m
}

func sel(st *streams.Stream, api publictypes.APIStreamI, t publictypes.StreamType) Selection {
	s, u, e, ok := st.VerifSelectedFlows(api, t)
	if !ok {
		return Selection{Start: []string{}, User: []string{}, End: []string{}}
	}
	return Selection{true, s, u, e}
}

// earlyPerEvent: per event the early response ("<status> <body>", "" = none) among
// the request actions appended between that event and the next one.
func earlyPerEvent(n int, at []int, acts *stream_config.StreamActions) []string {
	out := make([]string, n)
	if acts.Request == nil {
		return out
	}
	for i := 0; i < n && i < len(at); i++ {
		hi := len(acts.Request.Actions)
		if i+1 < len(at) {
			hi = at[i+1]
		}
		for j := at[i]; j < hi && j < len(acts.Request.Actions); j++ {
			if a, ok := acts.Request.Actions[j].(*actions.EarlyResponseAction); ok && out[i] == "" {
				out[i] = fmt.Sprintf("%d %s", a.Status, a.Body)
			}
		}
	}
	return out
}

func allEarly(acts *stream_config.StreamActions) []string {
	out := []string{}
	if acts.Request != nil {
		for _, x := range acts.Request.Actions {
			if a, ok := x.(*actions.EarlyResponseAction); ok {
				out = append(out, fmt.Sprintf("%d %s", a.Status, a.Body))
			}
		}
	}
	return out
}

// Run executes one transaction the way routing/messages_handler.go does.
func Run(st *streams.Stream, t *Txn) {
	txnSeq++
	id := fmt.Sprintf("t%d", txnSeq)
	var events []Event
	var api publictypes.APIStreamI
	acts := &stream_config.StreamActions{}
	if t.Dir == "req" {
		api = stream_types.NewRequestAPIStream(lunar_messages.OnRequest{
			ID: id, SequenceID: id, Method: "GET", Scheme: "https", URL: t.URL,
			Headers: headerMap(t.Headers),
		}, shared)
		acts.Request = &stream_config.RequestStream{}
	} else {
		api = stream_types.NewResponseAPIStream(lunar_messages.OnResponse{
			ID: id, SequenceID: id, Method: "GET", URL: t.URL, Status: 200,
			Headers: headerMap(t.Headers),
		}, shared)
		acts.Response = &stream_config.ResponseStream{}
	}
	// a request is selected for as a request and, when a processor answers it,
	// again as a response; a response only as a response
	t.SelReq = Selection{Start: []string{}, User: []string{}, End: []string{}}
	if t.Dir == "req" {
		t.SelReq = selSafe(st, api, publictypes.StreamTypeRequest)
	}
	t.SelRes = selSafe(st, api, publictypes.StreamTypeResponse)
	// the hook fires after a processor ran and before its action is appended: the
	// actions appended between two events belong to the first of them
	var at []int
	evMu.Lock()
	evSink, evActs = &events, &at
	curActs = func() int {
		if acts.Request != nil {
			return len(acts.Request.Actions)
		}
		return 0
	}
	evMu.Unlock()
	var err error
	func() {
		defer func() {
			if r := recover(); r != nil {
				err = fmt.Errorf("panic: %v", r)
			}
		}()
		err = st.ExecuteFlow(api, acts)
	}()
	evMu.Lock()
	evSink, evActs, curActs = nil, nil, nil
	evMu.Unlock()
	if events == nil {
		events = []Event{}
	}
	t.Events = events
	t.Early = earlyPerEvent(len(events), at, acts)
	t.AllEarly = allEarly(acts)
	t.Result = "none"
	t.ErrText = ""
	if err != nil {
		t.Result = "error"
		t.ErrText = err.Error()
		// a failed request may leave a quota slot registered for it
		st.OnError(id)
		return
	}
	if t.Dir == "req" {
		t.NActions = len(acts.Request.Actions)
		for _, a := range acts.Request.Actions {
			if _, ok := a.(*actions.EarlyResponseAction); ok {
				t.Result = "answered"
			}
		}
	} else {
		t.NActions = len(acts.Response.Actions)
	}
}
