// Configuration vocabulary of the C04 harness: flows as they are written in
// YAML (processors + connection lists), quotas, the YAML rendering, and the
// harness' OWN reading of a configuration as one graph per flow and direction
// (the implementation's flow builder is not consulted).
package main

import (
	"fmt"
	"sort"
	"strings"
)

const (
	tFilter = "Filter"
	tGen    = "GenerateResponse"
	tMock   = "MockProcessor"
	tLimit  = "Limiter"
)

// Proc is one entry of a flow's `processors:` section.
type Proc struct {
	Key   string `json:"key"`
	Type  string `json:"type"`
	Hdr   string `json:"header,omitempty"` // Filter: hits iff the transaction carries <Hdr>: 1
	Quota string `json:"quota,omitempty"`  // Limiter
	// GenerateResponse: status of the early response (0 = 429).  Together with the
	// body ("answered by <declaring flow>.<key>") it says which processor INSTANCE
	// produced an early response: the same key may be declared by several flows.
	Status int `json:"status,omitempty"`
}

// genStatus / genBody: the content of the early response of a GenerateResponse
// processor declared by flow `owner`.
func (p *Proc) genStatus() int {
	if p.Status == 0 {
		return 429
	}
	return p.Status
}
func genBody(owner, key string) string { return "answered by " + owner + "." + key }

// End is one side of a connection.
type End struct {
	Kind string `json:"kind"` // stream | proc | flow
	Name string `json:"name,omitempty"`
	Cond string `json:"cond,omitempty"` // from-processor only
}

type Conn struct {
	From End `json:"from"`
	To   End `json:"to"`
}

type FlowCfg struct {
	Name  string `json:"name"`
	URL   string `json:"url"`
	Procs []Proc `json:"processors"`
	Req   []Conn `json:"request"`
	Res   []Conn `json:"response"`
}

type QuotaCfg struct {
	ID       string `json:"id"`
	URL      string `json:"url"`
	Strategy string `json:"strategy"` // fixed | concurrent
	Max      int    `json:"max"`
}

type Config struct {
	Flows  []FlowCfg  `json:"flows"`
	Quotas []QuotaCfg `json:"quotas,omitempty"`
}

func (c *Config) flow(name string) *FlowCfg {
	for i := range c.Flows {
		if c.Flows[i].Name == name {
			return &c.Flows[i]
		}
	}
	return nil
}

// proc: the declaration of a processor instance (nil: a quota system processor
// or nothing declared under that name).
func (c *Config) proc(i Inst) *Proc {
	f := c.flow(i.Flow)
	if f == nil {
		return nil
	}
	for k := range f.Procs {
		if f.Procs[k].Key == i.Name {
			return &f.Procs[k]
		}
	}
	return nil
}

// ------------------------------------------------------------------ YAML

func yamlEnd(sb *strings.Builder, side string, e End, dirIsFrom bool) {
	fmt.Fprintf(sb, "      %s:\n", side)
	switch e.Kind {
	case "stream":
		at := "end"
		if dirIsFrom {
			at = "start"
		}
		fmt.Fprintf(sb, "        stream:\n          name: globalStream\n          at: %s\n", at)
	case "flow":
		at := "start"
		if dirIsFrom {
			at = "end"
		}
		fmt.Fprintf(sb, "        flow:\n          name: %s\n          at: %s\n", e.Name, at)
	case "proc":
		fmt.Fprintf(sb, "        processor:\n          name: %s\n", e.Name)
		if e.Cond != "" {
			fmt.Fprintf(sb, "          condition: %s\n", e.Cond)
		}
	}
}

func yamlConns(sb *strings.Builder, conns []Conn) {
	for _, c := range conns {
		var one strings.Builder
		yamlEnd(&one, "from", c.From, true)
		yamlEnd(&one, "to", c.To, false)
		s := one.String()
		sb.WriteString("    - " + s[6:]) // first line carries the list dash
	}
}

func (f *FlowCfg) YAML() string {
	var sb strings.Builder
	fmt.Fprintf(&sb, "name: %s\nfilter:\n  url: %s\nprocessors:\n", f.Name, f.URL)
	for _, p := range f.Procs {
		fmt.Fprintf(&sb, "  %s:\n    processor: %s\n", p.Key, p.Type)
		switch p.Type {
		case tFilter:
			fmt.Fprintf(&sb, "    parameters:\n      - key: header\n        value: %s=1\n", p.Hdr)
		case tGen:
			fmt.Fprintf(&sb, "    parameters:\n      - key: status\n        value: %d\n      - key: body\n        value: %s\n", p.genStatus(), genBody(f.Name, p.Key))
		case tLimit:
			fmt.Fprintf(&sb, "    parameters:\n      - key: quota_id\n        value: %s\n", p.Quota)
		}
	}
	sb.WriteString("flow:\n  request:\n")
	yamlConns(&sb, f.Req)
	sb.WriteString("  response:\n")
	yamlConns(&sb, f.Res)
	return sb.String()
}

func (c *Config) QuotaYAML() string {
	var sb strings.Builder
	sb.WriteString("quotas:\n")
	for _, q := range c.Quotas {
		fmt.Fprintf(&sb, "  - id: %s\n    filter:\n      url: %s\n    strategy:\n", q.ID, q.URL)
		if q.Strategy == "concurrent" {
			fmt.Fprintf(&sb, "      concurrent:\n        max_request_count: %d\n", q.Max)
		} else {
			fmt.Fprintf(&sb, "      fixed_window:\n        max: %d\n        interval: 1\n        interval_unit: minute\n", q.Max)
		}
	}
	return sb.String()
}

// ------------------------------------------------------------------ graphs

// GEdge: To == "" means "to the stream" (end of walk).
type GEdge struct {
	Cond string `json:"cond"`
	To   string `json:"to"`
}
type GNode struct {
	Key   string  `json:"key"`
	Edges []GEdge `json:"edges"`
}
type GDir struct {
	Root  string  `json:"root"` // "" = no entry point
	Nodes []GNode `json:"nodes"`
}
type GFlow struct {
	Name string `json:"name"`
	Kind string `json:"kind"` // user | start | end
	Req  GDir   `json:"request"`
	Res  GDir   `json:"response"`
	// Owner[key] = flow whose `processors:` section declares the processor
	Owner map[string]string `json:"owner"`
	// the processor references of the connections, per direction, in the order
	// the connection lists are read (a referenced flow's connections where the
	// reference stands): input of the Coq model's node -> instance resolution
	ReqRefs []Mention `json:"request_refs,omitempty"`
	ResRefs []Mention `json:"response_refs,omitempty"`
}

// Mention: connection list of flow Cur names processor Ref ("k" or "G.k").
type Mention struct {
	Cur string `json:"in_flow"`
	Ref string `json:"ref"`
}

// Inst names a processor instance: the flow whose `processors:` section declares
// it and its key there.
type Inst struct {
	Flow string `json:"flow"`
	Name string `json:"name"`
}

func (i Inst) String() string { return i.Flow + "." + i.Name }

// splitRef: "G.k" -> ("G", "k"); "k" -> ("", "k").
func splitRef(ref string) (by, name string) {
	if i := strings.Index(ref, "."); i >= 0 {
		return ref[:i], ref[i+1:]
	}
	return "", ref
}

// instOf: the instance the CONFIGURATION names for node `key` of flow g (the
// text's reading: "G.k" is processor k of flow G, a plain key is the processor
// of the flow whose connections mention it).
func (g *GFlow) instOf(key string) Inst {
	if by, name := splitRef(key); by != "" {
		return Inst{by, name}
	}
	if o, ok := g.Owner[key]; ok && o != "" {
		return Inst{o, key}
	}
	return Inst{g.Name, key}
}

func (d *GDir) node(key string) *GNode {
	for i := range d.Nodes {
		if d.Nodes[i].Key == key {
			return &d.Nodes[i]
		}
	}
	return nil
}
func (d *GDir) ensure(key string) *GNode {
	if n := d.node(key); n != nil {
		return n
	}
	d.Nodes = append(d.Nodes, GNode{Key: key})
	return &d.Nodes[len(d.Nodes)-1]
}
func (d *GDir) addEdge(from, cond, to string) {
	d.ensure(from)
	if to != "" {
		d.ensure(to)
	}
	n := d.node(from)
	for _, e := range n.Edges { // the same connection written twice is one connection
		if e.Cond == cond && e.To == to {
			return
		}
	}
	n.Edges = append(n.Edges, GEdge{cond, to})
}

// plainDir reads the connections of a flow that refers to no other flow.
func plainDir(conns []Conn) (GDir, error) {
	var d GDir
	for _, c := range conns {
		switch {
		case c.From.Kind == "stream" && c.To.Kind == "proc":
			d.ensure(c.To.Name)
			d.Root = c.To.Name
		case c.From.Kind == "proc" && c.To.Kind == "proc":
			d.addEdge(c.From.Name, c.From.Cond, c.To.Name)
		case c.From.Kind == "proc" && c.To.Kind == "stream":
			d.addEdge(c.From.Name, c.From.Cond, "")
		case c.From.Kind == "stream" && c.To.Kind == "stream":
		default:
			return d, fmt.Errorf("not a plain connection")
		}
	}
	return d, nil
}

// Compile gives the harness' reading of the configuration:
//   - request  "from flow X at end -> processor P": the walk enters at X's entry
//     point, runs X's request graph, and where X would reach the stream it goes
//     on at P;
//   - response "processor P [condition c] -> flow X at start": after P (on c) the
//     walk goes on at X's response entry point and runs X's response graph.
//
// Referenced flows are plain (they refer to no further flow).
func (c *Config) Compile() ([]GFlow, error) {
	var out []GFlow
	for _, f := range c.Flows {
		g := GFlow{Name: f.Name, Kind: "user", Owner: map[string]string{}}
		for _, p := range f.Procs {
			g.Owner[p.Key] = f.Name
		}
		for di, conns := range [][]Conn{f.Req, f.Res} {
			isReq := di == 0
			var d GDir
			var refs []Mention
			// the processors a connection list names, in the order the loader reads them
			var note func(cur string, conns []Conn)
			// (a reference repeated in the same connection list is listed once: only
			// the first mention of a node key creates the node)
			add := func(m Mention) {
				for _, x := range refs {
					if x == m {
						return
					}
				}
				refs = append(refs, m)
			}
			note = func(cur string, conns []Conn) {
				for _, cn := range conns {
					if cn.From.Kind == "proc" {
						add(Mention{cur, cn.From.Name})
					}
					if cn.To.Kind == "proc" {
						add(Mention{cur, cn.To.Name})
					}
					var x *FlowCfg
					if cn.From.Kind == "flow" {
						x = c.flow(cn.From.Name)
					} else if cn.To.Kind == "flow" {
						x = c.flow(cn.To.Name)
					}
					if x != nil && x.Name != cur {
						if isReq {
							note(x.Name, x.Req)
						} else {
							note(x.Name, x.Res)
						}
					}
				}
			}
			note(f.Name, conns)
			for _, cn := range conns {
				switch {
				case cn.From.Kind == "flow":
					if !isReq || cn.To.Kind != "proc" {
						return nil, fmt.Errorf("unsupported flow reference")
					}
					x := c.flow(cn.From.Name)
					xd, err := plainDir(x.Req)
					if err != nil || xd.Root == "" {
						return nil, fmt.Errorf("referenced flow is not plain")
					}
					for _, p := range x.Procs {
						g.Owner[p.Key] = x.Name
					}
					d.ensure(cn.To.Name)
					for _, n := range xd.Nodes {
						d.ensure(n.Key)
						for _, e := range n.Edges {
							to := e.To
							if to == "" {
								to = cn.To.Name
							}
							d.addEdge(n.Key, e.Cond, to)
						}
					}
					d.Root = xd.Root
				case cn.To.Kind == "flow":
					if isReq || cn.From.Kind != "proc" {
						return nil, fmt.Errorf("unsupported flow reference")
					}
					x := c.flow(cn.To.Name)
					xd, err := plainDir(x.Res)
					if err != nil || xd.Root == "" {
						return nil, fmt.Errorf("referenced flow is not plain")
					}
					for _, p := range x.Procs {
						g.Owner[p.Key] = x.Name
					}
					d.ensure(cn.From.Name)
					for _, n := range xd.Nodes {
						d.ensure(n.Key)
						for _, e := range n.Edges {
							d.addEdge(n.Key, e.Cond, e.To)
						}
					}
					d.addEdge(cn.From.Name, cn.From.Cond, xd.Root)
				case cn.From.Kind == "stream" && cn.To.Kind == "proc":
					d.ensure(cn.To.Name)
					d.Root = cn.To.Name
				case cn.From.Kind == "proc" && cn.To.Kind == "proc":
					d.addEdge(cn.From.Name, cn.From.Cond, cn.To.Name)
				case cn.From.Kind == "proc" && cn.To.Kind == "stream":
					d.addEdge(cn.From.Name, cn.From.Cond, "")
				}
			}
			if isReq {
				g.Req, g.ReqRefs = d, refs
			} else {
				g.Res, g.ResRefs = d, refs
			}
		}
		out = append(out, g)
	}
	// system flows of quotas: one start flow per distinct quota filter holding the
	// request-start processors of the quotas with that filter (in a chain), one
	// end flow holding the response-end processors.
	byURL := map[string][]QuotaCfg{}
	var urls []string
	for _, q := range c.Quotas {
		if _, ok := byURL[q.URL]; !ok {
			urls = append(urls, q.URL)
		}
		byURL[q.URL] = append(byURL[q.URL], q)
	}
	sort.Strings(urls)
	chain := func(keys []string) GDir {
		d := GDir{Root: keys[0]}
		for i, k := range keys {
			to := ""
			if i+1 < len(keys) {
				to = keys[i+1]
			}
			d.Nodes = append(d.Nodes, GNode{Key: k, Edges: []GEdge{{"", to}}})
		}
		return d
	}
	for _, u := range urls {
		qs := byURL[u]
		var incs, decs []string
		owner := map[string]string{}
		for _, q := range qs { // in the order the quotas are listed in the file
			id := strings.ReplaceAll(q.ID, ".", "")
			incs = append(incs, id+"_QuotaProcessorInc")
			owner[id+"_QuotaProcessorInc"] = ""
			if q.Strategy == "concurrent" {
				decs = append(decs, id+"_QuotaProcessorDec")
				owner[id+"_QuotaProcessorDec"] = ""
			}
		}
		refsOf := func(flow string, keys []string) []Mention {
			var ms []Mention
			for _, k := range keys {
				ms = append(ms, Mention{flow, k})
			}
			return ms
		}
		sn := "SystemFlow_" + qs[0].ID + "_SYSTEM_FLOW_START"
		out = append(out, GFlow{Name: sn, Kind: "start", Req: chain(incs), Owner: owner, ReqRefs: refsOf(sn, incs)})
		if len(decs) > 0 {
			en := "SystemFlow_" + qs[0].ID + "_SYSTEM_FLOW_END"
			out = append(out, GFlow{Name: en, Kind: "end", Res: chain(decs), Owner: owner, ResRefs: refsOf(en, decs)})
		}
	}
	return out, nil
}
