// Generator of configurations (1-3 user flows over the real processor
// vocabulary, optional flow references and quotas) and of transactions.
package main

import (
	"fmt"
	"strings"

	c "verifharness/common"
)

const mainURL = "c04.test/a"

// outputs a processor type may be asked about in a connection, per direction
func condsOf(typ string, isReq bool) []string {
	switch typ {
	case tFilter:
		return []string{"hit", "miss"}
	case tMock:
		return []string{"output_1", "output_2"}
	case tLimit:
		if isReq {
			return []string{"below_limit", "above_limit"}
		}
	case tGen:
		if !isReq {
			return []string{""}
		}
	}
	return nil
}

type gen struct {
	r      *c.Rng
	quotas []QuotaCfg
}

func (g *gen) hasEdge(conns []Conn, from, cond, to string) bool {
	for _, cn := range conns {
		if cn.From.Kind == "proc" && cn.From.Name == from && cn.From.Cond == cond {
			if (to == "" && cn.To.Kind == "stream") || (to != "" && cn.To.Kind == "proc" && cn.To.Name == to) {
				return true
			}
		}
	}
	return false
}

func (g *gen) edge(conns *[]Conn, from, cond, to string) {
	if g.hasEdge(*conns, from, cond, to) {
		return
	}
	if to == "" {
		*conns = append(*conns, p2s(from, cond))
	} else {
		*conns = append(*conns, p2p(from, cond, to))
	}
}

// flow generates one plain flow (no references yet).
func (g *gen) flow(name, url string, maxReq, maxRes int, needResRoot bool) FlowCfg {
	r := g.r
	f := FlowCfg{Name: name, URL: url}
	pre := strings.ToLower(name)
	typeOf := map[string]string{}
	newProc := func(typ string, idx int) string {
		k := fmt.Sprintf("%s%s%d", pre, map[string]string{tFilter: "f", tGen: "g", tMock: "m", tLimit: "l"}[typ], idx)
		p := Proc{Key: k, Type: typ}
		if typ == tFilter {
			p.Hdr = "x-" + k
		}
		if typ == tLimit {
			p.Quota = c.Pick(r, g.quotas).ID
		}
		f.Procs = append(f.Procs, p)
		typeOf[k] = typ
		return k
	}
	// ---- request direction: node 0 is the entry point, edges go forward
	n := r.Range(1, maxReq)
	var req []string
	for i := 0; i < n; i++ {
		typ := tFilter
		if i > 0 {
			switch x := r.Intn(10); {
			case x < 5:
				typ = tFilter
			case x < 8:
				typ = tGen
			case x < 9:
				typ = tMock
			default:
				if len(g.quotas) > 0 {
					typ = tLimit
				}
			}
		}
		req = append(req, newProc(typ, i))
	}
	var rc []Conn
	for i, k := range req {
		cs := condsOf(typeOf[k], true)
		if cs == nil {
			continue
		}
		ne := r.Range(0, 3)
		if i == 0 && ne == 0 {
			ne = 1
		}
		for e := 0; e < ne; e++ {
			cond := c.Pick(r, cs)
			if typeOf[k] == tFilter && r.Chance(2, 3) {
				cond = cs[0] // favour fan-out on the same condition
			}
			to := ""
			if i+1 < n && r.Chance(4, 5) {
				to = req[r.Range(i+1, n-1)]
			}
			g.edge(&rc, k, cond, to)
		}
	}
	// the loader wants every processor to have a connection or be a target
	for i := 1; i < n; i++ {
		k := req[i]
		connected := false
		for _, cn := range rc {
			if (cn.From.Kind == "proc" && cn.From.Name == k) || (cn.To.Kind == "proc" && cn.To.Name == k) {
				connected = true
			}
		}
		if connected {
			continue
		}
		var srcs []string
		for j := 0; j < i; j++ {
			if condsOf(typeOf[req[j]], true) != nil {
				srcs = append(srcs, req[j])
			}
		}
		s := c.Pick(r, srcs) // node 0 is a Filter, so never empty
		g.edge(&rc, s, c.Pick(r, condsOf(typeOf[s], true)), k)
	}
	// ---- response direction
	var res []string // response nodes that may carry connections
	var rs []Conn
	nx := r.Range(0, maxRes)
	if needResRoot && nx == 0 {
		nx = 1
	}
	for i := 0; i < nx; i++ {
		switch x := r.Intn(10); {
		// (no MockProcessor here: it dereferences the response, which does not
		// exist while a request answered by a processor is handed over)
		case x < 6:
			res = append(res, newProc(tFilter, 10+i))
		case x < 9:
			res = append(res, newProc(tGen, 10+i))
		default: // a request-side Filter used on the response side too
			var fs []string
			for _, k := range req {
				if typeOf[k] == tFilter {
					fs = append(fs, k)
				}
			}
			k := c.Pick(r, fs)
			dup := false
			for _, x := range res {
				dup = dup || x == k
			}
			if !dup {
				res = append(res, k)
			}
		}
	}
	hasRoot := len(res) > 0 && (needResRoot || r.Chance(3, 4))
	for i, k := range res {
		cs := condsOf(typeOf[k], false)
		ne := r.Range(0, 2)
		if ne == 0 && (i == 0 || r.Chance(1, 2)) {
			ne = 1
		}
		for e := 0; e < ne; e++ {
			to := ""
			if i+1 < len(res) && r.Chance(3, 5) {
				to = res[r.Range(i+1, len(res)-1)]
			}
			g.edge(&rs, k, c.Pick(r, cs), to)
		}
	}
	// response counterparts of the request's GenerateResponse processors
	for _, k := range req {
		if typeOf[k] != tGen {
			continue
		}
		switch x := r.Intn(20); {
		case x < 1: // no counterpart at all (the engine reports an error when it answers)
		case x < 3 && len(res) > 0: // counterpart that is only a target: no connection of its own
			s := c.Pick(r, res)
			g.edge(&rs, s, c.Pick(r, condsOf(typeOf[s], false)), k)
		case x < 7 && len(res) > 0: // several connections
			ne := r.Range(2, 3)
			for e := 0; e < ne; e++ {
				to := ""
				if r.Chance(3, 4) {
					to = c.Pick(r, res)
				}
				g.edge(&rs, k, "", to)
			}
		default: // the documented shape: exactly one connection
			to := ""
			if len(res) > 0 && r.Chance(2, 3) {
				to = c.Pick(r, res)
			}
			g.edge(&rs, k, "", to)
		}
	}
	// every response node must be connected too
	for i, k := range res {
		connected := false
		for _, cn := range rs {
			if (cn.From.Kind == "proc" && cn.From.Name == k) || (cn.To.Kind == "proc" && cn.To.Name == k) {
				connected = true
			}
		}
		if !connected || (i == 0 && hasRoot && !g.anyFrom(rs, k)) {
			g.edge(&rs, k, c.Pick(r, condsOf(typeOf[k], false)), "")
		}
	}
	shuffle(r, rc)
	shuffle(r, rs)
	f.Req = append([]Conn{s2p(req[0])}, rc...)
	if hasRoot {
		rs = append(rs, Conn{})
		at := r.Intn(len(rs))
		copy(rs[at+1:], rs[at:])
		rs[at] = s2p(res[0])
	}
	if len(rs) == 0 || r.Chance(1, 6) {
		rs = append(rs, s2s())
	}
	f.Res = rs
	return f
}

func (g *gen) anyFrom(conns []Conn, k string) bool {
	for _, cn := range conns {
		if cn.From.Kind == "proc" && cn.From.Name == k {
			return true
		}
	}
	return false
}

// shuffle permutes the connection list: only the relative order of the
// connections of one processor is meaningful.
func shuffle(r *c.Rng, cs []Conn) {
	if r.Chance(1, 3) {
		return
	}
	for i := len(cs) - 1; i > 0; i-- {
		j := r.Intn(i + 1)
		cs[i], cs[j] = cs[j], cs[i]
	}
}

// Config draws a configuration.
func genConfig(r *c.Rng, big bool) Config {
	g := &gen{r: r}
	var cfg Config
	if r.Chance(2, 5) {
		urls := []string{mainURL, "c04.test/*", mainURL, "c04.test/other"}
		nq := r.Range(1, 3)
		for i := 0; i < nq; i++ {
			q := QuotaCfg{ID: fmt.Sprintf("q%d", i+1), URL: c.Pick(r, urls), Strategy: "fixed", Max: 1000000}
			if r.Chance(1, 2) {
				q.Strategy = "concurrent"
			}
			if r.Chance(1, 4) {
				q.Max = 3 // lets a Limiter on it go above the limit after a few requests
			}
			g.quotas = append(g.quotas, q)
		}
		cfg.Quotas = g.quotas
	}
	maxReq, maxRes := 5, 3
	if big {
		maxReq, maxRes = 6, 4
	}
	shape := r.Intn(10)
	switch {
	case shape < 4: // one flow
		cfg.Flows = []FlowCfg{g.flow("A", mainURL, maxReq, maxRes, false)}
	case shape < 7: // independent flows, usually selected together
		cfg.Flows = []FlowCfg{g.flow("A", mainURL, maxReq-1, maxRes, false)}
		u := mainURL
		if r.Chance(1, 4) {
			u = "c04.test/*"
		}
		cfg.Flows = append(cfg.Flows, g.flow("B", u, maxReq-1, maxRes-1, false))
		if r.Chance(1, 3) {
			cfg.Flows = append(cfg.Flows, g.flow("C", c.Pick(r, []string{mainURL, "c04.test/other"}), 3, 2, false))
		}
		a, b := &cfg.Flows[0], &cfg.Flows[1]
		switch r.Intn(6) {
		case 0:
			// the same processor key in two flows: two processors (B's keeps its own header)
			renameProc(b, b.Procs[0].Key, a.Procs[0].Key, true)
		case 1:
			// A uses a processor declared by B ("B.<key>") in place of one of its own Filters
			for i := len(a.Procs) - 1; i > 0; i-- {
				if a.Procs[i].Type == tFilter && b.Procs[0].Type == tFilter {
					renameProc(a, a.Procs[i].Key, "B."+b.Procs[0].Key, false)
					a.Procs = append(a.Procs[:i], a.Procs[i+1:]...)
					break
				}
			}
		case 2, 3:
			// A uses "B.<key>" AND declares a processor of its own under <key>, with
			// other parameters: which of the two instances runs shows in its effect
			if !clash(r, &cfg, a, b, false) {
				clash(r, &cfg, b, a, false)
			}
			if r.Chance(1, 3) {
				clash(r, &cfg, b, a, false) // and the other way round
			}
		case 4:
			if r.Chance(1, 3) {
				// the flow's own <key> is a processor of another TYPE than B.<key>
				clash(r, &cfg, a, b, true)
			}
		}
	default: // A (and sometimes B) go through the shared flow X
		x := g.flow("X", c.Pick(r, []string{"c04.test/x", "c04.test/x", mainURL}), 3, 2, true)
		users := []string{"A"}
		if r.Chance(1, 3) {
			users = append(users, "B")
		}
		for _, n := range users {
			f := g.flow(n, mainURL, maxReq-2, maxRes-1, false)
			if r.Chance(4, 5) { // request: enter through X
				f.Req[0] = f2p("X", f.Req[0].To.Name)
			}
			// response: some connections lead into X
			var out []Conn
			done := false
			for _, cn := range f.Res {
				if cn.From.Kind == "proc" && cn.To.Kind == "stream" && r.Chance(2, 3) {
					cn = p2f(cn.From.Name, cn.From.Cond, "X")
					done = true
				}
				out = append(out, cn)
			}
			_ = done
			f.Res = out
			cfg.Flows = append(cfg.Flows, f)
		}
		cfg.Flows = append(cfg.Flows, x)
		if r.Chance(1, 4) {
			// A names a processor of the shared flow ("X.<key>") and declares - without
			// using it: X's own nodes come into A's graph under their plain keys - a
			// processor under the same key
			clashUnused(r, &cfg, &cfg.Flows[0], &cfg.Flows[len(cfg.Flows)-1])
		}
	}
	return cfg
}

// sameTypeProcs: indices of the processors of type typ that f declares and no
// other flow of the configuration names ("f.<key>"): they may be dropped or renamed.
func sameTypeProcs(cfg *Config, f *FlowCfg, typ string) []int {
	var out []int
	for i, p := range f.Procs {
		if p.Type != typ {
			continue
		}
		named := false
		for j := range cfg.Flows {
			named = named || usesRef(&cfg.Flows[j], f.Name+"."+p.Key)
		}
		if !named {
			out = append(out, i)
		}
	}
	return out
}

func usesRef(f *FlowCfg, ref string) bool {
	for _, cs := range [][]Conn{f.Req, f.Res} {
		for _, cn := range cs {
			if (cn.From.Kind == "proc" && cn.From.Name == ref) || (cn.To.Kind == "proc" && cn.To.Name == ref) {
				return true
			}
		}
	}
	return false
}

func declares(f *FlowCfg, key string) bool {
	for _, p := range f.Procs {
		if p.Key == key {
			return true
		}
	}
	return false
}

// ownTwin: a processor flow a declares under key kb, of type typ, whose
// parameters differ from those of every other processor of the configuration.
func ownTwin(a *FlowCfg, kb, typ string) Proc {
	p := Proc{Key: kb, Type: typ}
	switch typ {
	case tFilter:
		p.Hdr = "x-" + strings.ToLower(a.Name) + "-own-" + kb
	case tGen:
		p.Status = 503
	}
	return p
}

// clash: flow a uses processor <kb> of flow b ("b.<kb>") in place of one of its
// own processors and ALSO declares a processor under the key <kb>, with other
// parameters (another steering header / another early response): where a second
// processor of that type exists in a it takes the key <kb> (and stays where it is
// in a's graph), else the twin is declared without being connected.  otherType:
// a's own <kb> is of ANOTHER type than b.<kb>.  false: no suitable processors.
func clash(r *c.Rng, cfg *Config, a, b *FlowCfg, otherType bool) bool {
	var cands []int
	for i, p := range b.Procs {
		if (p.Type == tFilter || p.Type == tGen) && !declares(a, p.Key) && !usesRef(a, b.Name+"."+p.Key) {
			cands = append(cands, i)
		}
	}
	for len(cands) > 0 {
		ci := r.Intn(len(cands))
		pb := b.Procs[cands[ci]]
		cands = append(cands[:ci], cands[ci+1:]...)
		same := sameTypeProcs(cfg, a, pb.Type)
		if len(same) == 0 {
			continue
		}
		// the processor of a that b.<kb> replaces
		si := r.Intn(len(same))
		old := a.Procs[same[si]].Key
		renameProc(a, old, b.Name+"."+pb.Key, false)
		a.Procs = append(a.Procs[:same[si]], a.Procs[same[si]+1:]...)
		if otherType {
			other := tGen
			if pb.Type == tGen {
				other = tFilter
			}
			if os := sameTypeProcs(cfg, a, other); len(os) > 0 && r.Chance(1, 2) {
				renameProc(a, a.Procs[c.Pick(r, os)].Key, pb.Key, true)
			} else {
				a.Procs = append(a.Procs, ownTwin(a, pb.Key, other))
			}
			return true
		}
		rest := sameTypeProcs(cfg, a, pb.Type)
		if len(rest) > 0 && r.Chance(3, 4) {
			i := c.Pick(r, rest)
			renameProc(a, a.Procs[i].Key, pb.Key, true)
			if pb.Type == tGen {
				a.Procs[i].Status = 503
			}
		} else {
			a.Procs = append(a.Procs, ownTwin(a, pb.Key, pb.Type))
		}
		return true
	}
	return false
}

// clashUnused: as clash, but a's own <kb> is never connected.
func clashUnused(r *c.Rng, cfg *Config, a, b *FlowCfg) bool {
	var cands []int
	for i, p := range b.Procs {
		if (p.Type == tFilter || p.Type == tGen) && !declares(a, p.Key) {
			cands = append(cands, i)
		}
	}
	for len(cands) > 0 {
		ci := r.Intn(len(cands))
		pb := b.Procs[cands[ci]]
		cands = append(cands[:ci], cands[ci+1:]...)
		same := sameTypeProcs(cfg, a, pb.Type)
		if len(same) == 0 {
			continue
		}
		si := c.Pick(r, same)
		renameProc(a, a.Procs[si].Key, b.Name+"."+pb.Key, false)
		a.Procs = append(a.Procs[:si], a.Procs[si+1:]...)
		a.Procs = append(a.Procs, ownTwin(a, pb.Key, pb.Type))
		return true
	}
	return false
}

// clashPairs: the steering headers of two Filters that share a key, one of them
// used by a flow through "G.<key>" while the flow declares <key> itself: the
// transactions that carry exactly one of the two tell the instances apart.
func clashPairs(cfg *Config) [][2]string {
	var out [][2]string
	for i := range cfg.Flows {
		f := &cfg.Flows[i]
		seen := map[string]bool{}
		for _, cs := range [][]Conn{f.Req, f.Res} {
			for _, cn := range cs {
				for _, e := range []End{cn.From, cn.To} {
					by, name := splitRef(e.Name)
					if e.Kind != "proc" || by == "" || seen[e.Name] {
						continue
					}
					seen[e.Name] = true
					own, named := cfg.proc(Inst{f.Name, name}), cfg.proc(Inst{by, name})
					if own != nil && named != nil && own.Type == tFilter && named.Type == tFilter {
						out = append(out, [2]string{own.Hdr, named.Hdr})
					}
				}
			}
		}
	}
	return out
}

// filtersOf lists the header names steering the Filters of a configuration.
func filtersOf(cfg *Config) []string {
	var hs []string
	for _, f := range cfg.Flows {
		for _, p := range f.Procs {
			if p.Type == tFilter {
				hs = append(hs, p.Hdr)
			}
		}
	}
	return hs
}

// headerSets: every subset when there are few Filters, else a sample including
// the two extremes.
func headerSets(r *c.Rng, hs []string, limit int) [][]string {
	var out [][]string
	if len(hs) <= 4 || 1<<len(hs) <= limit {
		for m := 0; m < 1<<len(hs); m++ {
			var s []string
			for i, h := range hs {
				if m>>i&1 == 1 {
					s = append(s, h)
				}
			}
			out = append(out, s)
		}
		return out
	}
	out = append(out, nil, append([]string{}, hs...))
	for len(out) < limit {
		var s []string
		p := r.Range(1, 3)
		for _, h := range hs {
			if r.Chance(p, 4) {
				s = append(s, h)
			}
		}
		out = append(out, s)
	}
	return out
}

// renameProc renames a processor key throughout one flow.
func renameProc(f *FlowCfg, old, nw string, decl bool) {
	for i := range f.Procs {
		if decl && f.Procs[i].Key == old {
			f.Procs[i].Key = nw
		}
	}
	for _, cs := range [][]Conn{f.Req, f.Res} {
		for i := range cs {
			if cs[i].From.Kind == "proc" && cs[i].From.Name == old {
				cs[i].From.Name = nw
			}
			if cs[i].To.Kind == "proc" && cs[i].To.Name == old {
				cs[i].To.Name = nw
			}
		}
	}
}
