// Property monitor: the property text restated over what the implementation
// did.  It is a small reference interpreter over the harness' own reading of the
// configuration (config.go), written with an explicit work list; it shares no
// code with the Coq model and does not consult the implementation's builder.
//
// Text: "processors run in the order given by the flow's connections: starting
// at the stream entry point, after each processor exactly those connections
// whose condition equals the processor's output are followed, and no processor
// off that path runs.  When a processor answers the request itself, the rest of
// the request path is skipped and the response path continues from that
// processor's response connection; system flows of quotas run before user flows
// on requests and in reverse order on responses."
package main

import (
	"fmt"
	"strings"

	c "verifharness/common"
)

// Out is what a processor does in one transaction and direction.
type Out struct {
	Cond  string
	Early bool // answers the request itself
}

// Oracle: flow -> key -> dir -> behaviour.
type Oracle map[string]map[string]map[string]Out

func (o Oracle) get(flow, key, dir string) Out { return o[flow][key][dir] }

// refWalk lists the processors that must run when direction d of flow f is
// entered at the given start nodes, and the processor that answered (if any).
func refWalk(f *GFlow, d string, starts []string, orc Oracle) (evs []Event, answered string) {
	g := &f.Req
	if d == "res" {
		g = &f.Res
	}
	// work list of pending nodes, next one first
	work := append([]string{}, starts...)
	steps := 0
	for len(work) > 0 {
		k := work[0]
		work = work[1:]
		steps++
		if steps > 100000 {
			panic("reference walk does not terminate (cyclic configuration generated?)")
		}
		out := orc.get(f.Name, k, d)
		evs = append(evs, Event{f.Name, k, d, out.Cond})
		if d == "req" && out.Early {
			return evs, k // the rest of the request path is skipped
		}
		var next []string
		if n := g.node(k); n != nil {
			for _, e := range n.Edges {
				if e.To != "" && e.Cond == out.Cond {
					next = append(next, e.To)
				}
			}
		}
		work = append(next, work...)
	}
	return evs, ""
}

type expRun struct {
	Flow     string
	Dir      string
	Group    int // 0 start-system, 1 user, 2 end-system
	Events   []Event
	Free     bool // the text does not say what must happen here
	HandOver bool // continues from the processor that answered the request
}

func flowByName(gs []GFlow, n string) *GFlow {
	for i := range gs {
		if gs[i].Name == n {
			return &gs[i]
		}
	}
	return nil
}

// SigDropped is the signature of the open finding F-C04d.
const SigDropped = "answer-dropped:no-response-node:stream.ExecuteFlow"

// droppedAnswer is the classifier of F-C04d over the OBSERVED events: the first
// request-direction event whose processor answers the request itself while its
// flow has no node of that key on the response side.
func droppedAnswer(gs []GFlow, events []Event, orc Oracle) *Event {
	for i := range events {
		e := &events[i]
		if e.Dir != "req" || !orc.get(e.Flow, e.Key, "req").Early {
			continue
		}
		f := flowByName(gs, e.Flow)
		if f != nil && f.Res.node(e.Key) == nil {
			return e
		}
	}
	return nil
}

// droppedHit: the text - "when a processor answers the request itself, the rest
// of the request path is skipped and the response path continues from that
// processor's response connection" - asks for an answered request also when the
// processor has no response connection (nothing continues in that flow then);
// the engine fails the transaction and drops the early response.
func droppedHit(d *Event, result, errText string) (c.Hit, bool) {
	if d == nil || result != "error" || !strings.Contains(errText, "failed to get response node") {
		return c.Hit{}, false
	}
	return c.Hit{Signature: SigDropped,
		Demanded: fmt.Sprintf("processor %s of flow %s answered the request itself: the request is answered "+
			"(its early response is the resulting action; nothing continues in that flow, it has no response connection)", d.Key, d.Flow),
		Observed: "the transaction fails and the early response is dropped: " + errText}, true
}

func rev(xs []string) []string {
	out := make([]string, len(xs))
	for i, x := range xs {
		out[len(xs)-1-i] = x
	}
	return out
}

// expected computes, flow by flow, what the text demands for the transaction.
func expected(gs []GFlow, t *Txn, orc Oracle) (runs []expRun, answered bool, free bool) {
	rootOf := func(f *GFlow, d string) []string {
		if f == nil { // a flow the configuration does not hold: reported by `add`
			return nil
		}
		r := f.Req.Root
		if d == "res" {
			r = f.Res.Root
		}
		if r == "" {
			return nil
		}
		return []string{r}
	}
	add := func(name, d string, grp int, starts []string, fr bool) string {
		f := flowByName(gs, name)
		if f == nil {
			runs = append(runs, expRun{Flow: name, Dir: d, Group: grp, Free: true})
			free = true
			return ""
		}
		evs, ans := refWalk(f, d, starts, orc)
		runs = append(runs, expRun{name, d, grp, evs, fr, false})
		return ans
	}
	scFlow, scKey := "", ""
	if t.Dir == "req" {
		if !t.SelReq.Found {
			return nil, false, false
		}
		for _, n := range t.SelReq.Start {
			add(n, "req", 0, rootOf(flowByName(gs, n), "req"), false)
		}
		for _, n := range t.SelReq.User {
			if ans := add(n, "req", 1, rootOf(flowByName(gs, n), "req"), false); ans != "" {
				scFlow, scKey = n, ans
				break // the rest of the request path is skipped
			}
		}
		for _, n := range t.SelReq.End {
			add(n, "req", 2, rootOf(flowByName(gs, n), "req"), false)
		}
		if scFlow == "" {
			return runs, false, free
		}
		answered = true
	}
	if !t.SelRes.Found {
		return runs, answered, free
	}
	for _, n := range rev(t.SelRes.Start) {
		add(n, "res", 0, rootOf(flowByName(gs, n), "res"), false)
	}
	for _, n := range rev(t.SelRes.User) {
		f := flowByName(gs, n)
		if f != nil && n == scFlow {
			cp := f.Res.node(scKey)
			if cp == nil {
				// the answering processor has no response connection at all: the text
				// presupposes one; nothing is demanded from here on
				runs = append(runs, expRun{Flow: n, Dir: "res", Group: 1, Free: true})
				free = true
				return runs, answered, true
			}
			var starts []string
			for _, e := range cp.Edges {
				if e.To != "" {
					starts = append(starts, e.To)
				}
			}
			add(n, "res", 1, starts, false)
			runs[len(runs)-1].HandOver = true
			continue
		}
		add(n, "res", 1, rootOf(f, "res"), false)
	}
	for _, n := range rev(t.SelRes.End) {
		add(n, "res", 2, rootOf(flowByName(gs, n), "res"), false)
	}
	return runs, answered, free
}

func evString(es []Event) string {
	s := make([]string, len(es))
	for i, e := range es {
		s[i] = e.String()
	}
	return "[" + strings.Join(s, " ") + "]"
}

func sameEvents(a, b []Event) bool {
	if len(a) != len(b) {
		return false
	}
	for i := range a {
		if a[i] != b[i] {
			return false
		}
	}
	return true
}

func isSubsequence(small, big []Event) bool {
	i := 0
	for _, e := range big {
		if i < len(small) && small[i] == e {
			i++
		}
	}
	return i == len(small)
}

// instanceHit: WHICH processor ran at a node.  "Processors run in the order given
// by the flow's connections ... and no processor off that path runs": a
// connection names a processor by a plain key - the processor declared under
// that key by the flow whose connections mention it - or as "G.k" - the
// processor flow G declares under k.  Several flows may declare a processor
// under one key, with parameters of their own; the processor that ran shows in
// its effect: a Filter outputs hit exactly when the transaction carries ITS
// steering header, a GenerateResponse answers with ITS status and body.
// (Processors whose effect does not tell instances apart - MockProcessor,
// Limiter, the quota processors - are not judged.  The early response is
// attributed to the event after which it was appended; an implementation that
// appends its actions at another moment is not faulted for that: the named
// processor's early response being among the actions is enough then.)
func instanceHit(cfg *Config, gs []GFlow, events []Event, early, allEarly []string, headers []string) (dir, dem, obs string, bad bool) {
	has := map[string]bool{}
	for _, h := range headers {
		has[h] = true
	}
	describe := func(in Inst, p *Proc, d string) string {
		switch p.Type {
		case tFilter:
			o, _ := predict(p, d, has)
			return fmt.Sprintf("processor %s of flow %s (Filter on header %s: outputs %q here)", in.Name, in.Flow, p.Hdr, o.Cond)
		case tGen:
			if d == "req" {
				return fmt.Sprintf("processor %s of flow %s (GenerateResponse: answers %d %q)", in.Name, in.Flow, p.genStatus(), genBody(in.Flow, in.Name))
			}
			return fmt.Sprintf("processor %s of flow %s (GenerateResponse)", in.Name, in.Flow)
		}
		return fmt.Sprintf("processor %s of flow %s (%s)", in.Name, in.Flow, p.Type)
	}
	for i, e := range events {
		g := flowByName(gs, e.Flow)
		if g == nil || g.Kind != "user" {
			continue
		}
		d := g.Req.node(e.Key)
		if e.Dir == "res" {
			d = g.Res.node(e.Key)
		}
		if d == nil {
			continue // not a node of that flow: reported by the walk check
		}
		in := g.instOf(e.Key)
		p := cfg.proc(in)
		if p == nil || (p.Type != tFilter && p.Type != tGen) {
			continue
		}
		ea := ""
		if i < len(early) {
			ea = early[i]
		}
		wantEarly := ""
		if p.Type == tGen && e.Dir == "req" {
			wantEarly = fmt.Sprintf("%d %s", p.genStatus(), genBody(in.Flow, in.Name))
		}
		if p.Type != tGen {
			ea = "" // only a GenerateResponse is judged by its answer
		} else if ea == "" && wantEarly != "" && contains(allEarly, wantEarly) {
			ea = wantEarly
		}
		want, _ := predict(p, e.Dir, has)
		if want.Cond == e.Cond && wantEarly == ea {
			continue
		}
		got := fmt.Sprintf("node %s of flow %s (%s) output %q", e.Key, e.Flow, e.Dir, e.Cond)
		if ea != "" {
			got += fmt.Sprintf(" and answered %q", ea)
		}
		// does the effect fit another declared processor?
		for fi := range cfg.Flows {
			f := &cfg.Flows[fi]
			for pi := range f.Procs {
				q := &f.Procs[pi]
				oi := Inst{f.Name, q.Key}
				if oi == in || (q.Type != tFilter && q.Type != tGen) {
					continue
				}
				qo, _ := predict(q, e.Dir, has)
				qe := ""
				if q.Type == tGen && e.Dir == "req" {
					qe = fmt.Sprintf("%d %s", q.genStatus(), genBody(oi.Flow, oi.Name))
				}
				if qo.Cond == e.Cond && qe == ea && q.Key == in.Name {
					got += ": the effect of " + describe(oi, q, e.Dir)
				}
			}
		}
		return e.Dir, fmt.Sprintf("node %s of flow %s runs %s", e.Key, e.Flow, describe(in, p, e.Dir)), got, true
	}
	return "", "", "", false
}

// siblingOrderHit: "processors run in the order given by the flow's
// connections".  The observed events of one flow and direction are read as the
// walk they must be: after a processor that put out c come, one after the other
// and each with everything it leads to, the targets of ITS connections under c
// in the order these connections are written in the configuration (a hand-over
// starts at the targets of all connections of the processor that answered, in
// written order).  The outputs are the OBSERVED ones.  A hit is raised only where
// the processor due next is replaced by another target of the same connection
// group (a sibling): siblings ran in another order than configured.  Anything
// else that does not fit (a processor off the path, a walk that stops early)
// is left to the checks below.  Where the entry-point connection stands in the
// list says nothing about the order of the others.
func siblingOrderHit(gs []GFlow, t *Txn, orc Oracle) (dir, dem, obs string, bad bool) {
	type fd struct{ f, d string }
	groups := map[fd][]Event{}
	var order []fd
	for _, e := range t.Events {
		k := fd{e.Flow, e.Dir}
		if _, ok := groups[k]; !ok {
			order = append(order, k)
		}
		groups[k] = append(groups[k], e)
	}
	for _, k := range order {
		f := flowByName(gs, k.f)
		if f == nil {
			continue
		}
		g := &f.Req
		if k.d == "res" {
			g = &f.Res
		}
		got := groups[k]
		// where the walk of this flow and direction starts
		var starts []string
		from := "the entry point"
		if g.Root != "" {
			starts = []string{g.Root}
		}
		if k.d == "res" && t.Dir == "req" {
			for _, e := range groups[fd{k.f, "req"}] {
				if orc.get(k.f, e.Key, "req").Early {
					starts = nil
					if n := g.node(e.Key); n != nil {
						for _, ed := range n.Edges {
							if ed.To != "" {
								starts = append(starts, ed.To)
							}
						}
					}
					from = "the response connections of " + e.Key + " (which answered the request)"
				}
			}
		}
		pos := 0
		stop := false
		var walk func(targets []string, after string)
		walk = func(targets []string, after string) {
			for _, want := range targets {
				if stop || pos >= len(got) {
					stop = true
					return
				}
				e := got[pos]
				if e.Key != want {
					stop = true
					if contains(targets, e.Key) {
						dir, bad = k.d, true
						dem = fmt.Sprintf("flow %s %s: after %s the connections lead, in the order they are written, to %v; %s is due at event %d",
							k.f, k.d, after, targets, want, pos)
						obs = fmt.Sprintf("%s ran there; ran %s", e.Key, evString(got))
					}
					return
				}
				pos++
				if k.d == "req" && orc.get(k.f, e.Key, "req").Early {
					stop = true // it answered: the rest of the request path is skipped
					return
				}
				var next []string
				if n := g.node(e.Key); n != nil {
					for _, ed := range n.Edges {
						if ed.To != "" && ed.Cond == e.Cond {
							next = append(next, ed.To)
						}
					}
				}
				walk(next, fmt.Sprintf("%s (output %q)", e.Key, e.Cond))
			}
		}
		walk(starts, from)
		if bad {
			return
		}
	}
	return "", "", "", false
}

// monitor compares what ran with what the text demands.
func monitor(cfg *Config, gs []GFlow, t *Txn, orc Oracle) (hits []c.Hit, undetermined bool) {
	add := func(sig, dem, obs string) {
		hits = append(hits, c.Hit{Signature: sig, Demanded: dem, Observed: obs})
	}
	runs, answered, free := expected(gs, t, orc)
	// (i) the processor a node runs is the one its connection names; everything
	// after a wrong one (another output, another path) is a consequence
	if dir, dem, obs, bad := instanceHit(cfg, gs, t.Events, t.Early, t.AllEarly, t.Headers); bad {
		add("wrong-processor-instance:"+dir, dem, obs)
		return hits, free
	}
	// (i') siblings run in configured order
	if dir, dem, ob, bad := siblingOrderHit(gs, t, orc); bad {
		add("sibling-order:"+dir, dem, ob)
		return hits, free
	}
	// per flow and direction: what ran
	type fd struct{ f, d string }
	obs := map[fd][]Event{}
	var order []fd
	for _, e := range t.Events {
		k := fd{e.Flow, e.Dir}
		if _, ok := obs[k]; !ok {
			order = append(order, k)
		}
		obs[k] = append(obs[k], e)
	}
	exp := map[fd]*expRun{}
	for i := range runs {
		exp[fd{runs[i].Flow, runs[i].Dir}] = &runs[i]
	}
	// (0) a request walk that goes on after the processor that answered: everything
	// that follows in the transaction (lost hand-over, later flows still run,
	// errors) is a consequence, so only this is reported
	for i := range runs {
		r := &runs[i]
		got := obs[fd{r.Flow, r.Dir}]
		if r.Dir == "req" && !r.Free && len(r.Events) > 0 && len(got) > len(r.Events) &&
			sameEvents(got[:len(r.Events)], r.Events) &&
			orc.get(r.Flow, r.Events[len(r.Events)-1].Key, "req").Early {
			add("sibling-after-early-response:stream.ExecuteFlow",
				fmt.Sprintf("flow %s req runs %s and stops: the processor answered the request", r.Flow, evString(r.Events)),
				"ran "+evString(got))
			return hits, free
		}
	}
	// an error is never what the text asks for; the one that is listed as the open
	// finding F-C04d (the answering processor has no response node) is reported
	// under its own signature and the request part before it is still checked
	onlyReq := false
	if t.Result == "error" {
		if h, ok := droppedHit(droppedAnswer(gs, t.Events, orc), t.Result, t.ErrText); ok {
			// open finding F-C04d; the request part before the error is still checked
			hits = append(hits, h)
			free = true
		} else {
			add("unexpected-error:ExecuteFlow", "the transaction is handled", "error: "+t.ErrText)
			return hits, free
		}
		onlyReq = true
	}
	// (1) per flow and direction: exactly the processors on the path, in order
	for i := range runs {
		r := &runs[i]
		if r.Free || (onlyReq && r.Dir != "req") {
			continue
		}
		got := obs[fd{r.Flow, r.Dir}]
		if sameEvents(got, r.Events) {
			continue
		}
		f := flowByName(gs, r.Flow)
		dem := fmt.Sprintf("flow %s %s runs %s", r.Flow, r.Dir, evString(r.Events))
		ob := "ran " + evString(got)
		switch {
		case f.Kind != "user" && len(got) < len(r.Events) && isSubsequence(got, r.Events):
			add("system-flow-processor-missing:generateSystemFlow", dem, ob)
		case r.HandOver:
			add("hand-over-continuation:streams.executeFlow",
				dem+" (continuing from the response connections of the processor that answered)", ob)
		default:
			add("walk-mismatch:"+r.Dir, dem, ob)
		}
	}
	for _, k := range order {
		if _, ok := exp[k]; !ok && !(onlyReq && k.d != "req") {
			add("flow-not-selected-ran:"+k.d, fmt.Sprintf("flow %s does not run in direction %s", k.f, k.d), "ran "+evString(obs[k]))
		}
	}
	// (2) order of the flows: request part before response part; start-system,
	// user, end-system; system flows in selection order on requests and in
	// reverse selection order on responses.  (The order among user flows is not
	// fixed by the text.)
	if len(hits) == 0 && !onlyReq {
		pos := map[fd]int{}
		for i := range runs {
			pos[fd{runs[i].Flow, runs[i].Dir}] = i
		}
		last := -1
		var lastRun *expRun
		seen := map[fd]bool{}
		for _, e := range t.Events {
			k := fd{e.Flow, e.Dir}
			p := pos[k]
			r := &runs[p]
			if p != last {
				if seen[k] {
					add("flow-order:interleaved", "the processors of one flow and direction run together", evString(t.Events))
					break
				}
				seen[k] = true
				if lastRun != nil {
					bad := false
					if lastRun.Dir == "res" && r.Dir == "req" {
						bad = true
					} else if lastRun.Dir == r.Dir {
						if r.Group < lastRun.Group {
							bad = true
						} else if r.Group == lastRun.Group && r.Group != 1 && p < last {
							bad = true
						}
					}
					if bad {
						add("flow-order:"+r.Dir, "system flows before user flows on requests, in reverse order on responses "+
							"(as coded: start-system, user, end-system groups; each group reversed on responses)", evString(t.Events))
						break
					}
				}
				last, lastRun = p, r
			}
		}
	}
	// (3) kind of the resulting action
	if t.Dir == "req" && len(hits) == 0 && !onlyReq {
		if answered && t.Result != "answered" {
			add("result-kind", "the request is answered by the processor", "result "+t.Result)
		}
		if !answered && t.Result == "answered" {
			add("result-kind", "the request is not answered by the gateway", "result answered")
		}
	}
	return hits, free
}
