// C04 harness: generated flow configurations over the real processor
// vocabulary are loaded through the real loader (streams.NewStream().Initialize())
// and driven with requests / responses whose headers steer the Filter
// processors.  Observable per transaction: the sequence of processor-executed
// events (verifhook "proc") and the kind of the resulting action.  The Coq model
// gets the graph as read by the harness (config.go), the flows the filter tree
// selected (in its order) and the branch oracle; the monitor (monitor.go) is an
// independent reference interpreter written from the property text.
package main

import (
	"fmt"
	"os"
	"sort"
	"strings"

	"github.com/rs/zerolog"

	c "verifharness/common"
)

func s2p(p string) Conn { return Conn{End{Kind: "stream"}, End{Kind: "proc", Name: p}} }
func p2p(f, cd, t string) Conn {
	return Conn{End{Kind: "proc", Name: f, Cond: cd}, End{Kind: "proc", Name: t}}
}
func p2s(f, cd string) Conn { return Conn{End{Kind: "proc", Name: f, Cond: cd}, End{Kind: "stream"}} }
func f2p(fl, p string) Conn { return Conn{End{Kind: "flow", Name: fl}, End{Kind: "proc", Name: p}} }
func p2f(f, cd, fl string) Conn {
	return Conn{End{Kind: "proc", Name: f, Cond: cd}, End{Kind: "flow", Name: fl}}
}
func s2s() Conn          { return Conn{End{Kind: "stream"}, End{Kind: "stream"}} }
func filt(k string) Proc { return Proc{Key: k, Type: tFilter, Hdr: "x-" + strings.ToLower(k)} }
func gen1(k string) Proc { return Proc{Key: k, Type: tGen} }
func mock(k string) Proc { return Proc{Key: k, Type: tMock} }

// the same key declared by several flows: the parameters tell the instances apart
func filtH(k, hdr string) Proc       { return Proc{Key: k, Type: tFilter, Hdr: hdr} }
func genS(k string, status int) Proc { return Proc{Key: k, Type: tGen, Status: status} }

// Case is what a replay file carries.
type Case struct {
	Config Config  `json:"config"`
	Graphs []GFlow `json:"graphs_as_read_by_harness"`
	Txn    Txn     `json:"transaction"`
	Oracle []Row   `json:"oracle"`
	// what every declared processor INSTANCE outputs in this transaction (input of
	// the Coq model, which resolves node -> instance itself), and per observed
	// event the instance its early response names
	Insts []IRow  `json:"instance_oracle"`
	Marks []*Inst `json:"instance_named_by_early_response"`
}

// IRow: instance (declaring flow, key), direction, output.
type IRow struct {
	Inst  Inst   `json:"instance"`
	Dir   string `json:"dir"`
	Cond  string `json:"cond"`
	Early bool   `json:"answers_request"`
}

type Row struct {
	Flow  string `json:"flow"`
	Key   string `json:"key"`
	Dir   string `json:"dir"`
	Cond  string `json:"cond"`
	Early bool   `json:"answers_request"`
}

// ---------------------------------------------------------------- oracle

func procOf(cfg *Config, owner, key string) *Proc {
	// "B.k" names processor k declared by flow B (cross-flow use)
	if by, name := splitRef(key); by != "" {
		owner, key = by, name
	}
	return cfg.proc(Inst{owner, key})
}

// predict: what a declared processor outputs in direction dn given the headers of
// the transaction (ok = false: stateful, its output is taken as observed).
func predict(p *Proc, dn string, has map[string]bool) (o Out, ok bool) {
	switch {
	case p == nil: // quota system processor
	case p.Type == tFilter:
		o.Cond = "miss"
		if has[p.Hdr] {
			o.Cond = "hit"
		}
	case p.Type == tGen:
		o.Early = dn == "req"
	case p.Type == tLimit:
		return Out{Cond: "below_limit"}, false
	}
	return o, true
}

// instOracle: the behaviour of every processor instance some node of the
// configuration runs, by the instance the configuration NAMES for the node.  A
// Limiter's output is the one observed at a node that names it (two different
// observed outputs of one instance: not a function, the transaction is skipped).
func instOracle(cfg *Config, gs []GFlow, t *Txn) (rows []IRow, consistent bool) {
	has := map[string]bool{}
	for _, h := range t.Headers {
		has[h] = true
	}
	seen := map[string]string{}
	consistent = true
	for _, e := range t.Events {
		g := flowByName(gs, e.Flow)
		if g == nil {
			continue
		}
		k := g.instOf(e.Key).String() + "\x00" + e.Dir
		if prev, ok := seen[k]; ok && prev != e.Cond {
			consistent = false
		}
		seen[k] = e.Cond
	}
	done := map[string]bool{}
	for i := range gs {
		g := &gs[i]
		for di, d := range []*GDir{&g.Req, &g.Res} {
			dn := []string{"req", "res"}[di]
			for _, n := range d.Nodes {
				in := g.instOf(n.Key)
				k := in.String() + "\x00" + dn
				if done[k] {
					continue
				}
				done[k] = true
				o, ok := predict(cfg.proc(in), dn, has)
				if !ok {
					if v, obs := seen[k]; obs {
						o.Cond = v
					}
				}
				rows = append(rows, IRow{in, dn, o.Cond, o.Early})
			}
		}
	}
	return rows, consistent
}

// earlyOf: the instance an observed early response ("<status> <body>") names.
func earlyOf(cfg *Config, early string) *Inst {
	if early == "" {
		return nil
	}
	for i := range cfg.Flows {
		f := &cfg.Flows[i]
		for j := range f.Procs {
			p := &f.Procs[j]
			if p.Type == tGen && early == fmt.Sprintf("%d %s", p.genStatus(), genBody(f.Name, p.Key)) {
				return &Inst{f.Name, p.Key}
			}
		}
	}
	return &Inst{"?", early} // an early response no declared processor produces
}

// oracle predicts what every processor of every flow outputs in this
// transaction.  Filters: by the headers the harness put on the transaction (the
// continuation after an answered request still sees the REQUEST headers).
// Limiter: stateful (quota counters) - its output is taken as observed.
func oracle(cfg *Config, gs []GFlow, t *Txn) (Oracle, []Row, bool) {
	has := map[string]bool{}
	for _, h := range t.Headers {
		has[h] = true
	}
	seenLim := map[string]string{}
	consistent := true
	for _, e := range t.Events {
		k := e.Flow + "\x00" + e.Key + "\x00" + e.Dir
		if prev, ok := seenLim[k]; ok && prev != e.Cond {
			consistent = false // a stateful processor changed its mind within the transaction
		}
		seenLim[k] = e.Cond
	}
	orc := Oracle{}
	var rows []Row
	for i := range gs {
		g := &gs[i]
		orc[g.Name] = map[string]map[string]Out{}
		for di, d := range []*GDir{&g.Req, &g.Res} {
			dn := []string{"req", "res"}[di]
			for _, n := range d.Nodes {
				// the processor the configuration names for the node
				o, ok := predict(cfg.proc(g.instOf(n.Key)), dn, has)
				if !ok {
					if v, obs := seenLim[g.Name+"\x00"+n.Key+"\x00"+dn]; obs {
						o.Cond = v
					}
				}
				if orc[g.Name][n.Key] == nil {
					orc[g.Name][n.Key] = map[string]Out{}
				}
				orc[g.Name][n.Key][dn] = o
				rows = append(rows, Row{g.Name, n.Key, dn, o.Cond, o.Early})
			}
		}
	}
	return orc, rows, consistent
}

// ---------------------------------------------------------------- Coq terms

type interner struct {
	m map[string]int64
	n int64
}

func (in *interner) id(s string) int64 {
	if v, ok := in.m[s]; ok {
		return v
	}
	in.n++
	in.m[s] = in.n
	return in.n
}

var condIDs = map[string]int64{"": 0, "hit": 1, "miss": 2, "below_limit": 3, "above_limit": 4, "output_1": 5, "output_2": 6}

func condID(s string) int64 {
	if v, ok := condIDs[s]; ok {
		return v
	}
	return 99
}

func coqDir(d *GDir, keys *interner) string {
	root := "None"
	if d.Root != "" {
		root = c.Some(c.Z(keys.id(d.Root)))
	}
	return c.Tuple(root, c.MapList(d.Nodes, func(n GNode) string {
		return c.Tuple(c.Z(keys.id(n.Key)), c.MapList(n.Edges, func(e GEdge) string {
			to := "None"
			if e.To != "" {
				to = c.Some(c.Z(keys.id(e.To)))
			}
			return c.Tuple(c.Z(condID(e.Cond)), to)
		}))
	}))
}

func coqSel(s Selection, fl *interner) string {
	ids := func(xs []string) string {
		return c.MapList(xs, func(n string) string { return c.Z(fl.id(n)) })
	}
	return c.Tuple(ids(s.Start), ids(s.User), ids(s.End))
}

func coqMentions(ms []Mention, keys, fl *interner) string {
	return c.MapList(ms, func(m Mention) string {
		by, name := splitRef(m.Ref)
		b := "0" // flow ids start at 1
		if by != "" {
			b = c.Z(fl.id(by))
		}
		return "(Mn " + c.Z(fl.id(m.Cur)) + " " + c.Z(keys.id(m.Ref)) + " " + b + " " + c.Z(keys.id(name)) + ")"
	})
}

// coqCase: Instance.case_i.  The model gets the graphs, the references of the
// connections in reading order, the declared instances and what every INSTANCE
// outputs; which instance a node runs is resolved in Coq (Instance.resolve).
func coqCase(k *Case) string {
	keys := &interner{m: map[string]int64{}}
	fl := &interner{m: map[string]int64{}}
	flows := c.MapList(k.Graphs, func(g GFlow) string {
		return c.Tuple(c.Z(fl.id(g.Name)), coqDir(&g.Req, keys), coqDir(&g.Res, keys))
	})
	t := &k.Txn
	var s1, s2 string
	if t.Dir == "req" {
		s1 = coqSel(t.SelReq, fl)
		s2 = "None"
		if t.SelRes.Found {
			s2 = c.Some(coqSel(t.SelRes, fl))
		}
	} else {
		s1 = coqSel(t.SelRes, fl)
		s2 = "None"
	}
	evs := c.MapList(t.Events, func(e Event) string {
		return c.Tuple(c.Z(fl.id(e.Flow)), c.Z(keys.id(e.Key)), c.B(e.Dir == "req"), c.Z(condID(e.Cond)))
	})
	code := map[string]int64{"none": 0, "answered": 1, "error": 2}[t.Result]
	refs := c.MapList(k.Graphs, func(g GFlow) string {
		return "(RF " + c.Z(fl.id(g.Name)) + " " + coqMentions(g.ReqRefs, keys, fl) + " " + coqMentions(g.ResRefs, keys, fl) + ")"
	})
	inst := func(i Inst) string { return c.Tuple(c.Z(fl.id(i.Flow)), c.Z(keys.id(i.Name))) }
	var decl []Inst
	for i := range k.Config.Flows {
		for _, p := range k.Config.Flows[i].Procs {
			decl = append(decl, Inst{k.Config.Flows[i].Name, p.Key})
		}
	}
	for i := range k.Graphs { // the processors of the quota system flows
		g := &k.Graphs[i]
		if g.Kind == "user" {
			continue
		}
		for _, d := range []*GDir{&g.Req, &g.Res} {
			for _, n := range d.Nodes {
				decl = append(decl, Inst{g.Name, n.Key})
			}
		}
	}
	irows := c.MapList(k.Insts, func(r IRow) string {
		return "(IR " + c.Z(fl.id(r.Inst.Flow)) + " " + c.Z(keys.id(r.Inst.Name)) + " " + c.B(r.Dir == "req") + " " + c.Z(condID(r.Cond)) + " " + c.B(r.Early) + ")"
	})
	marks := c.MapList(k.Marks, func(m *Inst) string {
		if m == nil {
			return "(0, 0)"
		}
		return inst(*m)
	})
	ci := c.Tuple(flows, c.Tuple(s1, s2), c.B(t.Dir == "req"), c.Tuple(evs, c.Z(code)),
		coqQuotaGroups(&k.Config, keys, fl), refs, c.MapList(decl, inst), irows, marks)
	// the plain connection lists AS WRITTEN (OrderSuite.case_o): the Coq side builds
	// the graph from the list (Order.build) and compares it with the harness' reading
	var ws []string
	for i := range k.Config.Flows {
		f := &k.Config.Flows[i]
		for di, cs := range [][]Conn{f.Req, f.Res} {
			if w, ok := coqConns(cs, keys); ok {
				ws = append(ws, "(WL "+c.Z(fl.id(f.Name))+" "+c.B(di == 0)+" "+w+")")
			}
		}
	}
	return c.Tuple(ci, c.List(ws))
}

// coqConns: a connection list without `flow:` references as list Order.conn.
func coqConns(cs []Conn, keys *interner) (string, bool) {
	var out []string
	for _, cn := range cs {
		switch {
		case cn.From.Kind == "stream" && cn.To.Kind == "proc":
			out = append(out, "(CEntry "+c.Z(keys.id(cn.To.Name))+")")
		case cn.From.Kind == "proc" && cn.To.Kind == "proc":
			out = append(out, "(CEdge "+c.Z(keys.id(cn.From.Name))+" "+c.Z(condID(cn.From.Cond))+" "+c.Some(c.Z(keys.id(cn.To.Name)))+")")
		case cn.From.Kind == "proc" && cn.To.Kind == "stream":
			out = append(out, "(CEdge "+c.Z(keys.id(cn.From.Name))+" "+c.Z(condID(cn.From.Cond))+" None)")
		case cn.From.Kind == "stream" && cn.To.Kind == "stream":
			out = append(out, "CSkip")
		default:
			return "", false
		}
	}
	return c.List(out), true
}

// coqQuotaGroups: the quotas of the configuration grouped by filter, as listed in
// the quota file - per group the names of its START / END system flows and per
// quota its increment processor and (concurrent) its decrement processor.  The
// Coq side generates the system flows from this (theories/C04/Quota.v) and checks
// that they are the ones the harness read (config.go Compile).
func coqQuotaGroups(cfg *Config, keys, fl *interner) string {
	byURL := map[string][]QuotaCfg{}
	var urls []string
	for _, q := range cfg.Quotas {
		if _, ok := byURL[q.URL]; !ok {
			urls = append(urls, q.URL)
		}
		byURL[q.URL] = append(byURL[q.URL], q)
	}
	sort.Strings(urls)
	return c.MapList(urls, func(u string) string {
		qs := byURL[u]
		return c.Tuple(
			c.Z(fl.id("SystemFlow_"+qs[0].ID+"_SYSTEM_FLOW_START")),
			c.Z(fl.id("SystemFlow_"+qs[0].ID+"_SYSTEM_FLOW_END")),
			c.MapList(qs, func(q QuotaCfg) string {
				id := strings.ReplaceAll(q.ID, ".", "")
				dec := "None"
				if q.Strategy == "concurrent" {
					dec = c.Some(c.Z(keys.id(id + "_QuotaProcessorDec")))
				}
				return c.Tuple(c.Z(keys.id(id+"_QuotaProcessorInc")), dec)
			}))
	})
}

// ---------------------------------------------------------------- running

var loadErrors int

// runConfig loads one configuration and runs the given transactions on it.
func runConfig(o *c.Out, cfg Config, txns []Txn, label string) {
	gs, err := cfg.Compile()
	if err != nil {
		panic(fmt.Sprintf("generator produced a configuration the harness cannot read: %v", err))
	}
	st, err := Load(&cfg)
	if err != nil {
		o.Count("loader-rejected")
		if strings.Contains(err.Error(), "invalid condition for processor") {
			// a connection from "G.k" whose condition is checked against the processor the
			// flow ITSELF declares under k (another type): see notes/C04.md, fix-F-C04e
			o.Count("loader-rejected:condition-checked-against-the-flows-own-processor-of-that-key")
		}
		loadErrors++
		if loadErrors <= 5 {
			fmt.Fprintf(os.Stderr, "loader rejected a %s configuration: %v\n", label, err)
		}
		return
	}
	o.Count("configs:" + label)
	ml, mf, enf := connStats(&cfg)
	switch {
	case ml > 24:
		o.Count("configs:longest-connection-list>24")
	case ml > 12:
		o.Count("configs:longest-connection-list=13..24")
	}
	if mf >= 8 {
		o.Count("configs:fan-out>=8-siblings")
	}
	if enf {
		o.Count("configs:entry-point-connection-not-first")
	}
	if ml > 12 && mf >= 8 && enf {
		o.Count("configs:>12-connections+wide-fan-out+entry-not-first")
	}
	for i := range txns {
		t := txns[i]
		Run(st, &t)
		runTxn(o, &cfg, gs, &t)
	}
}

func runTxn(o *c.Out, cfg *Config, gs []GFlow, t *Txn) {
	orc, rows, consistent := oracle(cfg, gs, t)
	irows, consistent2 := instOracle(cfg, gs, t)
	if !consistent || !consistent2 {
		o.Count("skipped:stateful-processor-changed-output-within-transaction")
		return
	}
	k := Case{Config: *cfg, Graphs: gs, Txn: *t, Oracle: rows, Insts: irows}
	for i := range t.Events {
		var m *Inst
		if i < len(t.Early) {
			m = earlyOf(cfg, t.Early[i])
		}
		k.Marks = append(k.Marks, m)
	}
	handed := false
	fan := false
	for _, e := range t.Events {
		if e.Dir == "req" && orc.get(e.Flow, e.Key, "req").Early {
			handed = true
		}
		if f := flowByName(gs, e.Flow); f != nil {
			d := &f.Req
			if e.Dir == "res" {
				d = &f.Res
			}
			if n := d.node(e.Key); n != nil && len(n.Edges) >= 2 {
				fan = true
			}
		}
	}
	nontrivial := len(t.Events) >= 2 && (handed || fan)
	idx := o.Case("txn", coqCase(&k), k, nontrivial)
	o.Count("dir=" + t.Dir)
	o.Count("result=" + t.Result)
	o.Count(fmt.Sprintf("events=%02d", len(t.Events)))
	if handed {
		o.Count("answered-by-processor")
	}
	// a node "G.k" ran in a flow that declares k itself / in any flow
	has := map[string]bool{}
	for _, h := range t.Headers {
		has[h] = true
	}
	refRan, twinRan, told := false, false, false
	for _, e := range t.Events {
		by, name := splitRef(e.Key)
		if by == "" {
			continue
		}
		refRan = true
		own, named := cfg.proc(Inst{e.Flow, name}), cfg.proc(Inst{by, name})
		if own == nil || named == nil {
			continue
		}
		twinRan = true
		a, _ := predict(own, e.Dir, has)
		b, _ := predict(named, e.Dir, has)
		if a != b || own.Type != named.Type || (named.Type == tGen && e.Dir == "req") {
			told = true
		}
	}
	if refRan {
		o.Count("instance:node-naming-another-flows-processor-ran")
	}
	if twinRan {
		o.Count("instance:...-in-a-flow-declaring-the-same-key")
	}
	if told {
		o.Count("instance:...-and-the-two-instances-differ-in-effect")
	}
	nf := len(t.SelReq.User)
	if t.Dir == "res" {
		nf = len(t.SelRes.User)
	}
	o.Count(fmt.Sprintf("user-flows-selected=%d", nf))
	if len(t.SelRes.Start)+len(t.SelRes.End) > 0 {
		o.Count("with-system-flows")
	}
	o.MonitorChecked(1)
	hits, free := monitor(cfg, gs, t, orc)
	if free {
		o.Count("F-C04d:answering-processor-without-response-node")
	}
	for _, h := range hits {
		h.Suite, h.Index, h.Case = "txn", idx, k
		o.Hit(h)
		if f := os.Getenv("C04_DUMP_HITS"); f != "" { // debugging aid: every hit, not only the kept samples
			if fh, err := os.OpenFile(f, os.O_APPEND|os.O_CREATE|os.O_WRONLY, 0o644); err == nil {
				fmt.Fprintf(fh, "%d %s\n", idx, h.Signature)
				fh.Close()
			}
		}
	}
}

// ---------------------------------------------------------------- fixed cases

func fixedConfigs() []Config {
	u := mainURL
	return []Config{
		// F1 -hit-> [Gen, F2]; response: Gen -> T1 (no entry point)
		{Flows: []FlowCfg{{Name: "A", URL: u,
			Procs: []Proc{filt("f1"), filt("f2"), gen1("g"), filt("t1")},
			Req:   []Conn{s2p("f1"), p2p("f1", "hit", "g"), p2p("f1", "hit", "f2"), p2s("f2", "hit")},
			Res:   []Conn{p2p("g", "", "t1"), p2s("t1", "hit")}}}},
		// the other order, response with an entry point of its own
		{Flows: []FlowCfg{{Name: "A", URL: u,
			Procs: []Proc{filt("f1"), filt("f2"), gen1("g"), filt("t1"), filt("w")},
			Req:   []Conn{s2p("f1"), p2p("f1", "hit", "f2"), p2p("f1", "hit", "g"), p2s("f2", "hit")},
			Res:   []Conn{s2p("w"), p2s("w", "hit"), p2p("g", "", "t1"), p2s("t1", "hit")}}}},
		// answering processor: no response node / node without connection / two
		// connections / first connection to the stream
		{Flows: []FlowCfg{{Name: "A", URL: u,
			Procs: []Proc{filt("f1"), gen1("g"), filt("w")},
			Req:   []Conn{s2p("f1"), p2p("f1", "hit", "g")},
			Res:   []Conn{s2p("w"), p2s("w", "hit")}}}},
		{Flows: []FlowCfg{{Name: "A", URL: u,
			Procs: []Proc{filt("f1"), gen1("g"), filt("w")},
			Req:   []Conn{s2p("f1"), p2p("f1", "hit", "g")},
			Res:   []Conn{s2p("w"), p2p("w", "hit", "g")}}}},
		{Flows: []FlowCfg{{Name: "A", URL: u,
			Procs: []Proc{filt("f1"), gen1("g"), filt("w"), filt("t1"), filt("t2")},
			Req:   []Conn{s2p("f1"), p2p("f1", "hit", "g")},
			Res: []Conn{s2p("w"), p2s("w", "hit"), p2p("g", "", "t1"), p2p("g", "", "t2"),
				p2s("t1", "hit"), p2s("t2", "hit")}}}},
		{Flows: []FlowCfg{{Name: "A", URL: u,
			Procs: []Proc{filt("f1"), gen1("g"), filt("w"), filt("t1")},
			Req:   []Conn{s2p("f1"), p2p("f1", "hit", "g")},
			Res:   []Conn{s2p("w"), p2s("w", "hit"), p2s("g", ""), p2p("g", "", "t1"), p2s("t1", "hit")}}}},
		// two user flows and quotas (fixed: request start; concurrent: also response end)
		{Flows: []FlowCfg{
			{Name: "A", URL: u, Procs: []Proc{filt("f1"), gen1("g"), filt("w")},
				Req: []Conn{s2p("f1"), p2p("f1", "hit", "g"), p2s("f1", "miss")},
				Res: []Conn{s2p("w"), p2s("w", "hit"), p2s("g", "")}},
			{Name: "B", URL: u, Procs: []Proc{filt("f2"), filt("t2"), mock("m")},
				Req: []Conn{s2p("f2"), p2p("f2", "hit", "m"), p2s("m", "output_1")},
				Res: []Conn{s2p("t2"), p2s("t2", "hit")}}},
			Quotas: []QuotaCfg{{"q1", "c04.test/*", "fixed", 1000000}, {"q2", u, "concurrent", 1000000}}},
		// flow references
		{Flows: []FlowCfg{
			{Name: "A", URL: u, Procs: []Proc{filt("f1"), gen1("g"), filt("w")},
				Req: []Conn{f2p("X", "f1"), p2p("f1", "hit", "g"), p2s("f1", "miss")},
				Res: []Conn{s2p("w"), p2f("w", "hit", "X"), p2f("g", "", "X")}},
			{Name: "X", URL: "c04.test/x", Procs: []Proc{filt("f2"), filt("f3"), filt("t2")},
				Req: []Conn{s2p("f2"), p2p("f2", "hit", "f3"), p2s("f2", "miss"), p2s("f3", "hit")},
				Res: []Conn{s2p("t2"), p2s("t2", "hit")}}}},
		// the same key declared by two flows, and a flow that uses the OTHER flow's
		// processor ("B.k") while declaring k itself: (1) A's own k only on its response
		// path, B elsewhere; (2) GenerateResponse twins (status and body tell them
		// apart), B selected too; (3) both k and B.k on A's request path
		{Flows: []FlowCfg{
			{Name: "A", URL: u, Procs: []Proc{filt("f1"), filtH("k", "x-a-k")},
				Req: []Conn{s2p("f1"), p2p("f1", "hit", "B.k"), p2s("B.k", "hit")},
				Res: []Conn{s2p("k"), p2s("k", "hit")}},
			{Name: "B", URL: "c04.test/other", Procs: []Proc{filtH("k", "x-b-k")},
				Req: []Conn{s2p("k"), p2s("k", "hit")}, Res: []Conn{s2s()}}}},
		{Flows: []FlowCfg{
			{Name: "A", URL: u, Procs: []Proc{filt("f1"), genS("k", 503), filt("w")},
				Req: []Conn{s2p("f1"), p2p("f1", "hit", "B.k"), p2p("f1", "miss", "k")},
				Res: []Conn{s2p("w"), p2s("w", "hit"), p2s("k", ""), p2p("B.k", "", "w")}},
			{Name: "B", URL: u, Procs: []Proc{filt("f2"), genS("k", 418)},
				Req: []Conn{s2p("f2"), p2p("f2", "hit", "k"), p2s("f2", "miss")}, Res: []Conn{p2s("k", "")}}}},
		{Flows: []FlowCfg{
			{Name: "A", URL: u, Procs: []Proc{filt("f1"), filtH("k", "x-a-k")},
				Req: []Conn{s2p("f1"), p2p("f1", "hit", "k"), p2p("k", "hit", "B.k"), p2s("k", "miss"), p2s("B.k", "hit")},
				Res: []Conn{s2p("B.k"), p2p("B.k", "miss", "k"), p2s("k", "hit")}},
			{Name: "B", URL: u, Procs: []Proc{filtH("k", "x-b-k"), filt("t2")},
				Req: []Conn{s2p("k"), p2s("k", "hit")}, Res: []Conn{s2p("t2"), p2s("t2", "hit")}}}},
		// three quotas behind one filter: one system flow holding all their processors
		{Flows: []FlowCfg{
			{Name: "A", URL: u, Procs: []Proc{filt("f1")}, Req: []Conn{s2p("f1"), p2s("f1", "hit")}, Res: []Conn{s2s()}}},
			Quotas: []QuotaCfg{{"q1", u, "fixed", 1000000}, {"q2", u, "concurrent", 1000000}, {"q3", u, "concurrent", 1000000}}},
	}
}

func txnsFor(r *c.Rng, cfg *Config, limit int) []Txn {
	hs := filtersOf(cfg)
	sort.Strings(hs)
	var out []Txn
	for _, h := range headerSets(r, hs, limit) {
		out = append(out, Txn{Dir: "req", URL: mainURL, Headers: h})
	}
	// two Filters under one key, one of them reached through "G.<key>": requests and
	// responses that carry exactly one of the two steering headers (and all / none of
	// the others) - when the exhaustive listing above did not already hold them
	if pairs := clashPairs(cfg); len(pairs) > 0 && len(out) < 1<<len(hs) {
		for _, pr := range pairs {
			for side := 0; side < 2; side++ {
				var all []string
				for _, h := range hs {
					if h != pr[side] {
						all = append(all, h)
					}
				}
				out = append(out, Txn{Dir: "req", URL: mainURL, Headers: all},
					Txn{Dir: "req", URL: mainURL, Headers: []string{pr[1-side]}},
					Txn{Dir: "res", URL: mainURL, Headers: all})
			}
		}
	}
	// responses: only the Filters that occur on a response side matter
	var rh []string
	for _, f := range cfg.Flows {
		for _, cn := range f.Res {
			for _, e := range []End{cn.From, cn.To} {
				if e.Kind == "proc" {
					for _, p := range f.Procs {
						if p.Key == e.Name && p.Type == tFilter && !contains(rh, p.Hdr) {
							rh = append(rh, p.Hdr)
						}
					}
				}
			}
		}
	}
	sort.Strings(rh)
	for _, h := range headerSets(r, rh, limit/2) {
		out = append(out, Txn{Dir: "res", URL: mainURL, Headers: h})
	}
	return out
}

func contains(xs []string, x string) bool {
	for _, y := range xs {
		if y == x {
			return true
		}
	}
	return false
}

func main() {
	zerolog.SetGlobalLevel(zerolog.Disabled)
	if len(os.Args) > 1 && os.Args[1] == "probe" {
		probe()
		return
	}
	o := c.NewOut("C04")
	o.ShardSize = 150
	o.DeclareSuite("txn", "From Verif Require Import C04.Model C04.Quota C04.Suite C04.Instance C04.Order C04.OrderSuite.", "case_o", "run_case_ord")
	e2eDeclare(o) // suite "e2e" (e2e.go): selection + execution + combination in one run
	o.Rule("hand-written witness configurations, then random configurations: 1-3 user flows (<= 6 request and <= 4 " +
		"response processors each; Filter / GenerateResponse / MockProcessor / Limiter; fan-out <= 3; unreachable " +
		"processors; response sides with and without entry point; answering processors with 0, 1 or several response " +
		"connections or none at all), optional shared flow entered through `flow: at end` / `flow: at start` " +
		"references, optional 1-3 quotas (fixed / concurrent, equal or different filters) giving system flows; per " +
		"configuration every assignment of the Filter outcomes (all subsets of the steering headers when <= 4 Filters, " +
		"else a sample with both extremes) as request and as response transactions; the same processor key declared by " +
		"several flows with different parameters (steering header / status and body of the early response), flows using " +
		"`G.<key>` while declaring <key> themselves (plus the transactions carrying exactly one of the two steering " +
		"headers); wide configurations (one in ~13): a direction - also of an incorporated flow, also a response " +
		"side entered by a hand-over - with more than 12 (up to ~50) connections, the entry-point connection written " +
		"first / in the middle / last, fan-outs of 8-16 siblings under one condition written in an order unrelated " +
		"to their names (some also under the other condition, in another order), one sibling with a nested fan-out, " +
		"an answering sibling first / in the middle / last, answering processors with 8-16 response connections; the " +
		"entry-point connection of the request lists of every fourth ordinary configuration moved to the middle / the end / anywhere; the plain " +
		"connection lists AS WRITTEN are part of the case (Coq builds the graph from them); distinct = distinct (graph, " +
		"selection, oracle, observed events); non-trivial = at least two processors ran and either a processor " +
		"answered the request or a processor with several connections was passed" + e2eRule)
	if e2eReplay(o) {
		o.Finish()
		return
	}
	var k Case
	if _, ok := o.ReplayCase(&k); ok {
		gs, err := k.Config.Compile()
		if err != nil {
			panic(err)
		}
		st, err := Load(&k.Config)
		if err != nil {
			panic(err)
		}
		t := Txn{Dir: k.Txn.Dir, URL: k.Txn.URL, Headers: k.Txn.Headers}
		Run(st, &t)
		runTxn(o, &k.Config, gs, &t)
		o.Finish()
		return
	}
	r := o.Rng
	for _, cfg := range fixedConfigs() {
		cfg := cfg
		runConfig(o, cfg, txnsFor(r.Fork(1), &cfg, 16), "hand-written")
	}
	n := o.Scale(450, 4000, 3000)
	// wide configurations (wide.go): > 12 connections per direction, entry-point
	// connection anywhere in the list, fan-outs of 8-16 siblings - spread among the
	// others (their cases are the big ones: the shards stay balanced)
	nw := o.Scale(36, 400, 400)
	for i := 0; i < n; i++ {
		if wi := i * nw / n; (i+1)*nw/n > wi {
			wr := c.NewRng(o.Seed*1000003 + uint64(wi) + 700000) // derived from the run's seed; the stream of the other configurations is left as it was
			wcfg, wlabel := genWideConfig(wr, wi)
			runConfig(o, wcfg, wideTxns(wr, &wcfg, o.Scale(8, 12, 8), o.Scale(5, 8, 5)), wlabel)
		}
		cr := r.Fork(uint64(i) + 100)
		cfg := genConfig(cr, o.Thorough() || i%3 == 0)
		if i%4 == 1 {
			// the entry-point connection of the request lists somewhere else than first
			mr := c.NewRng(o.Seed*1000003 + uint64(i) + 900000)
			for fi := range cfg.Flows {
				cfg.Flows[fi].Req = moveEntry(mr, cfg.Flows[fi].Req, []int{2, 1, 3}[i/4%3])
			}
		}
		label := "one-flow"
		if len(cfg.Flows) > 1 {
			label = "several-flows"
		}
		for _, f := range cfg.Flows {
			if f.Name == "X" {
				label = "flow-reference"
			}
		}
		if len(cfg.Quotas) > 0 {
			label += "+quotas"
		}
		runConfig(o, cfg, txnsFor(cr, &cfg, o.Scale(12, 24, 12)), label)
	}
	e2eMain(o)
	o.Finish()
}
