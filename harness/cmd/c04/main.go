// C04 harness: generated flow configurations over the real processor
// vocabulary are loaded through the real loader (streams.NewStream().Initialize())
// and driven with requests / responses whose headers steer the Filter
// processors.  Observable per transaction: the sequence of processor-executed
// events (verifhook "proc") and the kind of the resulting action.  The Coq model
// gets the graph as read by the harness (config.go), the flows the filter tree
// selected (in its order) and the branch oracle; the monitor (monitor.go) is an
// independent reference interpreter written from the property text.
package main

import (
	"fmt"
	"os"
	"sort"
	"strings"

	"github.com/rs/zerolog"

	c "verifharness/common"
)

func s2p(p string) Conn { return Conn{End{Kind: "stream"}, End{Kind: "proc", Name: p}} }
func p2p(f, cd, t string) Conn {
	return Conn{End{Kind: "proc", Name: f, Cond: cd}, End{Kind: "proc", Name: t}}
}
func p2s(f, cd string) Conn { return Conn{End{Kind: "proc", Name: f, Cond: cd}, End{Kind: "stream"}} }
func f2p(fl, p string) Conn { return Conn{End{Kind: "flow", Name: fl}, End{Kind: "proc", Name: p}} }
func p2f(f, cd, fl string) Conn {
	return Conn{End{Kind: "proc", Name: f, Cond: cd}, End{Kind: "flow", Name: fl}}
}
func s2s() Conn          { return Conn{End{Kind: "stream"}, End{Kind: "stream"}} }
func filt(k string) Proc { return Proc{Key: k, Type: tFilter, Hdr: "x-" + strings.ToLower(k)} }
func gen1(k string) Proc { return Proc{Key: k, Type: tGen} }
func mock(k string) Proc { return Proc{Key: k, Type: tMock} }

// Case is what a replay file carries.
type Case struct {
	Config Config  `json:"config"`
	Graphs []GFlow `json:"graphs_as_read_by_harness"`
	Txn    Txn     `json:"transaction"`
	Oracle []Row   `json:"oracle"`
}

type Row struct {
	Flow  string `json:"flow"`
	Key   string `json:"key"`
	Dir   string `json:"dir"`
	Cond  string `json:"cond"`
	Early bool   `json:"answers_request"`
}

// ---------------------------------------------------------------- oracle

func procOf(cfg *Config, owner, key string) *Proc {
	// "B.k" names processor k declared by flow B (cross-flow use)
	if i := strings.Index(key, "."); i >= 0 {
		owner, key = key[:i], key[i+1:]
	}
	f := cfg.flow(owner)
	if f == nil {
		return nil
	}
	for i := range f.Procs {
		if f.Procs[i].Key == key {
			return &f.Procs[i]
		}
	}
	return nil
}

// oracle predicts what every processor of every flow outputs in this
// transaction.  Filters: by the headers the harness put on the transaction (the
// continuation after an answered request still sees the REQUEST headers).
// Limiter: stateful (quota counters) - its output is taken as observed.
func oracle(cfg *Config, gs []GFlow, t *Txn) (Oracle, []Row, bool) {
	has := map[string]bool{}
	for _, h := range t.Headers {
		has[h] = true
	}
	seenLim := map[string]string{}
	consistent := true
	for _, e := range t.Events {
		k := e.Flow + "\x00" + e.Key + "\x00" + e.Dir
		if prev, ok := seenLim[k]; ok && prev != e.Cond {
			consistent = false // a stateful processor changed its mind within the transaction
		}
		seenLim[k] = e.Cond
	}
	orc := Oracle{}
	var rows []Row
	for i := range gs {
		g := &gs[i]
		orc[g.Name] = map[string]map[string]Out{}
		for di, d := range []*GDir{&g.Req, &g.Res} {
			dn := []string{"req", "res"}[di]
			for _, n := range d.Nodes {
				var o Out
				p := procOf(cfg, g.Owner[n.Key], n.Key)
				switch {
				case p == nil: // quota system processor
				case p.Type == tFilter:
					o.Cond = "miss"
					if has[p.Hdr] {
						o.Cond = "hit"
					}
				case p.Type == tGen:
					o.Early = dn == "req"
				case p.Type == tLimit:
					o.Cond = "below_limit"
					if v, ok := seenLim[g.Name+"\x00"+n.Key+"\x00"+dn]; ok {
						o.Cond = v
					}
				}
				if orc[g.Name][n.Key] == nil {
					orc[g.Name][n.Key] = map[string]Out{}
				}
				orc[g.Name][n.Key][dn] = o
				rows = append(rows, Row{g.Name, n.Key, dn, o.Cond, o.Early})
			}
		}
	}
	return orc, rows, consistent
}

// ---------------------------------------------------------------- Coq terms

type interner struct {
	m map[string]int64
	n int64
}

func (in *interner) id(s string) int64 {
	if v, ok := in.m[s]; ok {
		return v
	}
	in.n++
	in.m[s] = in.n
	return in.n
}

var condIDs = map[string]int64{"": 0, "hit": 1, "miss": 2, "below_limit": 3, "above_limit": 4, "output_1": 5, "output_2": 6}

func condID(s string) int64 {
	if v, ok := condIDs[s]; ok {
		return v
	}
	return 99
}

func coqDir(d *GDir, keys *interner) string {
	root := "None"
	if d.Root != "" {
		root = c.Some(c.Z(keys.id(d.Root)))
	}
	return c.Tuple(root, c.MapList(d.Nodes, func(n GNode) string {
		return c.Tuple(c.Z(keys.id(n.Key)), c.MapList(n.Edges, func(e GEdge) string {
			to := "None"
			if e.To != "" {
				to = c.Some(c.Z(keys.id(e.To)))
			}
			return c.Tuple(c.Z(condID(e.Cond)), to)
		}))
	}))
}

func coqSel(s Selection, fl *interner) string {
	ids := func(xs []string) string {
		return c.MapList(xs, func(n string) string { return c.Z(fl.id(n)) })
	}
	return c.Tuple(ids(s.Start), ids(s.User), ids(s.End))
}

func coqCase(k *Case) string {
	keys := &interner{m: map[string]int64{}}
	fl := &interner{m: map[string]int64{}}
	flows := c.MapList(k.Graphs, func(g GFlow) string {
		return c.Tuple(c.Z(fl.id(g.Name)), coqDir(&g.Req, keys), coqDir(&g.Res, keys))
	})
	t := &k.Txn
	var s1, s2 string
	if t.Dir == "req" {
		s1 = coqSel(t.SelReq, fl)
		s2 = "None"
		if t.SelRes.Found {
			s2 = c.Some(coqSel(t.SelRes, fl))
		}
	} else {
		s1 = coqSel(t.SelRes, fl)
		s2 = "None"
	}
	rows := c.MapList(k.Oracle, func(r Row) string {
		return c.Tuple(c.Z(fl.id(r.Flow)), c.Z(keys.id(r.Key)), c.B(r.Dir == "req"), c.Z(condID(r.Cond)), c.B(r.Early))
	})
	evs := c.MapList(t.Events, func(e Event) string {
		return c.Tuple(c.Z(fl.id(e.Flow)), c.Z(keys.id(e.Key)), c.B(e.Dir == "req"), c.Z(condID(e.Cond)))
	})
	code := map[string]int64{"none": 0, "answered": 1, "error": 2}[t.Result]
	base := c.Tuple(flows, c.Tuple(s1, s2), rows, c.B(t.Dir == "req"), c.Tuple(evs, c.Z(code)))
	return c.Tuple(base, coqQuotaGroups(&k.Config, keys, fl))
}

// coqQuotaGroups: the quotas of the configuration grouped by filter, as listed in
// the quota file - per group the names of its START / END system flows and per
// quota its increment processor and (concurrent) its decrement processor.  The
// Coq side generates the system flows from this (theories/C04/Quota.v) and checks
// that they are the ones the harness read (config.go Compile).
func coqQuotaGroups(cfg *Config, keys, fl *interner) string {
	byURL := map[string][]QuotaCfg{}
	var urls []string
	for _, q := range cfg.Quotas {
		if _, ok := byURL[q.URL]; !ok {
			urls = append(urls, q.URL)
		}
		byURL[q.URL] = append(byURL[q.URL], q)
	}
	sort.Strings(urls)
	return c.MapList(urls, func(u string) string {
		qs := byURL[u]
		return c.Tuple(
			c.Z(fl.id("SystemFlow_"+qs[0].ID+"_SYSTEM_FLOW_START")),
			c.Z(fl.id("SystemFlow_"+qs[0].ID+"_SYSTEM_FLOW_END")),
			c.MapList(qs, func(q QuotaCfg) string {
				id := strings.ReplaceAll(q.ID, ".", "")
				dec := "None"
				if q.Strategy == "concurrent" {
					dec = c.Some(c.Z(keys.id(id + "_QuotaProcessorDec")))
				}
				return c.Tuple(c.Z(keys.id(id+"_QuotaProcessorInc")), dec)
			}))
	})
}

// ---------------------------------------------------------------- running

var loadErrors int

// runConfig loads one configuration and runs the given transactions on it.
func runConfig(o *c.Out, cfg Config, txns []Txn, label string) {
	gs, err := cfg.Compile()
	if err != nil {
		panic(fmt.Sprintf("generator produced a configuration the harness cannot read: %v", err))
	}
	st, err := Load(&cfg)
	if err != nil {
		o.Count("loader-rejected")
		loadErrors++
		if loadErrors <= 5 {
			fmt.Fprintf(os.Stderr, "loader rejected a %s configuration: %v\n", label, err)
		}
		return
	}
	o.Count("configs:" + label)
	for i := range txns {
		t := txns[i]
		Run(st, &t)
		runTxn(o, &cfg, gs, &t)
	}
}

func runTxn(o *c.Out, cfg *Config, gs []GFlow, t *Txn) {
	orc, rows, consistent := oracle(cfg, gs, t)
	if !consistent {
		o.Count("skipped:stateful-processor-changed-output-within-transaction")
		return
	}
	k := Case{Config: *cfg, Graphs: gs, Txn: *t, Oracle: rows}
	handed := false
	fan := false
	for _, e := range t.Events {
		if e.Dir == "req" && orc.get(e.Flow, e.Key, "req").Early {
			handed = true
		}
		if f := flowByName(gs, e.Flow); f != nil {
			d := &f.Req
			if e.Dir == "res" {
				d = &f.Res
			}
			if n := d.node(e.Key); n != nil && len(n.Edges) >= 2 {
				fan = true
			}
		}
	}
	nontrivial := len(t.Events) >= 2 && (handed || fan)
	idx := o.Case("txn", coqCase(&k), k, nontrivial)
	o.Count("dir=" + t.Dir)
	o.Count("result=" + t.Result)
	o.Count(fmt.Sprintf("events=%02d", len(t.Events)))
	if handed {
		o.Count("answered-by-processor")
	}
	nf := len(t.SelReq.User)
	if t.Dir == "res" {
		nf = len(t.SelRes.User)
	}
	o.Count(fmt.Sprintf("user-flows-selected=%d", nf))
	if len(t.SelRes.Start)+len(t.SelRes.End) > 0 {
		o.Count("with-system-flows")
	}
	o.MonitorChecked(1)
	hits, free := monitor(gs, t, orc)
	if free {
		o.Count("F-C04d:answering-processor-without-response-node")
	}
	for _, h := range hits {
		h.Suite, h.Index, h.Case = "txn", idx, k
		o.Hit(h)
		if f := os.Getenv("C04_DUMP_HITS"); f != "" { // debugging aid: every hit, not only the kept samples
			if fh, err := os.OpenFile(f, os.O_APPEND|os.O_CREATE|os.O_WRONLY, 0o644); err == nil {
				fmt.Fprintf(fh, "%d %s\n", idx, h.Signature)
				fh.Close()
			}
		}
	}
}

// ---------------------------------------------------------------- fixed cases

func fixedConfigs() []Config {
	u := mainURL
	return []Config{
		// F1 -hit-> [Gen, F2]; response: Gen -> T1 (no entry point)
		{Flows: []FlowCfg{{Name: "A", URL: u,
			Procs: []Proc{filt("f1"), filt("f2"), gen1("g"), filt("t1")},
			Req:   []Conn{s2p("f1"), p2p("f1", "hit", "g"), p2p("f1", "hit", "f2"), p2s("f2", "hit")},
			Res:   []Conn{p2p("g", "", "t1"), p2s("t1", "hit")}}}},
		// the other order, response with an entry point of its own
		{Flows: []FlowCfg{{Name: "A", URL: u,
			Procs: []Proc{filt("f1"), filt("f2"), gen1("g"), filt("t1"), filt("w")},
			Req:   []Conn{s2p("f1"), p2p("f1", "hit", "f2"), p2p("f1", "hit", "g"), p2s("f2", "hit")},
			Res:   []Conn{s2p("w"), p2s("w", "hit"), p2p("g", "", "t1"), p2s("t1", "hit")}}}},
		// answering processor: no response node / node without connection / two
		// connections / first connection to the stream
		{Flows: []FlowCfg{{Name: "A", URL: u,
			Procs: []Proc{filt("f1"), gen1("g"), filt("w")},
			Req:   []Conn{s2p("f1"), p2p("f1", "hit", "g")},
			Res:   []Conn{s2p("w"), p2s("w", "hit")}}}},
		{Flows: []FlowCfg{{Name: "A", URL: u,
			Procs: []Proc{filt("f1"), gen1("g"), filt("w")},
			Req:   []Conn{s2p("f1"), p2p("f1", "hit", "g")},
			Res:   []Conn{s2p("w"), p2p("w", "hit", "g")}}}},
		{Flows: []FlowCfg{{Name: "A", URL: u,
			Procs: []Proc{filt("f1"), gen1("g"), filt("w"), filt("t1"), filt("t2")},
			Req:   []Conn{s2p("f1"), p2p("f1", "hit", "g")},
			Res: []Conn{s2p("w"), p2s("w", "hit"), p2p("g", "", "t1"), p2p("g", "", "t2"),
				p2s("t1", "hit"), p2s("t2", "hit")}}}},
		{Flows: []FlowCfg{{Name: "A", URL: u,
			Procs: []Proc{filt("f1"), gen1("g"), filt("w"), filt("t1")},
			Req:   []Conn{s2p("f1"), p2p("f1", "hit", "g")},
			Res:   []Conn{s2p("w"), p2s("w", "hit"), p2s("g", ""), p2p("g", "", "t1"), p2s("t1", "hit")}}}},
		// two user flows and quotas (fixed: request start; concurrent: also response end)
		{Flows: []FlowCfg{
			{Name: "A", URL: u, Procs: []Proc{filt("f1"), gen1("g"), filt("w")},
				Req: []Conn{s2p("f1"), p2p("f1", "hit", "g"), p2s("f1", "miss")},
				Res: []Conn{s2p("w"), p2s("w", "hit"), p2s("g", "")}},
			{Name: "B", URL: u, Procs: []Proc{filt("f2"), filt("t2"), mock("m")},
				Req: []Conn{s2p("f2"), p2p("f2", "hit", "m"), p2s("m", "output_1")},
				Res: []Conn{s2p("t2"), p2s("t2", "hit")}}},
			Quotas: []QuotaCfg{{"q1", "c04.test/*", "fixed", 1000000}, {"q2", u, "concurrent", 1000000}}},
		// flow references
		{Flows: []FlowCfg{
			{Name: "A", URL: u, Procs: []Proc{filt("f1"), gen1("g"), filt("w")},
				Req: []Conn{f2p("X", "f1"), p2p("f1", "hit", "g"), p2s("f1", "miss")},
				Res: []Conn{s2p("w"), p2f("w", "hit", "X"), p2f("g", "", "X")}},
			{Name: "X", URL: "c04.test/x", Procs: []Proc{filt("f2"), filt("f3"), filt("t2")},
				Req: []Conn{s2p("f2"), p2p("f2", "hit", "f3"), p2s("f2", "miss"), p2s("f3", "hit")},
				Res: []Conn{s2p("t2"), p2s("t2", "hit")}}}},
		// three quotas behind one filter: one system flow holding all their processors
		{Flows: []FlowCfg{
			{Name: "A", URL: u, Procs: []Proc{filt("f1")}, Req: []Conn{s2p("f1"), p2s("f1", "hit")}, Res: []Conn{s2s()}}},
			Quotas: []QuotaCfg{{"q1", u, "fixed", 1000000}, {"q2", u, "concurrent", 1000000}, {"q3", u, "concurrent", 1000000}}},
	}
}

func txnsFor(r *c.Rng, cfg *Config, limit int) []Txn {
	hs := filtersOf(cfg)
	sort.Strings(hs)
	var out []Txn
	for _, h := range headerSets(r, hs, limit) {
		out = append(out, Txn{Dir: "req", URL: mainURL, Headers: h})
	}
	// responses: only the Filters that occur on a response side matter
	var rh []string
	for _, f := range cfg.Flows {
		for _, cn := range f.Res {
			for _, e := range []End{cn.From, cn.To} {
				if e.Kind == "proc" {
					for _, p := range f.Procs {
						if p.Key == e.Name && p.Type == tFilter && !contains(rh, p.Hdr) {
							rh = append(rh, p.Hdr)
						}
					}
				}
			}
		}
	}
	sort.Strings(rh)
	for _, h := range headerSets(r, rh, limit/2) {
		out = append(out, Txn{Dir: "res", URL: mainURL, Headers: h})
	}
	return out
}

func contains(xs []string, x string) bool {
	for _, y := range xs {
		if y == x {
			return true
		}
	}
	return false
}

func main() {
	zerolog.SetGlobalLevel(zerolog.Disabled)
	if len(os.Args) > 1 && os.Args[1] == "probe" {
		probe()
		return
	}
	o := c.NewOut("C04")
	o.ShardSize = 150
	o.DeclareSuite("txn", "From Verif Require Import C04.Model C04.Quota C04.Suite.", "case_q", "run_case_checked")
	e2eDeclare(o) // suite "e2e" (e2e.go): selection + execution + combination in one run
	o.Rule("hand-written witness configurations, then random configurations: 1-3 user flows (<= 6 request and <= 4 " +
		"response processors each; Filter / GenerateResponse / MockProcessor / Limiter; fan-out <= 3; unreachable " +
		"processors; response sides with and without entry point; answering processors with 0, 1 or several response " +
		"connections or none at all), optional shared flow entered through `flow: at end` / `flow: at start` " +
		"references, optional 1-3 quotas (fixed / concurrent, equal or different filters) giving system flows; per " +
		"configuration every assignment of the Filter outcomes (all subsets of the steering headers when <= 4 Filters, " +
		"else a sample with both extremes) as request and as response transactions; distinct = distinct (graph, " +
		"selection, oracle, observed events); non-trivial = at least two processors ran and either a processor " +
		"answered the request or a processor with several connections was passed" + e2eRule)
	if e2eReplay(o) {
		o.Finish()
		return
	}
	var k Case
	if _, ok := o.ReplayCase(&k); ok {
		gs, err := k.Config.Compile()
		if err != nil {
			panic(err)
		}
		st, err := Load(&k.Config)
		if err != nil {
			panic(err)
		}
		t := Txn{Dir: k.Txn.Dir, URL: k.Txn.URL, Headers: k.Txn.Headers}
		Run(st, &t)
		runTxn(o, &k.Config, gs, &t)
		o.Finish()
		return
	}
	r := o.Rng
	for _, cfg := range fixedConfigs() {
		cfg := cfg
		runConfig(o, cfg, txnsFor(r.Fork(1), &cfg, 16), "hand-written")
	}
	n := o.Scale(450, 4000, 3000)
	for i := 0; i < n; i++ {
		cr := r.Fork(uint64(i) + 100)
		cfg := genConfig(cr, o.Thorough() || i%3 == 0)
		label := "one-flow"
		if len(cfg.Flows) > 1 {
			label = "several-flows"
		}
		for _, f := range cfg.Flows {
			if f.Name == "X" {
				label = "flow-reference"
			}
		}
		if len(cfg.Quotas) > 0 {
			label += "+quotas"
		}
		runConfig(o, cfg, txnsFor(cr, &cfg, o.Scale(12, 24, 12)), label)
	}
	e2eMain(o)
	o.Finish()
}
