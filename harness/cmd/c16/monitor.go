// Property monitor for C16, written against the property text and independent of
// the model and of the code's cursor strings.
//
// What an exclusion denotes in a given document is found by CONSUMING the
// exclusion text along the document (".key" enters the member `key` of an object,
// "[]" enters every element of an array) — the code under test and the model go
// the other way (they render a cursor for every node and compare strings).
//
//   - structure: same nesting, same keys per object, same array lengths;
//   - a leaf on or under a path denoted by an exclusion (in a notation supported
//     at that call site) is verbatim;
//   - every other string / number / boolean is replaced by the digest of its
//     text (null may stay null or become the digest of "null": the property text
//     lists strings, numbers and booleans only);
//   - one exclusion keeps values under ONE path only (clause "never exposes a
//     value at a different path").
//
// Two open findings are classified with their own signatures:
//
//	exposed:ambiguous-key-notation   (F-C16c) the text of an exclusion can be read
//	    as two different paths of the document (a key contains '.' or '[') and
//	    values are kept in clear under more than one of them;
//	structure:repeated-key-dropped   (F-C16d) an object that repeats a key comes
//	    back with one member per distinct key.
//
// Documents with repeated keys can not be compared position by position; for
// them the monitor checks the structure (with the tolerance above) and the
// safety half of the property over the OUTPUT: every output leaf is the digest
// of an input leaf at the same path, or an input leaf at the same path that is
// on/under a denoted path.
package main

import (
	"fmt"
	"math"
	"strconv"
	"strings"

	c "verifharness/common"
)

const (
	sigAmbiguous = "exposed:ambiguous-key-notation"
	sigDupKeys   = "structure:repeated-key-dropped"
)

type exclSpec struct {
	raw     string
	text    string   // body-relative text (what has to be matched against the document)
	ok      bool     // written in a notation that can denote a body path at this call site
	lenient bool     // notation not (necessarily) supported at this call site: honouring it is optional
	paths   [][]step // the distinct node paths of the document the text can be read as
	// kept leaves per denoted path (index into paths), for the one-path clause
	keptUnder map[int]string
}

func (sp *exclSpec) ambiguous() bool { return len(sp.paths) >= 2 }

// parsePath: ( "." key | "[]" )*, key = longest run without '.' and '['.  Used
// only for the distribution tag "excluded-name-also-elsewhere".
func parsePath(s string) ([]step, bool) {
	p := []step{}
	for i := 0; i < len(s); {
		switch {
		case s[i] == '.':
			j := i + 1
			for j < len(s) && s[j] != '.' && s[j] != '[' {
				j++
			}
			p = append(p, step{key: s[i+1 : j]})
			i = j
		case s[i] == '[' && i+1 < len(s) && s[i+1] == ']':
			p = append(p, step{any: true})
			i += 2
		default:
			return nil, false
		}
	}
	return p, true
}

// matchNodes: the distinct structured paths of the nodes of doc reached by
// consuming text along the document.
func matchNodes(doc *Node, text string) [][]step {
	var out [][]step
	seen := map[string]bool{}
	var rec func(n *Node, rest string, path []step)
	rec = func(n *Node, rest string, path []step) {
		if rest == "" {
			id := showPath(path)
			if !seen[id] {
				seen[id] = true
				out = append(out, append([]step{}, path...))
			}
			return
		}
		switch n.Kind {
		case kObj:
			for i, key := range n.K {
				if strings.HasPrefix(rest, "."+key) {
					rec(n.A[i], rest[1+len(key):], append(append([]step{}, path...), step{key: key}))
				}
			}
		case kArr:
			if strings.HasPrefix(rest, "[]") {
				for _, ch := range n.A {
					rec(ch, rest[2:], append(append([]step{}, path...), step{any: true}))
				}
			}
		}
	}
	rec(doc, text, nil)
	return out
}

const (
	jpRequest  = "$.request.body"
	jpResponse = "$.response.body"
)

// collectorSite: the call site filters the exclusions by direction (the HAR
// collector: suite collector through generateHAR, suite export through Execute)
func collectorSite(k *Case) bool { return k.Suite == "collector" || k.Suite == "export" }

func denotation(k *Case, doc *Node, e string) *exclSpec {
	sp := &exclSpec{raw: e, keptUnder: map[int]string{}}
	if collectorSite(k) {
		mine := jpResponse
		if k.Request {
			mine = jpRequest
		}
		switch {
		case strings.HasPrefix(e, mine):
			sp.text, sp.ok = e[len(mine):], true
		case strings.HasPrefix(e, "$"):
			// another part of the transaction (other direction, headers, ...)
		default:
			// plain cursor notation given to the collector
			sp.text, sp.ok, sp.lenient = e, true, true
		}
	} else {
		switch {
		case strings.HasPrefix(e, jpRequest):
			sp.text, sp.ok, sp.lenient = e[len(jpRequest):], true, true
		case strings.HasPrefix(e, jpResponse):
			sp.text, sp.ok, sp.lenient = e[len(jpResponse):], true, true
		case strings.HasPrefix(e, "$"):
		default:
			sp.text, sp.ok = e, true
		}
	}
	if sp.ok {
		sp.paths = matchNodes(doc, sp.text)
	}
	return sp
}

// ambiguityFlags: the classifier of finding F-C16c per exclusion that reaches
// ObfuscateJSON at this call site (all of them for the direct API, those with
// the prefix of the direction for the collector), in order.  Tied to the Coq
// predicate [ambiguous] by the suite "classify".
func ambiguityFlags(k *Case, doc *Node) []bool {
	flags := []bool{}
	for _, e := range k.Excl {
		if collectorSite(k) {
			mine := jpResponse
			if k.Request {
				mine = jpRequest
			}
			if !strings.HasPrefix(e, mine) {
				continue
			}
		}
		flags = append(flags, denotation(k, doc, e).ambiguous())
	}
	return flags
}

func isPrefixPath(p, q []step) bool {
	if len(p) > len(q) {
		return false
	}
	for i := range p {
		if p[i] != q[i] {
			return false
		}
	}
	return true
}

type monResult struct {
	hits   []c.Hit
	tags   []string
	kept   int
	hidden int
}

type mon struct {
	k     *Case
	doc   *Node
	specs []*exclSpec
	hash  func(string) string
	res   monResult
	sigs  map[string]bool
}

func (m *mon) hit(sig, demanded, observed string) {
	if sig != sigAmbiguous && sig != sigDupKeys {
		sig += "@" + m.k.Suite
	}
	if m.sigs[sig] {
		return // one hit per root-cause class and case is enough
	}
	m.sigs[sig] = true
	m.res.hits = append(m.res.hits, c.Hit{Signature: sig, Demanded: demanded, Observed: observed})
}

func monitor(k *Case, doc, out *Node) monResult {
	h := hasherOf(k.Hasher)
	m := &mon{k: k, doc: doc, sigs: map[string]bool{}, hash: func(s string) string { return h.HashBytes([]byte(s)) }}
	for _, e := range k.Excl {
		m.specs = append(m.specs, denotation(k, doc, e))
	}
	// distribution: does the name an exclusion ends with also occur elsewhere?
	collision := false
	for _, sp := range m.specs {
		path, ok := parsePath(sp.text)
		if !sp.ok || !ok || len(path) == 0 {
			continue
		}
		last := path[len(path)-1]
		doc.walk(nil, func(p []step, _ *Node) {
			if len(p) > 0 && p[len(p)-1] == last && !isPrefixPath(path, p) {
				collision = true
			}
		})
	}
	if collision {
		m.res.tags = append(m.res.tags, "excluded-name-also-elsewhere")
	}
	for _, sp := range m.specs {
		if sp.ambiguous() {
			m.res.tags = append(m.res.tags, "ambiguous-exclusion")
			break
		}
	}
	if doc.hasUncleanKeys() {
		m.res.tags = append(m.res.tags, "keys-with-dot-or-bracket")
	}
	// distribution: digest-like strings; numbers that do not survive float64, excluded or not
	dl, nf, nfx := false, false, false
	doc.walk(nil, func(p []step, n *Node) {
		switch {
		case n.Kind == kStr && m.digestLike(n.S):
			dl = true
		case n.Kind == kNum:
			f, _ := strconv.ParseFloat(n.S, 64)
			if strconv.FormatFloat(f, 'g', -1, 64) != n.S && strconv.FormatFloat(f, 'f', -1, 64) != n.S {
				nf = true
				if strict, _, _ := m.coverage(p); strict {
					nfx = true
				}
			}
		}
	})
	if dl {
		m.res.tags = append(m.res.tags, "digest-like-string")
	}
	if nf {
		m.res.tags = append(m.res.tags, "number-not-float64-roundtrip")
	}
	if nfx {
		m.res.tags = append(m.res.tags, "number-not-float64-roundtrip-excluded")
	}
	if doc.hasDupKeys() {
		m.res.tags = append(m.res.tags, "repeated-keys")
		for _, p := range m.shapeDup(doc, out, nil) {
			m.hit(p.sig, p.demanded, p.observed)
		}
		m.safety(doc, out)
		m.count(doc, out)
		return m.res
	}
	m.compare(doc, out, nil)
	m.onePath()
	if m.res.kept > 0 {
		m.res.tags = append(m.res.tags, "some-leaf-kept")
	}
	return m.res
}

// count: kept/hidden tallies where leaves are not judged one by one.
func (m *mon) count(in, out *Node) {
	if in.isLeaf() {
		if out != nil && out.isLeaf() && sameLeaf(in, out) && !m.hiddenOK(in, out) {
			m.res.kept++
		} else {
			m.res.hidden++
		}
		return
	}
	for i, ch := range in.A {
		var o *Node
		if out != nil && out.Kind == in.Kind && i < len(out.A) {
			o = out.A[i]
		}
		m.count(ch, o)
	}
}

// sameLeaf: b shows the value of a — the same string / boolean, the same number
// exactly or up to what a float64 holds (used to recognise an EXPOSURE: a hidden
// leaf must not come back as a number that is, or rounds to, the input).
func sameLeaf(a, b *Node) bool {
	if a.Kind != b.Kind {
		return false
	}
	switch a.Kind {
	case kStr:
		return a.S == b.S
	case kBool:
		return a.B == b.B
	case kNum:
		if sameNumber(a.S, b.S) {
			return true
		}
		x, e1 := strconv.ParseFloat(a.S, 64)
		y, e2 := strconv.ParseFloat(b.S, 64)
		return (e1 == nil || math.IsInf(x, 0)) && (e2 == nil || math.IsInf(y, 0)) && x == y
	}
	return true
}

// verbatimLeaf: b is a VERBATIM (what the property demands of a value on an
// excluded path).  A number is compared by its JSON text: a number read into a
// float64 and printed again is another text and, beyond 2^53 or 17 significant
// digits, another value (9007199254740993 -> 9.007199254740992e+15).
func verbatimLeaf(a, b *Node) bool {
	if a.Kind == kNum && b.Kind == kNum {
		return a.S == b.S
	}
	return sameLeaf(a, b)
}

// notKeptSig: root-cause class of an excluded leaf that did not come back verbatim
func notKeptSig(in, out *Node) string {
	if in.Kind == kNum && out.Kind == kNum {
		if sameNumber(in.S, out.S) {
			return "excluded-not-kept:number-respelled"
		}
		return "excluded-not-kept:number-changed"
	}
	return "excluded-not-kept"
}

// digestLike: the string has the look of a digest / of already obfuscated data
// (hex digits, dashes allowed, at least 16 of them), or is the digest of another
// leaf of the document.  Only names the root-cause class of an exposure.
func (m *mon) digestLike(s string) bool {
	hex := 0
	ok := true
	for _, ch := range s {
		switch {
		case ch >= '0' && ch <= '9', ch >= 'a' && ch <= 'f', ch >= 'A' && ch <= 'F':
			hex++
		case ch == '-':
		default:
			ok = false
		}
	}
	if ok && hex >= 16 {
		return true
	}
	found := false
	if m.doc != nil {
		m.doc.walk(nil, func(_ []step, n *Node) {
			if n.isLeaf() && m.hash(leafText(n)) == s {
				found = true
			}
		})
	}
	return found
}

func (m *mon) hiddenOK(in, out *Node) bool {
	if in.Kind == kNull && out.Kind == kNull {
		return true
	}
	if out.Kind != kStr {
		return false
	}
	switch in.Kind {
	case kNum:
		// the property does not fix the rendering of a number that is hashed:
		// accept the digest of the token and of the usual decimal renderings
		if out.S == m.hash(in.S) {
			return true
		}
		// (of the float64 nearest to it — an infinity for a token such as 1e400 —
		// and of the exact value)
		f, err := strconv.ParseFloat(in.S, 64)
		if err == nil || math.IsInf(f, 0) {
			if out.S == m.hash(strconv.FormatFloat(f, 'g', -1, 64)) || out.S == m.hash(strconv.FormatFloat(f, 'e', -1, 64)) {
				return true
			}
			for prec := -1; prec <= 6; prec++ {
				if out.S == m.hash(strconv.FormatFloat(f, 'f', prec, 64)) {
					return true
				}
			}
		}
		if r := numRat(in.S); r != nil {
			for prec := 0; prec <= 6; prec++ {
				if out.S == m.hash(r.FloatString(prec)) {
					return true
				}
			}
		}
		return false
	default:
		return out.S == m.hash(leafText(in))
	}
}

// cursorText renders a structured path in the plain notation (used only to
// classify an exposure and by the generators, never to decide whether there is one).
func cursorText(p []step) string {
	var sb strings.Builder
	for _, s := range p {
		if s.any {
			sb.WriteString("[]")
		} else {
			sb.WriteString("." + s.key)
		}
	}
	return sb.String()
}

// coverage of a node path by the exclusions: strict = a supported, unambiguous
// exclusion denotes it or an ancestor through keys without '.' / '[' (the leaf
// MUST be verbatim); lenient = an exclusion in an optional notation, an ambiguous
// one, or a reading through a key with '.' / '[' does (it MAY be).
func (m *mon) coverage(path []step) (strict, lenient bool, amb []ambRef) {
	for _, sp := range m.specs {
		for i, dp := range sp.paths {
			if !isPrefixPath(dp, path) {
				continue
			}
			switch {
			case sp.ambiguous():
				lenient = true
				amb = append(amb, ambRef{sp, i})
			case sp.lenient || oddKeyOn(dp):
				// a reading that goes through a key containing '.' / '[' is optional: a
				// notation with an escaping rule would not read the text that way
				lenient = true
			default:
				strict = true
			}
		}
	}
	return
}

func oddKeyOn(p []step) bool {
	for _, s := range p {
		if !s.any && strings.ContainsAny(s.key, ".[") {
			return true
		}
	}
	return false
}

type ambRef struct {
	sp  *exclSpec
	idx int
}

func (m *mon) compare(in, out *Node, path []step) {
	if !in.isLeaf() {
		if out.Kind != in.Kind {
			m.hit("structure:kind", fmt.Sprintf("%s stays %s", showPath(path), in.show()),
				"output has "+out.show())
			return
		}
		if len(out.A) != len(in.A) {
			m.hit("structure:length", fmt.Sprintf("%s keeps its %d members", showPath(path), len(in.A)),
				fmt.Sprintf("output has %d", len(out.A)))
			return
		}
		if in.Kind == kArr {
			for i := range in.A {
				m.compare(in.A[i], out.A[i], append(append([]step{}, path...), step{any: true}))
			}
			return
		}
		pos := map[string]int{}
		for i, key := range out.K {
			pos[key] = i
		}
		for i, key := range in.K {
			j, ok := pos[key]
			if !ok {
				m.hit("structure:keys", fmt.Sprintf("object %s keeps key %q", showPath(path), key),
					"key missing in the output: "+strings.Join(out.K, ","))
				return
			}
			m.compare(in.A[i], out.A[j], append(append([]step{}, path...), step{key: key}))
		}
		return
	}
	// primitive leaf
	if !out.isLeaf() {
		m.hit("structure:kind", fmt.Sprintf("%s stays a primitive", showPath(path)), "output has "+out.show())
		return
	}
	strict, lenient, amb := m.coverage(path)
	verbatim := verbatimLeaf(in, out)
	hidden := m.hiddenOK(in, out)
	digest := m.hash(leafText(in))
	switch {
	case strict:
		if verbatim {
			m.res.kept++
			return
		}
		m.hit(notKeptSig(in, out), fmt.Sprintf("leaf %s = %s lies on/under an excluded path (exclusions %q): kept verbatim",
			showPath(path), in.show(), m.k.Excl), "output has "+out.show())
	case lenient:
		if verbatim && !hidden {
			m.res.kept++
			for _, r := range amb {
				if _, ok := r.sp.keptUnder[r.idx]; !ok {
					r.sp.keptUnder[r.idx] = showPath(path) + " = " + out.show()
				}
			}
			return
		}
		if hidden {
			m.res.hidden++
			return
		}
		m.hit("leaf-garbled", fmt.Sprintf("leaf %s = %s is either kept or replaced by its digest %q",
			showPath(path), in.show(), digest), "output has "+out.show())
	default:
		if hidden {
			m.res.hidden++
			return
		}
		dem := fmt.Sprintf("leaf %s = %s is not on or under a path denoted by any exclusion of %q: replaced by its digest %q",
			showPath(path), in.show(), m.k.Excl, digest)
		if sameLeaf(in, out) {
			sig := "exposed:other"
			if in.Kind == kStr && m.digestLike(in.S) {
				sig = "exposed:digest-like-value"
			}
			for n := 1; n <= len(path); n++ {
				cur := cursorText(path[:n])
				for _, e := range m.k.Excl {
					if strings.HasSuffix(e, cur) {
						sig = "exposed:exclusion-suffix"
					}
				}
			}
			m.hit(sig, dem, "kept verbatim: "+out.show())
			return
		}
		m.hit("not-hashed", dem, "output has "+out.show())
	}
}

// onePath: an exclusion whose text can be read as several paths of the document
// must not keep values under more than one of them (finding F-C16c when it does).
func (m *mon) onePath() {
	for _, sp := range m.specs {
		if !sp.ambiguous() || len(sp.keptUnder) < 2 {
			continue
		}
		var obs []string
		for i, dp := range sp.paths {
			if v, ok := sp.keptUnder[i]; ok {
				obs = append(obs, fmt.Sprintf("under %s: %s", showPath(dp), v))
			}
		}
		m.hit(sigAmbiguous,
			fmt.Sprintf("exclusion %q keeps values on or under one path only (its text reads as %d different paths of this document)",
				sp.raw, len(sp.paths)),
			"kept in clear "+strings.Join(obs, "; "))
	}
}

// ---------------------------------------------------------------- repeated keys

type problem struct{ sig, demanded, observed string }

func distinctKeys(ks []string) []string {
	seen := map[string]bool{}
	var out []string
	for _, k := range ks {
		if !seen[k] {
			seen[k] = true
			out = append(out, k)
		}
	}
	return out
}

func sameStrings(a, b []string) bool {
	if len(a) != len(b) {
		return false
	}
	for i := range a {
		if a[i] != b[i] {
			return false
		}
	}
	return true
}

func sameKeySet(a, b []string) bool {
	if len(a) != len(b) {
		return false
	}
	s := map[string]int{}
	for _, k := range a {
		s[k]++
	}
	for _, k := range b {
		s[k]--
	}
	for _, v := range s {
		if v != 0 {
			return false
		}
	}
	return true
}

// shapeDup: structure check for documents with repeated keys (no side effects;
// returns the problems found).  An object that repeats a key may come back
// (a) with the same sequence of keys, or (b) with one member per distinct key —
// (b) is finding F-C16d; anything else is an unknown structure failure.
func (m *mon) shapeDup(in, out *Node, path []step) []problem {
	if in.isLeaf() {
		if !out.isLeaf() {
			return []problem{{"structure:kind", fmt.Sprintf("%s stays a primitive", showPath(path)), "output has " + out.show()}}
		}
		return nil
	}
	if out.Kind != in.Kind {
		return []problem{{"structure:kind", fmt.Sprintf("%s stays %s", showPath(path), in.show()), "output has " + out.show()}}
	}
	var ps []problem
	if in.Kind == kArr {
		if len(out.A) != len(in.A) {
			return []problem{{"structure:length", fmt.Sprintf("%s keeps its %d members", showPath(path), len(in.A)),
				fmt.Sprintf("output has %d", len(out.A))}}
		}
		for i := range in.A {
			ps = append(ps, m.shapeDup(in.A[i], out.A[i], append(append([]step{}, path...), step{any: true}))...)
		}
		return ps
	}
	dk := distinctKeys(in.K)
	switch {
	case sameStrings(in.K, out.K): // (a), also every object without repeated keys in the usual order
		for i := range in.A {
			ps = append(ps, m.shapeDup(in.A[i], out.A[i], append(append([]step{}, path...), step{key: in.K[i]}))...)
		}
	case len(dk) == len(in.K) && sameKeySet(in.K, out.K): // no repeated key here, other order
		pos := map[string]int{}
		for i, key := range out.K {
			pos[key] = i
		}
		for i, key := range in.K {
			ps = append(ps, m.shapeDup(in.A[i], out.A[pos[key]], append(append([]step{}, path...), step{key: key}))...)
		}
	case len(dk) < len(in.K) && sameKeySet(dk, out.K): // (b)
		// finding F-C16d is about the objects that are rebuilt; an object on or under an
		// excluded path is to be kept verbatim, repeated keys included
		sig := sigDupKeys
		if strict, _, _ := m.coverage(path); strict {
			sig = "excluded-not-kept:repeated-key-dropped"
		}
		ps = append(ps, problem{sig,
			fmt.Sprintf("object %s keeps its %d members (keys %q)", showPath(path), len(in.K), in.K),
			fmt.Sprintf("output has %d members (keys %q): one per distinct key", len(out.K), out.K)})
		for j, key := range out.K {
			// the member may stand for any of the occurrences of the key
			var best []problem
			first := true
			for i := range in.K {
				if in.K[i] != key {
					continue
				}
				q := m.shapeDup(in.A[i], out.A[j], append(append([]step{}, path...), step{key: key}))
				if first || unknownProblems(q) < unknownProblems(best) {
					best, first = q, false
				}
			}
			ps = append(ps, best...)
		}
	default:
		ps = append(ps, problem{"structure:keys", fmt.Sprintf("object %s keeps its keys %q", showPath(path), in.K),
			fmt.Sprintf("output has keys %q", out.K)})
	}
	return ps
}

func unknownProblems(ps []problem) int {
	n := 0
	for _, p := range ps {
		if p.sig != sigDupKeys {
			n++
		}
	}
	return n
}

// leavesAt: the primitive leaves of doc at the structured path p.
func leavesAt(doc *Node, p []step) []*Node {
	cur := []*Node{doc}
	for _, s := range p {
		var next []*Node
		for _, n := range cur {
			switch {
			case s.any && n.Kind == kArr:
				next = append(next, n.A...)
			case !s.any && n.Kind == kObj:
				for i, key := range n.K {
					if key == s.key {
						next = append(next, n.A[i])
					}
				}
			}
		}
		cur = next
	}
	var out []*Node
	for _, n := range cur {
		if n.isLeaf() {
			out = append(out, n)
		}
	}
	return out
}

// safety: every primitive leaf of the OUTPUT at structured path q is the digest
// of an input leaf at q, or an input leaf at q that lies on or under a path
// denoted by some exclusion (any notation).
func (m *mon) safety(doc, out *Node) {
	out.walk(nil, func(q []step, o *Node) {
		if !o.isLeaf() {
			return
		}
		strict, lenient, _ := m.coverage(q)
		cands := leavesAt(doc, q)
		for _, in := range cands {
			if m.hiddenOK(in, o) {
				return
			}
			if (strict || lenient) && verbatimLeaf(in, o) {
				return
			}
		}
		if strict || lenient {
			for _, in := range cands {
				if sameLeaf(in, o) {
					m.hit(notKeptSig(in, o), fmt.Sprintf("output leaf %s lies on/under a path denoted by an exclusion of %q: an input leaf at that path, verbatim",
						showPath(q), m.k.Excl), fmt.Sprintf("output has %s for the input leaf %s", o.show(), in.show()))
					return
				}
			}
		}
		dem := fmt.Sprintf("output leaf %s is the digest of an input leaf at that path, or an input leaf at that path on/under a path denoted by an exclusion of %q",
			showPath(q), m.k.Excl)
		for _, in := range cands {
			if sameLeaf(in, o) {
				sig := "exposed:other"
				if in.Kind == kStr && m.digestLike(in.S) {
					sig = "exposed:digest-like-value"
				}
				m.hit(sig, dem, "kept verbatim: "+o.show())
				return
			}
		}
		m.hit("not-hashed", dem, fmt.Sprintf("output has %s; input leaves at that path: %d", o.show(), len(cands)))
	})
}
