// Property monitor for C16, written against the property text and independent of
// the model and of the code's cursor strings: exclusions are parsed into
// structured paths (key steps / "any element" steps) by the parser below and
// matched step by step against the structured path of every leaf.
//
//   - structure: same nesting, same keys per object, same array lengths;
//   - a leaf on or under a path denoted by an exclusion (in a notation supported
//     at that call site) is verbatim;
//   - every other string / number / boolean is replaced by the digest of its
//     text (null may stay null or become the digest of "null": the property text
//     lists strings, numbers and booleans only).
//
// Out of the monitor's scope (skipped, counted): documents in which an object
// repeats a key, and documents with keys containing '.' or '[' (the exclusion
// notations can not express such keys unambiguously) — the same side conditions
// as in the theorems.
package main

import (
	"fmt"
	"strconv"
	"strings"

	c "verifharness/common"
)

type exclSpec struct {
	raw     string
	path    []step
	ok      bool // denotes a path
	lenient bool // notation not (necessarily) supported at this call site: honouring it is optional
}

// parsePath: ( "." key | "[]" )*, key = longest run without '.' and '['.
func parsePath(s string) ([]step, bool) {
	p := []step{}
	for i := 0; i < len(s); {
		switch {
		case s[i] == '.':
			j := i + 1
			for j < len(s) && s[j] != '.' && s[j] != '[' {
				j++
			}
			p = append(p, step{key: s[i+1 : j]})
			i = j
		case s[i] == '[' && i+1 < len(s) && s[i+1] == ']':
			p = append(p, step{any: true})
			i += 2
		default:
			return nil, false
		}
	}
	return p, true
}

const (
	jpRequest  = "$.request.body"
	jpResponse = "$.response.body"
)

func denotation(k *Case, e string) exclSpec {
	sp := exclSpec{raw: e}
	if k.Suite == "collector" {
		mine := jpResponse
		if k.Request {
			mine = jpRequest
		}
		switch {
		case strings.HasPrefix(e, mine):
			sp.path, sp.ok = parsePath(e[len(mine):])
		case strings.HasPrefix(e, "$"):
			// another part of the transaction (other direction, headers, ...)
		default:
			// plain cursor notation given to the collector
			sp.path, sp.ok = parsePath(e)
			sp.lenient = true
		}
		return sp
	}
	switch {
	case strings.HasPrefix(e, jpRequest):
		sp.path, sp.ok = parsePath(e[len(jpRequest):])
		sp.lenient = true
	case strings.HasPrefix(e, jpResponse):
		sp.path, sp.ok = parsePath(e[len(jpResponse):])
		sp.lenient = true
	case strings.HasPrefix(e, "$"):
	default:
		sp.path, sp.ok = parsePath(e)
	}
	return sp
}

func isPrefixPath(p, q []step) bool {
	if len(p) > len(q) {
		return false
	}
	for i := range p {
		if p[i] != q[i] {
			return false
		}
	}
	return true
}

type monResult struct {
	hits    []c.Hit
	tags    []string
	kept    int
	hidden  int
	skipped string
}

type mon struct {
	k     *Case
	specs []exclSpec
	hash  func(string) string
	res   monResult
	sigs  map[string]bool
}

func (m *mon) hit(sig, demanded, observed string) {
	sig += "@" + m.k.Suite
	if m.sigs[sig] {
		return // one hit per root-cause class and case is enough
	}
	m.sigs[sig] = true
	m.res.hits = append(m.res.hits, c.Hit{Signature: sig, Demanded: demanded, Observed: observed})
}

func monitor(k *Case, doc, out *Node) monResult {
	h := hasherOf(k.Hasher)
	m := &mon{k: k, sigs: map[string]bool{}, hash: func(s string) string { return h.HashBytes([]byte(s)) }}
	for _, e := range k.Excl {
		m.specs = append(m.specs, denotation(k, e))
	}
	// distribution: does the name an exclusion ends with also occur elsewhere?
	collision := false
	for _, sp := range m.specs {
		if !sp.ok || len(sp.path) == 0 {
			continue
		}
		last := sp.path[len(sp.path)-1]
		doc.walk(nil, func(p []step, _ *Node) {
			if len(p) > 0 && p[len(p)-1] == last && !isPrefixPath(sp.path, p) {
				collision = true
			}
		})
	}
	if collision {
		m.res.tags = append(m.res.tags, "excluded-name-also-elsewhere")
	}
	switch {
	case doc.hasDupKeys():
		m.res.skipped = "repeated-keys"
	case doc.hasUncleanKeys():
		m.res.skipped = "keys-with-dot-or-bracket"
	}
	if m.res.skipped != "" {
		// still classify kept/hidden for the non-triviality rule, without judging
		m.count(doc, out)
		return m.res
	}
	m.compare(doc, out, nil)
	if m.res.kept > 0 {
		m.res.tags = append(m.res.tags, "some-leaf-kept")
	}
	return m.res
}

// count: kept/hidden tallies for skipped documents (no verdicts).
func (m *mon) count(in, out *Node) {
	if in.isLeaf() {
		if out != nil && sameLeaf(in, out) {
			m.res.kept++
		} else {
			m.res.hidden++
		}
		return
	}
	for i, ch := range in.A {
		var o *Node
		if out != nil && out.Kind == in.Kind && i < len(out.A) {
			o = out.A[i]
		}
		m.count(ch, o)
	}
}

func sameLeaf(a, b *Node) bool {
	if a.Kind != b.Kind {
		return false
	}
	switch a.Kind {
	case kStr:
		return a.S == b.S
	case kBool:
		return a.B == b.B
	case kNum:
		if a.S == b.S {
			return true
		}
		x, e1 := strconv.ParseFloat(a.S, 64)
		y, e2 := strconv.ParseFloat(b.S, 64)
		return e1 == nil && e2 == nil && x == y
	}
	return true
}

func (m *mon) hiddenOK(in, out *Node) bool {
	if in.Kind == kNull && out.Kind == kNull {
		return true
	}
	if out.Kind != kStr {
		return false
	}
	switch in.Kind {
	case kNum:
		// the property does not fix the rendering of a number that is hashed:
		// accept the digest of the token and of the usual decimal renderings
		if out.S == m.hash(in.S) {
			return true
		}
		f, err := strconv.ParseFloat(in.S, 64)
		if err != nil {
			return false
		}
		if out.S == m.hash(strconv.FormatFloat(f, 'g', -1, 64)) {
			return true
		}
		for prec := -1; prec <= 6; prec++ {
			if out.S == m.hash(strconv.FormatFloat(f, 'f', prec, 64)) {
				return true
			}
		}
		return false
	default:
		return out.S == m.hash(leafText(in))
	}
}

// cursorText renders a structured path in the plain notation (used only to
// classify an exposure, never to decide whether there is one).
func cursorText(p []step) string {
	var sb strings.Builder
	for _, s := range p {
		if s.any {
			sb.WriteString("[]")
		} else {
			sb.WriteString("." + s.key)
		}
	}
	return sb.String()
}

func (m *mon) compare(in, out *Node, path []step) {
	strict, lenient := false, false
	for _, sp := range m.specs {
		if sp.ok && isPrefixPath(sp.path, path) {
			if sp.lenient {
				lenient = true
			} else {
				strict = true
			}
		}
	}
	if !in.isLeaf() {
		if out.Kind != in.Kind {
			m.hit("structure:kind", fmt.Sprintf("%s stays %s", showPath(path), in.show()),
				"output has "+out.show())
			return
		}
		if len(out.A) != len(in.A) {
			m.hit("structure:length", fmt.Sprintf("%s keeps its %d members", showPath(path), len(in.A)),
				fmt.Sprintf("output has %d", len(out.A)))
			return
		}
		if in.Kind == kArr {
			for i := range in.A {
				m.compare(in.A[i], out.A[i], append(append([]step{}, path...), step{any: true}))
			}
			return
		}
		pos := map[string]int{}
		for i, key := range out.K {
			pos[key] = i
		}
		for i, key := range in.K {
			j, ok := pos[key]
			if !ok {
				m.hit("structure:keys", fmt.Sprintf("object %s keeps key %q", showPath(path), key),
					"key missing in the output: "+strings.Join(out.K, ","))
				return
			}
			m.compare(in.A[i], out.A[j], append(append([]step{}, path...), step{key: key}))
		}
		return
	}
	// primitive leaf
	if !out.isLeaf() {
		m.hit("structure:kind", fmt.Sprintf("%s stays a primitive", showPath(path)), "output has "+out.show())
		return
	}
	verbatim := sameLeaf(in, out)
	hidden := m.hiddenOK(in, out)
	digest := m.hash(leafText(in))
	switch {
	case strict:
		if verbatim {
			m.res.kept++
			return
		}
		m.hit("excluded-not-kept", fmt.Sprintf("leaf %s = %s lies on/under an excluded path (exclusions %q): kept verbatim",
			showPath(path), in.show(), m.k.Excl), "output has "+out.show())
	case lenient:
		if verbatim && !hidden {
			m.res.kept++
			return
		}
		if hidden {
			m.res.hidden++
			return
		}
		m.hit("leaf-garbled", fmt.Sprintf("leaf %s = %s is either kept or replaced by its digest %q",
			showPath(path), in.show(), digest), "output has "+out.show())
	default:
		if hidden {
			m.res.hidden++
			return
		}
		dem := fmt.Sprintf("leaf %s = %s is not on or under a path denoted by any exclusion of %q: replaced by its digest %q",
			showPath(path), in.show(), m.k.Excl, digest)
		if verbatim {
			sig := "exposed:other"
			for n := 1; n <= len(path); n++ {
				cur := cursorText(path[:n])
				for _, e := range m.k.Excl {
					if strings.HasSuffix(e, cur) {
						sig = "exposed:exclusion-suffix"
					}
				}
			}
			m.hit(sig, dem, "kept verbatim: "+out.show())
			return
		}
		m.hit("not-hashed", dem, "output has "+out.show())
	}
}
