// Generators: documents and exclusion sets.
package main

import (
	"fmt"
	"strings"

	c "verifharness/common"
)

type gen struct {
	r      *c.Rng
	small  bool // smaller documents (collector suite: md5 digests are long)
	budget int
	dup    bool // allow repeated keys in objects (then no string needs an escape, see document)
	pool   []string
}

var keyPool = []string{"name", "id", "user", "data", "items", "body", "request", "response", "a", "b", "x",
	"Name", "ID", "User", "NAME", "Id", "A"} // case variants: JSON keys are case-sensitive, an exclusion for .user.id must not keep .user.ID
var oddKeys = []string{"a.b", "user.name", "x[]", "a[", ".", "", "na me", "ключ", "k\"q", "t\tab", "[]"}
var strPool = []string{"alice", "bob", "s3cr3t", "", "top", "x y", "é€", "with\"quote", "back\\slash",
	"line\nbreak", "tab\t", "/slash", "<obfuscated>", "null", "true", "10.00", "日本"}
var numPool = []string{"0", "7", "10", "-3", "10.9", "81.101", "10.999", "2.675", "1e3", "2.5E-1", "-0",
	"123456789", "0.005", "1.005", "-12.345", "1E+2", "0.0", "99.995", "4.35"}

func (g *gen) document() *Node {
	r := g.r
	g.budget = r.Range(6, 40)
	if g.small {
		g.budget = r.Range(4, 16)
	}
	// a per-document sub-pool makes names collide at different depths
	n := r.Range(2, 6)
	g.pool = nil
	for i := 0; i < n; i++ {
		g.pool = append(g.pool, c.Pick(r, keyPool))
	}
	if r.Chance(1, 25) {
		g.pool = append(g.pool, c.Pick(r, oddKeys))
	}
	// Repeated keys make the walk visit the first entry twice; fastjson unescapes
	// strings lazily and in place, so the second visit of a value whose text
	// contains an escape reads a garbled buffer.  That library effect is outside
	// the model: documents with repeated keys are written without any escape.
	g.dup = r.Chance(1, 40)
	if g.dup {
		g.pool = g.pool[:n]
	}
	switch {
	case r.Chance(1, 40):
		return g.prim()
	case r.Chance(1, 6):
		return g.array(r.Range(2, 4))
	}
	return g.object(r.Range(2, 4))
}

func (g *gen) value(depth int) *Node {
	r := g.r
	g.budget--
	if depth <= 0 || g.budget <= 0 {
		return g.prim()
	}
	switch x := r.Intn(100); {
	case x < 45:
		return g.object(depth)
	case x < 65:
		return g.array(depth)
	}
	return g.prim()
}

func (g *gen) object(depth int) *Node {
	r := g.r
	n := &Node{Kind: kObj}
	cnt := r.Range(0, 4)
	if cnt == 0 && r.Chance(4, 5) {
		cnt = 3
	}
	used := map[string]bool{}
	for i := 0; i < cnt; i++ {
		key := c.Pick(r, g.pool)
		if used[key] && !g.dup {
			key = c.Pick(r, keyPool)
			if used[key] {
				continue
			}
		}
		used[key] = true
		n.K = append(n.K, key)
		n.A = append(n.A, g.value(depth-1))
	}
	return n
}

func (g *gen) array(depth int) *Node {
	r := g.r
	n := &Node{Kind: kArr}
	cnt := r.Range(0, 3)
	if cnt == 0 && r.Chance(2, 3) {
		cnt = 2
	}
	objs := r.Chance(1, 2)
	for i := 0; i < cnt; i++ {
		if objs && depth > 0 {
			g.budget--
			n.A = append(n.A, g.object(depth-1))
		} else {
			n.A = append(n.A, g.value(depth-1))
		}
	}
	return n
}

func (g *gen) prim() *Node {
	r := g.r
	switch x := r.Intn(100); {
	case x < 40:
		if g.dup {
			return &Node{Kind: kStr, S: c.Pick(r, []string{"alice", "bob", "", "top", "x y", "null"})}
		}
		return &Node{Kind: kStr, S: c.Pick(r, strPool)}
	case x < 70:
		return &Node{Kind: kNum, S: c.Pick(r, numPool)}
	case x < 85:
		return &Node{Kind: kBool, B: r.Bool()}
	}
	return &Node{Kind: kNull}
}

// serialize writes the document as JSON text with varying white space and
// escapes (\uXXXX for some ASCII letters, so that key unescaping matters).
func (g *gen) serialize(n *Node) string {
	var sb strings.Builder
	g.write(&sb, n)
	return sb.String()
}

func (g *gen) ws(sb *strings.Builder) {
	if g.r.Chance(1, 12) {
		sb.WriteString(c.Pick(g.r, []string{" ", "\n", "\t", "  "}))
	}
}

func (g *gen) quote(sb *strings.Builder, s string) {
	sb.WriteByte('"')
	for _, ch := range s {
		switch {
		case ch == '"':
			sb.WriteString(`\"`)
		case ch == '\\':
			sb.WriteString(`\\`)
		case ch == '\n':
			sb.WriteString(`\n`)
		case ch == '\t':
			sb.WriteString(`\t`)
		case ch == '/' && !g.dup && g.r.Chance(1, 2):
			sb.WriteString(`\/`)
		case ch < 0x20:
			sb.WriteString(fmt.Sprintf(`\u%04x`, ch))
		case ch >= 'a' && ch <= 'z' && !g.dup && g.r.Chance(1, 40):
			sb.WriteString(fmt.Sprintf(`\u%04x`, ch))
		default:
			sb.WriteRune(ch)
		}
	}
	sb.WriteByte('"')
}

func (g *gen) write(sb *strings.Builder, n *Node) {
	switch n.Kind {
	case kNull:
		sb.WriteString("null")
	case kBool:
		if n.B {
			sb.WriteString("true")
		} else {
			sb.WriteString("false")
		}
	case kNum:
		sb.WriteString(n.S)
	case kStr:
		g.quote(sb, n.S)
	case kArr:
		sb.WriteByte('[')
		for i, ch := range n.A {
			if i > 0 {
				sb.WriteByte(',')
			}
			g.ws(sb)
			g.write(sb, ch)
		}
		g.ws(sb)
		sb.WriteByte(']')
	case kObj:
		sb.WriteByte('{')
		for i, ch := range n.A {
			if i > 0 {
				sb.WriteByte(',')
			}
			g.ws(sb)
			g.quote(sb, n.K[i])
			g.ws(sb)
			sb.WriteByte(':')
			g.ws(sb)
			g.write(sb, ch)
		}
		g.ws(sb)
		sb.WriteByte('}')
	}
}

// exclusions derives an exclusion set from the document's own paths.
func (g *gen) exclusions(doc *Node, suite string, request bool) []string {
	r := g.r
	var paths [][]step
	doc.walk(nil, func(p []step, _ *Node) {
		if len(p) > 0 {
			paths = append(paths, p)
		}
	})
	mine, other := jpRequest, jpResponse
	if suite == "collector" && !request {
		mine, other = other, mine
	}
	notation := func(body string) string {
		x := r.Intn(100)
		if suite == "collector" {
			switch {
			case x < 72:
				return mine + body
			case x < 88:
				return other + body
			}
			return body
		}
		switch {
		case x < 68:
			return body
		case x < 84:
			return jpRequest + body
		}
		return jpResponse + body
	}
	randomPath := func(n int) []step {
		var p []step
		for i := 0; i < n; i++ {
			if r.Chance(1, 5) {
				p = append(p, step{any: true})
			} else {
				p = append(p, step{key: c.Pick(r, g.pool)})
			}
		}
		return p
	}
	specials := []string{"", ".", "qui", "name", "$", jpRequest, jpResponse, mine + "X.name", mine + ".",
		`$.request.headers["Authorization"]`, "$.request.query_param.id", "[]", "[].name", mine + "[]",
		"..", ".name.", "$.request", ".name[", "user.name"}
	cnt := c.Pick(r, []int{0, 1, 1, 1, 2, 2, 3})
	var out []string
	for i := 0; i < cnt; i++ {
		x := r.Intn(100)
		switch {
		case x < 45 && len(paths) > 0: // an existing node, deeper ones preferred
			p := c.Pick(r, paths)
			if q := c.Pick(r, paths); len(q) > len(p) {
				p = q
			}
			out = append(out, notation(cursorText(p)))
		case x < 60 && len(paths) > 0: // an existing path under a foreign head
			p := c.Pick(r, paths)
			out = append(out, notation(cursorText(randomPath(r.Range(1, 2)))+cursorText(p)))
		case x < 72 && len(paths) > 0: // tail of an existing path
			p := c.Pick(r, paths)
			out = append(out, notation(cursorText(p[r.Intn(len(p)):])))
		case x < 86: // any path over the pool
			out = append(out, notation(cursorText(randomPath(r.Range(1, 3)))))
		default:
			out = append(out, c.Pick(r, specials))
		}
	}
	return out
}

// ambiguousDoc: a document in which one exclusion text reads as two different
// paths (finding F-C16c): a key "k1.k2" (or "k1[]") next to the nesting it
// imitates, possibly below a common head, with other members around.
func (g *gen) ambiguousDoc() (*Node, []string) {
	r := g.r
	g.budget = 8
	g.pool = []string{c.Pick(r, keyPool), c.Pick(r, keyPool), c.Pick(r, keyPool)}
	k1, k2 := c.Pick(r, keyPool), c.Pick(r, keyPool)
	obj := &Node{Kind: kObj}
	add := func(key string, v *Node) {
		obj.K = append(obj.K, key)
		obj.A = append(obj.A, v)
	}
	var text string
	inner := func() *Node {
		if r.Chance(1, 3) {
			return g.object(1)
		}
		return g.prim()
	}
	switch r.Intn(3) {
	case 0: // "k1.k2" vs k1 -> k2
		text = "." + k1 + "." + k2
		add(k1+"."+k2, inner())
		add(k1, &Node{Kind: kObj, K: []string{k2, "z"}, A: []*Node{inner(), g.prim()}})
	case 1: // "k1[]" vs k1 -> array
		text = "." + k1 + "[]"
		add(k1+"[]", inner())
		add(k1, &Node{Kind: kArr, A: []*Node{inner(), g.prim()}})
	default: // three readings: "k1.k2.k2", k1 -> "k2.k2", k1 -> k2 -> k2
		text = "." + k1 + "." + k2 + "." + k2
		add(k1+"."+k2+"."+k2, g.prim())
		add(k1, &Node{Kind: kObj, K: []string{k2 + "." + k2, k2},
			A: []*Node{g.prim(), {Kind: kObj, K: []string{k2}, A: []*Node{inner()}}}})
	}
	if r.Chance(1, 2) {
		obj.K[0], obj.K[1] = obj.K[1], obj.K[0]
		obj.A[0], obj.A[1] = obj.A[1], obj.A[0]
	}
	add("other", g.prim())
	doc := obj
	if r.Chance(1, 3) { // below a common head
		head := c.Pick(r, keyPool)
		doc = &Node{Kind: kObj, K: []string{head, "w"}, A: []*Node{obj, g.prim()}}
		text = "." + head + text
	}
	excl := []string{text}
	if r.Chance(1, 3) {
		excl = append(excl, ".other")
	}
	return doc, excl
}

// rawBody: a text that is not a JSON document for any parser: a proper prefix of
// a serialized object/array (brackets left open), a document followed by
// garbage, or plain text.
func (g *gen) rawBody() string {
	r := g.r
	switch x := r.Intn(100); {
	case x < 45:
		for {
			g.small = true
			doc := g.document()
			if doc.isLeaf() {
				continue
			}
			t := g.serialize(doc)
			return t[:1+r.Intn(len(t)-1)]
		}
	case x < 60:
		g.small = true
		doc := g.document()
		if doc.isLeaf() {
			doc = &Node{Kind: kArr, A: []*Node{doc}}
		}
		return g.serialize(doc) + c.Pick(r, []string{"x", "}", " ,", "{}", "]"})
	}
	return c.Pick(r, []string{"not json", "<xml><a>secret</a></xml>", "{'a':1}", "name=alice&id=7", " ",
		"secret", "{\"a\":}", "[,]", "{\"a\" 1}", "\"unterminated", "\x00\x01binary", "key: value\nother: 2", "{", "]"})
}
