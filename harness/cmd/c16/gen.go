// Generators: documents and exclusion sets.
package main

import (
	"fmt"
	"strings"

	c "verifharness/common"
)

type gen struct {
	r      *c.Rng
	small  bool // smaller documents (collector suite: md5 digests are long)
	budget int
	dup    bool // allow repeated keys in objects (then no string needs an escape, see document)
	pool   []string
}

var keyPool = []string{"name", "id", "user", "data", "items", "body", "request", "response", "a", "b", "x",
	"Name", "ID", "User", "NAME", "Id", "A"} // case variants: JSON keys are case-sensitive, an exclusion for .user.id must not keep .user.ID
var oddKeys = []string{"a.b", "user.name", "x[]", "a[", ".", "", "na me", "ключ", "k\"q", "t\tab", "[]"}
var strPool = []string{"alice", "bob", "s3cr3t", "", "top", "x y", "é€", "with\"quote", "back\\slash",
	"line\nbreak", "tab\t", "/slash", "<obfuscated>", "null", "true", "10.00", "日本"}
var numPool = []string{"0", "7", "10", "-3", "10.9", "81.101", "10.999", "2.675", "1e3", "2.5E-1", "-0",
	"123456789", "0.005", "1.005", "-12.345", "1E+2", "0.0", "99.995", "4.35"}

// values that look like a digest / like data that was obfuscated before: they
// are strings like any other and must be hashed (MD5 / SHA-1 / SHA-256 length in
// lower- and upper-case hex, UUIDs with and without dashes, trace ids, near
// misses of those lengths, all-digit and all-letter runs)
var digestPool = []string{
	"5f4dcc3b5aa765d61d8327deb882cf99",         // md5("password")
	"d41d8cd98f00b204e9800998ecf8427e",         // md5("")
	"5F4DCC3B5AA765D61D8327DEB882CF99",         // upper case
	"5f4dcc3b5aa765d61d8327DEB882CF99",         // mixed
	"da39a3ee5e6b4b0d3255bfef95601890afd80709", // sha1("")
	"DA39A3EE5E6B4B0D3255BFEF95601890AFD80709",
	"e3b0c44298fc1c149afbf4c8996fb92427ae41e4649b934ca495991b7852b855", // sha256("")
	"E3B0C44298FC1C149AFBF4C8996FB92427AE41E4649B934CA495991B7852B855",
	"123e4567-e89b-12d3-a456-426614174000", // uuid
	"123e4567e89b12d3a456426614174000",     // uuid.hex
	"123E4567-E89B-12D3-A456-426614174000",
	"4bf92f3577b34da6a3ce929d0e0e4736", // W3C trace-id
	"00f067aa0ba902b7",                 // span id (16)
	"5f4dcc3b5aa765d61d8327deb882cf9",  // 31
	"5f4dcc3b5aa765d61d8327deb882cf990", // 33
	"12345678901234567890123456789012",  // 32 digits
	"aaaaaaaaaaaaaaaaaaaaaaaaaaaaaaaa",
	"00000000000000000000000000000000",
	"h811c9dc5", // the look of the short hasher's digests
	"<obfuscated>",
}

// numbers a float64 can not hold (or holds under another spelling): integers
// above 2^53, neighbours that collapse to one float, more than 17 significant
// digits, beyond the exponent range, negative zero, exponent spellings
var bigNumPool = []string{"9007199254740993", "9007199254740992", "-9007199254740993",
	"1145141919810000001", "1145141919810000002", "18446744073709551615", "1e400", "-1e400", "1E-400",
	"0.1000000000000000055511151231257827", "1234567.123456789012345678", "0.30000000000000004",
	"123456789012345678901234567890", "100000000000000000000000", "-0", "-0.0", "1E2", "100", "1.0", "1.10",
	"1e2", "1.5e+3", "0e0", "12345678901234567.5"}

func (g *gen) document() *Node {
	r := g.r
	g.budget = r.Range(6, 40)
	if g.small {
		g.budget = r.Range(4, 16)
	}
	// a per-document sub-pool makes names collide at different depths
	n := r.Range(2, 6)
	g.pool = nil
	for i := 0; i < n; i++ {
		g.pool = append(g.pool, c.Pick(r, keyPool))
	}
	if r.Chance(1, 25) {
		g.pool = append(g.pool, c.Pick(r, oddKeys))
	}
	// Repeated keys make the walk visit the first entry twice; fastjson unescapes
	// strings lazily and in place, so the second visit of a value whose text
	// contains an escape reads a garbled buffer.  That library effect is outside
	// the model: documents with repeated keys are written without any escape.
	g.dup = r.Chance(1, 40)
	if g.dup {
		g.pool = g.pool[:n]
	}
	switch {
	case r.Chance(1, 40):
		return g.prim()
	case r.Chance(1, 6):
		return g.array(r.Range(2, 4))
	}
	return g.object(r.Range(2, 4))
}

func (g *gen) value(depth int) *Node {
	r := g.r
	g.budget--
	if depth <= 0 || g.budget <= 0 {
		return g.prim()
	}
	switch x := r.Intn(100); {
	case x < 45:
		return g.object(depth)
	case x < 65:
		return g.array(depth)
	}
	return g.prim()
}

func (g *gen) object(depth int) *Node {
	r := g.r
	n := &Node{Kind: kObj}
	cnt := r.Range(0, 4)
	if cnt == 0 && r.Chance(4, 5) {
		cnt = 3
	}
	used := map[string]bool{}
	for i := 0; i < cnt; i++ {
		key := c.Pick(r, g.pool)
		if used[key] && !g.dup {
			key = c.Pick(r, keyPool)
			if used[key] {
				continue
			}
		}
		used[key] = true
		n.K = append(n.K, key)
		n.A = append(n.A, g.value(depth-1))
	}
	return n
}

func (g *gen) array(depth int) *Node {
	r := g.r
	n := &Node{Kind: kArr}
	cnt := r.Range(0, 3)
	if cnt == 0 && r.Chance(2, 3) {
		cnt = 2
	}
	objs := r.Chance(1, 2)
	for i := 0; i < cnt; i++ {
		if objs && depth > 0 {
			g.budget--
			n.A = append(n.A, g.object(depth-1))
		} else {
			n.A = append(n.A, g.value(depth-1))
		}
	}
	return n
}

func (g *gen) prim() *Node {
	r := g.r
	switch x := r.Intn(100); {
	case x < 40:
		if g.dup {
			return &Node{Kind: kStr, S: c.Pick(r, []string{"alice", "bob", "", "top", "x y", "null"})}
		}
		if r.Chance(1, 9) {
			return &Node{Kind: kStr, S: c.Pick(r, digestPool)}
		}
		return &Node{Kind: kStr, S: c.Pick(r, strPool)}
	case x < 70:
		if r.Chance(1, 5) {
			return &Node{Kind: kNum, S: c.Pick(r, bigNumPool)}
		}
		return &Node{Kind: kNum, S: c.Pick(r, numPool)}
	case x < 85:
		return &Node{Kind: kBool, B: r.Bool()}
	}
	return &Node{Kind: kNull}
}

// plantDigest: one string leaf of the document becomes the digest (under the
// hasher of the case) of ANOTHER leaf of the same document — data that was
// obfuscated upstream.  It must be hashed again like any other string.
func (g *gen) plantDigest(doc *Node, hash func(string) string) bool {
	var leaves, strs []*Node
	doc.walk(nil, func(_ []step, n *Node) {
		if n.isLeaf() {
			leaves = append(leaves, n)
			if n.Kind == kStr {
				strs = append(strs, n)
			}
		}
	})
	if len(leaves) < 2 || len(strs) == 0 {
		return false
	}
	dst := c.Pick(g.r, strs)
	src := c.Pick(g.r, leaves)
	if src == dst {
		return false
	}
	dst.S = hash(leafText(src))
	return true
}

// serialize writes the document as JSON text with varying white space and
// escapes (\uXXXX for some ASCII letters, so that key unescaping matters).
func (g *gen) serialize(n *Node) string {
	var sb strings.Builder
	g.write(&sb, n)
	return sb.String()
}

func (g *gen) ws(sb *strings.Builder) {
	if g.r.Chance(1, 12) {
		sb.WriteString(c.Pick(g.r, []string{" ", "\n", "\t", "  "}))
	}
}

func (g *gen) quote(sb *strings.Builder, s string) {
	sb.WriteByte('"')
	for _, ch := range s {
		switch {
		case ch == '"':
			sb.WriteString(`\"`)
		case ch == '\\':
			sb.WriteString(`\\`)
		case ch == '\n':
			sb.WriteString(`\n`)
		case ch == '\t':
			sb.WriteString(`\t`)
		case ch == '/' && !g.dup && g.r.Chance(1, 2):
			sb.WriteString(`\/`)
		case ch < 0x20:
			sb.WriteString(fmt.Sprintf(`\u%04x`, ch))
		case ch >= 'a' && ch <= 'z' && !g.dup && g.r.Chance(1, 40):
			sb.WriteString(fmt.Sprintf(`\u%04x`, ch))
		default:
			sb.WriteRune(ch)
		}
	}
	sb.WriteByte('"')
}

func (g *gen) write(sb *strings.Builder, n *Node) {
	switch n.Kind {
	case kNull:
		sb.WriteString("null")
	case kBool:
		if n.B {
			sb.WriteString("true")
		} else {
			sb.WriteString("false")
		}
	case kNum:
		sb.WriteString(n.S)
	case kStr:
		g.quote(sb, n.S)
	case kArr:
		sb.WriteByte('[')
		for i, ch := range n.A {
			if i > 0 {
				sb.WriteByte(',')
			}
			g.ws(sb)
			g.write(sb, ch)
		}
		g.ws(sb)
		sb.WriteByte(']')
	case kObj:
		sb.WriteByte('{')
		for i, ch := range n.A {
			if i > 0 {
				sb.WriteByte(',')
			}
			g.ws(sb)
			g.quote(sb, n.K[i])
			g.ws(sb)
			sb.WriteByte(':')
			g.ws(sb)
			g.write(sb, ch)
		}
		g.ws(sb)
		sb.WriteByte('}')
	}
}

// exclusions derives an exclusion set from the document's own paths.
func (g *gen) exclusions(doc *Node, suite string, request bool) []string {
	r := g.r
	var paths [][]step
	doc.walk(nil, func(p []step, _ *Node) {
		if len(p) > 0 {
			paths = append(paths, p)
		}
	})
	mine, other := jpRequest, jpResponse
	if suite == "collector" && !request {
		mine, other = other, mine
	}
	notation := func(body string) string {
		x := r.Intn(100)
		if suite == "collector" {
			switch {
			case x < 72:
				return mine + body
			case x < 88:
				return other + body
			}
			return body
		}
		switch {
		case x < 68:
			return body
		case x < 84:
			return jpRequest + body
		}
		return jpResponse + body
	}
	randomPath := func(n int) []step {
		var p []step
		for i := 0; i < n; i++ {
			if r.Chance(1, 5) {
				p = append(p, step{any: true})
			} else {
				p = append(p, step{key: c.Pick(r, g.pool)})
			}
		}
		return p
	}
	specials := []string{"", ".", "qui", "name", "$", jpRequest, jpResponse, mine + "X.name", mine + ".",
		`$.request.headers["Authorization"]`, "$.request.query_param.id", "[]", "[].name", mine + "[]",
		"..", ".name.", "$.request", ".name[", "user.name"}
	cnt := c.Pick(r, []int{0, 1, 1, 1, 2, 2, 3})
	var out []string
	for i := 0; i < cnt; i++ {
		x := r.Intn(100)
		switch {
		case x < 45 && len(paths) > 0: // an existing node, deeper ones preferred
			p := c.Pick(r, paths)
			if q := c.Pick(r, paths); len(q) > len(p) {
				p = q
			}
			out = append(out, notation(cursorText(p)))
		case x < 60 && len(paths) > 0: // an existing path under a foreign head
			p := c.Pick(r, paths)
			out = append(out, notation(cursorText(randomPath(r.Range(1, 2)))+cursorText(p)))
		case x < 72 && len(paths) > 0: // tail of an existing path
			p := c.Pick(r, paths)
			out = append(out, notation(cursorText(p[r.Intn(len(p)):])))
		case x < 86: // any path over the pool
			out = append(out, notation(cursorText(randomPath(r.Range(1, 3)))))
		default:
			out = append(out, c.Pick(r, specials))
		}
	}
	return out
}

// ambiguousDoc: a document in which one exclusion text reads as two different
// paths (finding F-C16c): a key "k1.k2" (or "k1[]") next to the nesting it
// imitates, possibly below a common head, with other members around.
func (g *gen) ambiguousDoc() (*Node, []string) {
	r := g.r
	g.budget = 8
	g.pool = []string{c.Pick(r, keyPool), c.Pick(r, keyPool), c.Pick(r, keyPool)}
	k1, k2 := c.Pick(r, keyPool), c.Pick(r, keyPool)
	obj := &Node{Kind: kObj}
	add := func(key string, v *Node) {
		obj.K = append(obj.K, key)
		obj.A = append(obj.A, v)
	}
	var text string
	inner := func() *Node {
		if r.Chance(1, 3) {
			return g.object(1)
		}
		return g.prim()
	}
	switch r.Intn(3) {
	case 0: // "k1.k2" vs k1 -> k2
		text = "." + k1 + "." + k2
		add(k1+"."+k2, inner())
		add(k1, &Node{Kind: kObj, K: []string{k2, "z"}, A: []*Node{inner(), g.prim()}})
	case 1: // "k1[]" vs k1 -> array
		text = "." + k1 + "[]"
		add(k1+"[]", inner())
		add(k1, &Node{Kind: kArr, A: []*Node{inner(), g.prim()}})
	default: // three readings: "k1.k2.k2", k1 -> "k2.k2", k1 -> k2 -> k2
		text = "." + k1 + "." + k2 + "." + k2
		add(k1+"."+k2+"."+k2, g.prim())
		add(k1, &Node{Kind: kObj, K: []string{k2 + "." + k2, k2},
			A: []*Node{g.prim(), {Kind: kObj, K: []string{k2}, A: []*Node{inner()}}}})
	}
	if r.Chance(1, 2) {
		obj.K[0], obj.K[1] = obj.K[1], obj.K[0]
		obj.A[0], obj.A[1] = obj.A[1], obj.A[0]
	}
	add("other", g.prim())
	doc := obj
	if r.Chance(1, 3) { // below a common head
		head := c.Pick(r, keyPool)
		doc = &Node{Kind: kObj, K: []string{head, "w"}, A: []*Node{obj, g.prim()}}
		text = "." + head + text
	}
	excl := []string{text}
	if r.Chance(1, 3) {
		excl = append(excl, ".other")
	}
	return doc, excl
}

// rawBody: a text that is not a JSON document for any parser: a proper prefix of
// a serialized object/array (brackets left open), a document followed by
// garbage, or plain text.
func (g *gen) rawBody() string {
	r := g.r
	switch x := r.Intn(100); {
	case x < 45:
		for {
			g.small = true
			doc := g.document()
			if doc.isLeaf() {
				continue
			}
			t := g.serialize(doc)
			return t[:1+r.Intn(len(t)-1)]
		}
	case x < 60:
		g.small = true
		doc := g.document()
		if doc.isLeaf() {
			doc = &Node{Kind: kArr, A: []*Node{doc}}
		}
		return g.serialize(doc) + c.Pick(r, []string{"x", "}", " ,", "{}", "]"})
	}
	if x := r.Intn(100); x < 12 { // looks like a digest / an id (not a JSON number: a letter in it)
		return c.Pick(r, []string{"d41d8cd98f00b204e9800998ecf8427e", "da39a3ee5e6b4b0d3255bfef95601890afd80709",
			"e3b0c44298fc1c149afbf4c8996fb92427ae41e4649b934ca495991b7852b855", "F4DCC3B5AA765D61D8327DEB882CF995",
			"c23e4567-e89b-12d3-a456-426614174000", "c23e4567e89b12d3a456426614174000", "4bf92f3577b34da6a3ce929d0e0e4736"})
	}
	return c.Pick(r, []string{"not json", "<xml><a>secret</a></xml>", "{'a':1}", "name=alice&id=7", " ",
		"secret", "{\"a\":}", "[,]", "{\"a\" 1}", "\"unterminated", "\x00\x01binary", "key: value\nother: 2", "{", "]"})
}
