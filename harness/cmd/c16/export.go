// Suite "export": the HAR collector driven through its REAL path — the public
// harcollector.NewProcessor (parameters exporter_id, transaction_max_size_bytes,
// obfuscate_enabled, obfuscate_exclusions) and Execute on a response stream —
// with a capturing file exporter (context_manager.WithFileExporter).
//
// Observable = the records handed to the exporter: none (transaction dropped) or
// one, and then the request body and the response body of its HAR entry.
//
// Dimensions: transaction_max_size_bytes {not given, small, large, <= 0} x
// Content-Length {absent (chunked), accurate, too small, too large, not a number,
// negative} x {identity, gzip, gzip declared but not compressed, compressed but
// not declared, other encodings} x real body {below, at, above} the limit, on
// either side of the transaction.
//
// The harness does not need the implementation to behave in any particular way
// to run: a failing constructor, an Execute that errors or panics, records that
// do not parse, several records, or an export from another goroutine are
// observed and reported.
package main

import (
	"bytes"
	"compress/gzip"
	"encoding/json"
	"fmt"
	"io"
	"os"
	"path/filepath"
	"runtime"
	"strings"
	"sync"
	"time"

	harcollector "lunar/engine/streams/processors/har-collector"
	public_types "lunar/engine/streams/public-types"
	test_utils "lunar/engine/streams/test-utils"
	streamtypes "lunar/engine/streams/types"
	"lunar/engine/utils/environment"
	context_manager "lunar/toolkit-core/context-manager"

	c "verifharness/common"
)

// XSide: one message of the transaction.
type XSide struct {
	Body     string `json:"body"`                      // the body before compression
	Gzip     bool   `json:"sent_gzip_compressed"`      // the wire body is gzip(Body)
	Enc      string `json:"content_encoding"`          // header value
	HasEnc   bool   `json:"has_content_encoding"`      // header present
	CL       string `json:"content_length"`            // header value
	HasCL    bool   `json:"has_content_length"`        // header present
	Chunked  bool   `json:"transfer_encoding_chunked"` // cosmetic header
	WireLen  int    `json:"wire_length"`               // informational
	PlainLen int    `json:"plain_length"`              // informational
}

type XRecord struct {
	Req  string `json:"request_body"`
	Resp string `json:"response_body"`
}

// XCase: an export case (inside Case for replay).
type XCase struct {
	Max     *int      `json:"transaction_max_size_bytes"` // nil = parameter not given
	NoExcl  bool      `json:"exclusions_parameter_not_given,omitempty"`
	Req     XSide     `json:"request"`
	Resp    XSide     `json:"response"`
	Records []XRecord `json:"exported_records"`
	Notes   []string  `json:"observations,omitempty"`
}

func gz(s string) string {
	var buf bytes.Buffer
	w := gzip.NewWriter(&buf)
	if _, err := w.Write([]byte(s)); err != nil {
		panic(err)
	}
	if err := w.Close(); err != nil {
		panic(err)
	}
	return buf.String()
}

// gunzip: the harness's own reading of a wire body (compress/gzip directly).
func gunzip(s string) (string, bool) {
	r, err := gzip.NewReader(strings.NewReader(s))
	if err != nil {
		return "", false
	}
	b, err := io.ReadAll(r)
	if err != nil {
		return "", false
	}
	return string(b), true
}

func (s *XSide) wire() string {
	if s.Gzip {
		return gz(s.Body)
	}
	return s.Body
}

func (s *XSide) headers(base map[string]string) map[string]string {
	h := map[string]string{}
	for k, v := range base {
		h[k] = v
	}
	if s.HasEnc {
		h["content-encoding"] = s.Enc
	}
	if s.HasCL {
		h["content-length"] = s.CL
	}
	if s.Chunked {
		h["transfer-encoding"] = "chunked"
	}
	return h
}

// declared: the integer a decimal Content-Length header denotes (own reading:
// optional sign, digits only), ok=false when absent or not a number.
func (s *XSide) declared() (int64, bool) {
	if !s.HasCL || s.CL == "" {
		return 0, false
	}
	t := s.CL
	neg := false
	if t[0] == '+' || t[0] == '-' {
		neg = t[0] == '-'
		t = t[1:]
	}
	if t == "" || len(t) > 15 {
		return 0, false
	}
	var n int64
	for i := 0; i < len(t); i++ {
		if t[i] < '0' || t[i] > '9' {
			return 0, false
		}
		n = n*10 + int64(t[i]-'0')
	}
	if neg {
		n = -n
	}
	return n, true
}

// semantic: the body a reader of the message sees — decompressed when it is
// declared gzip and is gzip.  Used by the monitor and for distribution tags.
func (s *XSide) declaredGzip() bool { return s.HasEnc && strings.EqualFold(s.Enc, "gzip") }

// ---------------------------------------------------------------- execution

type capExporter struct {
	mu      sync.Mutex
	records [][]byte
}

func (e *capExporter) Write(b []byte) (int, error) {
	e.mu.Lock()
	defer e.mu.Unlock()
	e.records = append(e.records, append([]byte(nil), b...))
	return len(b), nil
}
func (e *capExporter) Close() error { return nil }
func (e *capExporter) snapshot() [][]byte {
	e.mu.Lock()
	defer e.mu.Unlock()
	return append([][]byte(nil), e.records...)
}

const exporterID = "c16-exporter"

var gatewayReady bool

func prepareGateway() {
	if gatewayReady {
		return
	}
	gatewayReady = true
	wd, err := os.Getwd()
	if err != nil {
		return
	}
	p := filepath.Join(wd, "gateway_config.yaml")
	if os.WriteFile(p, []byte("exporters:\n  file:\n    exporter_id: \""+exporterID+"\"\n    file_dir: \"/tmp\"\n    file_name: \"c16\"\n"), 0o644) == nil {
		environment.SetGatewayConfigPath(p)
	}
}

func execExport(k *Case) {
	x := k.X
	x.Records, x.Notes = nil, nil
	k.Hasher = "md5"
	prepareGateway()
	exp := &capExporter{}
	cm := context_manager.Get()
	prev := cm.GetFileExporter()
	cm.WithFileExporter(exp)
	defer cm.WithFileExporter(prev)

	params := map[string]streamtypes.ProcessorParam{
		"exporter_id":       {Name: "exporter_id", Value: public_types.NewParamValue(exporterID)},
		"obfuscate_enabled": {Name: "obfuscate_enabled", Value: public_types.NewParamValue(true)},
	}
	if !x.NoExcl || len(k.Excl) > 0 {
		excl := k.Excl
		if excl == nil {
			excl = []string{}
		}
		params["obfuscate_exclusions"] = streamtypes.ProcessorParam{Name: "obfuscate_exclusions", Value: public_types.NewParamValue(excl)}
	}
	if x.Max != nil {
		params["transaction_max_size_bytes"] = streamtypes.ProcessorParam{Name: "transaction_max_size_bytes", Value: public_types.NewParamValue(*x.Max)}
	}
	x.Req.WireLen, x.Req.PlainLen = len(x.Req.wire()), len(x.Req.Body)
	x.Resp.WireLen, x.Resp.PlainLen = len(x.Resp.wire()), len(x.Resp.Body)

	before := runtime.NumGoroutine()
	func() {
		defer func() {
			if r := recover(); r != nil {
				x.Notes = append(x.Notes, fmt.Sprintf("panic: %v", r))
			}
		}()
		meta := &streamtypes.ProcessorMetaData{Name: "har-c16", Parameters: params}
		proc, err := harcollector.NewProcessor(meta)
		if err != nil || proc == nil {
			x.Notes = append(x.Notes, fmt.Sprintf("NewProcessor failed: %v", err))
			return
		}
		stream := test_utils.NewMockAPIStreamFull(public_types.StreamTypeResponse, "POST",
			"https://example.com/users/12345?id=7",
			x.Req.headers(map[string]string{"authorization": "Bearer t", "content-type": "application/json"}),
			x.Resp.headers(map[string]string{"content-type": "application/json"}),
			x.Req.wire(), x.Resp.wire(), 200)
		if _, err := proc.Execute("c16-flow", stream); err != nil {
			x.Notes = append(x.Notes, "Execute returned an error: "+err.Error())
		}
	}()
	// an implementation that exports from another goroutine: give it a moment
	if len(exp.snapshot()) == 0 && runtime.NumGoroutine() > before {
		for i := 0; i < 20 && len(exp.snapshot()) == 0; i++ {
			time.Sleep(2 * time.Millisecond)
		}
		if len(exp.snapshot()) > 0 {
			x.Notes = append(x.Notes, "the record arrived after Execute returned")
		}
	}
	for _, rec := range exp.snapshot() {
		rq, rs, note := readRecord(rec)
		if note != "" {
			x.Notes = append(x.Notes, note)
		}
		x.Records = append(x.Records, XRecord{Req: rq, Resp: rs})
	}
}

// readRecord: "<exporter id> <HAR as JSON>" -> request body, response body.
func readRecord(rec []byte) (string, string, string) {
	_, payload, found := strings.Cut(string(rec), " ")
	if !found {
		return "", "", "record without the exporter id prefix"
	}
	var har struct {
		Log struct {
			Entries []struct {
				Request struct {
					Body json.RawMessage `json:"body"`
				} `json:"request"`
				Response struct {
					Content json.RawMessage `json:"content"`
				} `json:"response"`
			} `json:"entries"`
		} `json:"log"`
	}
	if err := json.Unmarshal([]byte(payload), &har); err != nil {
		return "", "", "record is not JSON: " + err.Error()
	}
	if len(har.Log.Entries) != 1 {
		return "", "", fmt.Sprintf("record with %d entries", len(har.Log.Entries))
	}
	text := func(raw json.RawMessage) string {
		if len(raw) == 0 || string(raw) == "null" {
			return ""
		}
		var s string
		if err := json.Unmarshal(raw, &s); err == nil {
			return s
		}
		return string(raw) // embedded as a JSON value rather than as text
	}
	return text(har.Log.Entries[0].Request.Body), text(har.Log.Entries[0].Response.Content), ""
}

// ---------------------------------------------------------------- Coq term

func optJSON(text string) (string, *Node) {
	n, err := parseJSON(text)
	if err != nil {
		return "None", nil
	}
	return "(Some " + coqJSON(n) + ")", n
}

type hashTable struct {
	seen map[string]bool
	it   []string
}

func (t *hashTable) add(s string) {
	if t.seen == nil {
		t.seen = map[string]bool{}
	}
	if t.seen[s] {
		return
	}
	t.seen[s] = true
	t.it = append(t.it, c.Tuple(c.Bytes(s), c.Bytes(hasherOf("md5").HashBytes([]byte(s)))))
}

func (t *hashTable) addDoc(n *Node) {
	n.walk(nil, func(_ []step, x *Node) {
		if x.isLeaf() {
			t.add(leafText(x))
		}
	})
}

func coqSide(s *XSide, tbl *hashTable) string {
	clen := "None"
	if n, ok := s.declared(); ok {
		clen = c.Some(c.Z(n))
	}
	enc := "EncNone"
	switch {
	case s.declaredGzip():
		enc = "EncGzip"
	case s.HasEnc && s.Enc != "":
		enc = "EncOther"
	}
	w := s.wire()
	rawParsed, rn := optJSON(w)
	if rn != nil {
		tbl.addDoc(rn)
	} else {
		tbl.add(w)
	}
	gun := "None"
	if d, ok := gunzip(w); ok {
		dp, dn := optJSON(d)
		if dn != nil {
			tbl.addDoc(dn)
		} else {
			tbl.add(d)
		}
		gun = "(Some " + c.Tuple(c.Bytes(d), dp) + ")"
	}
	return "(mkSide " + clen + " " + enc + " " + c.Bytes(w) + " " + rawParsed + " " + gun + ")"
}

func coqObs(text string) string {
	if n, err := parseJSON(text); err == nil {
		return "(ObsJson " + coqJSON(n) + ")"
	}
	return "(ObsText " + c.Bytes(text) + ")"
}

func coqExport(k *Case) string {
	x := k.X
	tbl := &hashTable{}
	max := "None"
	if x.Max != nil {
		max = c.Some(c.Z(int64(*x.Max)))
	}
	cfg := "(mkConfig " + max + " true " + c.MapList(k.Excl, c.Bytes) + ")"
	rq := coqSide(&x.Req, tbl)
	rs := coqSide(&x.Resp, tbl)
	obs := make([]string, len(x.Records))
	for i, r := range x.Records {
		obs[i] = c.Tuple(coqObs(r.Req), coqObs(r.Resp))
	}
	return "(mkExport " + cfg + " " + rq + " " + rs + " " + c.List(tbl.it) + " " + c.List(obs) + ")"
}

// ---------------------------------------------------------------- monitor + run

// monitorExportBody: what the property text demands of ONE body of an exported
// record.  [plain] = the body before compression, as the generator wrote it.
//   - the message is a JSON body sent as it is (no content-encoding): the full
//     property (structure, excluded kept, everything else hashed) — the same
//     check as for suite collector;
//   - a JSON body sent compressed / with an unusual content-encoding: only that
//     nothing leaves in clear — if the exported text is a JSON document, each of
//     its leaves is the digest of an input leaf at that path or an input leaf on
//     or under a denoted path; the body as a whole is not exported verbatim;
//   - a body that is not JSON: not exported verbatim.
func monitorExportBody(o *c.Out, k *Case, request bool, s *XSide, exported string) (hits []c.Hit, kept, hidden int) {
	dir := "response"
	if request {
		dir = "request"
	}
	hit := func(sig, demanded, observed string) {
		hits = append(hits, c.Hit{Signature: sig, Demanded: demanded, Observed: observed})
	}
	if s.Body == "" {
		return
	}
	doc, err := parseJSON(s.Body)
	if err != nil {
		if exported == s.Body {
			hit("rawbody:exposed@export", "with obfuscation enabled a non-JSON "+dir+" body is not exported verbatim",
				fmt.Sprintf("exported = body = %q", s.Body))
		}
		return
	}
	kc := Case{Suite: "export", Request: request, Hasher: "md5", Excl: k.Excl}
	out, perr := parseJSON(exported)
	if !s.HasEnc && !s.Gzip {
		if perr != nil {
			hit("structure:no-output@export", "the exported "+dir+" body is an obfuscated document with the structure of the input",
				fmt.Sprintf("exported %q", clip(exported)))
			return
		}
		res := monitor(&kc, doc, out)
		for _, t := range res.tags {
			o.Count("export:" + t)
		}
		for _, h := range res.hits {
			h.Demanded = dir + " body of an exported transaction: " + h.Demanded
			hits = append(hits, h)
		}
		return hits, res.kept, res.hidden
	}
	h := hasherOf("md5")
	m := &mon{k: &kc, doc: doc, sigs: map[string]bool{}, hash: func(t string) string { return h.HashBytes([]byte(t)) }}
	for _, e := range k.Excl {
		m.specs = append(m.specs, denotation(&kc, doc, e))
	}
	if perr != nil {
		// a digest, or anything else that is not a document: nothing in clear to find leaf by
		// leaf — unless it is the compressed body itself, with something to hide in it
		if s.Gzip && exported == s.wire() && m.somethingToHide(doc) {
			hit("exposed:whole-body@export", "with obfuscation enabled the "+dir+" body is not exported as it was received",
				fmt.Sprintf("exported = the compressed body of %q", clip(s.Body)))
		}
		return
	}
	m.exposedOnly(doc, out)
	m.count(doc, out)
	for _, hh := range m.res.hits {
		hh.Demanded = dir + " body of an exported transaction: " + hh.Demanded
		hits = append(hits, hh)
	}
	return hits, m.res.kept, m.res.hidden
}

// somethingToHide: the document has a string / number / boolean that is not on or
// under a path denoted by an exclusion
func (m *mon) somethingToHide(doc *Node) bool {
	found := false
	doc.walk(nil, func(q []step, n *Node) {
		if !n.isLeaf() || n.Kind == kNull {
			return
		}
		if strict, lenient, _ := m.coverage(q); !strict && !lenient {
			found = true
		}
	})
	return found
}

// exposedOnly: no exported leaf equals, in clear, an input leaf at the same path
// that is not on or under a path denoted by an exclusion.
func (m *mon) exposedOnly(doc, out *Node) {
	out.walk(nil, func(q []step, o *Node) {
		if !o.isLeaf() {
			return
		}
		strict, lenient, _ := m.coverage(q)
		if strict || lenient {
			return
		}
		for _, in := range leavesAt(doc, q) {
			if in.Kind == kNull {
				continue // the property text lists strings, numbers and booleans
			}
			if sameLeaf(in, o) && !m.hiddenOK(in, o) {
				sig := "exposed:other"
				if in.Kind == kStr && m.digestLike(in.S) {
					sig = "exposed:digest-like-value"
				}
				m.hit(sig,
					fmt.Sprintf("leaf %s = %s is not on or under a path denoted by any exclusion of %q: not exported in clear",
						showPath(q), in.show(), m.k.Excl),
					"exported verbatim: "+o.show())
				return
			}
		}
	})
}

func clip(s string) string {
	if len(s) > 120 {
		return s[:120] + "..."
	}
	return s
}

func limitClass(x *XCase) string {
	switch {
	case x.Max == nil:
		return "not-given"
	case *x.Max <= 0:
		return "nonpositive"
	case *x.Max >= 100000:
		return "large"
	}
	return "small"
}

func clClass(s *XSide) string {
	n, ok := s.declared()
	w := int64(len(s.wire()))
	switch {
	case !s.HasCL:
		return "absent"
	case !ok:
		return "not-a-number"
	case n < 0:
		return "negative"
	case n == w:
		return "accurate"
	case n < w:
		return "too-small"
	}
	return "too-large"
}

func encClass(s *XSide) string {
	switch {
	case !s.HasEnc && !s.Gzip:
		return "identity"
	case s.declaredGzip() && s.Gzip:
		return "gzip"
	case s.declaredGzip():
		return "gzip-declared-not-compressed"
	case s.Gzip:
		return "compressed-not-declared"
	}
	return "other:" + s.Enc
}

func runExport(o *c.Out, k Case) {
	if k.X == nil {
		panic("export case without its description")
	}
	execExport(&k)
	x := k.X
	o.Count("suite=export")
	o.Count("export:limit=" + limitClass(x))
	decision := "dropped"
	if len(x.Records) > 0 {
		decision = "exported"
	}
	o.Count("export:decision=" + decision)
	main := &x.Resp
	if len(x.Req.Body) > len(x.Resp.Body) {
		main = &x.Req
	}
	o.Count("export:content-length=" + clClass(main))
	o.Count("export:encoding=" + encClass(main))
	rel := "-"
	if x.Max != nil && *x.Max > 0 {
		switch n := len(main.Body); {
		case n < *x.Max:
			rel = "below"
		case n == *x.Max:
			rel = "at"
		default:
			rel = "above"
		}
		o.Count("export:body-vs-limit=" + rel)
	}
	if decision == "exported" && rel == "above" {
		o.Count("export:exported-with-a-body-above-the-limit")
	}
	for _, n := range x.Notes {
		o.Count("export:note=" + strings.SplitN(n, ":", 2)[0])
	}

	var hits []c.Hit
	kept, hidden := 0, 0
	for _, r := range x.Records {
		h1, k1, d1 := monitorExportBody(o, &k, true, &x.Req, r.Req)
		h2, k2, d2 := monitorExportBody(o, &k, false, &x.Resp, r.Resp)
		hits = append(append(hits, h1...), h2...)
		kept, hidden = kept+k1+k2, hidden+d1+d2
	}
	// non-trivial: an exported transaction, a limit given, at least one hashed leaf
	nontrivial := decision == "exported" && x.Max != nil && hidden > 0
	_ = kept
	idx := o.Case("export", coqExport(&k), k, nontrivial)
	o.MonitorChecked(1)
	for _, h := range hits {
		h.Suite, h.Index, h.Case = "export", idx, k
		o.Hit(h)
	}
}
