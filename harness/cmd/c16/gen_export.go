// Generators for suite export (export.go).
package main

import (
	"fmt"
	"strconv"
	"strings"

	c "verifharness/common"
)

func ip(n int) *int { return &n }

func xcase(max *int, excl []string, req, resp XSide) Case {
	return Case{Suite: "export", Hasher: "md5", Excl: excl, X: &XCase{Max: max, Req: req, Resp: resp}}
}

func sideCL(s XSide, v int) XSide {
	s.HasCL, s.CL = true, strconv.Itoa(v)
	return s
}

// records: a body of n records, every leaf of which is a "secret" (the shape of
// the seed's demonstration, smaller)
func recordsBody(n int) string {
	recs := make([]string, n)
	for i := range recs {
		recs[i] = fmt.Sprintf(`{"name":"customer-%d","card":"4111-1111-1111-%04d","limit":%d,"vip":true}`, i, i, 1000+i)
	}
	return `{"customers":[` + strings.Join(recs, ",") + `],"cursor":"next-page-token"}`
}

func exportFixed() []Case {
	var ks []Case
	none := XSide{}
	as := `{"a":"s"}`
	chunked := XSide{Body: as, Chunked: true}
	// the witness of C16_export_skip_oversize_refuted and its neighbours
	ks = append(ks, xcase(ip(4), nil, none, chunked))
	ks = append(ks, xcase(ip(4), nil, chunked, none))
	ks = append(ks, xcase(ip(4), nil, none, sideCL(XSide{Body: as}, 9)))
	ks = append(ks, xcase(ip(9), nil, none, sideCL(XSide{Body: as}, 9)))
	ks = append(ks, xcase(ip(8), nil, none, sideCL(XSide{Body: as}, 9)))
	ks = append(ks, xcase(ip(4), nil, none, sideCL(XSide{Body: as}, 3)))
	ks = append(ks, xcase(ip(4), []string{"$.response.body.a"}, none, chunked))
	ks = append(ks, xcase(ip(4), []string{"$.request.body.a"}, none, chunked))
	ks = append(ks, xcase(nil, nil, none, chunked))
	ks = append(ks, xcase(nil, nil, none, sideCL(XSide{Body: as}, 9)))
	ks = append(ks, xcase(ip(0), nil, none, sideCL(XSide{Body: as}, 0)))
	ks = append(ks, xcase(ip(-1), nil, none, chunked))
	ks = append(ks, xcase(ip(-1), nil, none, sideCL(XSide{Body: as}, -1)))
	ks = append(ks, xcase(ip(4), nil, sideCL(XSide{Body: as}, 2), sideCL(XSide{Body: as}, 2)))
	ks = append(ks, xcase(ip(4), nil, sideCL(XSide{Body: as}, 2), sideCL(XSide{Body: as}, 3)))
	ks = append(ks, xcase(ip(4), nil, sideCL(XSide{Body: as}, -7), sideCL(XSide{Body: as}, 9)))
	// the shapes of the seed's demonstration: chunked, gzip with the compressed length, controls
	big := recordsBody(10)
	zl := len(gz(big))
	ks = append(ks, xcase(ip(300), nil, none, XSide{Body: big, Chunked: true}))
	ks = append(ks, xcase(ip(zl+10), nil, none, sideCL(XSide{Body: big, Gzip: true, HasEnc: true, Enc: "gzip"}, zl)))
	ks = append(ks, xcase(ip(zl-1), nil, none, sideCL(XSide{Body: big, Gzip: true, HasEnc: true, Enc: "gzip"}, zl)))
	ks = append(ks, xcase(ip(300), nil, none, sideCL(XSide{Body: big}, len(big))))
	ks = append(ks, xcase(ip(300), nil, none, sideCL(XSide{Body: recordsBody(2)}, len(recordsBody(2)))))
	ks = append(ks, xcase(ip(300), []string{"$.response.body.customers[].name", "$.response.body.cursor"}, none, XSide{Body: big, Chunked: true}))
	// encodings
	ks = append(ks, xcase(ip(100), nil, none, XSide{Body: as, Gzip: true, HasEnc: true, Enc: "GZIP"}))
	ks = append(ks, xcase(ip(100), nil, none, XSide{Body: as, Gzip: true}))
	ks = append(ks, xcase(ip(100), nil, none, XSide{Body: as, HasEnc: true, Enc: "gzip"}))
	ks = append(ks, xcase(ip(100), nil, none, XSide{Body: as, Gzip: true, HasEnc: true, Enc: "br"}))
	ks = append(ks, xcase(ip(100), nil, none, XSide{Body: as, HasEnc: true, Enc: ""}))
	ks = append(ks, xcase(ip(3), nil, none, XSide{Body: "not json at all", Chunked: true}))
	ks = append(ks, xcase(ip(3), nil, XSide{Body: "not json", Gzip: true, HasEnc: true, Enc: "gzip"}, none))
	ks = append(ks, xcase(ip(100), nil, none, XSide{Body: as, HasCL: true, CL: "abc"}))
	ks = append(ks, xcase(ip(100), nil, none, XSide{Body: as, HasCL: true, CL: ""}))
	ks = append(ks, xcase(ip(100), nil, none, XSide{Body: as, HasCL: true, CL: "+101"}))
	ks = append(ks, xcase(ip(100), nil, none, XSide{Body: as, HasCL: true, CL: "0100"}))
	ks = append(ks, xcase(ip(100), nil, none, XSide{Body: as, HasCL: true, CL: " 101"}))
	k := xcase(ip(100), nil, none, chunked)
	k.X.NoExcl = true
	ks = append(ks, k)
	return ks
}

// exportGrid: one base document through the whole grid
//
//	limit {not given, small, large} x Content-Length {absent, accurate, too small,
//	too large, not a number} x {identity, gzip} x body {below, at, above} the limit.
func exportGrid(r *c.Rng) []Case {
	g := &gen{r: r, small: true}
	var doc *Node
	for {
		doc = g.document()
		if !doc.isLeaf() && doc.leafCount() >= 2 {
			break
		}
	}
	body := g.serialize(doc)
	request := r.Chance(1, 3)
	excl := g.exclusions(doc, "collector", request)
	var other XSide
	od := 0
	switch x := r.Intn(100); {
	case x < 60:
	case x < 80:
		other = XSide{Body: `{"o":1}`}
		od = r.Range(0, 9)
		other = sideCL(other, od)
	default:
		other = XSide{Body: `{"id":"other side"}`, Chunked: true}
	}
	n := len(body)
	var ks []Case
	type lim struct {
		max *int
		rel string
	}
	lims := []lim{{nil, "-"}, {ip(1000000), "-"}, {ip(n + r.Range(1, 30)), "below"}, {ip(n), "at"}}
	if n >= 2 {
		l := n - 1
		if r.Chance(2, 3) {
			l = r.Range(1, n-1)
		}
		lims = append(lims, lim{ip(l), "above"})
	}
	for _, lm := range lims {
		for _, zipped := range []bool{false, true} {
			main := XSide{Body: body}
			if zipped {
				main.Gzip, main.HasEnc, main.Enc = true, true, "gzip"
			}
			w := len(main.wire())
			lb := w
			if lm.rel != "-" {
				lb = *lm.max - od
			}
			pickCL := func(cands []int, ok func(int) bool, fallback int) int {
				var good []int
				for _, v := range cands {
					if ok(v) {
						good = append(good, v)
					}
				}
				if len(good) == 0 {
					return fallback
				}
				return c.Pick(r, good)
			}
			for _, mode := range []string{"absent", "accurate", "small", "large", "text"} {
				s := main
				switch mode {
				case "absent":
					s.Chunked = true
				case "accurate":
					s = sideCL(s, w)
				case "small":
					s = sideCL(s, pickCL([]int{0, 1, w - 1, lb, lb - 1, w / 2}, func(v int) bool { return v >= 0 && v < w }, 0))
				case "large":
					s = sideCL(s, pickCL([]int{w + 1, lb, lb + 1, 3*w + 11}, func(v int) bool { return v > w }, w+1))
				case "text":
					s.HasCL, s.CL = true, c.Pick(r, []string{"abc", "", "12x", "1.5", " 7", "0x10", "1e3", "NaN"})
				}
				rq, rs := other, s
				if request {
					rq, rs = s, other
				}
				ks = append(ks, xcase(lm.max, excl, rq, rs))
			}
		}
	}
	return ks
}

func randomSide(r *c.Rng, g *gen) (XSide, *Node) {
	var s XSide
	var doc *Node
	switch x := r.Intn(100); {
	case x < 68:
		doc = g.document()
		s.Body = g.serialize(doc)
	case x < 80:
		s.Body = g.rawBody()
	}
	if s.Body == "" && r.Chance(3, 4) {
		return s, nil // nothing sent
	}
	s.Gzip = r.Chance(3, 10)
	switch x := r.Intn(100); {
	case s.Gzip && x < 80:
		s.HasEnc, s.Enc = true, c.Pick(r, []string{"gzip", "gzip", "gzip", "GZIP", "Gzip"})
	case s.Gzip && x < 90:
		s.HasEnc, s.Enc = true, c.Pick(r, []string{"br", "deflate", "gzip, br", "x-gzip"})
	case s.Gzip:
	case x < 6:
		s.HasEnc, s.Enc = true, "gzip" // declared, not compressed
	case x < 10:
		s.HasEnc, s.Enc = true, c.Pick(r, []string{"identity", "", "br"})
	}
	return s, doc
}

func randomCL(r *c.Rng, s *XSide, limit int) {
	w := len(s.wire())
	switch x := r.Intn(100); {
	case x < 30:
		s.Chunked = r.Chance(1, 2)
	case x < 50:
		*s = sideCL(*s, w)
	case x < 64:
		*s = sideCL(*s, r.Range(0, w))
	case x < 76:
		*s = sideCL(*s, w+r.Range(1, 40))
	case x < 84:
		*s = sideCL(*s, limit+r.Range(-2, 2))
	case x < 90:
		*s = sideCL(*s, -r.Range(1, 300))
	case x < 94:
		s.HasCL, s.CL = true, "+"+strconv.Itoa(r.Range(0, 2*w+2))
	case x < 97:
		s.HasCL, s.CL = true, "00"+strconv.Itoa(r.Range(0, w+2))
	default:
		s.HasCL, s.CL = true, c.Pick(r, []string{"abc", "", "12x", "1.5", " 7", "7 ", "0x10", "1e3", "-", "+"})
	}
}

// exportRandom: everything at random, both sides may carry a body.
func exportRandom(r *c.Rng) Case {
	g := &gen{r: r, small: true}
	rq, dq := randomSide(r, g)
	if r.Chance(1, 2) {
		rq = XSide{} // most requests of the collector's traffic carry no body
		dq = nil
	}
	rs, ds := randomSide(r, g)
	var excl []string
	switch {
	case ds != nil && (dq == nil || r.Bool()):
		excl = g.exclusions(ds, "collector", false)
	case dq != nil:
		excl = g.exclusions(dq, "collector", true)
	}
	nq, ns := len(rq.Body), len(rs.Body)
	wq, ws := len(rq.wire()), len(rs.wire())
	var max *int
	switch x := r.Intn(100); {
	case x < 10:
	case x < 16:
		max = ip(c.Pick(r, []int{0, 0, -1, -100}))
	case x < 26:
		max = ip(1000000)
	case x < 50:
		max = ip(r.Range(1, 300))
	default:
		max = ip(c.Pick(r, []int{nq, ns, wq, ws, nq + ns, wq + ws}) + r.Range(-1, 1))
	}
	limit := 0
	if max != nil {
		limit = *max
	}
	randomCL(r, &rq, limit)
	randomCL(r, &rs, limit)
	if rq.Body == "" && !rq.Gzip && r.Chance(2, 3) {
		rq.HasCL, rq.CL, rq.Chunked = false, "", false
	}
	k := xcase(max, excl, rq, rs)
	k.X.NoExcl = len(excl) == 0 && r.Chance(1, 2)
	return k
}
