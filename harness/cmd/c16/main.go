// C16 harness: drives the real obfuscation.Obfuscator.ObfuscateJSON (suite
// "direct"; also reached through the legacy diagnosis plugin's public
// GenerateHAR) and the HAR collector's own HAR generation (suite "collector",
// through the tag-guarded shim harcollector.VerifGenerateHARBodies) on generated
// JSON documents with colliding names at different depths, arrays of objects,
// nulls/numbers/booleans and exclusion sets in both notations.
// Observable = the output document, compared leaf by leaf with the input.
package main

import (
	"fmt"
	"time"

	"lunar/engine/config"
	lunarMessages "lunar/engine/messages"
	"lunar/engine/services/diagnoses"
	harcollector "lunar/engine/streams/processors/har-collector"
	test_utils "lunar/engine/streams/test-utils"
	"lunar/engine/utils/obfuscation"
	sharedConfig "lunar/shared-model/config"
	"lunar/toolkit-core/clock"

	"github.com/rs/zerolog"

	c "verifharness/common"
)

// Case is what a replay file carries: everything needed to re-execute.
type Case struct {
	Suite   string   `json:"suite"`                          // direct | collector | rawbody | export
	Via     string   `json:"via,omitempty"`                  // direct: "" (ObfuscateJSON) | "plugin" (HARGeneratorPlugin.GenerateHAR); rawbody: "collector" | "plugin"
	Off     bool     `json:"obfuscation_disabled,omitempty"` // rawbody only
	Request bool     `json:"request_direction"`              // collector: request body (else response body)
	Hasher  string   `json:"hasher"`                         // md5 | short | fixed
	Excl    []string `json:"exclusions"`
	Body    string   `json:"body"`
	Output  string   `json:"output"` // what the implementation returned
	Err     string   `json:"error,omitempty"`
	X       *XCase   `json:"export,omitempty"` // suite export (export.go)
}

func hasherOf(name string) obfuscation.Hasher {
	switch name {
	case "md5":
		return obfuscation.MD5Hasher{}
	case "fixed":
		return obfuscation.FixedHasher{Value: "<obfuscated>"}
	}
	return shortHasher{}
}

// exec runs the case on the implementation.
func exec(k *Case) {
	k.Output, k.Err = "", ""
	switch k.Suite {
	case "direct":
		if k.Via == "plugin" {
			k.Output, k.Err = viaPlugin(k, true)
			return
		}
		ob := obfuscation.Obfuscator{Hasher: hasherOf(k.Hasher)}
		out, err := ob.ObfuscateJSON(k.Body, k.Excl)
		if err != nil {
			k.Err = err.Error()
		}
		k.Output = out
	case "rawbody":
		if k.Via == "plugin" {
			k.Output, k.Err = viaPlugin(k, !k.Off)
			return
		}
		k.Hasher = "md5"
		other := `{"other":"direction"}`
		reqBody, respBody := k.Body, other
		if !k.Request {
			reqBody, respBody = other, k.Body
		}
		stream := test_utils.NewMockAPIStream(
			"https://example.com/users/12345?id=7",
			map[string]string{"authorization": "Bearer t"},
			map[string]string{"content-type": "text/plain"},
			reqBody, respBody)
		rq, rs, err := harcollector.VerifGenerateHARBodies(!k.Off, k.Excl, stream)
		if err != nil {
			k.Err = err.Error()
		}
		k.Output = rs
		if k.Request {
			k.Output = rq
		}
	case "collector":
		k.Hasher = "md5" // fixed inside newAPIStreamObfuscator
		other := `{"other":"direction","name":"x"}`
		reqBody, respBody := k.Body, other
		if !k.Request {
			reqBody, respBody = other, k.Body
		}
		stream := test_utils.NewMockAPIStream(
			"https://example.com/users/12345?id=7",
			map[string]string{"authorization": "Bearer t"},
			map[string]string{"content-type": "application/json"},
			reqBody, respBody)
		rq, rs, err := harcollector.VerifGenerateHARBodies(true, k.Excl, stream)
		if err != nil {
			k.Err = err.Error()
		}
		k.Output = rs
		if k.Request {
			k.Output = rq
		}
	default:
		panic("unknown suite " + k.Suite)
	}
}

// viaPlugin: the legacy diagnosis plugin's call site, through its public API
// (HARGeneratorPlugin.GenerateHAR -> extractBody -> ObfuscateJSON with the
// configured request body paths, plain cursor notation).
var pluginTree *config.EndpointPolicyTree

func viaPlugin(k *Case, enabled bool) (string, string) {
	if pluginTree == nil {
		t, err := config.BuildEndpointPolicyTree([]sharedConfig.EndpointConfig{})
		if err != nil {
			panic(err)
		}
		pluginTree = t
	}
	plugin := diagnoses.NewHARGeneratorPlugin(clock.NewMockClock(),
		obfuscation.Obfuscator{Hasher: hasherOf(k.Hasher)})
	cfg := sharedConfig.HARExporterConfig{Obfuscate: sharedConfig.Obfuscate{Enabled: enabled}}
	other := `{"other":"direction"}`
	reqBody, respBody := k.Body, other
	if k.Request || k.Suite == "direct" {
		cfg.Obfuscate.Exclusions.RequestBodyPaths = k.Excl
	} else {
		reqBody, respBody = other, k.Body
		cfg.Obfuscate.Exclusions.ResponseBodyPaths = k.Excl
	}
	onRequest := lunarMessages.OnRequest{
		ID: "t-1", SequenceID: "1", Method: "POST", Scheme: "http",
		URL: "example.com/api/v1/endpoint", Path: "api/v1/endpoint", Query: "a=b",
		Headers: map[string]string{"content-type": "application/json"},
		Body:    reqBody, Time: time.Unix(1700000000, 0),
	}
	onResponse := lunarMessages.OnResponse{
		ID: "t-1", SequenceID: "1", Method: "POST", URL: "example.com/api/v1/endpoint", Status: 200,
		Headers: map[string]string{"content-type": "application/json"},
		Body:    respBody, Time: time.Unix(1700000001, 0),
	}
	h, err := plugin.GenerateHAR(onRequest, onResponse, pluginTree, &cfg)
	if err != nil {
		return "", err.Error()
	}
	if len(h.Log.Entries) != 1 {
		return "", fmt.Sprintf("expected one entry, got %d", len(h.Log.Entries))
	}
	var body interface{} = h.Log.Entries[0].Request.Body
	if !(k.Request || k.Suite == "direct") {
		body = h.Log.Entries[0].Response.Content
	}
	str, ok := body.(string)
	if !ok {
		return "", "body is not a string"
	}
	return str, ""
}

// ---------------------------------------------------------------- Coq terms

func coqJSON(n *Node) string {
	switch n.Kind {
	case kNull:
		return "JNull"
	case kBool:
		return "(JBool " + c.B(n.B) + ")"
	case kNum:
		return "(JNum " + c.Bytes(n.S) + " " + c.Bytes(numText(n.S)) + ")"
	case kStr:
		return "(JStr " + c.Bytes(n.S) + ")"
	case kArr:
		return "(JArr " + c.MapList(n.A, coqJSON) + ")"
	}
	it := make([]string, len(n.A))
	for i := range n.A {
		it[i] = c.Tuple(c.Bytes(n.K[i]), coqJSON(n.A[i]))
	}
	return "(JObj " + c.List(it) + ")"
}

// hash table: every leaf text of the document -> digest, as the hasher reports
func coqTable(doc *Node, h obfuscation.Hasher) string {
	seen := map[string]bool{}
	var it []string
	doc.walk(nil, func(_ []step, n *Node) {
		if n.Kind == kArr || n.Kind == kObj {
			return
		}
		t := leafText(n)
		if !seen[t] {
			seen[t] = true
			it = append(it, c.Tuple(c.Bytes(t), c.Bytes(h.HashBytes([]byte(t)))))
		}
	})
	return c.List(it)
}

func coqCase(k *Case, doc, out *Node) string {
	excl := c.MapList(k.Excl, c.Bytes)
	tbl := coqTable(doc, hasherOf(k.Hasher))
	if k.Suite == "collector" {
		return c.Tuple(c.B(k.Request), excl, coqJSON(doc), tbl, coqJSON(out))
	}
	if coqSuite(k) == "plugin" {
		return c.Tuple(excl, c.Bytes(k.Body), coqJSON(doc), tbl, coqJSON(out))
	}
	return c.Tuple(excl, coqJSON(doc), tbl, coqJSON(out))
}

// coqSuite: the correspondence suite a case is written to. JSON bodies sent
// through the legacy plugin (Suite "direct", Via "plugin") are evaluated by
// run_plugin = Model.plugin_body with `parsed = Some doc` (the call site as a
// whole), the others by the run function of their own suite. The monitor
// signatures keep the name of k.Suite.
func coqSuite(k *Case) string {
	if k.Suite == "direct" && k.Via == "plugin" {
		return "plugin"
	}
	return k.Suite
}

// ---------------------------------------------------------------- run one case

// runRaw: bodies that are not JSON documents (or obfuscation switched off): the
// output is a text, compared as such.
func runRaw(o *c.Out, k Case) {
	exec(&k)
	_, perr := parseJSON(k.Body)
	class := "unparsable"
	switch {
	case k.Off:
		class = "disabled"
	case k.Body == "":
		class = "empty"
	case perr == nil:
		panic("rawbody case with a body that parses while obfuscation is enabled: " + k.Body)
	}
	o.Count("suite=rawbody")
	o.Count("rawbody=" + class + "/" + k.Via)
	h := hasherOf(k.Hasher)
	tbl := c.List([]string{c.Tuple(c.Bytes(k.Body), c.Bytes(h.HashBytes([]byte(k.Body))))})
	term := c.Tuple(c.B(k.Via == "plugin"), c.B(!k.Off), c.B(k.Request), c.MapList(k.Excl, c.Bytes),
		c.Bytes(k.Body), tbl, c.Bytes(k.Output))
	idx := o.Case("rawbody", term, k, class == "unparsable")
	o.MonitorChecked(1)
	if k.Err != "" {
		o.Hit(c.Hit{Suite: "rawbody", Index: idx, Signature: "rawbody:no-output@" + k.Via,
			Demanded: "a body in the exported entry", Observed: k.Err, Case: k})
		return
	}
	// The property text speaks of JSON bodies; for a body that is not JSON the
	// only demand made here is that it does not leave in clear.
	if !k.Off && k.Body != "" && k.Output == k.Body {
		o.Hit(c.Hit{Suite: "rawbody", Index: idx, Signature: "rawbody:exposed@" + k.Via,
			Demanded: "with obfuscation enabled a non-JSON body is not exported verbatim",
			Observed: "output = body = " + fmt.Sprintf("%q", k.Body), Case: k})
	}
}

func run(o *c.Out, k Case) {
	if k.Suite == "rawbody" {
		runRaw(o, k)
		return
	}
	if k.Suite == "export" {
		runExport(o, k)
		return
	}
	doc, err := parseJSON(k.Body)
	if err != nil {
		panic("generator produced a document the harness can not parse: " + err.Error() + "\n" + k.Body)
	}
	exec(&k)
	o.Count("suite=" + k.Suite)
	if k.Via != "" {
		o.Count("via=" + k.Via)
	}
	o.Count("hasher=" + k.Hasher)
	o.Count(fmt.Sprintf("exclusions=%d", len(k.Excl)))
	leaves := doc.leafCount()
	o.Count("leaves=" + bucket(leaves))
	o.Count(fmt.Sprintf("depth=%d", doc.depth()))

	var out *Node
	if k.Err == "" {
		out, err = parseJSON(k.Output)
		if err != nil {
			k.Err = "output does not parse: " + err.Error()
		}
	}
	if k.Err != "" {
		// the generated bodies are valid JSON: a refusal / broken output is a
		// failure of the structure clause
		o.Count("implementation-error")
		idx := o.Case(coqSuite(&k), coqCase(&k, doc, &Node{Kind: kNull}), k, false)
		o.MonitorChecked(1)
		o.Hit(c.Hit{Suite: coqSuite(&k), Index: idx, Signature: "structure:no-output@" + k.Suite,
			Demanded: "an obfuscated document with the structure of the input",
			Observed: k.Err, Case: k})
		return
	}

	res := monitor(&k, doc, out)
	for _, t := range res.tags {
		o.Count(t)
	}
	nontrivial := res.kept > 0 && res.hidden > 0
	idx := o.Case(coqSuite(&k), coqCase(&k, doc, out), k, nontrivial)
	o.MonitorChecked(1)
	for _, h := range res.hits {
		h.Suite, h.Index, h.Case = coqSuite(&k), idx, k
		o.Hit(h)
	}
	// classifier of finding F-C16c tied to the Coq predicate [ambiguous]: every
	// document with a key containing '.' / '[', and a sample of the others
	classifyN++
	if doc.hasUncleanKeys() || classifyN%8 == 0 {
		mode := "None"
		if k.Suite == "collector" {
			mode = "(Some " + c.B(k.Request) + ")"
		}
		flags := ambiguityFlags(&k, doc)
		o.Case("classify", c.Tuple(mode, c.MapList(k.Excl, c.Bytes), coqJSON(doc), c.MapList(flags, c.B)), k, anyTrue(flags))
	}
}

var classifyN int

func anyTrue(bs []bool) bool {
	for _, b := range bs {
		if b {
			return true
		}
	}
	return false
}

func bucket(n int) string {
	switch {
	case n <= 1:
		return "01"
	case n <= 4:
		return "02-04"
	case n <= 9:
		return "05-09"
	case n <= 19:
		return "10-19"
	}
	return "20+"
}

// ---------------------------------------------------------------- main

func main() {
	zerolog.SetGlobalLevel(zerolog.Disabled) // the walk logs every cursor at trace level
	o := c.NewOut("C16")
	o.DeclareSuite("direct", "From Verif Require Import C16.Model.", "case_direct", "run_direct")
	o.DeclareSuite("collector", "From Verif Require Import C16.Model.", "case_collector", "run_collector")
	o.DeclareSuite("rawbody", "From Verif Require Import C16.Model.", "case_rawbody", "run_rawbody")
	o.DeclareSuite("plugin", "From Verif Require Import C16.Model.", "case_plugin", "run_plugin")
	o.DeclareSuite("export", "From Verif Require Import C16.Model C16.Export.", "case_export", "run_export")
	o.DeclareSuite("classify", "From Verif Require Import C16.Model C16.Spec C16.Classify.", "case_classify", "run_classify")
	o.Rule("hand-written regression documents, then generated JSON documents (depth <= 4, keys from a " +
		"small pool so that names collide at different depths, arrays of objects, strings with escapes, " +
		"numbers, booleans, nulls; some with repeated keys, some with keys containing '.'/'[', some built so " +
		"that one exclusion text reads as two different paths) x exclusion sets of 0-3 entries derived from " +
		"the document's own paths (whole, tails, with a foreign head, inexistent, malformed) in the plain and " +
		"the `$.request.body`/`$.response.body` notation, through Obfuscator.ObfuscateJSON (md5 / short / fixed " +
		"hasher), through the legacy diagnosis plugin's GenerateHAR and through the HAR collector's generateHAR " +
		"for both directions; suite rawbody: bodies that are not JSON, empty bodies, obfuscation switched off, " +
		"through both call sites; suite plugin: the JSON bodies sent through the legacy plugin, evaluated by the call-site model plugin_body (parsed = Some doc); suite classify: the monitor's ambiguity verdict per exclusion against the Coq " +
		"predicate; suite export: the collector through NewProcessor + Execute with a capturing exporter, obfuscation " +
		"enabled, per base document the grid transaction_max_size_bytes {not given, small, large} x Content-Length " +
		"{absent, accurate, too small, too large, not a number} x {identity, gzip} x real body {below, at, above} the " +
		"limit, on either side, plus a random stream (limit <= 0, negative / signed lengths, gzip declared but not " +
		"compressed, compressed but not declared, other encodings, non-JSON and empty bodies, bodies on both sides); " +
		"distinct = distinct (suite, inputs, output); non-trivial = the output has at least one leaf " +
		"kept because of an exclusion and at least one hashed leaf (direct, plugin, collector) / the body does not parse " +
		"and obfuscation is on (rawbody) / some exclusion is ambiguous in the document (classify) / the transaction " +
		"is exported, a limit is given and at least one leaf is hashed (export)")
	var k Case
	if _, ok := o.ReplayCase(&k); ok {
		run(o, k)
		o.Finish()
		return
	}
	for _, k := range fixedCases() {
		run(o, k)
	}
	r := o.Rng
	nDirect := o.Scale(2200, 22000, 20000)
	nColl := o.Scale(800, 8000, 8000)
	for i := 0; i < nDirect; i++ {
		g := &gen{r: r}
		doc := g.document()
		k := Case{Suite: "direct", Body: g.serialize(doc)}
		switch {
		case r.Chance(1, 8):
			k.Hasher = "md5"
		case r.Chance(1, 10):
			k.Hasher = "fixed"
		default:
			k.Hasher = "short"
		}
		if r.Chance(1, 12) {
			h := hasherOf(k.Hasher)
			if g.plantDigest(doc, func(t string) string { return h.HashBytes([]byte(t)) }) {
				k.Body = g.serialize(doc)
			}
		}
		k.Excl = g.exclusions(doc, "direct", false)
		run(o, k)
	}
	// the legacy diagnosis plugin's call site: same ObfuscateJSON, plain notation
	for i := 0; i < o.Scale(150, 1500, 1500); i++ {
		g := &gen{r: r, small: true}
		doc := g.document()
		k := Case{Suite: "direct", Via: "plugin", Body: g.serialize(doc), Hasher: c.Pick(r, []string{"short", "short", "md5", "fixed"})}
		k.Excl = g.exclusions(doc, "direct", false)
		run(o, k)
	}
	// documents in which an exclusion text reads as two different paths (F-C16c)
	for i := 0; i < o.Scale(120, 1200, 1200); i++ {
		g := &gen{r: r, small: true}
		doc, excl := g.ambiguousDoc()
		k := Case{Suite: "direct", Body: g.serialize(doc), Hasher: "short", Excl: excl}
		if r.Chance(1, 4) {
			k.Suite, k.Hasher, k.Request = "collector", "md5", r.Bool()
			pre := jpResponse
			if k.Request {
				pre = jpRequest
			}
			for j := range k.Excl {
				k.Excl[j] = pre + k.Excl[j]
			}
		}
		run(o, k)
	}
	// bodies that are not JSON documents, empty bodies, obfuscation switched off
	for i := 0; i < o.Scale(150, 1500, 1500); i++ {
		g := &gen{r: r, small: true}
		k := Case{Suite: "rawbody", Via: c.Pick(r, []string{"collector", "collector", "plugin"}), Request: r.Bool(), Hasher: "md5"}
		if k.Via == "plugin" {
			k.Hasher = c.Pick(r, []string{"short", "md5", "fixed"})
		}
		switch x := r.Intn(100); {
		case x < 70:
			k.Body = g.rawBody()
		case x < 80:
			k.Body = ""
		default:
			k.Off = true
			k.Body = c.Pick(r, []string{g.rawBody(), "", g.serialize(g.document())})
		}
		pre := jpResponse
		if k.Request {
			pre = jpRequest
		}
		k.Excl = c.Pick(r, [][]string{nil, {pre}, {pre + ".name"}, {".name"}, {""}})
		run(o, k)
	}
	for i := 0; i < nColl; i++ {
		g := &gen{r: r, small: true}
		doc := g.document()
		if r.Chance(1, 12) {
			h := hasherOf("md5")
			g.plantDigest(doc, func(t string) string { return h.HashBytes([]byte(t)) })
		}
		k := Case{Suite: "collector", Request: r.Bool(), Body: g.serialize(doc), Hasher: "md5"}
		k.Excl = g.exclusions(doc, "collector", k.Request)
		run(o, k)
	}
	// the export path (NewProcessor + Execute + capturing exporter)
	for _, k := range exportFixed() {
		run(o, k)
	}
	for i := 0; i < o.Scale(12, 80, 60); i++ {
		for _, k := range exportGrid(r) {
			run(o, k)
		}
	}
	for i := 0; i < o.Scale(250, 1500, 2500); i++ {
		run(o, exportRandom(r))
	}
	o.Finish()
}

// fixedCases: small regression inputs (the witnesses of F-C16 first, then the
// shapes of obfuscate_test.go and of the collector test with colliding names).
func fixedCases() []Case {
	var ks []Case
	d := func(body string, excl ...string) {
		ks = append(ks, Case{Suite: "direct", Hasher: "short", Body: body, Excl: excl})
	}
	cl := func(req bool, body string, excl ...string) {
		ks = append(ks, Case{Suite: "collector", Request: req, Hasher: "md5", Body: body, Excl: excl})
	}
	un := `{"name":"top","user":{"name":"n","id":7}}`
	d(un, ".user.name")
	d(un, "$.request.body.user.name")
	d(un, ".user")
	d(un, ".name")
	d(un, "")
	d(un)
	d(un, "qui")
	d(un, "name")
	d(un, ".")
	d(un, ".user.name", ".user.id")
	d(`{"body":{"user":{"name":"n"}},"user":{"name":"m"}}`, "$.request.body.user.name")
	d(`{"a":{"b":{"c":1}},"b":{"c":2},"c":3}`, ".a.b.c")
	d(`{"data":{"items":[{"x":1,"y":2},{"x":3}]},"items":[{"x":4}],"x":5}`, ".data.items[].x")
	d(`[{"x":1,"y":[{"x":2}]},{"x":null}]`, "[].y[].x")
	d(`[{"foo":"lorem","bar":"de omnibus"},{"foo":"ipsum","bar":"dubitandum est"}]`, "[].bar")
	d(`{"obfuscatedData":["foo","bar"],"nonObfuscatedData":["lorem","ipsum"]}`, ".nonObfuscatedData[]")
	d(`{"t":true,"f":false,"z":null,"n":10.999,"m":-0,"e":1e3,"s":"a\"b\\c\n"}`, ".t", ".z")
	d(`{"t":true,"f":false,"z":null,"n":10.999,"m":-0,"e":1e3,"s":"a\"b\\c\n"}`, ".n", ".s", ".f")
	d(`"just a string"`)
	d(`"just a string"`, "")
	d(`12.5`, ".x")
	d(`[]`)
	d(`{}`, ".a")
	d(`{"a":{},"b":[],"c":[[],[1,[2]]]}`, ".c[][]")
	d(`{"a":1,"a":2,"b":{"a":3,"a":4}}`, ".b")
	d(`{"a":1,"a":2,"b":{"a":3,"a":4}}`, ".a")
	d(`{"a.b":1,"a":{"b":2}}`, ".a.b")
	d(`{"a[]":1,"a":[2]}`, ".a[]")
	d(`{"name":"esc","user":{"name":"n"}}`, ".user.name")
	// findings F-C16c / F-C16d: the witnesses of the refutation theorems and neighbours
	d(`{"a.b":"s","a":{"b":"t"}}`, ".a.b")
	d(`{"a.b":"s","a":{"b":"t"}}`, "$.request.body.a.b")
	d(`{"a.b":"s","a":{"b":"t"}}`, ".a")
	d(`{"a.b":"s","a":{"c":"t"}}`, ".a.b") // key with a dot, not ambiguous
	d(`{"a.b":"s","a":{"b":"t"}}`, ".a.b", ".a")
	d(`{"x":{"a.b.c":1,"a":{"b.c":2,"b":{"c":3}}}}`, ".x.a.b.c")
	d(`{"a":"s","b":true,"a":"t"}`)
	d(`{"a":"s","b":true,"a":"t"}`, "")
	d(`{"u":{"a":1,"a":2},"v":[{"k":1,"k":{"k":2}}]}`, ".u")
	d(`{"u":{"a":1,"a":2},"v":[{"k":1,"k":{"k":2}}]}`, ".v[].k")
	// audit: array positions can not be addressed; the direct API honours either body prefix
	d(`["x",{"a":["y"]}]`, "[0]", "[*]", "[1].a[0]")
	d(`{"a":1,"b":2}`, "$.response.body.a")
	d(`{"a":1,"b":2}`, "$.request.body.b")
	// values that look like digests / already obfuscated data are strings like any other
	dg := `{"md5":"5f4dcc3b5aa765d61d8327deb882cf99","sha1":"da39a3ee5e6b4b0d3255bfef95601890afd80709",` +
		`"sha256":"e3b0c44298fc1c149afbf4c8996fb92427ae41e4649b934ca495991b7852b855","upper":"5F4DCC3B5AA765D61D8327DEB882CF99",` +
		`"uuid":"123e4567-e89b-12d3-a456-426614174000","uuidhex":"123e4567e89b12d3a456426614174000","files":[{"md5":"d41d8cd98f00b204e9800998ecf8427e"}],` +
		`"digits":"12345678901234567890123456789012","short":"00f067aa0ba902b7","n31":"5f4dcc3b5aa765d61d8327deb882cf9"}`
	for _, hs := range []string{"short", "md5", "fixed"} {
		ks = append(ks, Case{Suite: "direct", Hasher: hs, Body: dg})
		ks = append(ks, Case{Suite: "direct", Hasher: hs, Body: dg, Excl: []string{".uuid", ".files[].md5"}})
	}
	ks = append(ks, Case{Suite: "direct", Via: "plugin", Hasher: "md5", Body: dg, Excl: []string{".sha1"}})
	d(`"5f4dcc3b5aa765d61d8327deb882cf99"`)
	d(`["5f4dcc3b5aa765d61d8327deb882cf99","alice"]`)
	// the digest of another leaf of the same document (short hasher: h(alice) = fnv32a)
	d(`{"name":"alice","seen":"`+shortHasher{}.HashBytes([]byte("alice"))+`"}`)
	d(`{"name":"alice","seen":"`+shortHasher{}.HashBytes([]byte("alice"))+`"}`, ".name")
	ks = append(ks, Case{Suite: "direct", Hasher: "md5", Body: `{"name":"alice","seen":"` + hasherOf("md5").HashBytes([]byte("alice")) + `","n":7,"m":"` + hasherOf("md5").HashBytes([]byte("7.00")) + `"}`})
	// numbers a float64 can not hold, excluded (kept as they are written) and not (hidden)
	bn := `{"order":{"id":9007199254740993,"total":1234567.123456789012345678},"refs":[1145141919810000001,1145141919810000002],` +
		`"max":18446744073709551615,"huge":1e400,"tiny":0.1000000000000000055511151231257827,"nz":-0,"e":1E2,"h":100,"one":1.0,"big":100000000000000000000000}`
	d(bn)
	d(bn, ".order.id")
	d(bn, ".order", ".refs[]")
	d(bn, ".refs")
	d(bn, "$.request.body.order.id", "$.response.body.refs[]")
	d(bn, ".max", ".huge", ".tiny", ".nz", ".e", ".h", ".one", ".big")
	d(bn, "")
	d(`[9007199254740993,1E2,100,-0,1e400]`, "[]")
	d(`9007199254740993`, "")
	d(`9007199254740993`)
	// repeated keys inside an excluded subtree stay (the object is not rebuilt)
	d(`{"keep":{"a":1E2,"a":9007199254740993,"b":{"k":1,"k":2}},"x":"s"}`, ".keep")
	ks = append(ks, Case{Suite: "direct", Via: "plugin", Hasher: "short", Body: bn, Excl: []string{".order.id", ".refs[]", ".e"}})
	ks = append(ks, Case{Suite: "direct", Via: "plugin", Hasher: "fixed", Body: un, Excl: []string{".user.name"}})
	ks = append(ks, Case{Suite: "direct", Via: "plugin", Hasher: "short", Body: `{"a.b":"s","a":{"b":"t"}}`, Excl: []string{".a.b"}})
	for _, via := range []string{"collector", "plugin"} {
		for _, body := range []string{"", " ", "not json", `{"name":"top"`, `{"name":"top"}x`} {
			ks = append(ks, Case{Suite: "rawbody", Via: via, Request: true, Hasher: "md5", Body: body, Excl: []string{"$.request.body"}})
			ks = append(ks, Case{Suite: "rawbody", Via: via, Request: false, Off: true, Hasher: "md5", Body: body})
		}
		ks = append(ks, Case{Suite: "rawbody", Via: via, Request: true, Off: true, Hasher: "md5", Body: un, Excl: []string{".user.name"}})
		// a non-JSON body that looks like a digest / a UUID is hidden like any other
		for _, body := range []string{"d41d8cd98f00b204e9800998ecf8427e", "da39a3ee5e6b4b0d3255bfef95601890afd80709", "F4DCC3B5AA765D61D8327DEB882CF995", "c23e4567-e89b-12d3-a456-426614174000"} {
			ks = append(ks, Case{Suite: "rawbody", Via: via, Request: true, Hasher: "md5", Body: body})
		}
	}
	for _, req := range []bool{true, false} {
		p, q := "$.request.body", "$.response.body"
		if !req {
			p, q = q, p
		}
		cl(req, un, p+".user.name")
		cl(req, un, q+".user.name")
		cl(req, un, ".user.name")
		cl(req, un, p)
		cl(req, un, p+".user")
		cl(req, un, p+".user.id", `$.request.headers["Authorization"]`)
		cl(req, un)
		cl(req, `{"user":{"name":"Alice","id":"12345"}}`, p+".user.id")
		cl(req, `{"a.b":"s","a":{"b":"t"}}`, p+".a.b")
		cl(req, `{"a":"s","b":true,"a":"t"}`, p+".b")
		cl(req, `{"body":{"user":{"name":"n"}},"request":{"body":{"user":{"name":"m"}}},"response":{"body":{"user":{"name":"k"}}}}`, p+".user.name")
		cl(req, `[{"x":1,"y":[{"x":2}]},{"x":null}]`, p+"[].y[].x")
		cl(req, un, p+"X.name")
		cl(req, dg)
		cl(req, dg, p+".uuid", q+".md5")
		cl(req, bn, p+".order.id", p+".refs[]")
		cl(req, bn, p+".order", q+".refs")
		cl(req, bn, p)
	}
	return ks
}
