// C16 harness: drives the real obfuscation.Obfuscator.ObfuscateJSON (suite
// "direct") and the HAR collector's own HAR generation (suite "collector",
// through the tag-guarded shim harcollector.VerifGenerateHARBodies) on generated
// JSON documents with colliding names at different depths, arrays of objects,
// nulls/numbers/booleans and exclusion sets in both notations.
// Observable = the output document, compared leaf by leaf with the input.
package main

import (
	"fmt"

	harcollector "lunar/engine/streams/processors/har-collector"
	test_utils "lunar/engine/streams/test-utils"
	"lunar/engine/utils/obfuscation"

	"github.com/rs/zerolog"

	c "verifharness/common"
)

// Case is what a replay file carries: everything needed to re-execute.
type Case struct {
	Suite   string   `json:"suite"`             // direct | collector
	Request bool     `json:"request_direction"` // collector: request body (else response body)
	Hasher  string   `json:"hasher"`            // md5 | short | fixed
	Excl    []string `json:"exclusions"`
	Body    string   `json:"body"`
	Output  string   `json:"output"` // what the implementation returned
	Err     string   `json:"error,omitempty"`
}

func hasherOf(name string) obfuscation.Hasher {
	switch name {
	case "md5":
		return obfuscation.MD5Hasher{}
	case "fixed":
		return obfuscation.FixedHasher{Value: "<obfuscated>"}
	}
	return shortHasher{}
}

// exec runs the case on the implementation.
func exec(k *Case) {
	k.Output, k.Err = "", ""
	switch k.Suite {
	case "direct":
		ob := obfuscation.Obfuscator{Hasher: hasherOf(k.Hasher)}
		out, err := ob.ObfuscateJSON(k.Body, k.Excl)
		if err != nil {
			k.Err = err.Error()
		}
		k.Output = out
	case "collector":
		k.Hasher = "md5" // fixed inside newAPIStreamObfuscator
		other := `{"other":"direction","name":"x"}`
		reqBody, respBody := k.Body, other
		if !k.Request {
			reqBody, respBody = other, k.Body
		}
		stream := test_utils.NewMockAPIStream(
			"https://example.com/users/12345?id=7",
			map[string]string{"authorization": "Bearer t"},
			map[string]string{"content-type": "application/json"},
			reqBody, respBody)
		rq, rs, err := harcollector.VerifGenerateHARBodies(true, k.Excl, stream)
		if err != nil {
			k.Err = err.Error()
		}
		k.Output = rs
		if k.Request {
			k.Output = rq
		}
	default:
		panic("unknown suite " + k.Suite)
	}
}

// ---------------------------------------------------------------- Coq terms

func coqJSON(n *Node) string {
	switch n.Kind {
	case kNull:
		return "JNull"
	case kBool:
		return "(JBool " + c.B(n.B) + ")"
	case kNum:
		return "(JNum " + c.Bytes(n.S) + " " + c.Bytes(numText(n.S)) + ")"
	case kStr:
		return "(JStr " + c.Bytes(n.S) + ")"
	case kArr:
		return "(JArr " + c.MapList(n.A, coqJSON) + ")"
	}
	it := make([]string, len(n.A))
	for i := range n.A {
		it[i] = c.Tuple(c.Bytes(n.K[i]), coqJSON(n.A[i]))
	}
	return "(JObj " + c.List(it) + ")"
}

// hash table: every leaf text of the document -> digest, as the hasher reports
func coqTable(doc *Node, h obfuscation.Hasher) string {
	seen := map[string]bool{}
	var it []string
	doc.walk(nil, func(_ []step, n *Node) {
		if n.Kind == kArr || n.Kind == kObj {
			return
		}
		t := leafText(n)
		if !seen[t] {
			seen[t] = true
			it = append(it, c.Tuple(c.Bytes(t), c.Bytes(h.HashBytes([]byte(t)))))
		}
	})
	return c.List(it)
}

func coqCase(k *Case, doc, out *Node) string {
	excl := c.MapList(k.Excl, c.Bytes)
	tbl := coqTable(doc, hasherOf(k.Hasher))
	if k.Suite == "collector" {
		return c.Tuple(c.B(k.Request), excl, coqJSON(doc), tbl, coqJSON(out))
	}
	return c.Tuple(excl, coqJSON(doc), tbl, coqJSON(out))
}

// ---------------------------------------------------------------- run one case

func run(o *c.Out, k Case) {
	doc, err := parseJSON(k.Body)
	if err != nil {
		panic("generator produced a document the harness can not parse: " + err.Error() + "\n" + k.Body)
	}
	exec(&k)
	o.Count("suite=" + k.Suite)
	o.Count("hasher=" + k.Hasher)
	o.Count(fmt.Sprintf("exclusions=%d", len(k.Excl)))
	leaves := doc.leafCount()
	o.Count("leaves=" + bucket(leaves))
	o.Count(fmt.Sprintf("depth=%d", doc.depth()))

	var out *Node
	if k.Err == "" {
		out, err = parseJSON(k.Output)
		if err != nil {
			k.Err = "output does not parse: " + err.Error()
		}
	}
	if k.Err != "" {
		// the generated bodies are valid JSON: a refusal / broken output is a
		// failure of the structure clause
		o.Count("implementation-error")
		idx := o.Case(k.Suite, coqCase(&k, doc, &Node{Kind: kNull}), k, false)
		o.MonitorChecked(1)
		o.Hit(c.Hit{Suite: k.Suite, Index: idx, Signature: "structure:no-output@" + k.Suite,
			Demanded: "an obfuscated document with the structure of the input",
			Observed: k.Err, Case: k})
		return
	}

	res := monitor(&k, doc, out)
	for _, t := range res.tags {
		o.Count(t)
	}
	nontrivial := res.kept > 0 && res.hidden > 0
	idx := o.Case(k.Suite, coqCase(&k, doc, out), k, nontrivial)
	if res.skipped == "" {
		o.MonitorChecked(1)
	} else {
		o.Count("monitor-skipped:" + res.skipped)
	}
	for _, h := range res.hits {
		h.Suite, h.Index, h.Case = k.Suite, idx, k
		o.Hit(h)
	}
}

func bucket(n int) string {
	switch {
	case n <= 1:
		return "01"
	case n <= 4:
		return "02-04"
	case n <= 9:
		return "05-09"
	case n <= 19:
		return "10-19"
	}
	return "20+"
}

// ---------------------------------------------------------------- main

func main() {
	zerolog.SetGlobalLevel(zerolog.Disabled) // the walk logs every cursor at trace level
	o := c.NewOut("C16")
	o.DeclareSuite("direct", "From Verif Require Import C16.Model.", "case_direct", "run_direct")
	o.DeclareSuite("collector", "From Verif Require Import C16.Model.", "case_collector", "run_collector")
	o.Rule("hand-written regression documents, then generated JSON documents (depth <= 4, keys from a " +
		"small pool so that names collide at different depths, arrays of objects, strings with escapes, " +
		"numbers, booleans, nulls; a few with repeated keys or keys containing '.'/'[' for the model only) x " +
		"exclusion sets of 0-3 entries derived from the document's own paths (whole, tails, with a foreign " +
		"head, inexistent, malformed) in the plain and the `$.request.body`/`$.response.body` notation, " +
		"through Obfuscator.ObfuscateJSON (md5 / short / fixed hasher) and through the HAR collector's " +
		"generateHAR for both directions; distinct = distinct (exclusions, document, output); " +
		"non-trivial = the output has at least one leaf kept because of an exclusion and at least one hashed leaf")
	var k Case
	if _, ok := o.ReplayCase(&k); ok {
		run(o, k)
		o.Finish()
		return
	}
	for _, k := range fixedCases() {
		run(o, k)
	}
	r := o.Rng
	nDirect := o.Scale(2200, 22000, 20000)
	nColl := o.Scale(800, 8000, 8000)
	for i := 0; i < nDirect; i++ {
		g := &gen{r: r}
		doc := g.document()
		k := Case{Suite: "direct", Body: g.serialize(doc)}
		switch {
		case r.Chance(1, 8):
			k.Hasher = "md5"
		case r.Chance(1, 10):
			k.Hasher = "fixed"
		default:
			k.Hasher = "short"
		}
		k.Excl = g.exclusions(doc, "direct", false)
		run(o, k)
	}
	for i := 0; i < nColl; i++ {
		g := &gen{r: r, small: true}
		doc := g.document()
		k := Case{Suite: "collector", Request: r.Bool(), Body: g.serialize(doc), Hasher: "md5"}
		k.Excl = g.exclusions(doc, "collector", k.Request)
		run(o, k)
	}
	o.Finish()
}

// fixedCases: small regression inputs (the witnesses of F-C16 first, then the
// shapes of obfuscate_test.go and of the collector test with colliding names).
func fixedCases() []Case {
	var ks []Case
	d := func(body string, excl ...string) {
		ks = append(ks, Case{Suite: "direct", Hasher: "short", Body: body, Excl: excl})
	}
	cl := func(req bool, body string, excl ...string) {
		ks = append(ks, Case{Suite: "collector", Request: req, Hasher: "md5", Body: body, Excl: excl})
	}
	un := `{"name":"top","user":{"name":"n","id":7}}`
	d(un, ".user.name")
	d(un, "$.request.body.user.name")
	d(un, ".user")
	d(un, ".name")
	d(un, "")
	d(un)
	d(un, "qui")
	d(un, "name")
	d(un, ".")
	d(un, ".user.name", ".user.id")
	d(`{"body":{"user":{"name":"n"}},"user":{"name":"m"}}`, "$.request.body.user.name")
	d(`{"a":{"b":{"c":1}},"b":{"c":2},"c":3}`, ".a.b.c")
	d(`{"data":{"items":[{"x":1,"y":2},{"x":3}]},"items":[{"x":4}],"x":5}`, ".data.items[].x")
	d(`[{"x":1,"y":[{"x":2}]},{"x":null}]`, "[].y[].x")
	d(`[{"foo":"lorem","bar":"de omnibus"},{"foo":"ipsum","bar":"dubitandum est"}]`, "[].bar")
	d(`{"obfuscatedData":["foo","bar"],"nonObfuscatedData":["lorem","ipsum"]}`, ".nonObfuscatedData[]")
	d(`{"t":true,"f":false,"z":null,"n":10.999,"m":-0,"e":1e3,"s":"a\"b\\c\n"}`, ".t", ".z")
	d(`{"t":true,"f":false,"z":null,"n":10.999,"m":-0,"e":1e3,"s":"a\"b\\c\n"}`, ".n", ".s", ".f")
	d(`"just a string"`)
	d(`"just a string"`, "")
	d(`12.5`, ".x")
	d(`[]`)
	d(`{}`, ".a")
	d(`{"a":{},"b":[],"c":[[],[1,[2]]]}`, ".c[][]")
	d(`{"a":1,"a":2,"b":{"a":3,"a":4}}`, ".b")
	d(`{"a":1,"a":2,"b":{"a":3,"a":4}}`, ".a")
	d(`{"a.b":1,"a":{"b":2}}`, ".a.b")
	d(`{"a[]":1,"a":[2]}`, ".a[]")
	d(`{"name":"esc","user":{"name":"n"}}`, ".user.name")
	for _, req := range []bool{true, false} {
		p, q := "$.request.body", "$.response.body"
		if !req {
			p, q = q, p
		}
		cl(req, un, p+".user.name")
		cl(req, un, q+".user.name")
		cl(req, un, ".user.name")
		cl(req, un, p)
		cl(req, un, p+".user")
		cl(req, un, p+".user.id", `$.request.headers["Authorization"]`)
		cl(req, un)
		cl(req, `{"user":{"name":"Alice","id":"12345"}}`, p+".user.id")
		cl(req, `{"body":{"user":{"name":"n"}},"request":{"body":{"user":{"name":"m"}}},"response":{"body":{"user":{"name":"k"}}}}`, p+".user.name")
		cl(req, `[{"x":1,"y":[{"x":2}]},{"x":null}]`, p+"[].y[].x")
		cl(req, un, p+"X.name")
	}
	return ks
}

