// The harness's own JSON tree: ordered objects (repeated keys kept), numbers as
// their literal tokens.  Independent of fastjson (the library the code under
// test uses): parsing is done with encoding/json's token stream.
package main

import (
	"encoding/json"
	"fmt"
	"hash/fnv"
	"io"
	"math"
	"math/big"
	"strconv"
	"strings"
)

const (
	kNull = 'z'
	kBool = 'b'
	kNum  = 'n'
	kStr  = 's'
	kArr  = 'a'
	kObj  = 'o'
)

type Node struct {
	Kind byte
	B    bool
	S    string   // string value / literal number token
	A    []*Node  // array elements / object values
	K    []string // object keys, parallel to A
}

// a step of a structured path: a key, or "some array element"
type step struct {
	key string
	any bool
}

func parseJSON(text string) (*Node, error) {
	dec := json.NewDecoder(strings.NewReader(text))
	dec.UseNumber()
	n, err := parseValue(dec)
	if err != nil {
		return nil, err
	}
	if _, err := dec.Token(); err != io.EOF {
		return nil, fmt.Errorf("trailing data")
	}
	return n, nil
}

func parseValue(dec *json.Decoder) (*Node, error) {
	tok, err := dec.Token()
	if err != nil {
		return nil, err
	}
	switch t := tok.(type) {
	case json.Delim:
		switch t {
		case '[':
			n := &Node{Kind: kArr}
			for dec.More() {
				v, err := parseValue(dec)
				if err != nil {
					return nil, err
				}
				n.A = append(n.A, v)
			}
			_, err := dec.Token()
			return n, err
		case '{':
			n := &Node{Kind: kObj}
			for dec.More() {
				kt, err := dec.Token()
				if err != nil {
					return nil, err
				}
				key, ok := kt.(string)
				if !ok {
					return nil, fmt.Errorf("key is not a string")
				}
				v, err := parseValue(dec)
				if err != nil {
					return nil, err
				}
				n.K = append(n.K, key)
				n.A = append(n.A, v)
			}
			_, err := dec.Token()
			return n, err
		}
		return nil, fmt.Errorf("unexpected delimiter %v", t)
	case string:
		return &Node{Kind: kStr, S: t}, nil
	case json.Number:
		return &Node{Kind: kNum, S: t.String()}, nil
	case bool:
		return &Node{Kind: kBool, B: t}, nil
	case nil:
		return &Node{Kind: kNull}, nil
	}
	return nil, fmt.Errorf("unexpected token %v", tok)
}

// numText: the two-decimal rendering of a number token (what the code under
// test documents it hashes), computed here with strconv on the token.
func numText(tok string) string {
	f, err := strconv.ParseFloat(tok, 64)
	if err != nil && !math.IsInf(f, 0) {
		return "?" + tok
	}
	// a token beyond the float64 range (1e400) reads as an infinity ("+Inf" / "-Inf")
	return strconv.FormatFloat(f, 'f', 2, 64)
}

// numRat: the exact value a number token denotes (nil when it is not a number,
// or its exponent is too large to be worth expanding).
func numRat(tok string) *big.Rat {
	if i := strings.IndexAny(tok, "eE"); i >= 0 {
		if e, err := strconv.Atoi(tok[i+1:]); err != nil || e > 2000 || e < -2000 {
			return nil
		}
	}
	r, ok := new(big.Rat).SetString(tok)
	if !ok {
		return nil
	}
	return r
}

// sameNumber: the two tokens denote the same number (exactly).
func sameNumber(a, b string) bool {
	if a == b {
		return true
	}
	x, y := numRat(a), numRat(b)
	return x != nil && y != nil && x.Cmp(y) == 0
}

// leafText: the text of a primitive that is fed to the hasher.
func leafText(n *Node) string {
	switch n.Kind {
	case kNull:
		return "null"
	case kBool:
		if n.B {
			return "true"
		}
		return "false"
	case kNum:
		return numText(n.S)
	case kStr:
		return n.S
	}
	return ""
}

func (n *Node) isLeaf() bool { return n.Kind != kArr && n.Kind != kObj }

// walk visits every node with its structured path.
func (n *Node) walk(p []step, f func([]step, *Node)) {
	f(p, n)
	for i, ch := range n.A {
		var s step
		if n.Kind == kObj {
			s = step{key: n.K[i]}
		} else {
			s = step{any: true}
		}
		q := append(append([]step{}, p...), s)
		ch.walk(q, f)
	}
}

func (n *Node) leafCount() int {
	if n.isLeaf() {
		return 1
	}
	t := 0
	for _, ch := range n.A {
		t += ch.leafCount()
	}
	return t
}

func (n *Node) depth() int {
	d := 0
	for _, ch := range n.A {
		if x := ch.depth() + 1; x > d {
			d = x
		}
	}
	return d
}

func (n *Node) hasDupKeys() bool {
	if n.Kind == kObj {
		seen := map[string]bool{}
		for _, k := range n.K {
			if seen[k] {
				return true
			}
			seen[k] = true
		}
	}
	for _, ch := range n.A {
		if ch.hasDupKeys() {
			return true
		}
	}
	return false
}

func (n *Node) hasUncleanKeys() bool {
	if n.Kind == kObj {
		for _, k := range n.K {
			if strings.ContainsAny(k, ".[") {
				return true
			}
		}
	}
	for _, ch := range n.A {
		if ch.hasUncleanKeys() {
			return true
		}
	}
	return false
}

func (n *Node) show() string {
	switch n.Kind {
	case kNull:
		return "null"
	case kBool:
		return strconv.FormatBool(n.B)
	case kNum:
		return n.S
	case kStr:
		return strconv.Quote(n.S)
	case kArr:
		return fmt.Sprintf("<array of %d>", len(n.A))
	}
	return fmt.Sprintf("<object of %d>", len(n.A))
}

func showPath(p []step) string {
	if len(p) == 0 {
		return "<root>"
	}
	var sb strings.Builder
	for _, s := range p {
		if s.any {
			sb.WriteString("[*]")
		} else {
			sb.WriteString("[" + strconv.Quote(s.key) + "]")
		}
	}
	return sb.String()
}

// shortHasher: a deterministic 9-character digest (keeps the Coq terms small);
// injected through the public Obfuscator.Hasher field.
type shortHasher struct{}

func (shortHasher) HashBytes(raw []byte) string {
	h := fnv.New32a()
	h.Write(raw)
	return fmt.Sprintf("h%08x", h.Sum32())
}
