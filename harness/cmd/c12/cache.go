package main

// Suites "cache" (sequential histories) and "sched" (Set split at its clock
// reading, all interleavings) on utils.MemoryCache[int, item].

import (
	"fmt"
	"sort"
	"time"

	"lunar/engine/utils"

	c "verifharness/common"
)

type item struct {
	Vid  int
	Size int
}

// COp is one step of a cache-level history together with what the
// implementation answered.
type COp struct {
	Kind string `json:"op"` // adv|get|has|set|del|fire|begin|commit
	Key  int    `json:"key"`
	Vid  int    `json:"vid,omitempty"`
	Size int    `json:"size,omitempty"`
	TTLg int64  `json:"ttl_grid,omitempty"` // ttl in units of 1/512 s
	TNs  int64  `json:"ttl_ns,omitempty"`   // ttl in ns, off the grid (only with ttl_grid = 0, see ttlSeconds)
	Sid  int    `json:"set,omitempty"`      // fire/commit: index of the set/begin op it belongs to
	D    int64  `json:"advance_ns,omitempty"`

	// observed
	At     int64 `json:"at_ns"`
	Found  bool  `json:"found,omitempty"`
	RVid   int   `json:"r_vid,omitempty"`
	RSize  int   `json:"r_size,omitempty"`
	Ok     bool  `json:"ok,omitempty"`
	Bad    bool  `json:"bad,omitempty"`    // fire/commit of something not pending
	Parked bool  `json:"parked,omitempty"` // begin: stopped at the clock reading
	Mask   int64 `json:"held_mask"`
	Held   int64 `json:"held_size"`
	Tb     int64 `json:"clock_read_ns,omitempty"`    // set/commit: clock reading used for the expiry
	Slp    int   `json:"sleepers_started,omitempty"` // set/commit: sleepers that registered with the clock
}

// ttl of a set/begin/commit op in ns.
func (o *COp) ttl() int64 { return o.TTLg*G + o.TNs }

// ttlSeconds is the float64 handed to Set. On the 1/512 s grid the code's
// conversion time.Duration(float64(time.Second)*ttlSec) is exact. A ttl of a
// few ns off the grid is passed as (ns +- 0.5)/1e9, half a nanosecond away
// from the truncation boundaries, so that the conversion yields exactly ns
// whatever the rounding of the product (checked here).
func ttlSeconds(grid, ns int64) float64 {
	if ns == 0 {
		return float64(grid) / 512
	}
	if grid != 0 || ns > 1000 || ns < -1000 {
		panic("c12 harness: off-grid ttl only as a few ns")
	}
	x := float64(ns) + 0.5
	if ns < 0 {
		x = float64(ns) - 0.5
	}
	v := x / 1e9
	if int64(time.Duration(float64(time.Second)*v)) != ns {
		panic("c12 harness: off-grid ttl not robust")
	}
	return v
}

type CacheCase struct {
	Limit *int64 `json:"limit"`
	T0    int64  `json:"t0_ns"`
	Ops   []COp  `json:"ops"`
}

type inflight struct {
	p    *parkPoint
	done chan error
	tb   int64
}

// cacheRun executes a history on a fresh MemoryCache. next() yields the
// following operation given what happened so far (online generation), or
// false.
type cacheRun struct {
	w        *world
	cache    *utils.MemoryCache[int, item]
	k        *CacheCase
	sleeper  map[int]int // set op index -> registration index, while pending
	inflight map[int]*inflight
	// bookkeeping for generators (what the implementation was asked, not a model)
	sets []setInfo
}

type setInfo struct {
	op, key, vid, size int
	tb, ttl            int64
	ok                 bool
}

func newCacheRun(limit *int64, t0 int64) *cacheRun {
	w := newWorld(t0)
	r := &cacheRun{w: w, cache: utils.NewMemoryCache[int, item](w.clk),
		k: &CacheCase{Limit: limit, T0: t0}, sleeper: map[int]int{}, inflight: map[int]*inflight{}}
	if limit != nil {
		r.cache.WithMaxCacheSize(func(_ int, v item) float64 { return float64(v.Size) }, float64(*limit))
	}
	return r
}

func (r *cacheRun) now() int64 { return r.w.clk.now }

func (r *cacheRun) do(o COp) {
	idx := len(r.k.Ops)
	o.At = r.now()
	switch o.Kind {
	case "adv":
		r.w.clk.set(r.now() + o.D)
		o.At = r.now()
	case "get":
		v, found := r.cache.Get(o.Key)
		o.Found = found
		if found {
			o.RVid, o.RSize = v.Vid, v.Size
		}
	case "has":
		o.Found = r.cache.Has(o.Key)
	case "set":
		err := r.cache.Set(o.Key, item{o.Vid, o.Size}, ttlSeconds(o.TTLg, o.TNs))
		o.Ok = err == nil
		o.Tb = o.At
		r.settled(&o, idx)
	case "del":
		r.cache.Del(o.Key)
	case "fire":
		reg, ok := r.sleeper[o.Sid]
		if !ok {
			o.Bad = true
			break
		}
		delete(r.sleeper, o.Sid)
		r.w.fire(reg)
	case "begin":
		p := r.w.clk.arm()
		done := make(chan error, 1)
		key, it, ttl := o.Key, item{o.Vid, o.Size}, ttlSeconds(o.TTLg, o.TNs)
		release := r.w.helper()
		go func() { done <- r.cache.Set(key, it, ttl); <-release }()
		select {
		case <-p.parked:
			o.Parked = true
			r.inflight[idx] = &inflight{p, done, o.At}
		case err := <-done:
			// returned without reading the clock (size test before the lock refused)
			r.w.clk.mu.Lock()
			r.w.clk.armed = nil
			r.w.clk.mu.Unlock()
			o.Ok = err == nil
			o.Tb = o.At
			r.settled(&o, idx)
		}
	case "commit":
		f, ok := r.inflight[o.Sid]
		if !ok {
			o.Bad = true
			break
		}
		delete(r.inflight, o.Sid)
		b := r.k.Ops[o.Sid]
		o.Key, o.Vid, o.Size, o.TTLg, o.TNs = b.Key, b.Vid, b.Size, b.TTLg, b.TNs
		close(f.p.resume)
		err := <-f.done
		o.Ok = err == nil
		o.Tb = f.tb
		r.settled(&o, o.Sid)
	default:
		panic("unknown op " + o.Kind)
	}
	keys, vals, _, _ := r.cache.VerifC12Snapshot()
	for i, key := range keys {
		o.Mask += 1 << uint(key)
		o.Held += int64(vals[i].Size)
	}
	r.k.Ops = append(r.k.Ops, o)
}

// settled is called when a Set (op o, identified by the index sid of its
// set/begin op) has returned: waits for the sleeper it started, if any.
// Whether one was started is an observation (o.Slp), not a precondition.
func (r *cacheRun) settled(o *COp, sid int) {
	o.Slp = r.w.settle(o.Ok)
	if o.Slp > 0 {
		r.sleeper[sid] = r.w.reg - 1
	}
	r.sets = append(r.sets, setInfo{sid, o.Key, o.Vid, o.Size, o.Tb, o.ttl(), o.Ok})
}

func (r *cacheRun) finish() {
	// release Sets still parked (their result is not part of the case)
	ids := []int{}
	for id := range r.inflight {
		ids = append(ids, id)
	}
	sort.Ints(ids)
	for _, id := range ids {
		f := r.inflight[id]
		close(f.p.resume)
		r.w.settle(<-f.done == nil)
	}
	r.w.finish()
}

// pendingDue lists the set ops whose sleeper is pending and due.
func (r *cacheRun) pendingDue() (due, notDue []int) {
	for sid, reg := range r.sleeper {
		if r.w.due(reg) <= r.now() {
			due = append(due, sid)
		} else {
			notDue = append(notDue, sid)
		}
	}
	sort.Ints(due)
	sort.Ints(notDue)
	return
}

// ---------------------------------------------------------------- Coq term

func cacheCoq(k *CacheCase) string {
	lim := "None"
	if k.Limit != nil {
		lim = c.Some(c.Z(*k.Limit))
	}
	items := []string{}
	for i, o := range k.Ops {
		var op, out string
		switch o.Kind {
		case "adv":
			continue
		case "begin":
			if o.Parked {
				continue
			}
			op = fmt.Sprintf("OSet %d %d (%d, %d) %s %s", i, o.Key, o.Vid, o.Size, c.Z(o.ttl()), c.Z(o.Tb))
			out = "RSet " + c.B(o.Ok)
		case "get":
			op = fmt.Sprintf("OGet %d %s", o.Key, c.Z(o.At))
			if o.Found {
				out = fmt.Sprintf("RGet (Some (%d, %d))", o.RVid, o.RSize)
			} else {
				out = "RGet None"
			}
		case "has":
			op = fmt.Sprintf("OHas %d %s", o.Key, c.Z(o.At))
			out = "RHas " + c.B(o.Found)
		case "set":
			op = fmt.Sprintf("OSet %d %d (%d, %d) %s %s", i, o.Key, o.Vid, o.Size, c.Z(o.ttl()), c.Z(o.Tb))
			out = "RSet " + c.B(o.Ok)
		case "commit":
			op = fmt.Sprintf("OSet %d %d (%d, %d) %s %s", o.Sid, o.Key, o.Vid, o.Size, c.Z(o.ttl()), c.Z(o.Tb))
			out = "RSet " + c.B(o.Ok)
		case "del":
			op = fmt.Sprintf("ODel %d", o.Key)
			out = "RUnit"
		case "fire":
			op = fmt.Sprintf("OFire %d %d", o.Sid, o.Key)
			out = "RUnit"
		}
		if o.Bad {
			out = "RBad"
		}
		items = append(items, fmt.Sprintf("(%s, (%s, %d))", op, out, o.Mask))
	}
	return c.Tuple(lim, c.List(items))
}

// ---------------------------------------------------------------- monitor

// cacheMonitor restates C12 over the trace: a hit returns the value of the
// most recent committed Set of the same key and only while now <= t_set+ttl;
// the entries held never exceed the limit.
func cacheMonitor(k *CacheCase, suite string) []c.Hit {
	var hits []c.Hit
	add := func(sig, dem, obs string) {
		hits = append(hits, c.Hit{Signature: sig, Demanded: dem, Observed: obs, Case: k})
	}
	type st struct {
		vid, size int
		tb, ttl   int64
	}
	last := map[int]st{}     // key -> most recent committed Set
	byVid := map[int][]int{} // vid -> keys it was ever committed under
	concurrent := false
	for i, o := range k.Ops {
		commit := func() {
			if o.Ok {
				last[o.Key] = st{o.Vid, o.Size, o.Tb, o.ttl()}
				byVid[o.Vid] = append(byVid[o.Vid], o.Key)
			}
		}
		switch o.Kind {
		case "set":
			commit()
		case "begin":
			concurrent = true
			if !o.Parked {
				commit()
			}
		case "commit":
			if !o.Bad {
				commit()
			}
		case "get", "has":
			if !o.Found {
				break
			}
			l, stored := last[o.Key]
			switch {
			case !stored && o.Kind == "get" && len(byVid[o.RVid]) > 0:
				add("wrong-key-hit:"+suite, fmt.Sprintf("op %d: a hit for key %d only after a Set of key %d", i, o.Key, o.Key),
					fmt.Sprintf("value %d was stored under key(s) %v only", o.RVid, byVid[o.RVid]))
			case !stored:
				add("phantom-hit:"+suite, fmt.Sprintf("op %d: a hit for key %d only after a Set of key %d", i, o.Key, o.Key), "nothing was ever stored under it")
			case o.Kind == "get" && (o.RVid != l.vid || o.RSize != l.size):
				sig := "stale-value-hit:"
				if !containsInt(byVid[o.RVid], o.Key) {
					sig = "wrong-key-hit:"
				}
				add(sig+suite, fmt.Sprintf("op %d: a hit for key %d returns the most recent committed value %d", i, o.Key, l.vid),
					fmt.Sprintf("returned value %d (size %d)", o.RVid, o.RSize))
			case o.At > l.tb+l.ttl:
				add("expired-hit:"+suite, fmt.Sprintf("op %d: miss for key %d after %d (= stored at %d + ttl %d)", i, o.Key, l.tb+l.ttl, l.tb, l.ttl),
					fmt.Sprintf("%s hit at %d", o.Kind, o.At))
			}
		}
		if k.Limit != nil && o.Held > *k.Limit {
			sig := "size-bound:sequential"
			if concurrent {
				sig = "size-bound:concurrent-set"
			}
			add(sig, fmt.Sprintf("entries held never exceed the limit %d", *k.Limit),
				fmt.Sprintf("after op %d (%s) the cache holds %d", i, o.Kind, o.Held))
			break
		}
	}
	return hits
}

func containsInt(xs []int, x int) bool {
	for _, y := range xs {
		if x == y {
			return true
		}
	}
	return false
}

// ---------------------------------------------------------------- recording

func cacheRecord(o *c.Out, suite string, k *CacheCase) {
	hit, miss, refused, boundary, stale, fires := 0, 0, 0, 0, 0, 0
	nonpos, nonposProbes, restoreDead := 0, 0, 0
	dead := map[int]bool{} // key -> last committed Set had ttl <= 0
	exp := map[int64]bool{}
	latest := map[int]int{}
	for _, op := range k.Ops {
		switch op.Kind {
		case "set", "commit", "begin":
			if op.Kind == "begin" && op.Parked {
				break
			}
			if op.Ok {
				e := op.Tb + op.ttl()
				if dead[op.Key] {
					restoreDead++
				}
				dead[op.Key] = op.ttl() <= 0
				if op.ttl() <= 0 {
					nonpos++
				}
				exp[e-1], exp[e], exp[e+1] = true, true, true
				if op.Kind == "commit" {
					latest[op.Key] = op.Sid
				}
			} else if !op.Bad {
				refused++
			}
		case "get", "has":
			if op.Found {
				hit++
			} else {
				miss++
			}
			if exp[op.At] {
				boundary++
			}
			if dead[op.Key] {
				nonposProbes++
			}
		case "fire":
			fires++
		}
	}
	// stale fire: a sleeper fired while a later committed Set of its key exists
	lastSet := map[int]int{}
	for i, op := range k.Ops {
		if (op.Kind == "set" || (op.Kind == "begin" && !op.Parked)) && op.Ok {
			lastSet[op.Key] = i
		}
		if op.Kind == "commit" && op.Ok {
			lastSet[op.Key] = op.Sid
		}
		if op.Kind == "fire" && !op.Bad && lastSet[op.Key] != op.Sid {
			stale++
		}
	}
	o.Count(fmt.Sprintf("%s.len=%02d", suite, len(k.Ops)))
	o.CountN(suite+".hits", hit)
	o.CountN(suite+".misses", miss)
	o.CountN(suite+".size_refusals", refused)
	o.CountN(suite+".probes_at_expiry±1ns", boundary)
	o.CountN(suite+".sleeper_fires", fires)
	o.CountN(suite+".stale_sleeper_fires", stale)
	o.CountN(suite+".sets_with_ttl<=0", nonpos)
	o.CountN(suite+".probes_of_entry_with_ttl<=0", nonposProbes)
	o.CountN(suite+".stores_over_entry_with_ttl<=0", restoreDead)
	nontrivial := hit > 0 && (boundary > 0 || refused > 0 || stale > 0)
	idx := o.Case(suite, cacheCoq(k), k, nontrivial)
	o.MonitorChecked(1)
	for _, h := range cacheMonitor(k, suite) {
		h.Suite, h.Index = suite, idx
		o.Hit(h)
	}
}

// replayCache re-executes the recorded operations.
func replayCache(o *c.Out, suite string, k *CacheCase) {
	r := newCacheRun(k.Limit, k.T0)
	for _, op := range k.Ops {
		r.do(COp{Kind: op.Kind, Key: op.Key, Vid: op.Vid, Size: op.Size, TTLg: op.TTLg, TNs: op.TNs, Sid: op.Sid, D: op.D})
	}
	r.finish()
	cacheRecord(o, suite, r.k)
}

// ---------------------------------------------------------------- generators

var ttlGrid = []int64{0, 1, 2, 2, 512, 512, 1536, -1, 0, -512}

// firePending fires the sleeper of set op sid if one is pending (scripted
// scenarios: whether a Set started a sleeper is observed, not assumed).
func (r *cacheRun) firePending(sid, key int) bool {
	if _, ok := r.sleeper[sid]; !ok {
		return false
	}
	r.do(COp{Kind: "fire", Sid: sid, Key: key})
	return true
}

// genNonPositiveTTL: an entry stored with a time-to-live that is zero or
// negative (a retry-after instant that is not in the future, ttl_seconds: 0)
// is probed at +0, +1 ns, +1 s, +1 h, then the same key is stored again (the
// dead entry must be replaceable) and probed across the new expiry. The
// sleeper of the first store fires never / before / after the second store;
// another key stored alongside must be unaffected. With a size limit the dead
// entry occupies its size until a sleeper removes it.
func genNonPositiveTTL(o *c.Out, t0 int64) {
	type ttl struct{ g, ns int64 }
	t0g := t0 / G
	if t0%G != 0 {
		panic("t0 not on the grid")
	}
	ttls := []ttl{{0, 0}, {0, -1}, {0, 1}, {-1, 0}, {-512, 0}, {-512 * 3600, 0},
		{-t0g, 0} /* expiry instant = 0 exactly */, {-2 * t0g, 0} /* negative expiry instant */}
	for _, lim := range []int64{0, 10} {
		for _, tl := range ttls {
			for fireAt := 0; fireAt < 3; fireAt++ { // never / before the 2nd store / after it
				for _, ttl2 := range []ttl{{2, 0}, {0, 0}, {-1, 0}} {
					if ttl2.g != 2 && fireAt != 0 && lim == 0 {
						continue
					}
					var limit *int64
					if lim > 0 {
						l := lim
						limit = &l
					}
					r := newCacheRun(limit, t0)
					probe := func() {
						r.do(COp{Kind: "get", Key: 1})
						r.do(COp{Kind: "has", Key: 1})
					}
					r.do(COp{Kind: "set", Key: 2, Vid: 50, Size: 3, TTLg: 512 * 7200})
					r.do(COp{Kind: "set", Key: 1, Vid: 51, Size: 4, TTLg: tl.g, TNs: tl.ns})
					probe() // +0
					r.do(COp{Kind: "adv", D: 1})
					probe() // +1 ns
					r.do(COp{Kind: "adv", D: sec - 1})
					probe() // +1 s
					r.do(COp{Kind: "adv", D: 3599 * sec})
					probe() // +1 h
					r.do(COp{Kind: "get", Key: 2})
					if fireAt == 1 {
						r.firePending(1, 1)
						probe()
					}
					r.do(COp{Kind: "set", Key: 1, Vid: 52, Size: 4, TTLg: ttl2.g, TNs: ttl2.ns})
					second := len(r.k.Ops) - 1
					probe() // +0 of the second store
					if fireAt == 2 {
						r.firePending(1, 1) // stale sleeper of the dead entry
						probe()
					}
					r.do(COp{Kind: "adv", D: 1})
					probe()
					if ttl2.g > 0 {
						r.do(COp{Kind: "adv", D: ttl2.g*G - 1})
						probe() // at the new expiry
						r.do(COp{Kind: "adv", D: 1})
						probe() // 1 ns after it
					}
					// a third store needs the room the dead entries may still occupy
					r.do(COp{Kind: "set", Key: 0, Vid: 53, Size: 3, TTLg: 2})
					r.firePending(second, 1)
					r.do(COp{Kind: "set", Key: 0, Vid: 54, Size: 3, TTLg: 2})
					r.do(COp{Kind: "get", Key: 0})
					r.do(COp{Kind: "get", Key: 2})
					r.finish()
					cacheRecord(o, "cache", r.k)
				}
			}
		}
	}
}

func genCacheHistory(o *c.Out, rng *c.Rng, t0 int64) {
	var limit *int64
	sizes := []int{1}
	if rng.Chance(2, 3) {
		l := int64(c.Pick(rng, []int{6, 10, 12}))
		limit = &l
		sizes = []int{1, 3, int(l) / 2, int(l)/2 + 1, int(l) - 1, int(l), int(l) + 1}
	}
	r := newCacheRun(limit, t0+int64(rng.Intn(3))*G+int64(rng.Intn(2)))
	n := rng.Range(6, 18)
	vid := 100
	for len(r.k.Ops) < n {
		key := rng.Intn(3)
		switch x := rng.Intn(100); {
		case x < 28:
			vid++
			op := COp{Kind: "set", Key: key, Vid: vid, Size: c.Pick(rng, sizes), TTLg: c.Pick(rng, ttlGrid)}
			if rng.Chance(1, 12) {
				op.TTLg, op.TNs = 0, c.Pick(rng, []int64{-1, 1, -2})
			}
			r.do(op)
		case x < 52:
			r.do(COp{Kind: "get", Key: key})
		case x < 60:
			r.do(COp{Kind: "has", Key: key})
		case x < 82:
			r.do(COp{Kind: "adv", D: pickAdvance(rng, r.now(), r.sets)})
		case x < 94:
			due, notDue := r.pendingDue()
			if len(due) > 0 {
				sid := c.Pick(rng, due)
				r.do(COp{Kind: "fire", Sid: sid, Key: r.k.Ops[sid].Key})
			} else if len(notDue) > 0 && rng.Chance(1, 6) {
				// the model lets a sleeper fire early as well
				sid := c.Pick(rng, notDue)
				r.do(COp{Kind: "fire", Sid: sid, Key: r.k.Ops[sid].Key})
			}
		default:
			r.do(COp{Kind: "del", Key: key})
		}
	}
	r.finish()
	cacheRecord(o, "cache", r.k)
}

// pickAdvance aims at expiry-1 / expiry / expiry+1 of a stored entry.
func pickAdvance(rng *c.Rng, now int64, sets []setInfo) int64 {
	var targets []int64
	for _, s := range sets {
		if !s.ok {
			continue
		}
		for _, d := range []int64{-1, 0, 1} {
			if t := s.tb + s.ttl + d; t >= now {
				targets = append(targets, t-now)
			}
		}
	}
	if len(targets) > 0 && rng.Chance(4, 5) {
		return c.Pick(rng, targets)
	}
	return c.Pick(rng, []int64{0, 1, G - 1, G, G + 1, sec})
}

// scenarioRestore: store, go to the expiry boundary, store the same key again
// with the old sleeper pending, fire the old sleeper before/after, probe.
func genRestoreScenarios(o *c.Out, t0 int64) {
	for _, lim := range []int64{0, 10} {
		for _, d1 := range []int64{-1, 0, 1} { // second store at expiry+d1
			for _, fireOldAt := range []int{0, 1, 2, 3} { // never / before 2nd store / after it / after probe
				for _, ttl2 := range []int64{0, 2} {
					for _, sz := range [][2]int{{3, 3}, {6, 4}, {4, 6}} {
						var limit *int64
						if lim > 0 {
							l := lim
							limit = &l
						}
						r := newCacheRun(limit, t0)
						r.do(COp{Kind: "set", Key: 1, Vid: 11, Size: sz[0], TTLg: 2})
						r.do(COp{Kind: "adv", D: 2*G + d1})
						r.do(COp{Kind: "get", Key: 1})
						if fireOldAt == 1 {
							r.do(COp{Kind: "fire", Sid: 0, Key: 1})
						}
						r.do(COp{Kind: "has", Key: 1})
						r.do(COp{Kind: "set", Key: 1, Vid: 12, Size: sz[1], TTLg: ttl2})
						setIdx := len(r.k.Ops) - 1
						r.do(COp{Kind: "get", Key: 1})
						if fireOldAt == 2 {
							r.do(COp{Kind: "fire", Sid: 0, Key: 1})
						}
						r.do(COp{Kind: "get", Key: 1})
						r.do(COp{Kind: "set", Key: 2, Vid: 13, Size: sz[1], TTLg: 512})
						r.do(COp{Kind: "adv", D: ttl2 * G})
						r.do(COp{Kind: "get", Key: 1})
						if fireOldAt == 3 {
							r.do(COp{Kind: "fire", Sid: 0, Key: 1})
						}
						r.do(COp{Kind: "adv", D: 1})
						r.do(COp{Kind: "get", Key: 1})
						r.firePending(setIdx, 1)
						r.do(COp{Kind: "set", Key: 0, Vid: 14, Size: sz[0], TTLg: 1})
						r.do(COp{Kind: "get", Key: 0})
						r.do(COp{Kind: "get", Key: 2})
						r.finish()
						cacheRecord(o, "cache", r.k)
					}
				}
			}
		}
	}
}

// exhaustive: up to 3 stores on 2 keys, every order of firing their sleepers
// (each after its due instant), probing every key after every step.
func genFireOrders(o *c.Out, t0 int64) {
	keysets := [][]int{{0, 0}, {0, 1}, {0, 0, 0}, {0, 0, 1}, {0, 1, 0}}
	for _, ks := range keysets {
		perms := permutations(len(ks))
		for _, perm := range perms {
			for _, lim := range []int64{0, 7} {
				var limit *int64
				if lim > 0 {
					l := lim
					limit = &l
				}
				r := newCacheRun(limit, t0)
				for i, key := range ks {
					r.do(COp{Kind: "set", Key: key, Vid: 21 + i, Size: 3, TTLg: int64(1 + i)})
					r.do(COp{Kind: "adv", D: 1})
				}
				setOps := []int{}
				for i, op := range r.k.Ops {
					if op.Kind == "set" {
						setOps = append(setOps, i)
					}
				}
				r.do(COp{Kind: "adv", D: 4 * G})
				for _, p := range perm {
					r.firePending(setOps[p], ks[p])
					r.do(COp{Kind: "set", Key: ks[p], Vid: 31 + p, Size: 2, TTLg: 512})
					for key := 0; key < 2; key++ {
						r.do(COp{Kind: "get", Key: key})
					}
				}
				r.finish()
				cacheRecord(o, "cache", r.k)
			}
		}
	}
}

func permutations(n int) [][]int {
	if n == 0 {
		return [][]int{{}}
	}
	var out [][]int
	for _, p := range permutations(n - 1) {
		for i := 0; i <= len(p); i++ {
			q := append(append(append([]int{}, p[:i]...), n-1), p[i:]...)
			out = append(out, q)
		}
	}
	return out
}

// ---- sched: every interleaving of begin_i / commit_i of n concurrent Sets

func interleavings(n int) [][]int { // sequence of set indices; first occurrence = begin, second = commit
	var out [][]int
	var rec func(seq []int, count []int)
	rec = func(seq []int, count []int) {
		if len(seq) == 2*n {
			out = append(out, append([]int{}, seq...))
			return
		}
		for i := 0; i < n; i++ {
			if count[i] < 2 {
				count[i]++
				rec(append(seq, i), count)
				count[i]--
			}
		}
	}
	rec(nil, make([]int, n))
	return out
}

type schedSet struct{ key, size int }

func runSchedule(o *c.Out, t0 int64, limit int64, pre []schedSet, sets []schedSet, order []int, advBetween int64) {
	l := limit
	r := newCacheRun(&l, t0)
	vid := 40
	for _, s := range pre {
		vid++
		r.do(COp{Kind: "set", Key: s.key, Vid: vid, Size: s.size, TTLg: 512})
	}
	beginOp := make([]int, len(sets))
	for i := range beginOp {
		beginOp[i] = -1
	}
	for _, i := range order {
		if beginOp[i] < 0 {
			vid++
			r.do(COp{Kind: "begin", Key: sets[i].key, Vid: vid, Size: sets[i].size, TTLg: 2})
			beginOp[i] = len(r.k.Ops) - 1
		} else {
			if b := r.k.Ops[beginOp[i]]; b.Parked {
				r.do(COp{Kind: "commit", Sid: beginOp[i]})
			}
		}
		if advBetween > 0 {
			r.do(COp{Kind: "adv", D: advBetween})
		}
	}
	// expiry is counted from the clock reading, not from the commit: probe
	// every nanosecond from the first expiry - 1 on
	first := int64(-1)
	for _, op := range r.k.Ops {
		if op.Kind == "begin" {
			first = op.At + 2*G
			break
		}
	}
	if d := first - 1 - r.now(); d > 0 {
		r.do(COp{Kind: "adv", D: d})
	}
	rounds := 3
	if advBetween > 0 {
		rounds = len(order) + 2
	}
	for i := 0; i < rounds; i++ {
		for key := 0; key < 3; key++ {
			r.do(COp{Kind: "get", Key: key})
		}
		r.do(COp{Kind: "adv", D: 1})
	}
	r.finish()
	cacheRecord(o, "sched", r.k)
}

func genSchedules(o *c.Out, rng *c.Rng, t0 int64) {
	two := interleavings(2)
	three := interleavings(3)
	cfgs2 := []struct {
		lim  int64
		pre  []schedSet
		sets []schedSet
	}{
		{10, nil, []schedSet{{0, 6}, {1, 6}}},
		{10, nil, []schedSet{{0, 5}, {1, 5}}},
		{10, nil, []schedSet{{0, 6}, {0, 6}}},
		{10, []schedSet{{2, 4}}, []schedSet{{0, 6}, {1, 1}}},
		{10, []schedSet{{2, 4}}, []schedSet{{0, 4}, {1, 3}}},
		{1, nil, []schedSet{{0, 1}, {1, 1}}},
	}
	for _, cf := range cfgs2 {
		for _, ord := range two {
			for _, adv := range []int64{0, 1} {
				runSchedule(o, t0, cf.lim, cf.pre, cf.sets, ord, adv)
			}
		}
	}
	cfgs3 := []struct {
		lim  int64
		sets []schedSet
	}{
		{10, []schedSet{{0, 4}, {1, 4}, {2, 4}}},
		{10, []schedSet{{0, 5}, {1, 5}, {0, 1}}},
	}
	for ci, cf := range cfgs3 {
		for oi, ord := range three {
			if !o.Thorough() && (oi+ci)%3 != 0 {
				continue
			}
			runSchedule(o, t0, cf.lim, nil, cf.sets, ord, int64(oi%2))
		}
	}
	// random: sizes and limits around each other, random interleavings with reads
	for i := 0; i < o.Scale(150, 3000, 2000); i++ {
		n := rng.Range(2, 4)
		lim := int64(rng.Range(4, 12))
		sets := make([]schedSet, n)
		for j := range sets {
			sets[j] = schedSet{rng.Intn(3), c.Pick(rng, []int{1, int(lim) / 2, int(lim)/2 + 1, int(lim) - 1, int(lim)})}
		}
		var pre []schedSet
		if rng.Bool() {
			pre = []schedSet{{rng.Intn(3), rng.Range(1, int(lim))}}
		}
		all := interleavings(n)
		runSchedule(o, t0+int64(rng.Intn(2)), lim, pre, sets, c.Pick(rng, all), int64(rng.Intn(2)))
	}
}
