package main

// Suite "throttle": remedies.ResponseBasedThrottlingPlugin histories.

import (
	"fmt"
	"math/big"
	"sort"
	"strconv"

	"lunar/engine/actions"
	lunarMessages "lunar/engine/messages"
	"lunar/engine/services/remedies"
	sharedConfig "lunar/shared-model/config"

	c "verifharness/common"
)

const raHeader = "Retry-After"

type ThrottleConf struct {
	Type     string `json:"retry_after_type"` // relative_seconds|absolute_epoch|undefined
	Statuses []int  `json:"relevant_statuses"`
}

type TOp struct {
	Kind   string `json:"op"` // adv|req|resp|fire
	Method string `json:"method,omitempty"`
	URL    string `json:"url,omitempty"`
	Vid    int    `json:"vid,omitempty"`
	Status int    `json:"status,omitempty"`
	// response: how the retry-after header is given
	HdrKind string `json:"retry_after_kind,omitempty"`          // ok|missing|wrongcase|garbage
	RAg     int64  `json:"retry_after_grid,omitempty"`          // value in units of 1/512 s (relative: duration; absolute: epoch instant)
	RAhalf  int64  `json:"retry_after_extra_half_ns,omitempty"` // absolute epoch only: the header value is RAg/512 s + RAhalf * 0.5 ns (odd: half a ns away from the truncation of epoch - now)
	HdrVal  string `json:"retry_after_value,omitempty"`
	RAns    int64  `json:"retry_after_model_ns,omitempty"` // what the case hands to the model (see raModelNs)
	Sid     int    `json:"resp,omitempty"`
	D       int64  `json:"advance_ns,omitempty"`

	// observed
	At       int64  `json:"at_ns"`
	Early    bool   `json:"early,omitempty"`
	RVid     int    `json:"r_vid,omitempty"`
	RHdr     string `json:"r_retry_after,omitempty"`
	RHdrSet  bool   `json:"r_retry_after_present,omitempty"`
	RNs      int64  `json:"r_retry_after_ns,omitempty"`
	Unexpect bool   `json:"unexpected,omitempty"`
	Stored   bool   `json:"stored,omitempty"`           // resp: the cache holds this response afterwards
	Slp      int    `json:"sleepers_started,omitempty"` // resp: sleepers that registered with the clock
	Bad      bool   `json:"bad,omitempty"`
	Held     int    `json:"held_entries"`
}

type ThrottleCase struct {
	Conf ThrottleConf `json:"config"`
	T0   int64        `json:"t0_ns"`
	Ops  []TOp        `json:"ops"`
}

func gridSeconds(g int64) string { return strconv.FormatFloat(float64(g)/512, 'f', -1, 64) }

// decimalToNs: exact value of a decimal string in nanoseconds, rounded to nearest.
func decimalToNs(s string) (int64, bool) {
	r, ok := new(big.Rat).SetString(s)
	if !ok {
		return 0, false
	}
	r.Mul(r, big.NewRat(1000000000, 1))
	two := big.NewInt(2)
	num := new(big.Int).Mul(r.Num(), two)
	num.Add(num, r.Denom())
	den := new(big.Int).Mul(r.Denom(), two)
	q := new(big.Int).Div(num, den) // floor(x + 1/2)
	if !q.IsInt64() {
		return 0, false
	}
	return q.Int64(), true
}

// headerValue: the decimal text of the retry-after header (exact).
func headerValue(g, half int64) string {
	if half == 0 {
		return gridSeconds(g)
	}
	r := new(big.Rat).SetFrac(
		new(big.Int).Add(new(big.Int).Mul(big.NewInt(2*g), big.NewInt(G)), big.NewInt(half)),
		big.NewInt(2000000000))
	return r.FloatString(10)
}

// raModelNs: the retry-after value of a response in integer ns as the model
// takes it. Relative: the header value (on the grid). Absolute epoch: the
// header instant after the code's conversion of (epoch - now) seconds to a
// time.Duration, which truncates towards zero: now + trunc(epoch - now). On
// the grid that is the epoch itself. Off the grid the harness only uses
// instants in the past of `now` that are half a ns away from the truncation
// boundary, so that float64 rounding cannot change the result.
func raModelNs(abs bool, g, half, now int64) int64 {
	if half == 0 {
		return g * G
	}
	d2 := 2*(g*G-now) + half // (epoch - now) in half ns
	if !abs || d2 >= 0 || d2%2 == 0 {
		panic("c12 harness: off-grid retry-after only as an absolute epoch in the past, at an odd number of half ns")
	}
	return now + d2/2 // Go integer division truncates towards zero
}

// cmpDecimalSecondsNs compares the decimal number of seconds s with at (ns), exactly.
func cmpDecimalSecondsNs(s string, at int64) (int, bool) {
	r, ok := new(big.Rat).SetString(s)
	if !ok {
		return 0, false
	}
	r.Mul(r, big.NewRat(1000000000, 1))
	return r.Cmp(new(big.Rat).SetInt64(at)), true
}

func throttleHeaders(o *TOp) map[string]string {
	h := respHeaders(o.Vid)
	switch o.HdrKind {
	case "ok":
		h[raHeader] = o.HdrVal
	case "wrongcase":
		h["retry-after"] = o.HdrVal
	case "garbage":
		h[raHeader] = "soon"
	}
	return h
}

type throttleRun struct {
	w       *world
	plugin  *remedies.ResponseBasedThrottlingPlugin
	conf    sharedConfig.ResponseBasedThrottlingConfig
	k       *ThrottleCase
	sleeper map[int]int
	resps   []TOp
}

func newThrottleRun(cf ThrottleConf, t0 int64) *throttleRun {
	w := newWorld(t0)
	conf := sharedConfig.ResponseBasedThrottlingConfig{
		QuotaGroup: 1, RetryAfterHeader: raHeader, RelevantStatuses: cf.Statuses,
	}
	switch cf.Type {
	case "relative_seconds":
		conf.RetryAfterType = sharedConfig.RetryAfterRelativeSeconds
	case "absolute_epoch":
		conf.RetryAfterType = sharedConfig.RetryAfterAbsoluteEpoch
	default:
		conf.RetryAfterType = sharedConfig.RetryAfterUndefined
	}
	return &throttleRun{w: w, plugin: remedies.NewResponseBasedThrottlingPlugin(w.clk), conf: conf,
		k: &ThrottleCase{Conf: cf, T0: t0}, sleeper: map[int]int{}}
}

func (r *throttleRun) now() int64 { return r.w.clk.now }

func (r *throttleRun) do(o TOp) {
	idx := len(r.k.Ops)
	o.At = r.now()
	switch o.Kind {
	case "adv":
		r.w.clk.set(r.now() + o.D)
		o.At = r.now()
	case "req":
		act, err := r.plugin.OnRequest(lunarMessages.OnRequest{
			ID: "rq", SequenceID: "rq", Method: o.Method, Scheme: "https", URL: o.URL,
			Headers: map[string]string{},
		}, &r.conf)
		switch a := act.(type) {
		case *actions.NoOpAction:
		case *actions.EarlyResponseAction:
			o.Early = true
			o.RVid = -1
			rest := copyMap(a.Headers)
			if v, ok := rest[raHeader]; ok {
				o.RHdr, o.RHdrSet = v, true
				if ns, ok := decimalToNs(v); ok {
					o.RNs = ns
				} else {
					o.Unexpect = true
				}
				delete(rest, raHeader)
			}
			for _, p := range r.resps {
				want := throttleHeaders(&p)
				delete(want, raHeader)
				if a.Status == p.Status && a.Body == respBody(p.Vid, 20) && sameHeaders(rest, want) {
					o.RVid = p.Vid
				}
			}
		default:
			o.Unexpect = true
		}
		if err != nil {
			o.Unexpect = true
		}
	case "resp":
		if o.HdrKind == "ok" || o.HdrKind == "wrongcase" {
			o.HdrVal = headerValue(o.RAg, o.RAhalf)
			o.RAns = raModelNs(r.conf.RetryAfterType == sharedConfig.RetryAfterAbsoluteEpoch, o.RAg, o.RAhalf, o.At)
		}
		act, err := r.plugin.OnResponse(lunarMessages.OnResponse{
			ID: respID(o.Vid), SequenceID: respID(o.Vid), Method: o.Method, URL: o.URL,
			Status: o.Status, Headers: throttleHeaders(&o), Body: respBody(o.Vid, 20),
		}, &r.conf)
		if _, ok := act.(*actions.NoOpAction); !ok || err != nil {
			o.Unexpect = true
		}
		if cache := r.plugin.VerifC12Cache(); cache != nil {
			_, vals, _, _ := cache.VerifC12Snapshot()
			for _, v := range vals {
				if v.ID == respID(o.Vid) {
					o.Stored = true
				}
			}
		}
		if o.Slp = r.w.settle(o.Stored); o.Slp > 0 {
			r.sleeper[idx] = r.w.reg - 1
		}
		r.resps = append(r.resps, o)
	case "fire":
		reg, ok := r.sleeper[o.Sid]
		if !ok {
			o.Bad = true
			break
		}
		delete(r.sleeper, o.Sid)
		r.w.fire(reg)
	}
	keys, _, _, _ := r.plugin.VerifC12Cache().VerifC12Snapshot()
	o.Held = len(keys)
	r.k.Ops = append(r.k.Ops, o)
}

func (r *throttleRun) finish() { r.w.finish() }

func (r *throttleRun) pendingDue() (due []int) {
	for sid, reg := range r.sleeper {
		if r.w.due(reg) <= r.now() {
			due = append(due, sid)
		}
	}
	sort.Ints(due)
	return
}

// ---------------------------------------------------------------- Coq term

func throttleCoq(k *ThrottleCase) string {
	ty := map[string]string{"relative_seconds": "RRel", "absolute_epoch": "RAbs"}[k.Conf.Type]
	if ty == "" {
		ty = "RUndef"
	}
	conf := c.Tuple(ty, c.MapList(k.Conf.Statuses, func(s int) string { return c.Z(int64(s)) }))
	items := []string{}
	for i, o := range k.Ops {
		var op, out string
		switch o.Kind {
		case "adv":
			continue
		case "req":
			op = fmt.Sprintf("TReq %s %s %s", c.Bytes(o.Method), c.Bytes(o.URL), c.Z(o.At))
			if o.Early {
				ra := "None"
				if o.RHdrSet {
					ra = c.Some(c.Z(o.RNs))
				}
				out = fmt.Sprintf("TEarly %s %s", c.Z(int64(o.RVid)), ra)
			} else {
				out = "TNoOp"
			}
		case "resp":
			ra := "None"
			if o.HdrKind == "ok" {
				ra = c.Some(c.Z(o.RAns))
			}
			op = fmt.Sprintf("TResp %d %s %s %d %d %s %s", i, c.Bytes(o.Method), c.Bytes(o.URL), o.Status, o.Vid, ra, c.Z(o.At))
			out = "TDone"
		case "fire":
			b := k.Ops[o.Sid]
			op = fmt.Sprintf("TFire %d %s %s", o.Sid, c.Bytes(b.Method), c.Bytes(b.URL))
			out = "TDone"
		}
		if o.Unexpect || o.Bad {
			out = "TBad"
		}
		items = append(items, fmt.Sprintf("(%s, (%s, %d))", op, out, o.Held))
	}
	return c.Tuple(conf, c.List(items))
}

// ---------------------------------------------------------------- monitor

// throttleMonitor: a request is answered from memory only with a response
// handed to OnResponse earlier for the same method and URL, only until the
// provider's retry-after time has passed; a replayed relative retry-after is
// the original minus the time elapsed (1 microsecond of slack for the
// floating-point formatting).
func throttleMonitor(k *ThrottleCase) []c.Hit {
	var hits []c.Hit
	add := func(sig, dem, obs string) {
		hits = append(hits, c.Hit{Signature: sig, Demanded: dem, Observed: obs, Case: k})
	}
	const slack = 1000
	for i, o := range k.Ops {
		if o.Kind != "req" || !o.Early {
			continue
		}
		var src *TOp
		for j := 0; j < i; j++ {
			if p := &k.Ops[j]; p.Kind == "resp" && p.Vid == o.RVid {
				src = p
			}
		}
		want := fmt.Sprintf("op %d: replay for %s %s only of a response stored for the same method and URL", i, o.Method, o.URL)
		switch {
		case src == nil:
			add("phantom-hit:throttle", want, "the replayed response was never handed to OnResponse")
		case src.Method != o.Method || !sameURL(src.URL, o.URL):
			add("wrong-key-hit:throttle", want, fmt.Sprintf("replayed the response given for %s %s", src.Method, src.URL))
		case src.HdrKind != "ok" || (k.Conf.Type != "relative_seconds" && k.Conf.Type != "absolute_epoch"):
			add("no-retry-after-replayed:throttle", fmt.Sprintf("op %d: replay only until the provider's retry-after time", i),
				"the replayed response carried no usable retry-after time")
		case k.Conf.Type == "relative_seconds":
			ra := src.RAg * G
			if o.At > src.At+ra {
				add("expired-hit:throttle", fmt.Sprintf("op %d: no replay after %d (received at %d + retry-after %d ns)", i, src.At+ra, src.At, ra),
					fmt.Sprintf("replayed at %d", o.At))
				break
			}
			wantNs := ra - (o.At - src.At)
			if !o.RHdrSet || o.RNs < wantNs-slack || o.RNs > wantNs+slack {
				add("retry-after-value:throttle", fmt.Sprintf("op %d: replayed retry-after = %d ns (original %d - elapsed %d)", i, wantNs, ra, o.At-src.At),
					fmt.Sprintf("header %q present=%v", o.RHdr, o.RHdrSet))
			}
		default: // absolute epoch
			e := src.RAg*G + src.RAhalf/2
			if cmp, ok := cmpDecimalSecondsNs(src.HdrVal, o.At); !ok || cmp < 0 {
				add("expired-hit:throttle-absolute-epoch", fmt.Sprintf("op %d: no replay after the provider's instant %s s", i, src.HdrVal),
					fmt.Sprintf("replayed at %d ns (response received at %d ns)", o.At, src.At))
				break
			}
			if !o.RHdrSet || o.RNs < e-slack || o.RNs > e+slack {
				add("retry-after-value:throttle-absolute-epoch", fmt.Sprintf("op %d: replayed retry-after = the provider's instant %s", i, src.HdrVal),
					fmt.Sprintf("header %q present=%v", o.RHdr, o.RHdrSet))
			}
		}
	}
	return hits
}

func throttleRecord(o *c.Out, k *ThrottleCase) {
	hit, miss, boundary, stored, notStored, decremented := 0, 0, 0, 0, 0, 0
	exp := map[int64]bool{}
	for _, op := range k.Ops {
		switch op.Kind {
		case "resp":
			if op.Stored {
				stored++
				e := op.RAg * G
				if k.Conf.Type == "relative_seconds" {
					e += op.At
				}
				exp[e-1], exp[e], exp[e+1] = true, true, true
			} else {
				notStored++
			}
		case "req":
			if op.Early {
				hit++
				if op.RHdrSet && k.Conf.Type == "relative_seconds" {
					for _, p := range k.Ops {
						if p.Kind == "resp" && p.Vid == op.RVid && op.At > p.At {
							decremented++
						}
					}
				}
			} else {
				miss++
			}
			if exp[op.At] {
				boundary++
			}
		}
	}
	o.Count("throttle.type=" + k.Conf.Type)
	throttleLetterCaseCounts(o, k)
	o.Count(fmt.Sprintf("throttle.len=%02d", len(k.Ops)))
	o.CountN("throttle.hits", hit)
	o.CountN("throttle.misses", miss)
	o.CountN("throttle.stored", stored)
	o.CountN("throttle.not_stored", notStored)
	o.CountN("throttle.probes_at_expiry±1ns", boundary)
	o.CountN("throttle.replays_with_decremented_retry_after", decremented)
	for _, op := range k.Ops {
		if op.Kind == "resp" && op.HdrKind == "ok" && k.Conf.Type != "undefined" {
			past := op.RAg <= 0
			if k.Conf.Type == "absolute_epoch" {
				cmp, _ := cmpDecimalSecondsNs(op.HdrVal, op.At)
				past = cmp <= 0
			}
			if past {
				o.Count("throttle.responses_with_retry_after_not_in_the_future")
				if op.Stored {
					o.Count("throttle.stored_with_ttl<=0")
				}
			}
		}
	}
	nontrivial := hit > 0 && miss > 0 && boundary > 0
	idx := o.Case("throttle", throttleCoq(k), k, nontrivial)
	o.MonitorChecked(1)
	for _, h := range throttleMonitor(k) {
		h.Suite, h.Index = "throttle", idx
		o.Hit(h)
	}
}

func replayThrottle(o *c.Out, k *ThrottleCase) {
	r := newThrottleRun(k.Conf, k.T0)
	for _, op := range k.Ops {
		r.do(TOp{Kind: op.Kind, Method: op.Method, URL: op.URL, Vid: op.Vid, Status: op.Status,
			HdrKind: op.HdrKind, RAg: op.RAg, RAhalf: op.RAhalf, Sid: op.Sid, D: op.D})
	}
	r.finish()
	throttleRecord(o, r.k)
}

// ---------------------------------------------------------------- generator

func genThrottleHistory(o *c.Out, rng *c.Rng, t0 int64) {
	genThrottleHistoryURLs(o, rng, t0, []string{"a.com/x", "a.com/y"})
}

func genThrottleHistoryURLs(o *c.Out, rng *c.Rng, t0 int64, urls []string) {
	cf := ThrottleConf{Type: c.Pick(rng, []string{"relative_seconds", "relative_seconds", "absolute_epoch", "absolute_epoch", "undefined"}),
		Statuses: c.Pick(rng, [][]int{{429}, {429, 503}})}
	if cf.Type == "undefined" && rng.Chance(2, 3) {
		cf.Type = "relative_seconds"
	}
	abs := cf.Type == "absolute_epoch"
	// the first response is received at a non-zero sub-second part of the clock
	r := newThrottleRun(cf, t0+int64(rng.Range(0, 511))*G)
	methods := []string{"GET", "POST"}
	n := rng.Range(6, 18)
	vid := 100
	var deadlines []int64
	var live [][2]string
	for len(r.k.Ops) < n {
		switch x := rng.Intn(100); {
		case x < 28:
			if abs && r.now()%G != 0 {
				// absolute epoch: epoch - now is exact in float64 only on the 1/512 s grid
				r.do(TOp{Kind: "adv", D: G - r.now()%G})
			}
			vid++
			op := TOp{Kind: "resp", Method: c.Pick(rng, methods), URL: c.Pick(rng, urls), Vid: vid,
				Status:  c.Pick(rng, []int{429, 429, 429, 429, 503, 200}),
				HdrKind: c.Pick(rng, []string{"ok", "ok", "ok", "ok", "ok", "missing", "wrongcase", "garbage"})}
			if abs {
				nowG := r.now() / G
				secG := (r.now() / sec) * 512 // whole second of the clock, in grid units
				op.RAg = c.Pick(rng, []int64{secG + 512, secG + 1024, secG + 1024, secG + 1536, nowG + 2, nowG + 1, nowG, nowG - 1, secG, secG - 512,
					nowG + 512, nowG, nowG - 512, 0, 512})
				if rng.Chance(1, 16) {
					op.RAg, op.RAhalf = nowG, -3 // 1.5 ns before now: a time-to-live of -1 ns
				}
			} else {
				op.RAg = c.Pick(rng, []int64{2, 1, 512, 512, 1024, 1536, 1536, 0, -512, 768, 0, -1, 512, -512 * 1000000})
			}
			r.do(op)
			if last := r.k.Ops[len(r.k.Ops)-1]; last.Stored {
				e := last.RAg * G
				if !abs {
					e += last.At
				}
				deadlines = append(deadlines, e)
				live = append(live, [2]string{last.Method, last.URL})
			}
		case x < 65:
			q := TOp{Kind: "req", Method: c.Pick(rng, methods), URL: c.Pick(rng, urls)}
			if len(live) > 0 && rng.Chance(2, 3) {
				l := c.Pick(rng, live)
				q.Method, q.URL = l[0], l[1]
				if rng.Chance(1, 6) { // near miss
					if rng.Bool() {
						q.Method = c.Pick(rng, methods)
					} else {
						q.URL = c.Pick(rng, urls)
					}
				}
			}
			r.do(q)
		case x < 90:
			var targets []int64
			for _, e := range deadlines {
				for _, d := range []int64{-1, 0, 1} {
					if e+d >= r.now() {
						targets = append(targets, e+d-r.now())
					}
				}
			}
			d := c.Pick(rng, []int64{0, 1, G - 1, G, G / 2, sec / 4, sec})
			if len(targets) > 0 && rng.Chance(3, 5) {
				d = c.Pick(rng, targets)
			}
			r.do(TOp{Kind: "adv", D: d})
		default:
			if due := r.pendingDue(); len(due) > 0 {
				r.do(TOp{Kind: "fire", Sid: c.Pick(rng, due)})
			}
		}
	}
	r.finish()
	throttleRecord(o, r.k)
}

// genThrottleNonPositiveTTL: a throttling response whose retry-after time is
// not in the future when it is received (absolute epoch equal to now, 1 ns /
// one grid step / 1 s / 1 h in the past, epoch 0 and 1; relative 0 and
// negative values). The same request is probed at +0, +1 ns, +1 s, +1 h;
// then a second throttling response for the same method and URL, with a
// retry-after time in the future, must be able to take the place of the dead
// entry and is probed across its own expiry; the sleeper of the first fires
// never / before / after the second store. A request for another URL runs
// alongside. One positive value (+1 grid step) for contrast.
func genThrottleNonPositiveTTL(o *c.Out, t0 int64) {
	type ra struct {
		abs     bool
		g, half int64 // abs: relative to now's grid index
	}
	var ras []ra
	for _, d := range []int64{0, -1, -512, -512 * 3600, 1} {
		ras = append(ras, ra{true, d, 0}, ra{false, d, 0})
	}
	ras = append(ras, ra{true, 0, -3}, ra{false, -512 * 1000000, 0})
	for _, x := range ras {
		for _, epoch := range []int64{-1, 0, 512} { // abs only: epoch given absolutely (0 s, 1 s) instead
			if epoch >= 0 && !(x.abs && x.g == 0 && x.half == 0) {
				continue
			}
			for fireAt := 0; fireAt < 3; fireAt++ {
				for _, m := range []int64{0, 100, 511} { // sub-second part of the clock when the response arrives
					cf := ThrottleConf{Type: "relative_seconds", Statuses: []int{429}}
					if x.abs {
						cf.Type = "absolute_epoch"
					}
					r := newThrottleRun(cf, t0+m*G)
					probe := func() {
						r.do(TOp{Kind: "req", Method: "GET", URL: "a.com/x"})
						r.do(TOp{Kind: "req", Method: "GET", URL: "a.com/y"})
					}
					firePending := func(sid int) {
						if _, ok := r.sleeper[sid]; ok {
							r.do(TOp{Kind: "fire", Sid: sid})
						}
					}
					val := func(d, half int64) (int64, int64) {
						if x.abs {
							return r.now()/G + d, half
						}
						return d, 0
					}
					g, half := val(x.g, x.half)
					if epoch >= 0 {
						g, half = epoch, 0
					}
					r.do(TOp{Kind: "resp", Method: "GET", URL: "a.com/x", Vid: 101, Status: 429, HdrKind: "ok", RAg: g, RAhalf: half})
					first := len(r.k.Ops) - 1
					probe() // +0
					r.do(TOp{Kind: "adv", D: 1})
					probe() // +1 ns
					r.do(TOp{Kind: "adv", D: sec - 1})
					probe() // +1 s
					r.do(TOp{Kind: "adv", D: 3599 * sec})
					probe() // +1 h
					if fireAt == 1 {
						firePending(first)
					}
					g2, _ := val(512, 0) // one second ahead
					r.do(TOp{Kind: "resp", Method: "GET", URL: "a.com/x", Vid: 102, Status: 429, HdrKind: "ok", RAg: g2})
					second := len(r.k.Ops) - 1
					probe() // +0 of the second store
					if fireAt == 2 {
						firePending(first)
						probe()
					}
					r.do(TOp{Kind: "adv", D: sec - 1})
					probe() // 1 ns before the new retry-after time
					r.do(TOp{Kind: "adv", D: 1})
					probe() // at it
					r.do(TOp{Kind: "adv", D: 1})
					probe() // 1 ns after it
					firePending(second)
					r.do(TOp{Kind: "adv", D: G - 1})
					g3, _ := val(0, 0) // again not in the future
					r.do(TOp{Kind: "resp", Method: "GET", URL: "a.com/x", Vid: 103, Status: 429, HdrKind: "ok", RAg: g3})
					probe()
					r.finish()
					throttleRecord(o, r.k)
				}
			}
		}
	}
}
