package main

// Suite "cconc", look-ups at lock-region granularity (model ModelLook.v,
// machinery conc.go): schedules in which an entry is just past its
// time-to-live while its sleeper has not run, 1-3 look-ups of its key
// (OnRequest's Get, OnResponse's Has) are stopped between their map read and
// their clock reading, the sleeper's clearKey lands before / between / after
// them; then a FILL phase: responses of known, equal size for fresh keys until
// the cache must be full, and a SWEEP: one request per key used so far at one
// instant. What the sweep replays is what the cache can replay: the monitor
// adds it up from the outside and compares it with the configured maximum, so
// a size account that went wrong during the race (an entry released twice,
// ...) becomes a violation of "the cache never holds more than its configured
// size" even when every single answer of the race itself was right.

import (
	"fmt"
	"sort"

	c "verifharness/common"
)

const lookBody = 1000 // body length of the entries of these schedules: the size of an entry is dominated by what is replayed

func lookURL(i int) string { return fmt.Sprintf("a.com/k%d", i) }

type lookRun struct {
	r     *cconcRun
	sweep int
	keys  []int // URL indices used so far
	vid   int
}

func newLookRun(cf CachingConf, t0 int64) *lookRun {
	return &lookRun{r: newCConcRun([]CachingConf{cf}, t0), vid: 300}
}

func (l *lookRun) useKey(i int) {
	for _, k := range l.keys {
		if k == i {
			return
		}
	}
	l.keys = append(l.keys, i)
}

// store: a whole OnResponse call for key i, its pieces back to back.
func (l *lookRun) store(i int, fill bool) int {
	l.vid++
	l.useKey(i)
	l.r.do(XOp{Kind: "begin", Method: "GET", URL: lookURL(i), Vid: l.vid, Status: 200, BodyLen: lookBody, Fill: fill})
	id := len(l.r.k.Ops) - 1
	l.r.complete(id)
	return id
}

// look: a look-up of key i stopped after its map read (kind lreq / lresp).
func (l *lookRun) look(kind string, i int) int {
	l.useKey(i)
	o := XOp{Kind: kind, Method: "GET", URL: lookURL(i)}
	if kind == "lresp" {
		l.vid++
		o.Vid, o.Status, o.BodyLen = l.vid, 200, lookBody
	}
	l.r.do(o)
	return len(l.r.k.Ops) - 1
}

func (l *lookRun) eval(id int) {
	if pc := l.r.calls[id]; pc != nil && pc.atLook() {
		l.r.do(XOp{Kind: "leval", Call: id})
	}
}

func (l *lookRun) fire(storeOp int) {
	if _, ok := l.r.sleeper[storeOp]; ok {
		l.r.do(XOp{Kind: "fire", Call: storeOp})
	}
}

func (l *lookRun) adv(d int64) {
	if d != 0 {
		l.r.do(XOp{Kind: "adv", D: d})
	}
}

// doSweep: one request per key used so far, at one instant.
func (l *lookRun) doSweep() {
	l.sweep++
	for _, k := range l.keys {
		l.r.do(XOp{Kind: "req", Method: "GET", URL: lookURL(k), Sweep: l.sweep})
	}
}

// fillAndSweep: n responses for fresh keys, then a sweep.
func (l *lookRun) fillAndSweep(first, n int) {
	for i := 0; i < n; i++ {
		l.store(first+i, true)
	}
	l.doSweep()
}

func (l *lookRun) finish(o *c.Out) {
	l.r.finish()
	cconcRecord(o, l.r.k)
}

// genCConcExpiryRace: the scripted races.
//
//	readers  which look-ups of key 0 are stopped after their map read
//	late     false: the clock is 1 ns past the expiry when they read the map;
//	         true: it is AT the expiry (entry still fresh) and moves past it while they are stopped
//	fire     when the entry's own sleeper runs: 0 before the look-ups resume, 1 after the first
//	         has resumed, 2 after all have, 3 only after the first sweep
//	rev      the look-ups resume in reverse order
//	max      the configured size in entries x 2 (5 = 2.5 entries, 4 = exactly 2)
func genCConcExpiryRace(o *c.Out, t0 int64) {
	E := entryBytes("GET", lookURL(0), 301, lookBody)
	const ttlg = 4
	readerSets := [][]string{
		{"lreq", "lreq"}, {"lreq", "lreq", "lreq"}, {"lreq", "lresp"}, {"lresp", "lreq"},
		{"lresp", "lresp"}, {"lreq"}, {"lresp"}, {"lresp", "lreq", "lreq"},
	}
	type combo struct {
		late bool
		max2 int64
		rev  bool
	}
	for ri, readers := range readerSets {
		for fire := 0; fire < 4; fire++ {
			var combos []combo
			if o.Thorough() {
				for _, late := range []bool{false, true} {
					for _, max2 := range []int64{5, 4} {
						combos = append(combos, combo{late, max2, false})
						if len(readers) >= 2 {
							combos = append(combos, combo{late, max2, true})
						}
					}
				}
			} else {
				// quick: every (readers, fire) once, the other dimensions rotating
				cb := combo{late: (ri+fire)%2 == 1, max2: 5}
				if (ri+fire/2)%2 == 1 {
					cb.max2 = 4
				}
				combos = append(combos, cb)
				if len(readers) >= 2 && fire <= 1 {
					combos = append(combos, combo{!cb.late, 9 - cb.max2, true})
				}
			}
			for _, cb := range combos {
				{
					{
						late, max2, rev := cb.late, cb.max2, cb.rev
						cf := CachingConf{Paths: pathPools[4], TTLg: ttlg, MaxRec: 2 * lookBody, MaxBytes: max2 * E / 2}
						l := newLookRun(cf, t0)
						a := l.store(0, false) // entry A, expiry t0 + ttl
						l.doSweep()
						if late {
							l.adv(ttlg * G)
						} else {
							l.adv(ttlg*G + 1)
						}
						var ids []int
						for _, kind := range readers {
							ids = append(ids, l.look(kind, 0))
						}
						if late {
							l.adv(1)
						}
						if rev {
							for i, j := 0, len(ids)-1; i < j; i, j = i+1, j-1 {
								ids[i], ids[j] = ids[j], ids[i]
							}
						}
						if fire == 0 {
							l.fire(a)
						}
						for i, id := range ids {
							l.eval(id)
							if i == 0 && fire == 1 {
								l.fire(a)
							}
						}
						if fire == 1 || fire == 2 {
							l.fire(a)
						}
						// OnResponse calls among the look-ups go on to their Set
						for _, id := range ids {
							l.r.complete(id)
						}
						l.fillAndSweep(1, 4)
						if fire == 3 {
							l.fire(a)
							l.fillAndSweep(5, 2)
						}
						l.finish(o)
						o.Count("cconc.expiry_race_cases")
					}
				}
			}
		}
	}
}

// genCConcLookRandom: random schedules over 2 keys: stores, look-ups stopped
// after their map read (up to 3 at a time), resumes in random order, due
// sleepers fired at random moments, the clock aimed at the expiries; then
// fill and sweep.
func genCConcLookRandom(o *c.Out, rng *c.Rng, t0 int64) {
	E := entryBytes("GET", lookURL(0), 301, lookBody)
	for it := 0; it < o.Scale(40, 1500, 1000); it++ {
		ttlg := c.Pick(rng, []int64{2, 4})
		cf := CachingConf{Paths: pathPools[4], TTLg: ttlg, MaxRec: 2 * lookBody,
			MaxBytes: c.Pick(rng, []int64{2 * E, 2*E + E/2, 3*E - 1, 3 * E})}
		l := newLookRun(cf, t0+int64(rng.Intn(2)))
		var exps []int64 // expiries of what was stored
		var parked []int // look-ups stopped after their map read
		steps := rng.Range(8, 16)
		for s := 0; s < steps; s++ {
			switch x := rng.Intn(100); {
			case x < 20:
				l.store(rng.Intn(2), false)
				if f := l.r.k.Ops[len(l.r.k.Ops)-1]; f.Stored && len(f.Reads) >= 3 {
					exps = append(exps, f.Reads[2]+cf.ttl())
				}
			case x < 45 && len(parked) < 3:
				parked = append(parked, l.look(c.Pick(rng, []string{"lreq", "lreq", "lresp"}), rng.Intn(2)))
			case x < 65 && len(parked) > 0:
				i := rng.Intn(len(parked))
				id := parked[i]
				parked = append(parked[:i], parked[i+1:]...)
				l.eval(id)
				if rng.Chance(2, 3) {
					l.r.complete(id)
				}
			case x < 85:
				var targets []int64
				for _, e := range exps {
					for _, d := range []int64{0, 1} {
						if e+d > l.r.now() {
							targets = append(targets, e+d-l.r.now())
						}
					}
				}
				d := c.Pick(rng, []int64{1, G})
				if len(targets) > 0 {
					d = c.Pick(rng, targets)
				}
				l.adv(d)
			default:
				if due := l.r.pendingDue(); len(due) > 0 {
					l.r.do(XOp{Kind: "fire", Call: c.Pick(rng, due)})
				}
			}
		}
		for _, id := range parked {
			l.eval(id)
		}
		ids := []int{}
		for id, pc := range l.r.calls {
			if !pc.finished {
				ids = append(ids, id)
			}
		}
		sort.Ints(ids)
		for _, id := range ids {
			l.r.complete(id)
		}
		l.fillAndSweep(2, 4)
		if due := l.r.pendingDue(); len(due) > 0 {
			for _, d := range due {
				l.r.do(XOp{Kind: "fire", Call: d})
			}
			l.fillAndSweep(6, 3)
		}
		l.finish(o)
		o.Count("cconc.random_lookup_schedules")
	}
}
