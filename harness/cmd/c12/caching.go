package main

// Suite "caching": remedies.CachingPlugin OnRequest / OnResponse histories.

import (
	"fmt"
	"sort"
	"strconv"
	"strings"
	"time"

	"lunar/engine/actions"
	lunarMessages "lunar/engine/messages"
	"lunar/engine/services/remedies"
	sharedConfig "lunar/shared-model/config"

	c "verifharness/common"
)

type PPath struct {
	Type string `json:"type"`
	Path string `json:"path"`
}

type CachingConf struct {
	Paths    []PPath `json:"request_payload_paths"`
	TTLg     int64   `json:"ttl_grid"`         // ttl_seconds in units of 1/512 s
	TNs      int64   `json:"ttl_ns,omitempty"` // ttl_seconds of a few ns, off the grid (only with ttl_grid = 0)
	MaxRec   int     `json:"max_record_size_bytes"`
	MaxBytes int64   `json:"max_cache_size_bytes"` // max_cache_size_megabytes * 2^20
}

func (cf *CachingConf) ttl() int64 { return cf.TTLg*G + cf.TNs }

type POp struct {
	Kind    string            `json:"op"` // adv|req|resp|fire
	Method  string            `json:"method,omitempty"`
	URL     string            `json:"url,omitempty"`
	Params  map[string]string `json:"path_params,omitempty"`
	Vid     int               `json:"vid,omitempty"`
	Status  int               `json:"status,omitempty"`
	BodyLen int               `json:"body_len,omitempty"`
	Sid     int               `json:"resp,omitempty"` // fire: index of the response op whose sleeper fires
	D       int64             `json:"advance_ns,omitempty"`

	// observed
	At        int64 `json:"at_ns"`
	Early     bool  `json:"early,omitempty"`
	RVid      int   `json:"r_vid,omitempty"` // which response was replayed (-1: none of those given)
	Unexpect  bool  `json:"unexpected,omitempty"`
	Stored    bool  `json:"stored,omitempty"`           // resp: the cache holds this response afterwards
	Slp       int   `json:"sleepers_started,omitempty"` // resp: sleepers that registered with the clock
	Bad       bool  `json:"bad,omitempty"`
	Held      int   `json:"held_entries"`
	HeldBytes int64 `json:"held_content_bytes"`
}

type CachingCase struct {
	Conf CachingConf `json:"config"`
	T0   int64       `json:"t0_ns"`
	Ops  []POp       `json:"ops"`
}

func respID(vid int) string { return "id-" + strconv.Itoa(vid) }
func respBody(vid, n int) string {
	s := "b" + strconv.Itoa(vid) + "|"
	if len(s) >= n {
		return s[:n]
	}
	return s + strings.Repeat("x", n-len(s))
}
func respHeaders(vid int) map[string]string {
	return map[string]string{"x-vid": strconv.Itoa(vid), "content-type": "t"}
}
func hdrLen(h map[string]string) int {
	n := 0
	for k, v := range h {
		n += len(k) + len(v)
	}
	return n
}
func sameHeaders(a, b map[string]string) bool {
	if len(a) != len(b) {
		return false
	}
	for k, v := range a {
		if w, ok := b[k]; !ok || w != v {
			return false
		}
	}
	return true
}

type cachingRun struct {
	w       *world
	plugin  *remedies.CachingPlugin
	conf    sharedConfig.CachingConfig
	k       *CachingCase
	sleeper map[int]int
	resps   []POp // responses handed to OnResponse so far
}

func newCachingRun(cf CachingConf, t0 int64) *cachingRun {
	w := newWorld(t0)
	conf := sharedConfig.CachingConfig{
		TTLSeconds:            float32(ttlSeconds(cf.TTLg, cf.TNs)),
		MaxRecordSizeBytes:    cf.MaxRec,
		MaxCacheSizeMegabytes: float32(float64(cf.MaxBytes) / 1048576),
	}
	for _, p := range cf.Paths {
		conf.RequestPayloadPaths = append(conf.RequestPayloadPaths,
			sharedConfig.PayloadPath{PayloadType: p.Type, Path: p.Path})
	}
	if (cf.TNs == 0 && float64(conf.TTLSeconds)*512 != float64(cf.TTLg)) || float64(conf.MaxCacheSizeMegabytes)*1048576 != float64(cf.MaxBytes) {
		panic("c12 harness: configuration value not exact in float32")
	}
	if cf.TNs != 0 && int64(time.Duration(float64(time.Second)*float64(conf.TTLSeconds))) != cf.TNs {
		panic("c12 harness: off-grid ttl not robust in float32")
	}
	return &cachingRun{w: w, plugin: remedies.NewCachingPlugin(w.clk), conf: conf,
		k: &CachingCase{Conf: cf, T0: t0}, sleeper: map[int]int{}}
}

func (r *cachingRun) now() int64 { return r.w.clk.now }

func copyMap(m map[string]string) map[string]string {
	out := map[string]string{}
	for k, v := range m {
		out[k] = v
	}
	return out
}

func (r *cachingRun) do(o POp) {
	idx := len(r.k.Ops)
	o.At = r.now()
	switch o.Kind {
	case "adv":
		r.w.clk.set(r.now() + o.D)
		o.At = r.now()
	case "req":
		act, err := r.plugin.OnRequest(lunarMessages.OnRequest{
			ID: "rq", SequenceID: "rq", Method: o.Method, Scheme: "https", URL: o.URL,
			Headers: map[string]string{},
		}, &r.conf, copyMap(o.Params))
		switch a := act.(type) {
		case *actions.NoOpAction:
		case *actions.EarlyResponseAction:
			o.Early = true
			o.RVid = -1
			for _, p := range r.resps {
				if a.Status == p.Status && a.Body == respBody(p.Vid, p.BodyLen) && sameHeaders(a.Headers, respHeaders(p.Vid)) {
					o.RVid = p.Vid
				}
			}
		default:
			o.Unexpect = true
		}
		if err != nil {
			o.Unexpect = true
		}
	case "resp":
		act, err := r.plugin.OnResponse(lunarMessages.OnResponse{
			ID: respID(o.Vid), SequenceID: respID(o.Vid), Method: o.Method, URL: o.URL,
			Status: o.Status, Headers: respHeaders(o.Vid), Body: respBody(o.Vid, o.BodyLen),
		}, &r.conf, copyMap(o.Params))
		if _, ok := act.(*actions.NoOpAction); !ok || err != nil {
			o.Unexpect = true
		}
		if cache := r.plugin.VerifC12Cache(); cache != nil {
			_, vals, _, _ := cache.VerifC12Snapshot()
			for _, v := range vals {
				if v.ID == respID(o.Vid) {
					o.Stored = true
				}
			}
		}
		if o.Slp = r.w.settle(o.Stored); o.Slp > 0 {
			r.sleeper[idx] = r.w.reg - 1
		}
		r.resps = append(r.resps, o)
	case "fire":
		reg, ok := r.sleeper[o.Sid]
		if !ok {
			o.Bad = true
			break
		}
		delete(r.sleeper, o.Sid)
		r.w.fire(reg)
	}
	keys, vals, _, _ := r.plugin.VerifC12Cache().VerifC12Snapshot()
	o.Held = len(keys)
	for i, key := range keys {
		o.HeldBytes += int64(len(key.Method) + len(key.URL) + len(vals[i].ID) + len(vals[i].Body) + hdrLen(vals[i].Headers))
	}
	r.k.Ops = append(r.k.Ops, o)
}

func (r *cachingRun) finish() { r.w.finish() }

func (r *cachingRun) pendingDue() (due []int) {
	for sid, reg := range r.sleeper {
		if r.w.due(reg) <= r.now() {
			due = append(due, sid)
		}
	}
	sort.Ints(due)
	return
}

// ---------------------------------------------------------------- Coq term

func paramsCoq(m map[string]string) string {
	names := make([]string, 0, len(m))
	for n := range m {
		names = append(names, n)
	}
	sort.Strings(names)
	return c.MapList(names, func(n string) string { return c.Tuple(c.Bytes(n), c.Bytes(m[n])) })
}

func cachingCoq(k *CachingCase) string {
	conf := c.Tuple(
		c.MapList(k.Conf.Paths, func(p PPath) string {
			return c.Tuple(c.B(p.Type == sharedConfig.RequestPathParamPayload), c.Bytes(p.Path))
		}),
		c.Z(k.Conf.ttl()), c.Z(int64(k.Conf.MaxRec)), c.Z(k.Conf.MaxBytes))
	items := []string{}
	for i, o := range k.Ops {
		var op, out string
		switch o.Kind {
		case "adv":
			continue
		case "req":
			op = fmt.Sprintf("CReq %s %s %s %s", c.Bytes(o.Method), c.Bytes(o.URL), paramsCoq(o.Params), c.Z(o.At))
			if o.Early {
				out = "CEarly " + c.Z(int64(o.RVid))
			} else {
				out = "CNoOp"
			}
		case "resp":
			op = fmt.Sprintf("CResp %d %s %s %s {| r_vid := %d; r_idlen := %d%%N; r_bodylen := %d%%N; r_hdrlen := %d%%N |} %s",
				i, c.Bytes(o.Method), c.Bytes(o.URL), paramsCoq(o.Params),
				o.Vid, len(respID(o.Vid)), o.BodyLen, hdrLen(respHeaders(o.Vid)), c.Z(o.At))
			out = "CDone"
		case "fire":
			b := k.Ops[o.Sid]
			op = fmt.Sprintf("CFire %d %s %s %s", o.Sid, c.Bytes(b.Method), c.Bytes(b.URL), paramsCoq(b.Params))
			out = "CDone"
		}
		if o.Unexpect || o.Bad {
			out = "CBad"
		}
		items = append(items, fmt.Sprintf("(%s, (%s, %d))", op, out, o.Held))
	}
	return c.Tuple(conf, c.List(items))
}

// ---------------------------------------------------------------- monitor

// selectedValuation: the path parameters the configuration selects for the
// key: entries of type path_params with a non-empty value, in order.
func selectedValuation(cf *CachingConf, params map[string]string) string {
	var sb strings.Builder
	for _, p := range cf.Paths {
		if p.Type == sharedConfig.RequestPathParamPayload && params[p.Path] != "" {
			fmt.Fprintf(&sb, "%q=%q;", p.Path, params[p.Path])
		}
	}
	return sb.String()
}

// cachingMonitor: a request is answered from memory only with a response that
// was handed to OnResponse earlier for the same method, URL and selected
// path-parameter values, and only until its time-to-live has passed; the
// content held never exceeds the configured size.
func cachingMonitor(k *CachingCase) []c.Hit {
	var hits []c.Hit
	add := func(sig, dem, obs string) {
		hits = append(hits, c.Hit{Signature: sig, Demanded: dem, Observed: obs, Case: k})
	}
	ttl := k.Conf.ttl()
	sizeReported := false
	for i, o := range k.Ops {
		if o.Kind == "req" && o.Early {
			var src *POp
			for j := 0; j < i; j++ {
				if p := &k.Ops[j]; p.Kind == "resp" && p.Vid == o.RVid {
					src = p
				}
			}
			want := fmt.Sprintf("op %d: replay for %s %s %s only of a response stored for the same key", i, o.Method, o.URL, selectedValuation(&k.Conf, o.Params))
			switch {
			case src == nil:
				add("phantom-hit:caching", want, "the replayed response was never handed to OnResponse")
			case src.Method != o.Method || !sameURL(src.URL, o.URL) ||
				selectedValuation(&k.Conf, src.Params) != selectedValuation(&k.Conf, o.Params):
				// F-C12d: strings.Join of name:value pairs is ambiguous when a selected
				// name contains '.' or ':' or a selected value contains '.'
				sig := "wrong-key-hit:caching"
				if src.Method == o.Method && src.URL == o.URL &&
					(!cleanSelected(&k.Conf, src.Params) || !cleanSelected(&k.Conf, o.Params)) {
					sig = "wrong-key-hit:caching-join-ambiguous"
				}
				add(sig, want, fmt.Sprintf("replayed the response of op for %s %s %s",
					src.Method, src.URL, selectedValuation(&k.Conf, src.Params)))
			case o.At > src.At+ttl:
				add("expired-hit:caching", fmt.Sprintf("op %d: no replay after %d (stored at %d + ttl %d)", i, src.At+ttl, src.At, ttl),
					fmt.Sprintf("replayed at %d", o.At))
			}
		}
		if !sizeReported && o.HeldBytes > k.Conf.MaxBytes {
			sizeReported = true
			add("size-bound:sequential", fmt.Sprintf("content held never exceeds %d bytes", k.Conf.MaxBytes),
				fmt.Sprintf("after op %d the cache holds %d bytes of keys, bodies and headers", i, o.HeldBytes))
		}
	}
	return hits
}

func cachingRecord(o *c.Out, k *CachingCase) {
	hit, miss, boundary, stored, notStored := 0, 0, 0, 0, 0
	exp := map[int64]bool{}
	keysHit := map[string]bool{}
	for _, op := range k.Ops {
		switch op.Kind {
		case "resp":
			if op.Stored {
				stored++
				e := op.At + k.Conf.ttl()
				exp[e-1], exp[e], exp[e+1] = true, true, true
			} else {
				notStored++
			}
		case "req":
			if op.Early {
				hit++
				keysHit[op.Method+" "+op.URL+" "+selectedValuation(&k.Conf, op.Params)] = true
			} else {
				miss++
			}
			if exp[op.At] {
				boundary++
			}
		}
	}
	unclean := 0
	for _, op := range k.Ops {
		if (op.Kind == "req" || op.Kind == "resp") && !cleanSelected(&k.Conf, op.Params) {
			unclean++ // outside the side condition of C12_caching_same_selected_values_holds_outside_join_ambiguity
		}
	}
	o.CountN("caching.calls_with_unclean_selected_pairs(F-C12d)", unclean)
	cachingLetterCaseCounts(o, k)
	o.Count(fmt.Sprintf("caching.len=%02d", len(k.Ops)))
	o.CountN("caching.hits", hit)
	o.CountN("caching.misses", miss)
	o.CountN("caching.stored", stored)
	o.CountN("caching.not_stored", notStored)
	o.CountN("caching.probes_at_expiry±1ns", boundary)
	if k.Conf.ttl() <= 0 {
		o.Count("caching.histories_with_ttl<=0")
		o.CountN("caching.stored_with_ttl<=0", stored)
	}
	nontrivial := hit > 0 && miss > 0 && (boundary > 0 || notStored > 0)
	idx := o.Case("caching", cachingCoq(k), k, nontrivial)
	o.MonitorChecked(1)
	for _, h := range cachingMonitor(k) {
		h.Suite, h.Index = "caching", idx
		o.Hit(h)
	}
}

func replayCaching(o *c.Out, k *CachingCase) {
	r := newCachingRun(k.Conf, k.T0)
	for _, op := range k.Ops {
		r.do(POp{Kind: op.Kind, Method: op.Method, URL: op.URL, Params: op.Params, Vid: op.Vid,
			Status: op.Status, BodyLen: op.BodyLen, Sid: op.Sid, D: op.D})
	}
	r.finish()
	cachingRecord(o, r.k)
}

// ---------------------------------------------------------------- generator

const ppType = sharedConfig.RequestPathParamPayload

var pathPools = [][]PPath{
	{{ppType, "id"}},
	{{ppType, "id"}, {ppType, "org"}},
	{{sharedConfig.ResponseHeadersPayload, "id"}, {ppType, "org"}},
	{{ppType, "org"}, {"", "zz"}, {ppType, "id"}},
	{},
}

// entryBytes is used only to aim the generator at the size limit.
func entryBytes(method, url string, vid, bodyLen int) int64 {
	return int64(len(method) + len(url) + 64 + len(respID(vid)) + bodyLen + hdrLen(respHeaders(vid)) + 12)
}

func genCachingHistory(o *c.Out, rng *c.Rng, t0 int64) {
	genCachingHistoryURLs(o, rng, t0, []string{"a.com/x", "a.com/y", "a.com/x/"})
}

// genCachingHistoryURLs: a random history over 2 methods x the given URLs x
// path-parameter valuations (the URL pool is a parameter: lettercase.go uses
// families of URLs that differ only in letter case).
func genCachingHistoryURLs(o *c.Out, rng *c.Rng, t0 int64, urls []string) {
	cf := CachingConf{Paths: c.Pick(rng, pathPools), TTLg: c.Pick(rng, []int64{1, 2, 2, 512, 1536, 2, 512, 0, -1, -512}),
		MaxRec: c.Pick(rng, []int{40, 40, 1000})}
	if rng.Chance(1, 20) {
		cf.TTLg, cf.TNs = 0, c.Pick(rng, []int64{-1, 1})
	}
	bodyLens := []int{8, 30, 39, 40, 41}
	methods := []string{"GET", "POST"}
	idVals := []string{"", "1", "2", "12"}
	orgVals := []string{"", "7", "1"}
	// size limit around two or three typical entries
	typ := entryBytes("GET", "a.com/x", 101, 30)
	cf.MaxBytes = c.Pick(rng, []int64{2 * typ, 2*typ - 1, 2*typ + 1, 3 * typ, typ, 1 << 20})
	r := newCachingRun(cf, t0+int64(rng.Intn(3))*G+int64(rng.Intn(2)))
	n := rng.Range(6, 18)
	vid := 100
	mkParams := func() map[string]string {
		m := map[string]string{}
		if v := c.Pick(rng, idVals); v != "" || rng.Bool() {
			m["id"] = v
		}
		if v := c.Pick(rng, orgVals); v != "" || rng.Bool() {
			m["org"] = v
		}
		if rng.Chance(1, 3) {
			m["zz"] = c.Pick(rng, []string{"p", "q"})
		}
		return m
	}
	type req struct {
		m, u string
		p    map[string]string
	}
	var seen []req
	pickReq := func() req {
		if len(seen) > 0 && rng.Chance(3, 5) {
			q := c.Pick(rng, seen)
			if rng.Chance(1, 4) { // a near miss: change exactly one component
				switch rng.Intn(3) {
				case 0:
					q.m = c.Pick(rng, methods)
				case 1:
					q.u = c.Pick(rng, urls)
				default:
					q.p = mkParams()
				}
			}
			return q
		}
		return req{c.Pick(rng, methods), c.Pick(rng, urls), mkParams()}
	}
	var stores []int64
	for len(r.k.Ops) < n {
		switch x := rng.Intn(100); {
		case x < 30:
			vid++
			q := pickReq()
			seen = append(seen, q)
			r.do(POp{Kind: "resp", Method: q.m, URL: q.u, Params: q.p, Vid: vid,
				Status: c.Pick(rng, []int{200, 200, 404}), BodyLen: c.Pick(rng, bodyLens)})
			if r.k.Ops[len(r.k.Ops)-1].Stored {
				stores = append(stores, r.now()+cf.ttl())
			}
		case x < 65:
			q := pickReq()
			r.do(POp{Kind: "req", Method: q.m, URL: q.u, Params: q.p})
		case x < 88:
			var targets []int64
			for _, e := range stores {
				for _, d := range []int64{-1, 0, 1} {
					if e+d >= r.now() {
						targets = append(targets, e+d-r.now())
					}
				}
			}
			d := c.Pick(rng, []int64{0, 1, G - 1, G, sec})
			if len(targets) > 0 && rng.Chance(4, 5) {
				d = c.Pick(rng, targets)
			}
			r.do(POp{Kind: "adv", D: d})
		default:
			if due := r.pendingDue(); len(due) > 0 {
				r.do(POp{Kind: "fire", Sid: c.Pick(rng, due)})
			}
		}
	}
	r.finish()
	cachingRecord(o, r.k)
}

// genCachingNonPositiveTTL: ttl_seconds zero or negative (the configuration
// model does not validate the field: 0 is also what an omitted ttl_seconds
// yields). A response is stored, the same request is probed at +0, +1 ns,
// +1 s, +1 h; then a second response for the same key must be able to take
// the place of the dead entry; the sleeper of the first fires never / before
// / after the second store. A request differing in the selected path
// parameter runs alongside.
func genCachingNonPositiveTTL(o *c.Out, t0 int64) {
	type ttl struct{ g, ns int64 }
	typ := entryBytes("GET", "a.com/x", 101, 30)
	for _, tl := range []ttl{{0, 0}, {0, -1}, {0, 1}, {-1, 0}, {-512, 0}, {-512 * 3600, 0}, {-512 * 2000000, 0}} {
		for fireAt := 0; fireAt < 3; fireAt++ {
			for _, maxBytes := range []int64{1 << 20, 2 * typ} {
				for _, off := range []int64{0, 1} { // clock on / off the grid
					cf := CachingConf{Paths: pathPools[0], TTLg: tl.g, TNs: tl.ns, MaxRec: 40, MaxBytes: maxBytes}
					r := newCachingRun(cf, t0+off)
					p1 := map[string]string{"id": "1"}
					p2 := map[string]string{"id": "2"}
					probe := func() {
						r.do(POp{Kind: "req", Method: "GET", URL: "a.com/x", Params: p1})
						r.do(POp{Kind: "req", Method: "GET", URL: "a.com/x", Params: p2})
					}
					firePending := func(sid int) {
						if _, ok := r.sleeper[sid]; ok {
							r.do(POp{Kind: "fire", Sid: sid})
						}
					}
					r.do(POp{Kind: "resp", Method: "GET", URL: "a.com/x", Params: p1, Vid: 101, Status: 200, BodyLen: 30})
					first := len(r.k.Ops) - 1
					probe() // +0
					r.do(POp{Kind: "adv", D: 1})
					probe() // +1 ns
					r.do(POp{Kind: "adv", D: sec - 1})
					probe() // +1 s
					r.do(POp{Kind: "adv", D: 3599 * sec})
					probe() // +1 h
					if fireAt == 1 {
						firePending(first)
					}
					r.do(POp{Kind: "resp", Method: "GET", URL: "a.com/x", Params: p1, Vid: 102, Status: 200, BodyLen: 30})
					second := len(r.k.Ops) - 1
					probe() // +0 of the second store
					if fireAt == 2 {
						firePending(first)
						probe()
					}
					r.do(POp{Kind: "resp", Method: "GET", URL: "a.com/x", Params: p2, Vid: 103, Status: 200, BodyLen: 30})
					probe()
					r.do(POp{Kind: "adv", D: 1})
					probe()
					firePending(second)
					r.do(POp{Kind: "resp", Method: "GET", URL: "a.com/x", Params: p1, Vid: 104, Status: 404, BodyLen: 8})
					probe()
					r.finish()
					cachingRecord(o, r.k)
				}
			}
		}
	}
}
