package main

// Suites "cconc" and "tconc": the two plugins under CONCURRENT calls.
//
// A plugin call runs on its own goroutine and is stopped inside every
// clock.Now() it makes (fclock.arm): the harness decides what each reading
// returns and what other callers do between the call's pieces
//
//	CachingPlugin.OnResponse:  Has | CreationTime | WithMaxCacheSize | Set (reading | locked section)
//	Throttling OnResponse:     Has | CreationTime | [epoch: reading for the ttl] | Set (reading | locked section)
//	Throttling OnRequest:      Get (map read, reading) | [reading for the elapsed time / remaining time]
//
// so that every interleaving of the calls' shared-state accesses, with the
// clock moving between a call's readings, is executed on real goroutines.
// "begin" runs a call through its Has (OnResponse) / its Get (OnRequest);
// "step" lets it continue to its next clock reading or its end.
//
// Look-ups at lock-region granularity (suite cconc, model ModelLook.v): a
// look-up of the cache is a map read under the read lock followed by a clock
// reading and the expiry test with no lock held. "lreq" (OnRequest) and
// "lresp" (OnResponse) start a call and stop it INSIDE that clock reading,
// i.e. after its map read; "leval" lets it go on: the reading it gets is the
// clock at that moment (parkPoint.late), so the harness can move the clock,
// fire the entry's sleeper, store again ... between the two halves of 2-3
// look-ups of one key.

import (
	"fmt"
	"sort"
	"time"

	"lunar/engine/actions"
	lunarMessages "lunar/engine/messages"
	"lunar/engine/services/remedies"
	sharedConfig "lunar/shared-model/config"

	c "verifharness/common"
)

// ---------------------------------------------------------------- calls in flight

type pcall struct {
	p        *parkPoint
	done     chan struct{}
	reads    []int64 // values of the clock readings taken so far
	finished bool
	unexpect bool
	blocked  bool // neither reached a clock reading nor returned within callBound (treated as over)
	isReq    bool // an OnRequest call (cconc: lreq)
	// OnRequest result (read after done)
	act actions.ReqLunarAction
	err error
}

// atLook: the call is stopped between the map read and the clock reading of a look-up.
func (pc *pcall) atLook() bool { return !pc.finished && pc.p != nil && pc.p.late }

// callBound: how long the harness waits for a call to reach its next clock
// reading or its end. Never reached at HEAD (a call never blocks: nothing
// holds a lock while stopped); an implementation that holds a lock across a
// clock reading makes other calls block - the harness then records the call
// as blocked (ill-formed step for the model) and goes on.
var callBound = 2 * time.Second

func (f *fclock) disarm() {
	f.mu.Lock()
	f.armed = nil
	f.mu.Unlock()
}

// wait blocks until the call is stopped in its next clock reading or has ended.
func (w *world) waitCall(pc *pcall) {
	timer := time.NewTimer(callBound)
	defer timer.Stop()
	select {
	case <-pc.p.parked:
		pc.reads = append(pc.reads, w.clk.now)
	case <-pc.done:
		w.clk.disarm()
		pc.finished = true
		pc.p = nil
	case <-timer.C:
		w.clk.disarm()
		pc.finished, pc.blocked, pc.unexpect = true, true, true
		pc.p = nil
		callBound = 50 * time.Millisecond
		syncStats["sync.calls_blocked"]++
	}
}

// bounded runs fn (a read of the state of the code under test that takes its
// lock) on a goroutine of the harness and gives up after callBound: with
// calls stopped inside the code under test the harness must not depend on
// that lock being free. The goroutine stays until the end of the case.
func (w *world) bounded(fn func()) bool {
	done := make(chan struct{})
	release := w.helper()
	go func() { fn(); close(done); <-release }()
	timer := time.NewTimer(callBound)
	defer timer.Stop()
	select {
	case <-done:
		return true
	case <-timer.C:
		callBound = 50 * time.Millisecond
		syncStats["sync.snapshots_blocked"]++
		return false
	}
}

func (w *world) startCall(fn func(pc *pcall)) *pcall { return w.startCallAt(fn, false) }

// startCallAt: late = the first clock reading of the call is a late one (see parkPoint.late).
func (w *world) startCallAt(fn func(pc *pcall), late bool) *pcall {
	pc := &pcall{done: make(chan struct{})}
	release := w.helper()
	pc.p = w.clk.armWith(late)
	go func() { fn(pc); close(pc.done); <-release }()
	w.waitCall(pc)
	return pc
}

func (w *world) stepCall(pc *pcall) {
	old := pc.p
	if old.late && len(pc.reads) > 0 {
		pc.reads[len(pc.reads)-1] = w.clk.now // the reading it is about to get
	}
	pc.p = w.clk.arm()
	close(old.resume)
	w.waitCall(pc)
}

// ================================================================ cconc

type XOp struct {
	Kind    string            `json:"op"` // adv|req|begin|step|fire|lreq|lresp|leval
	Conf    int               `json:"conf"`
	Method  string            `json:"method,omitempty"`
	URL     string            `json:"url,omitempty"`
	Params  map[string]string `json:"path_params,omitempty"`
	Vid     int               `json:"vid,omitempty"`
	Status  int               `json:"status,omitempty"`
	BodyLen int               `json:"body_len,omitempty"`
	Call    int               `json:"call,omitempty"` // step/fire/leval: index of the begin / lreq / lresp op
	D       int64             `json:"advance_ns,omitempty"`
	Sweep   int               `json:"sweep,omitempty"` // req: part of sweep #n (consecutive requests at one instant, one per key used so far)
	Fill    bool              `json:"fill,omitempty"`  // begin: a response of the fill phase

	// observed
	At        int64   `json:"at_ns"`
	Early     bool    `json:"early,omitempty"`
	RVid      int     `json:"r_vid,omitempty"`
	RBytes    int64   `json:"replayed_content_bytes,omitempty"` // bytes of the body and headers of the early response
	Unexpect  bool    `json:"unexpected,omitempty"`
	Reads     []int64 `json:"clock_readings_ns,omitempty"` // begin/step/l*: readings the call has taken so far
	Finished  bool    `json:"finished,omitempty"`          // begin/step/l*: the call has returned
	Blocked   bool    `json:"blocked,omitempty"`           // the call neither read the clock nor returned (given up on)
	Stored    bool    `json:"stored,omitempty"`
	Slp       int     `json:"sleepers_started,omitempty"`
	Bad       bool    `json:"bad,omitempty"`
	Held      int     `json:"held_entries"`
	HeldBytes int64   `json:"held_content_bytes"`
	InFlight  int     `json:"calls_in_flight"`
	Looks     int     `json:"lookups_in_flight,omitempty"` // calls stopped between map read and clock reading
}

type CConcCase struct {
	Confs []CachingConf `json:"configs"`
	T0    int64         `json:"t0_ns"`
	Ops   []XOp         `json:"ops"`
}

type cconcRun struct {
	w       *world
	plugin  *remedies.CachingPlugin
	confs   []sharedConfig.CachingConfig
	k       *CConcCase
	calls   map[int]*pcall
	sleeper map[int]int
	resps   []XOp
}

func newCConcRun(cfs []CachingConf, t0 int64) *cconcRun {
	w := newWorld(t0)
	r := &cconcRun{w: w, plugin: remedies.NewCachingPlugin(w.clk), k: &CConcCase{Confs: cfs, T0: t0},
		calls: map[int]*pcall{}, sleeper: map[int]int{}}
	for _, cf := range cfs {
		tmp := newCachingRun(cf, t0) // conversion + exactness checks of the configuration values
		r.confs = append(r.confs, tmp.conf)
		tmp.finish()
	}
	return r
}

func (r *cconcRun) now() int64 { return r.w.clk.now }

// inFlight: OnResponse calls between their Has and their end.
func (r *cconcRun) inFlight() int {
	n := 0
	for _, pc := range r.calls {
		if !pc.finished && !pc.isReq && !pc.atLook() {
			n++
		}
	}
	return n
}

// looks: calls stopped between the map read and the clock reading of a look-up.
func (r *cconcRun) looks() int {
	n := 0
	for _, pc := range r.calls {
		if pc.atLook() {
			n++
		}
	}
	return n
}

// reqResult records what an OnRequest call answered.
func (r *cconcRun) reqResult(o *XOp, act actions.ReqLunarAction, err error) {
	switch a := act.(type) {
	case *actions.NoOpAction:
	case *actions.EarlyResponseAction:
		o.Early = true
		o.RVid = -1
		o.RBytes = int64(len(a.Body) + hdrLen(a.Headers))
		for _, p := range r.resps {
			if a.Status == p.Status && a.Body == respBody(p.Vid, p.BodyLen) && sameHeaders(a.Headers, respHeaders(p.Vid)) {
				o.RVid = p.Vid
			}
		}
	default:
		o.Unexpect = true
	}
	if err != nil {
		o.Unexpect = true
	}
}

func (r *cconcRun) request(o *XOp) lunarMessages.OnRequest {
	return lunarMessages.OnRequest{
		ID: "rq", SequenceID: "rq", Method: o.Method, Scheme: "https", URL: o.URL,
		Headers: map[string]string{},
	}
}

func (r *cconcRun) response(o *XOp) lunarMessages.OnResponse {
	return lunarMessages.OnResponse{
		ID: respID(o.Vid), SequenceID: respID(o.Vid), Method: o.Method, URL: o.URL,
		Status: o.Status, Headers: respHeaders(o.Vid), Body: respBody(o.Vid, o.BodyLen),
	}
}

func (r *cconcRun) afterFinish(o *XOp, begin int) {
	b := r.k.Ops
	vid := o.Vid
	if begin < len(b) {
		vid = b[begin].Vid
	}
	if cache := r.plugin.VerifC12Cache(); cache != nil {
		var vals []remedies.CachedResponse
		r.w.bounded(func() { _, vals, _, _ = cache.VerifC12Snapshot() })
		for _, v := range vals {
			if v.ID == respID(vid) {
				o.Stored = true
			}
		}
	}
	if o.Slp = r.w.settle(o.Stored); o.Slp > 0 {
		r.sleeper[begin] = r.w.reg - 1
	}
}

func (r *cconcRun) do(o XOp) {
	idx := len(r.k.Ops)
	o.At = r.now()
	switch o.Kind {
	case "adv":
		r.w.clk.set(r.now() + o.D)
		o.At = r.now()
	case "req":
		var act actions.ReqLunarAction
		var err error
		msg, conf, params := r.request(&o), &r.confs[o.Conf], copyMap(o.Params)
		if r.w.bounded(func() { act, err = r.plugin.OnRequest(msg, conf, params) }) {
			r.reqResult(&o, act, err)
		} else { // blocked on a lock that a stopped call holds
			o.Blocked, o.Unexpect = true, true
		}
	case "begin", "lresp":
		conf := &r.confs[o.Conf]
		msg := r.response(&o)
		params := copyMap(o.Params)
		// lresp: stopped inside the clock reading of Has (after its map read) and left there
		pc := r.w.startCallAt(func(pc *pcall) {
			act, err := r.plugin.OnResponse(msg, conf, params)
			if _, ok := act.(*actions.NoOpAction); !ok || err != nil {
				pc.unexpect = true
			}
		}, o.Kind == "lresp")
		if o.Kind == "begin" && !pc.finished { // stopped in the clock reading of Has: the map read is done; go on to the next reading
			r.w.stepCall(pc)
		}
		r.calls[idx] = pc
		r.resps = append(r.resps, o)
		o.Reads, o.Finished, o.Blocked = append([]int64{}, pc.reads...), pc.finished, pc.blocked
		if pc.finished {
			o.Unexpect = pc.unexpect
			r.afterFinish(&o, idx)
		}
	case "lreq":
		conf := &r.confs[o.Conf]
		msg := r.request(&o)
		params := copyMap(o.Params)
		pc := r.w.startCallAt(func(pc *pcall) {
			pc.act, pc.err = r.plugin.OnRequest(msg, conf, params)
		}, true)
		pc.isReq = true
		r.calls[idx] = pc
		o.Reads, o.Finished, o.Blocked = append([]int64{}, pc.reads...), pc.finished, pc.blocked
		if pc.finished {
			if !pc.blocked {
				r.reqResult(&o, pc.act, pc.err)
			}
			o.Unexpect = o.Unexpect || pc.unexpect
			r.w.quiesce()
		}
	case "leval":
		pc, ok := r.calls[o.Call]
		if !ok || !pc.atLook() {
			o.Bad = true
			break
		}
		r.w.stepCall(pc)
		o.Reads, o.Finished, o.Blocked = append([]int64{}, pc.reads...), pc.finished, pc.blocked
		switch {
		case pc.isReq && pc.finished:
			if !pc.blocked {
				r.reqResult(&o, pc.act, pc.err)
			}
			o.Unexpect = o.Unexpect || pc.unexpect
			r.w.quiesce()
		case pc.finished:
			o.Unexpect = pc.unexpect
			r.afterFinish(&o, o.Call)
		}
	case "step":
		pc, ok := r.calls[o.Call]
		if !ok || pc.finished || pc.atLook() {
			o.Bad = true
			break
		}
		r.w.stepCall(pc)
		o.Reads, o.Finished, o.Blocked = append([]int64{}, pc.reads...), pc.finished, pc.blocked
		switch {
		case pc.isReq && pc.finished: // an OnRequest call that read the clock more than once
			if !pc.blocked {
				r.reqResult(&o, pc.act, pc.err)
			}
			o.Unexpect = true
			r.w.quiesce()
		case pc.finished:
			o.Unexpect = pc.unexpect
			r.afterFinish(&o, o.Call)
		}
	case "fire":
		reg, ok := r.sleeper[o.Call]
		if !ok {
			o.Bad = true
			break
		}
		delete(r.sleeper, o.Call)
		r.w.fire(reg)
	default:
		panic("unknown op " + o.Kind)
	}
	var keys []remedies.CachingPluginKey
	var vals []remedies.CachedResponse
	if !r.w.bounded(func() { keys, vals, _, _ = r.plugin.VerifC12Cache().VerifC12Snapshot() }) {
		o.Held = -1 // the state could not be read: a stopped call holds the cache lock
	} else {
		o.Held = len(keys)
		for i, key := range keys {
			o.HeldBytes += int64(len(key.Method) + len(key.URL) + len(vals[i].ID) + len(vals[i].Body) + hdrLen(vals[i].Headers))
		}
	}
	o.InFlight = r.inFlight()
	o.Looks = r.looks()
	r.k.Ops = append(r.k.Ops, o)
}

// finish lets every call still in flight run to its end (recorded as steps).
func (r *cconcRun) finish() {
	ids := []int{}
	for id, pc := range r.calls {
		if !pc.finished {
			ids = append(ids, id)
		}
	}
	sort.Ints(ids)
	for _, id := range ids {
		r.complete(id)
	}
	r.w.finish()
}

// complete lets call id run to its end (recorded as leval / step ops).
func (r *cconcRun) complete(id int) {
	for pc := r.calls[id]; !pc.finished; {
		if pc.atLook() {
			r.do(XOp{Kind: "leval", Call: id})
		} else {
			r.do(XOp{Kind: "step", Call: id})
		}
	}
}

func (r *cconcRun) pendingDue() (due []int) {
	for sid, reg := range r.sleeper {
		if r.w.due(reg) <= r.now() {
			due = append(due, sid)
		}
	}
	sort.Ints(due)
	return
}

// ---------------------------------------------------------------- Coq term

// interner: repeated sub-terms (strings, parameter lists, configurations) are
// bound once per case by `let` (the case files elaborate much faster).
type interner struct {
	names map[string]string
	defs  []string
}

func (in *interner) get(prefix, term string) string {
	if in.names == nil {
		in.names = map[string]string{}
	}
	if n, ok := in.names[term]; ok {
		return n
	}
	n := fmt.Sprintf("%s%d", prefix, len(in.defs))
	in.names[term] = n
	in.defs = append(in.defs, fmt.Sprintf("let %s := %s in ", n, term))
	return n
}

func (in *interner) wrap(body string) string {
	out := "("
	for _, d := range in.defs {
		out += d
	}
	return out + body + ")"
}

func confCoq(cf *CachingConf) string {
	return fmt.Sprintf("(Build_cconf %s %s %s %s)",
		c.MapList(cf.Paths, func(p PPath) string {
			return c.Tuple(c.B(p.Type == sharedConfig.RequestPathParamPayload), c.Bytes(p.Path))
		}),
		c.Z(cf.ttl()), c.Z(int64(cf.MaxRec)), c.Z(cf.MaxBytes))
}

// The pieces of CachingPlugin.OnResponse as the harness sees them: "begin"
// stops in the 2nd clock reading (CreationTime) unless the call returned
// (record too large / already present); the next stop is the 3rd reading
// (inside Set, after WithMaxCacheSize); then the call ends (locked section).
// Split look-ups (ModelLook.v): "lreq" = LReqRead (the call returned at once,
// without a clock reading: nothing found; else it is stopped in its 1st
// reading), "lresp" = LHasRead (stopped in its 1st reading unless the record
// is too large), "leval" = LReqEval / LHasEval with the reading it got.
func cconcCoq(k *CConcCase) string {
	items := []string{}
	prevReads := map[int]int{}
	var in interner
	str := func(x string) string { return in.get("s", c.Bytes(x)) }
	par := func(m map[string]string) string { return in.get("p", paramsCoq(m)) }
	cfc := func(i int) string { return in.get("cf", confCoq(&k.Confs[i])) }
	cresp := func(o *XOp) string {
		return fmt.Sprintf("(Build_cresp %d %d%%N %d%%N %d%%N)", o.Vid, len(respID(o.Vid)), o.BodyLen, hdrLen(respHeaders(o.Vid)))
	}
	answer := func(o *XOp) string {
		if o.Early {
			return "CEarly " + c.Z(int64(o.RVid))
		}
		return "CNoOp"
	}
	isReq := func(i int) bool { return i >= 0 && i < len(k.Ops) && k.Ops[i].Kind == "lreq" }
	for i, o := range k.Ops {
		var op string
		out := "CDone"
		switch o.Kind {
		case "adv":
			continue
		case "req":
			op = fmt.Sprintf("LOld (FReq %s %s %s %s %s)", cfc(o.Conf), str(o.Method), str(o.URL), par(o.Params), c.Z(o.At))
			out = answer(&o)
		case "begin":
			op = fmt.Sprintf("LOld (FHas %d %s %s %s %s %s %s)",
				i, cfc(o.Conf), str(o.Method), str(o.URL), par(o.Params), cresp(&o), c.Z(o.At))
			prevReads[i] = len(o.Reads)
			if !o.Finished && len(o.Reads) != 2 {
				out = "CBad"
			}
		case "lreq":
			op = fmt.Sprintf("LReqRead %d %s %s %s %s", i, cfc(o.Conf), str(o.Method), str(o.URL), par(o.Params))
			switch {
			case o.Finished:
				out = answer(&o) // the model: nothing found, NoOp without a clock reading
			case len(o.Reads) != 1:
				out = "CBad"
			}
		case "lresp":
			op = fmt.Sprintf("LHasRead %d %s %s %s %s %s", i, cfc(o.Conf), str(o.Method), str(o.URL), par(o.Params), cresp(&o))
			prevReads[i] = len(o.Reads)
			if !o.Finished && len(o.Reads) != 1 {
				out = "CBad"
			}
		case "leval":
			switch {
			case o.Bad || len(o.Reads) == 0:
				op, out = fmt.Sprintf("LReqEval %d 0", o.Call), "CBad"
			case isReq(o.Call):
				op = fmt.Sprintf("LReqEval %d %s", o.Call, c.Z(o.Reads[0]))
				out = answer(&o)
				if !o.Finished {
					out = "CBad"
				}
			default:
				op = fmt.Sprintf("LHasEval %d %s", o.Call, c.Z(o.Reads[0]))
				prevReads[o.Call] = len(o.Reads)
				if !(o.Finished && len(o.Reads) == 1) && !(!o.Finished && len(o.Reads) == 2) {
					out = "CBad"
				}
			}
		case "step":
			if o.Bad || isReq(o.Call) {
				op, out = fmt.Sprintf("LOld (FLim %d)", o.Call), "CBad"
				break
			}
			prev := prevReads[o.Call]
			prevReads[o.Call] = len(o.Reads)
			switch {
			case prev == 2 && !o.Finished && len(o.Reads) == 3:
				op = fmt.Sprintf("LOld (FLim %d)", o.Call)
			case prev == 3 && o.Finished:
				op = fmt.Sprintf("LOld (FSet %d %s)", o.Call, c.Z(o.Reads[2]))
			default: // not the pieces the model knows
				op, out = fmt.Sprintf("LOld (FLim %d)", o.Call), "CBad"
			}
		case "fire":
			b := k.Ops[o.Call]
			op = fmt.Sprintf("LOld (FFire %d %s %s %s %s)", o.Call, cfc(b.Conf), str(b.Method), str(b.URL), par(b.Params))
		}
		if o.Unexpect || o.Blocked || (o.Bad && o.Kind != "step" && o.Kind != "leval") {
			out = "CBad"
		}
		items = append(items, fmt.Sprintf("(%s, (%s, %d, %d, %d))", op, out, o.Held, o.InFlight, o.Looks))
	}
	return in.wrap(c.List(items))
}

// ---------------------------------------------------------------- monitor

func cleanSelected(cf *CachingConf, params map[string]string) bool {
	for _, p := range cf.Paths {
		if p.Type != sharedConfig.RequestPathParamPayload || params[p.Path] == "" {
			continue
		}
		for _, ch := range p.Path {
			if ch == '.' || ch == ':' {
				return false
			}
		}
		for _, ch := range params[p.Path] {
			if ch == '.' {
				return false
			}
		}
	}
	return true
}

// cconcMonitor: a request is answered from memory only with a response that
// was handed to an OnResponse call earlier for the same method, URL and
// selected path-parameter values, and only until its time-to-live (the one of
// the configuration it was stored under) has passed, counted at the latest
// from the return of that call (a request stopped inside its look-up counts
// from its begin); the content held never exceeds the largest configured
// size - checked on the snapshot after every step and, from the OUTSIDE, on
// every sweep: the requests of a sweep are made one after the other at one
// instant, one per key used so far; the responses they replay are what the
// cache can replay at that instant, and their content (method, URL, body,
// headers as replayed - less than any size measure that counts them) must
// not add up to more than the largest configured maximum.
func cconcMonitor(k *CConcCase) []c.Hit {
	var hits []c.Hit
	add := func(sig, dem, obs string) {
		hits = append(hits, c.Hit{Signature: sig, Demanded: dem, Observed: obs, Case: k})
	}
	var maxBytes int64
	for _, cf := range k.Confs {
		if cf.MaxBytes > maxBytes {
			maxBytes = cf.MaxBytes
		}
	}
	isResp := func(p *XOp) bool { return p.Kind == "begin" || p.Kind == "lresp" }
	doneAt := map[int]int64{} // begin op -> clock when the call returned
	sizeReported := false
	for i, o := range k.Ops {
		if o.Finished && !o.Blocked { // (a call the harness gave up on ends at an unknown instant: no claim)
			switch o.Kind {
			case "begin", "lresp":
				doneAt[i] = o.At
			case "step", "leval":
				doneAt[o.Call] = o.At
			}
		}
		// the request this op answers: itself, or the lreq op it completes
		rq, reqAt := &k.Ops[i], o.At
		answered := o.Kind == "req" || o.Kind == "lreq"
		if (o.Kind == "leval" || o.Kind == "step") && !o.Bad && o.Call >= 0 && o.Call < i && k.Ops[o.Call].Kind == "lreq" {
			rq, reqAt, answered = &k.Ops[o.Call], k.Ops[o.Call].At, true
		}
		if answered && o.Early {
			src := -1
			for j := 0; j < i; j++ {
				if p := &k.Ops[j]; isResp(p) && p.Vid == o.RVid {
					src = j
				}
			}
			rcf := &k.Confs[rq.Conf]
			want := fmt.Sprintf("op %d: replay for %s %s %s only of a response stored for the same key", i, rq.Method, rq.URL, selectedValuation(rcf, rq.Params))
			if src < 0 {
				add("phantom-hit:cconc", want, "the replayed response was never handed to OnResponse")
				continue
			}
			s := &k.Ops[src]
			scf := &k.Confs[s.Conf]
			switch {
			case s.Method != rq.Method || !sameURL(s.URL, rq.URL) ||
				selectedValuation(scf, s.Params) != selectedValuation(rcf, rq.Params):
				sig := "wrong-key-hit:cconc"
				if s.Method == rq.Method && s.URL == rq.URL && (!cleanSelected(scf, s.Params) || !cleanSelected(rcf, rq.Params)) {
					sig = "wrong-key-hit:caching-join-ambiguous"
				}
				add(sig, want, fmt.Sprintf("replayed the response given for %s %s %s", s.Method, s.URL, selectedValuation(scf, s.Params)))
			default:
				if d, ok := doneAt[src]; ok && reqAt > d+scf.ttl() {
					add("expired-hit:cconc", fmt.Sprintf("op %d: no replay after %d (its OnResponse returned at %d, ttl %d)", i, d+scf.ttl(), d, scf.ttl()),
						fmt.Sprintf("request made at %d answered from memory", reqAt))
				}
			}
		}
		if !sizeReported && o.HeldBytes > maxBytes {
			sizeReported = true
			add("size-bound:concurrent-plugin-calls", fmt.Sprintf("content held never exceeds %d bytes", maxBytes),
				fmt.Sprintf("after op %d the cache holds %d bytes of keys, bodies and headers", i, o.HeldBytes))
		}
	}
	// sweeps: what can be replayed at one instant
	for i := 0; i < len(k.Ops); {
		o := &k.Ops[i]
		if o.Kind != "req" || o.Sweep == 0 {
			i++
			continue
		}
		j, total, seen, what := i, int64(0), map[int]bool{}, ""
		for ; j < len(k.Ops) && k.Ops[j].Kind == "req" && k.Ops[j].Sweep == o.Sweep && k.Ops[j].At == o.At; j++ {
			q := &k.Ops[j]
			if !q.Early || (q.RVid >= 0 && seen[q.RVid]) {
				continue // nothing replayed / the same stored response again (two requests, one entry)
			}
			seen[q.RVid] = true
			n := int64(len(q.Method)+len(q.URL)) + q.RBytes
			total += n
			what += fmt.Sprintf(" %s %s %s: %d;", q.Method, q.URL, selectedValuation(&k.Confs[q.Conf], q.Params), n)
		}
		if total > maxBytes {
			add("size-bound:replayable-entries",
				fmt.Sprintf("sweep %d (ops %d-%d, at %d): the responses the cache can replay add up to at most %d bytes (largest configured max_cache_size)", o.Sweep, i, j-1, o.At, maxBytes),
				fmt.Sprintf("%d bytes of method, URL, body and headers are replayed:%s", total, what))
		}
		i = j
	}
	return hits
}

func cconcRecord(o *c.Out, k *CConcCase) {
	hit, miss, stored, notStored, overl, boundary := 0, 0, 0, 0, 0, 0
	exp := map[int64]bool{}
	looks2, lookEvals, lookPastExpiry, sweeps, sweepMax, fills := 0, 0, 0, map[int]bool{}, int64(0), 0
	expOf := map[string]int64{} // key -> expiry of the entry stored last
	keyOf := func(b *XOp) string {
		return b.Method + " " + b.URL + " " + selectedValuation(&k.Confs[b.Conf], b.Params)
	}
	sweepTotal := map[int]int64{}
	for _, op := range k.Ops {
		if op.Looks >= 2 {
			looks2++
		}
		switch op.Kind {
		case "begin", "step", "lresp", "leval":
			if op.InFlight >= 2 {
				overl++
			}
			if op.Kind == "begin" && op.Fill {
				fills++
			}
			isReqCall := (op.Kind == "leval" || op.Kind == "step") && !op.Bad && k.Ops[op.Call].Kind == "lreq"
			if op.Kind == "leval" && !op.Bad {
				lookEvals++
				if e, ok := expOf[keyOf(&k.Ops[op.Call])]; ok && op.At > e {
					lookPastExpiry++
				}
			}
			if isReqCall && op.Finished {
				if op.Early {
					hit++
				} else {
					miss++
				}
			}
			if op.Finished && !isReqCall {
				if op.Stored {
					stored++
					b := op
					if op.Kind == "step" || op.Kind == "leval" {
						b = k.Ops[op.Call]
					}
					if len(op.Reads) >= 3 {
						e := op.Reads[2] + k.Confs[b.Conf].ttl()
						exp[e-1], exp[e], exp[e+1] = true, true, true
						expOf[keyOf(&b)] = e
					}
				} else {
					notStored++
				}
			}
		case "req", "lreq":
			if op.Kind == "lreq" && !op.Finished {
				break
			}
			if op.Early {
				hit++
			} else {
				miss++
			}
			if exp[op.At] {
				boundary++
			}
			if op.Sweep > 0 {
				sweeps[op.Sweep] = true
				if op.Early {
					sweepTotal[op.Sweep] += int64(len(op.Method)+len(op.URL)) + op.RBytes
				}
			}
		}
	}
	for _, t := range sweepTotal {
		if t > sweepMax {
			sweepMax = t
		}
	}
	if len(sweeps) > 0 {
		var maxBytes int64
		for _, cf := range k.Confs {
			if cf.MaxBytes > maxBytes {
				maxBytes = cf.MaxBytes
			}
		}
		o.Count("cconc.cases_with_fill_and_sweep")
		o.CountN("cconc.sweeps", len(sweeps))
		o.CountN("cconc.fill_responses", fills)
		if sweepMax*10 >= maxBytes*7 {
			o.Count("cconc.cases_with_sweep_replaying>=70%_of_max")
		}
	}
	o.CountN("cconc.steps_with_2+_lookups_stopped_after_map_read", looks2)
	o.CountN("cconc.lookups_resumed_after_a_stop", lookEvals)
	o.CountN("cconc.lookups_resumed_past_the_expiry_of_their_key", lookPastExpiry)
	o.Count(fmt.Sprintf("cconc.configs=%d", len(k.Confs)))
	o.CountN("cconc.hits", hit)
	o.CountN("cconc.misses", miss)
	o.CountN("cconc.calls_stored", stored)
	o.CountN("cconc.calls_not_stored", notStored)
	o.CountN("cconc.steps_with_2+_calls_in_flight", overl)
	o.CountN("cconc.probes_at_expiry±1ns", boundary)
	nontrivial := hit > 0 && miss > 0 && (overl > 0 || looks2 > 0)
	idx := o.Case("cconc", cconcCoq(k), k, nontrivial)
	o.MonitorChecked(1)
	for _, h := range cconcMonitor(k) {
		h.Suite, h.Index = "cconc", idx
		o.Hit(h)
	}
}

func replayCConc(o *c.Out, k *CConcCase) {
	r := newCConcRun(k.Confs, k.T0)
	for _, op := range k.Ops {
		r.do(XOp{Kind: op.Kind, Conf: op.Conf, Method: op.Method, URL: op.URL, Params: op.Params, Vid: op.Vid,
			Status: op.Status, BodyLen: op.BodyLen, Call: op.Call, D: op.D, Sweep: op.Sweep, Fill: op.Fill})
	}
	r.finish()
	cconcRecord(o, r.k)
}

// ---------------------------------------------------------------- generators

// orders of the events of n calls with ev events each (first = begin)
func eventOrders(n, ev int) [][]int {
	var out [][]int
	var rec func(seq []int, count []int)
	rec = func(seq []int, count []int) {
		if len(seq) == n*ev {
			out = append(out, append([]int{}, seq...))
			return
		}
		for i := 0; i < n; i++ {
			if count[i] < ev {
				count[i]++
				rec(append(seq, i), count)
				count[i]--
			}
		}
	}
	rec(nil, make([]int, n))
	return out
}

type cconcCall struct {
	conf        int
	method, url string
	params      map[string]string
	bodyLen     int
	begin       int // op index, -1 before it began
}

// runCConcSchedule: the calls' events in the given order (an event of a call
// that has already returned is skipped), the clock advanced by adv[i] after
// event i, requests for every (configuration, key) after each event, then
// probes across the expiries.
func runCConcSchedule(o *c.Out, cfs []CachingConf, t0 int64, calls []cconcCall, order []int, adv []int64, probes []cconcCall) {
	r := newCConcRun(cfs, t0)
	vid := 200
	probe := func() {
		for _, p := range probes {
			r.do(XOp{Kind: "req", Conf: p.conf, Method: p.method, URL: p.url, Params: p.params})
		}
	}
	for i := range calls {
		calls[i].begin = -1
	}
	for ei, ci := range order {
		cl := &calls[ci]
		if cl.begin < 0 {
			vid++
			r.do(XOp{Kind: "begin", Conf: cl.conf, Method: cl.method, URL: cl.url, Params: cl.params, Vid: vid, Status: 200, BodyLen: cl.bodyLen})
			cl.begin = len(r.k.Ops) - 1
		} else if pc := r.calls[cl.begin]; !pc.finished {
			r.do(XOp{Kind: "step", Call: cl.begin})
		}
		probe()
		if ei < len(adv) && adv[ei] != 0 {
			r.do(XOp{Kind: "adv", D: adv[ei]})
		}
	}
	// expiries: reading of each Set + ttl of its configuration
	var exps []int64
	for _, op := range r.k.Ops {
		if (op.Kind == "step" || op.Kind == "begin") && op.Finished && op.Stored && len(op.Reads) >= 3 {
			b := op
			if op.Kind == "step" {
				b = r.k.Ops[op.Call]
			}
			exps = append(exps, op.Reads[2]+cfs[b.Conf].ttl())
		}
	}
	sort.Slice(exps, func(i, j int) bool { return exps[i] < exps[j] })
	for _, e := range exps {
		for _, d := range []int64{-1, 0, 1} {
			if t := e + d; t >= r.now() {
				r.do(XOp{Kind: "adv", D: t - r.now()})
				probe()
			}
		}
	}
	if due := r.pendingDue(); len(due) > 0 {
		r.do(XOp{Kind: "fire", Call: due[0]})
		probe()
	}
	r.finish()
	cconcRecord(o, r.k)
}

func genCConc(o *c.Out, rng *c.Rng, t0 int64) {
	typ := entryBytes("GET", "a.com/x", 201, 30)
	id1 := map[string]string{"id": "1"}
	id2 := map[string]string{"id": "2"}
	cfA := CachingConf{Paths: pathPools[0], TTLg: 2, MaxRec: 40, MaxBytes: 1 << 20}
	cfB := CachingConf{Paths: pathPools[0], TTLg: 4, MaxRec: 40, MaxBytes: 1 << 20}
	cfSmall := CachingConf{Paths: pathPools[0], TTLg: 2, MaxRec: 40, MaxBytes: typ}   // room for one entry
	cfTwo := CachingConf{Paths: pathPools[0], TTLg: 3, MaxRec: 40, MaxBytes: 2 * typ} // room for two
	cfOrg := CachingConf{Paths: pathPools[1], TTLg: 2, MaxRec: 30, MaxBytes: 1 << 20} // other payload paths, smaller record limit
	orders := eventOrders(2, 3)                                                       // begin, (WithMaxCacheSize), (Set) of two calls: 20 orders
	same := []cconcCall{{0, "GET", "a.com/x", id1, 30, -1}, {0, "GET", "a.com/x", id1, 30, -1}}
	probesA := []cconcCall{{conf: 0, method: "GET", url: "a.com/x", params: id1}, {conf: 0, method: "GET", url: "a.com/x", params: id2}}
	// 1. one configuration, two calls for the same key / different keys, every order, clock still / moving
	for oi, ord := range orders {
		for _, step := range []int64{0, 1, G} {
			if !o.Thorough() && step == 1 && oi%2 == 1 {
				continue
			}
			adv := make([]int64, len(ord))
			for i := range adv {
				adv[i] = step
			}
			runCConcSchedule(o, []CachingConf{cfA}, t0, append([]cconcCall{}, same...), ord, adv, probesA)
		}
		diff := []cconcCall{{0, "GET", "a.com/x", id1, 30, -1}, {0, "GET", "a.com/x", id2, 30, -1}}
		adv := make([]int64, len(ord))
		for i := range adv {
			adv[i] = int64(i%2) * G
		}
		runCConcSchedule(o, []CachingConf{cfSmall}, t0, diff, ord, adv, probesA) // size limit: room for one of the two
	}
	// 2. two configurations on one cache: different ttl; different size limits
	// (WithMaxCacheSize of one call between WithMaxCacheSize and Set of the
	// other); different payload paths / record limits
	probesAB := []cconcCall{{conf: 0, method: "GET", url: "a.com/x", params: id1}, {conf: 1, method: "GET", url: "a.com/x", params: id1},
		{conf: 1, method: "GET", url: "a.com/x", params: id2}}
	for oi, ord := range orders {
		adv := make([]int64, len(ord))
		for i := range adv {
			adv[i] = int64((i+oi)%2) * G
		}
		two := func(c0, c1 int, p0, p1 map[string]string, b0, b1 int) []cconcCall {
			return []cconcCall{{c0, "GET", "a.com/x", p0, b0, -1}, {c1, "GET", "a.com/x", p1, b1, -1}}
		}
		runCConcSchedule(o, []CachingConf{cfA, cfB}, t0, two(0, 1, id1, id1, 30, 30), ord, adv, probesAB)
		runCConcSchedule(o, []CachingConf{cfSmall, cfTwo}, t0, two(0, 1, id1, id2, 30, 30), ord, adv, probesAB)
		runCConcSchedule(o, []CachingConf{cfTwo, cfSmall}, t0, two(0, 1, id1, id2, 30, 30), ord, adv, probesAB)
		orgP := map[string]string{"id": "1", "org": "7"}
		runCConcSchedule(o, []CachingConf{cfA, cfOrg}, t0, two(0, 1, orgP, orgP, 35, 35), ord, adv,
			[]cconcCall{{conf: 0, method: "GET", url: "a.com/x", params: orgP}, {conf: 1, method: "GET", url: "a.com/x", params: orgP},
				{conf: 1, method: "GET", url: "a.com/x", params: id1}})
	}
	// 3. random: 2-4 calls, 1-3 configurations, random interleaving with the clock aimed at nothing in particular
	pool := []CachingConf{cfA, cfB, cfSmall, cfTwo, cfOrg}
	for i := 0; i < o.Scale(120, 2500, 1500); i++ {
		nc := rng.Range(1, 3)
		cfs := make([]CachingConf, nc)
		for j := range cfs {
			cfs[j] = c.Pick(rng, pool)
		}
		n := rng.Range(2, 4)
		calls := make([]cconcCall, n)
		params := []map[string]string{id1, id2, {"id": "1", "org": "7"}, {"org": "7"}}
		for j := range calls {
			calls[j] = cconcCall{rng.Intn(nc), c.Pick(rng, []string{"GET", "GET", "POST"}), c.Pick(rng, []string{"a.com/x", "a.com/x", "a.com/y"}),
				c.Pick(rng, params), c.Pick(rng, []int{30, 30, 35, 40, 41}), -1}
		}
		var ord []int
		left := make([]int, n)
		for j := range left {
			left[j] = 3
		}
		for len(ord) < 3*n {
			j := rng.Intn(n)
			if left[j] > 0 {
				left[j]--
				ord = append(ord, j)
			}
		}
		adv := make([]int64, len(ord))
		for j := range adv {
			adv[j] = c.Pick(rng, []int64{0, 0, 1, G, G - 1, 2 * G})
		}
		var probes []cconcCall
		for j := 0; j < n && j < 3; j++ {
			probes = append(probes, cconcCall{conf: rng.Intn(nc), method: calls[j].method, url: calls[j].url, params: calls[j].params})
		}
		runCConcSchedule(o, cfs, t0+int64(rng.Intn(2)), calls, ord, adv, probes)
	}
}

// genJoinAmbiguity (F-C12d, suite caching): two different selections of path
// parameters whose joined encodings coincide ("a" = "1.b:2" vs "a" = "1",
// "b" = "2"): the response stored for one is replayed for the other.
func genJoinAmbiguity(o *c.Out, t0 int64) {
	cf := CachingConf{Paths: []PPath{{ppType, "a"}, {ppType, "b"}}, TTLg: 2, MaxRec: 40, MaxBytes: 1 << 20}
	p1 := map[string]string{"a": "1.b:2"}
	p2 := map[string]string{"a": "1", "b": "2"}
	p3 := map[string]string{"a": "1", "b": "3"}
	for _, first := range []map[string]string{p1, p2} {
		r := newCachingRun(cf, t0)
		r.do(POp{Kind: "resp", Method: "GET", URL: "a.com/x", Params: first, Vid: 301, Status: 200, BodyLen: 30})
		for _, p := range []map[string]string{p1, p2, p3} {
			r.do(POp{Kind: "req", Method: "GET", URL: "a.com/x", Params: p})
		}
		r.do(POp{Kind: "adv", D: 2*G + 1})
		for _, p := range []map[string]string{p1, p2} {
			r.do(POp{Kind: "req", Method: "GET", URL: "a.com/x", Params: p})
		}
		r.finish()
		o.Count("caching.join_ambiguity_cases")
		cachingRecord(o, r.k)
	}
}
