package main

// Suite "tconc": remedies.ResponseBasedThrottlingPlugin under concurrent
// calls, with the clock moving between the clock readings of one call
// (machinery: conc.go).

import (
	"fmt"
	"sort"

	"lunar/engine/actions"
	lunarMessages "lunar/engine/messages"
	"lunar/engine/services/remedies"
	sharedConfig "lunar/shared-model/config"

	c "verifharness/common"
)

type YOp struct {
	Kind    string `json:"op"` // adv|breq|bresp|step|fire  (breq/bresp: begin of an OnRequest/OnResponse call)
	Method  string `json:"method,omitempty"`
	URL     string `json:"url,omitempty"`
	Vid     int    `json:"vid,omitempty"`
	Status  int    `json:"status,omitempty"`
	HdrKind string `json:"retry_after_kind,omitempty"` // ok|missing|wrongcase|garbage
	RAg     int64  `json:"retry_after_grid,omitempty"` // value in units of 1/512 s (relative: duration; absolute: epoch instant)
	HdrVal  string `json:"retry_after_value,omitempty"`
	Call    int    `json:"call,omitempty"` // step/fire: index of the begin op
	D       int64  `json:"advance_ns,omitempty"`

	// observed
	At       int64   `json:"at_ns"`
	Reads    []int64 `json:"clock_readings_ns,omitempty"`
	Finished bool    `json:"finished,omitempty"`
	Blocked  bool    `json:"blocked,omitempty"` // the call neither read the clock nor returned (given up on)
	Early    bool    `json:"early,omitempty"`
	RVid     int     `json:"r_vid,omitempty"`
	RHdr     string  `json:"r_retry_after,omitempty"`
	RHdrSet  bool    `json:"r_retry_after_present,omitempty"`
	RNs      int64   `json:"r_retry_after_ns,omitempty"`
	Unexpect bool    `json:"unexpected,omitempty"`
	Stored   bool    `json:"stored,omitempty"`
	Slp      int     `json:"sleepers_started,omitempty"`
	Bad      bool    `json:"bad,omitempty"`
	Held     int     `json:"held_entries"`
	InFlight int     `json:"response_calls_in_flight"`
}

type TConcCase struct {
	Conf ThrottleConf `json:"config"`
	T0   int64        `json:"t0_ns"`
	Ops  []YOp        `json:"ops"`
}

type tconcRun struct {
	w       *world
	plugin  *remedies.ResponseBasedThrottlingPlugin
	conf    sharedConfig.ResponseBasedThrottlingConfig
	abs     bool
	k       *TConcCase
	calls   map[int]*pcall
	isReq   map[int]bool
	sleeper map[int]int
	resps   []YOp
}

func newTConcRun(cf ThrottleConf, t0 int64) *tconcRun {
	base := newThrottleRun(cf, t0)
	return &tconcRun{w: base.w, plugin: base.plugin, conf: base.conf, abs: cf.Type == "absolute_epoch",
		k: &TConcCase{Conf: cf, T0: t0}, calls: map[int]*pcall{}, isReq: map[int]bool{}, sleeper: map[int]int{}}
}

func (r *tconcRun) now() int64 { return r.w.clk.now }

func (r *tconcRun) inFlight() int {
	n := 0
	for id, pc := range r.calls {
		if !pc.finished && !r.isReq[id] {
			n++
		}
	}
	return n
}

func yHeaders(o *YOp) map[string]string {
	return throttleHeaders(&TOp{Vid: o.Vid, HdrKind: o.HdrKind, HdrVal: o.HdrVal})
}

// finished: record what the call did.
func (r *tconcRun) afterFinish(o *YOp, begin int, pc *pcall) {
	o.Unexpect, o.Blocked = pc.unexpect, pc.blocked
	if r.isReq[begin] {
		switch a := pc.act.(type) {
		case *actions.NoOpAction:
		case *actions.EarlyResponseAction:
			o.Early = true
			o.RVid = -1
			rest := copyMap(a.Headers)
			if v, ok := rest[raHeader]; ok {
				o.RHdr, o.RHdrSet = v, true
				if ns, ok := decimalToNs(v); ok {
					o.RNs = ns
				} else {
					o.Unexpect = true
				}
				delete(rest, raHeader)
			}
			for _, p := range r.resps {
				want := yHeaders(&p)
				delete(want, raHeader)
				if a.Status == p.Status && a.Body == respBody(p.Vid, 20) && sameHeaders(rest, want) {
					o.RVid = p.Vid
				}
			}
		default:
			o.Unexpect = true
		}
		return
	}
	vid := o.Vid
	if o.Kind == "step" {
		vid = r.k.Ops[begin].Vid
	}
	if cache := r.plugin.VerifC12Cache(); cache != nil {
		var vals []remedies.CachedResponse
		r.w.bounded(func() { _, vals, _, _ = cache.VerifC12Snapshot() })
		for _, v := range vals {
			if v.ID == respID(vid) {
				o.Stored = true
			}
		}
	}
	if o.Slp = r.w.settle(o.Stored); o.Slp > 0 {
		r.sleeper[begin] = r.w.reg - 1
	}
}

func (r *tconcRun) do(o YOp) {
	idx := len(r.k.Ops)
	o.At = r.now()
	switch o.Kind {
	case "adv":
		r.w.clk.set(r.now() + o.D)
		o.At = r.now()
	case "breq":
		msg := lunarMessages.OnRequest{
			ID: "rq", SequenceID: "rq", Method: o.Method, Scheme: "https", URL: o.URL,
			Headers: map[string]string{},
		}
		pc := r.w.startCall(func(pc *pcall) {
			act, err := r.plugin.OnRequest(msg, &r.conf)
			pc.act = act
			if err != nil {
				pc.unexpect = true
			}
		})
		r.calls[idx], r.isReq[idx] = pc, true
		o.Reads, o.Finished = append([]int64{}, pc.reads...), pc.finished
		if pc.finished {
			r.afterFinish(&o, idx, pc)
		}
	case "bresp":
		if o.HdrKind == "ok" || o.HdrKind == "wrongcase" {
			o.HdrVal = headerValue(o.RAg, 0)
		}
		msg := lunarMessages.OnResponse{
			ID: respID(o.Vid), SequenceID: respID(o.Vid), Method: o.Method, URL: o.URL,
			Status: o.Status, Headers: yHeaders(&o), Body: respBody(o.Vid, 20),
		}
		pc := r.w.startCall(func(pc *pcall) {
			act, err := r.plugin.OnResponse(msg, &r.conf)
			if _, ok := act.(*actions.NoOpAction); !ok || err != nil {
				pc.unexpect = true
			}
		})
		if !pc.finished { // stopped in the clock reading of Has: go on to the next reading
			r.w.stepCall(pc)
		}
		r.calls[idx] = pc
		r.resps = append(r.resps, o)
		o.Reads, o.Finished = append([]int64{}, pc.reads...), pc.finished
		if pc.finished {
			r.afterFinish(&o, idx, pc)
		}
	case "step":
		pc, ok := r.calls[o.Call]
		if !ok || pc.finished {
			o.Bad = true
			break
		}
		r.w.stepCall(pc)
		o.Reads, o.Finished = append([]int64{}, pc.reads...), pc.finished
		if pc.finished {
			r.afterFinish(&o, o.Call, pc)
		}
	case "fire":
		reg, ok := r.sleeper[o.Call]
		if !ok {
			o.Bad = true
			break
		}
		delete(r.sleeper, o.Call)
		r.w.fire(reg)
	default:
		panic("unknown op " + o.Kind)
	}
	o.Held = -1 // unless the state can be read (a stopped call might hold the cache lock)
	r.w.bounded(func() {
		keys, _, _, _ := r.plugin.VerifC12Cache().VerifC12Snapshot()
		o.Held = len(keys)
	})
	o.InFlight = r.inFlight()
	r.k.Ops = append(r.k.Ops, o)
}

// step lets call `begin` continue. Absolute epoch: the reading from which the
// time-to-live is computed (the 3rd of an OnResponse call) must be on the
// 1/512 s grid for the code's float64 arithmetic to be exact.
func (r *tconcRun) step(begin int) {
	pc := r.calls[begin]
	if r.abs && !r.isReq[begin] && !pc.finished && len(pc.reads) == 2 && r.now()%G != 0 {
		r.do(YOp{Kind: "adv", D: G - r.now()%G})
	}
	r.do(YOp{Kind: "step", Call: begin})
}

// request: a whole OnRequest call with the clock moved by `between` after its
// first reading.
func (r *tconcRun) request(m, u string, between int64) {
	r.do(YOp{Kind: "breq", Method: m, URL: u})
	id := len(r.k.Ops) - 1
	first := true
	for !r.calls[id].finished {
		if first && between != 0 {
			r.do(YOp{Kind: "adv", D: between})
		}
		first = false
		r.do(YOp{Kind: "step", Call: id})
	}
}

// completeCalls lets every call still in flight run to its end (recorded as steps).
func (r *tconcRun) completeCalls() {
	ids := []int{}
	for id, pc := range r.calls {
		if !pc.finished {
			ids = append(ids, id)
		}
	}
	sort.Ints(ids)
	for _, id := range ids {
		for !r.calls[id].finished {
			r.step(id)
		}
	}
}

func (r *tconcRun) finish() {
	r.completeCalls()
	r.w.finish()
}

func (r *tconcRun) pendingDue() (due []int) {
	for sid, reg := range r.sleeper {
		if r.w.due(reg) <= r.now() {
			due = append(due, sid)
		}
	}
	sort.Ints(due)
	return
}

// finishing op of every call
func finishers(k *TConcCase) map[int]int {
	f := map[int]int{}
	for i, o := range k.Ops {
		if !o.Finished {
			continue
		}
		switch o.Kind {
		case "breq", "bresp":
			f[i] = i
		case "step":
			f[o.Call] = i
		}
	}
	return f
}

// ---------------------------------------------------------------- Coq term

func tconcCoq(k *TConcCase) string {
	ty := map[string]string{"relative_seconds": "RRel", "absolute_epoch": "RAbs"}[k.Conf.Type]
	if ty == "" {
		ty = "RUndef"
	}
	conf := c.Tuple(ty, c.MapList(k.Conf.Statuses, func(s int) string { return c.Z(int64(s)) }))
	fin := finishers(k)
	items := []string{}
	var in interner
	str := func(x string) string { return in.get("s", c.Bytes(x)) }
	for i, o := range k.Ops {
		var op string
		out := "TDone"
		switch o.Kind {
		case "adv":
			continue
		case "breq":
			f, ok := fin[i]
			if !ok {
				op, out = fmt.Sprintf("GReq %s %s %s %s", str(o.Method), str(o.URL), c.Z(o.At), c.Z(o.At)), "TBad"
				break
			}
			fo := k.Ops[f]
			tg, tl := o.At, o.At
			if len(fo.Reads) > 0 {
				tg, tl = fo.Reads[0], fo.Reads[0]
			}
			if len(fo.Reads) > 1 {
				tl = fo.Reads[1]
			}
			op = fmt.Sprintf("GReq %s %s %s %s", str(o.Method), str(o.URL), c.Z(tg), c.Z(tl))
			out = "TNoOp"
			if fo.Early {
				ra := "None"
				if fo.RHdrSet {
					ra = c.Some(c.Z(fo.RNs))
				}
				out = fmt.Sprintf("TEarly %s %s", c.Z(int64(fo.RVid)), ra)
			}
			if fo.Unexpect || len(fo.Reads) > 2 {
				out = "TBad"
			}
		case "bresp":
			ra := "None"
			if o.HdrKind == "ok" {
				ra = c.Some(c.Z(o.RAg * G))
			}
			op = fmt.Sprintf("GHas %d %s %s %d %d %s %s", i, str(o.Method), str(o.URL), o.Status, o.Vid, ra, c.Z(o.At))
			if !o.Finished && len(o.Reads) != 2 {
				out = "TBad"
			}
		case "step":
			if o.Bad {
				op, out = fmt.Sprintf("GSet %d 0 0 0", o.Call), "TBad"
				break
			}
			if k.Ops[o.Call].Kind == "breq" || !o.Finished {
				continue // no shared-state access of its own
			}
			rd := o.Reads
			switch len(rd) {
			case 2: // gave up after CreationTime: header unusable / type undefined
				op = fmt.Sprintf("GSet %d %s 0 0", o.Call, c.Z(rd[1]))
			case 3: // relative: CreationTime, Set
				op = fmt.Sprintf("GSet %d %s %s %s", o.Call, c.Z(rd[1]), c.Z(rd[2]), c.Z(rd[2]))
			case 4: // absolute epoch: CreationTime, time-to-live, Set
				op = fmt.Sprintf("GSet %d %s %s %s", o.Call, c.Z(rd[1]), c.Z(rd[2]), c.Z(rd[3]))
			default:
				op, out = fmt.Sprintf("GSet %d 0 0 0", o.Call), "TBad"
			}
		case "fire":
			b := k.Ops[o.Call]
			op = fmt.Sprintf("GFire %d %s %s", o.Call, str(b.Method), str(b.URL))
		}
		if (o.Unexpect && o.Kind != "breq") || (o.Bad && o.Kind != "step") {
			out = "TBad"
		}
		items = append(items, fmt.Sprintf("(%s, (%s, %d, %d))", op, out, o.Held, o.InFlight))
	}
	return in.wrap(c.Tuple(conf, c.List(items)))
}

// ---------------------------------------------------------------- monitor

// tconcMonitor: a request is answered from memory only with a response handed
// to an OnResponse call earlier for the same method and URL, only until the
// provider's retry-after time has passed (absolute: the instant itself;
// relative: counted at the latest from the return of that call); a replayed
// relative retry-after is the original minus the time elapsed, where the
// elapsed time is measured between some instant of the storing call and some
// instant of the request (1 microsecond of slack for the float formatting).
func tconcMonitor(k *TConcCase) []c.Hit {
	var hits []c.Hit
	add := func(sig, dem, obs string) {
		hits = append(hits, c.Hit{Signature: sig, Demanded: dem, Observed: obs, Case: k})
	}
	const slack = 1000
	fin := finishers(k)
	for i, o := range k.Ops {
		if o.Kind != "breq" {
			continue
		}
		f, ok := fin[i]
		if !ok || !k.Ops[f].Early {
			continue
		}
		res := k.Ops[f]
		reqStart, reqEnd := o.At, res.At
		src := -1
		for j := 0; j < i; j++ {
			if p := &k.Ops[j]; p.Kind == "bresp" && p.Vid == res.RVid {
				src = j
			}
		}
		want := fmt.Sprintf("op %d: replay for %s %s only of a response stored for the same method and URL", i, o.Method, o.URL)
		if src < 0 {
			add("phantom-hit:tconc", want, "the replayed response was not handed to OnResponse before")
			continue
		}
		s := &k.Ops[src]
		srcStart, srcEnd := s.At, reqStart
		srcBlocked := false
		if sf, ok := fin[src]; ok && sf < i {
			srcEnd = k.Ops[sf].At
			srcBlocked = k.Ops[sf].Blocked // the harness gave up on the storing call: its end is unknown
		}
		switch {
		case s.Method != o.Method || !sameURL(s.URL, o.URL):
			add("wrong-key-hit:tconc", want, fmt.Sprintf("replayed the response given for %s %s", s.Method, s.URL))
		case s.HdrKind != "ok" || (k.Conf.Type != "relative_seconds" && k.Conf.Type != "absolute_epoch"):
			add("no-retry-after-replayed:tconc", fmt.Sprintf("op %d: replay only until the provider's retry-after time", i),
				"the replayed response carried no usable retry-after time")
		case k.Conf.Type == "relative_seconds" && srcBlocked:
		case k.Conf.Type == "relative_seconds":
			ra := s.RAg * G
			if reqStart > srcEnd+ra {
				add("expired-hit:tconc", fmt.Sprintf("op %d: no replay after %d (its OnResponse returned at %d + retry-after %d ns)", i, srcEnd+ra, srcEnd, ra),
					fmt.Sprintf("request made at %d", reqStart))
				break
			}
			lo, hi := ra-(reqEnd-srcStart), ra-(reqStart-srcEnd)
			if !res.RHdrSet || res.RNs < lo-slack || res.RNs > hi+slack {
				add("retry-after-value:tconc", fmt.Sprintf("op %d: replayed retry-after between %d and %d ns (original %d minus the time elapsed)", i, lo, hi, ra),
					fmt.Sprintf("header %q present=%v", res.RHdr, res.RHdrSet))
			}
		default: // absolute epoch
			e := s.RAg * G
			if reqStart > e {
				add("expired-hit:tconc-absolute-epoch", fmt.Sprintf("op %d: no replay after the provider's instant %s s (%d ns)", i, s.HdrVal, e),
					fmt.Sprintf("request made at %d ns answered from memory (OnResponse ran from %d to %d ns)", reqStart, srcStart, srcEnd))
				break
			}
			if !res.RHdrSet || res.RNs < e-slack || res.RNs > e+slack {
				add("retry-after-value:tconc-absolute-epoch", fmt.Sprintf("op %d: replayed retry-after = the provider's instant %s", i, s.HdrVal),
					fmt.Sprintf("header %q present=%v", res.RHdr, res.RHdrSet))
			}
		}
	}
	return hits
}

func tconcRecord(o *c.Out, k *TConcCase) {
	hit, miss, stored, notStored, overl, moved, movedReq := 0, 0, 0, 0, 0, 0, 0
	fin := finishers(k)
	for i, op := range k.Ops {
		switch op.Kind {
		case "bresp", "step":
			if op.InFlight >= 2 {
				overl++
			}
		}
		if f, ok := fin[i]; ok && (op.Kind == "breq" || op.Kind == "bresp") {
			fo := k.Ops[f]
			rd := fo.Reads
			diff := false
			for j := 1; j < len(rd); j++ {
				if rd[j] != rd[0] {
					diff = true
				}
			}
			if op.Kind == "breq" {
				if fo.Early {
					hit++
				} else {
					miss++
				}
				if diff {
					movedReq++
				}
			} else {
				if fo.Stored {
					stored++
				} else {
					notStored++
				}
				if diff {
					moved++
				}
			}
		}
	}
	o.Count("tconc.type=" + k.Conf.Type)
	o.CountN("tconc.hits", hit)
	o.CountN("tconc.misses", miss)
	o.CountN("tconc.calls_stored", stored)
	o.CountN("tconc.calls_not_stored", notStored)
	o.CountN("tconc.steps_with_2+_response_calls_in_flight", overl)
	o.CountN("tconc.response_calls_with_differing_clock_readings", moved)
	o.CountN("tconc.request_calls_with_differing_clock_readings", movedReq)
	nontrivial := hit > 0 && miss > 0 && (overl > 0 || moved > 0 || movedReq > 0)
	idx := o.Case("tconc", tconcCoq(k), k, nontrivial)
	o.MonitorChecked(1)
	for _, h := range tconcMonitor(k) {
		h.Suite, h.Index = "tconc", idx
		o.Hit(h)
	}
}

func replayTConc(o *c.Out, k *TConcCase) {
	r := newTConcRun(k.Conf, k.T0)
	for _, op := range k.Ops {
		r.do(YOp{Kind: op.Kind, Method: op.Method, URL: op.URL, Vid: op.Vid, Status: op.Status,
			HdrKind: op.HdrKind, RAg: op.RAg, Call: op.Call, D: op.D})
	}
	r.finish()
	tconcRecord(o, r.k)
}

// ---------------------------------------------------------------- generators

// one OnResponse call whose clock readings are moved apart: gaps[i] = advance
// (in grid steps) before the call's i-th continuation.
func (r *tconcRun) response(m, u string, vid, status int, hdr string, rag int64, gaps []int64) int {
	r.do(YOp{Kind: "bresp", Method: m, URL: u, Vid: vid, Status: status, HdrKind: hdr, RAg: rag})
	id := len(r.k.Ops) - 1
	for i := 0; !r.calls[id].finished; i++ {
		if i < len(gaps) && gaps[i] != 0 {
			r.do(YOp{Kind: "adv", D: gaps[i] * G})
		}
		r.step(id)
	}
	return id
}

func (r *tconcRun) probeAt(t int64, m, u string, between int64) {
	if t >= r.now() {
		r.do(YOp{Kind: "adv", D: t - r.now()})
		r.request(m, u, between)
	}
}

// genTConcReadings: one response, its clock readings moved apart, probed
// around the provider's instant / the end of the retry-after period and
// around the entry's expiry; requests with the clock moving between their
// two readings.
func genTConcReadings(o *c.Out, t0 int64) {
	for _, ty := range []string{"absolute_epoch", "relative_seconds"} {
		abs := ty == "absolute_epoch"
		for _, gaps := range [][]int64{{0, 0, 0}, {0, 0, 2}, {0, 3, 0}, {1, 0, 0}, {1, 1, 1}, {2, 0, 3}} {
			for _, sub := range []int64{0, 100} { // sub-second part of the clock
				cf := ThrottleConf{Type: ty, Statuses: []int{429}}
				r := newTConcRun(cf, t0+sub*G)
				rag := int64(8)
				if abs {
					rag = r.now()/G + 8
				}
				id := r.response("GET", "a.com/x", 401, 429, "ok", rag, gaps)
				rd := r.k.Ops[finishers(r.k)[id]].Reads
				var limit, expiry int64 // where the replay must end; where the entry expires
				if abs {
					limit = rag * G
					expiry = limit
					if len(rd) == 4 {
						expiry = rd[3] + (limit - rd[2])
					}
				} else if len(rd) == 3 {
					limit = rd[1] + 8*G // CreationTime + retry-after
					expiry = rd[2] + 8*G
				}
				var ts []int64
				for _, e := range []int64{limit, expiry} {
					ts = append(ts, e-1, e, e+1)
				}
				ts = append(ts, limit-G, (limit+expiry)/2)
				sort.Slice(ts, func(i, j int) bool { return ts[i] < ts[j] })
				for _, t := range ts {
					r.probeAt(t, "GET", "a.com/x", 0)
					r.request("GET", "a.com/y", 0)
				}
				r.finish()
				tconcRecord(o, r.k)

				// the same store, requests whose two readings straddle the limit
				r = newTConcRun(cf, t0+sub*G)
				r.response("GET", "a.com/x", 401, 429, "ok", rag, gaps)
				r.probeAt(limit-2, "GET", "a.com/x", 1)
				r.probeAt(limit-1, "GET", "a.com/x", 1)
				r.probeAt(limit, "GET", "a.com/x", 1)
				r.probeAt(limit+1, "GET", "a.com/x", G)
				r.finish()
				tconcRecord(o, r.k)
			}
		}
	}
}

// genTConcSchedules: two (three) concurrent OnResponse calls, every order of
// their pieces, requests after every piece, then probes across the expiries.
func genTConcSchedules(o *c.Out, rng *c.Rng, t0 int64) {
	type call struct {
		m, u   string
		status int
		hdr    string
		dg     int64 // retry-after in grid steps (absolute: ahead of the clock at the begin)
		begin  int
	}
	run := func(ty string, calls []call, order []int, adv []int64) {
		cf := ThrottleConf{Type: ty, Statuses: []int{429, 503}}
		r := newTConcRun(cf, t0)
		abs := ty == "absolute_epoch"
		vid := 500
		probe := func() {
			r.request("GET", "a.com/x", 0)
			r.request("GET", "a.com/y", 0)
		}
		for i := range calls {
			calls[i].begin = -1
		}
		for ei, ci := range order {
			cl := &calls[ci]
			if cl.begin < 0 {
				vid++
				rag := cl.dg
				if abs {
					rag += r.now() / G
				}
				r.do(YOp{Kind: "bresp", Method: cl.m, URL: cl.u, Vid: vid, Status: cl.status, HdrKind: cl.hdr, RAg: rag})
				cl.begin = len(r.k.Ops) - 1
			} else if !r.calls[cl.begin].finished {
				r.step(cl.begin)
			}
			probe()
			if ei < len(adv) && adv[ei] != 0 {
				r.do(YOp{Kind: "adv", D: adv[ei] * G})
			}
		}
		r.completeCalls()
		var ts []int64
		fin := finishers(r.k)
		for i, op := range r.k.Ops {
			if op.Kind == "bresp" && op.HdrKind == "ok" {
				if f, ok := fin[i]; ok && r.k.Ops[f].Stored {
					rd := r.k.Ops[f].Reads
					e := op.RAg * G
					if !abs && len(rd) == 3 {
						ts = append(ts, rd[1]+e-1, rd[1]+e, rd[2]+e, rd[2]+e+1)
					} else if abs && len(rd) == 4 {
						ts = append(ts, e-1, e, e+1, rd[3]+e-rd[2], rd[3]+e-rd[2]+1)
					}
				}
			}
		}
		sort.Slice(ts, func(i, j int) bool { return ts[i] < ts[j] })
		for _, t := range ts {
			r.probeAt(t, "GET", "a.com/x", 0)
		}
		if due := r.pendingDue(); len(due) > 0 {
			r.do(YOp{Kind: "fire", Call: due[0]})
			r.request("GET", "a.com/x", 0)
		}
		r.finish()
		tconcRecord(o, r.k)
	}
	relOrders := eventOrders(2, 3) // begin, CreationTime->Set reading, locked section
	absOrders := eventOrders(2, 4) // begin, ->ttl reading, ->Set reading, locked section
	for oi, ord := range relOrders {
		adv := make([]int64, len(ord))
		for i := range adv {
			adv[i] = int64((i + oi) % 2)
		}
		run("relative_seconds", []call{{"GET", "a.com/x", 429, "ok", 6, -1}, {"GET", "a.com/x", 503, "ok", 4, -1}}, ord, adv)
		if o.Thorough() || oi%2 == 0 {
			run("relative_seconds", []call{{"GET", "a.com/x", 429, "ok", 6, -1}, {"GET", "a.com/y", 429, "garbage", 4, -1}}, ord, adv)
		}
	}
	for oi, ord := range absOrders {
		if !o.Thorough() && oi%3 != 0 {
			continue
		}
		adv := make([]int64, len(ord))
		for i := range adv {
			adv[i] = int64((i + oi) % 2)
		}
		run("absolute_epoch", []call{{"GET", "a.com/x", 429, "ok", 8, -1}, {"GET", "a.com/x", 503, "ok", 6, -1}}, ord, adv)
	}
	// random: 2-3 calls, relative / absolute / undefined, missing and malformed headers, irrelevant statuses
	for i := 0; i < o.Scale(100, 2000, 1200); i++ {
		ty := c.Pick(rng, []string{"relative_seconds", "relative_seconds", "absolute_epoch", "absolute_epoch", "undefined"})
		n := rng.Range(2, 3)
		calls := make([]call, n)
		for j := range calls {
			calls[j] = call{c.Pick(rng, []string{"GET", "GET", "POST"}), c.Pick(rng, []string{"a.com/x", "a.com/x", "a.com/y"}),
				c.Pick(rng, []int{429, 429, 503, 200}), c.Pick(rng, []string{"ok", "ok", "ok", "missing", "wrongcase", "garbage"}),
				c.Pick(rng, []int64{2, 4, 6, 0, -1}), -1}
		}
		ev := 4
		var ord []int
		left := make([]int, n)
		for j := range left {
			left[j] = ev
		}
		for len(ord) < ev*n {
			j := rng.Intn(n)
			if left[j] > 0 {
				left[j]--
				ord = append(ord, j)
			}
		}
		adv := make([]int64, len(ord))
		for j := range adv {
			adv[j] = c.Pick(rng, []int64{0, 0, 1, 1, 2})
		}
		run(ty, calls, ord, adv)
	}
}

// genTConcExpiryRace: an entry just past the end of its retry-after period
// whose sleeper has not run; 2-3 OnRequest calls are stopped inside Get's
// clock reading (after the map read); the sleeper's clearKey and a new
// OnResponse for the same key land before they go on; afterwards the key and
// a neighbouring key are probed: the new entry must still be there (the
// stopped look-ups hold the OLD entry; at HEAD they write nothing).
func genTConcExpiryRace(o *c.Out, t0 int64) {
	for _, ty := range []string{"relative_seconds", "absolute_epoch"} {
		abs := ty == "absolute_epoch"
		for nreq := 2; nreq <= 3; nreq++ {
			for fire := 0; fire < 3; fire++ { // sleeper: before the new store / after it / after the look-ups went on
				if !o.Thorough() && (nreq+fire)%2 == 1 && abs {
					continue
				}
				cf := ThrottleConf{Type: ty, Statuses: []int{429}}
				r := newTConcRun(cf, t0)
				rag := int64(4)
				if abs {
					rag += r.now() / G
				}
				first := r.response("GET", "a.com/x", 601, 429, "ok", rag, nil)
				r.request("GET", "a.com/x", 0)
				r.do(YOp{Kind: "adv", D: 4*G + 1}) // 1 ns past the expiry
				var reqs []int
				for i := 0; i < nreq; i++ {
					r.do(YOp{Kind: "breq", Method: "GET", URL: "a.com/x"})
					reqs = append(reqs, len(r.k.Ops)-1)
				}
				fireIt := func() {
					if _, ok := r.sleeper[first]; ok {
						r.do(YOp{Kind: "fire", Call: first})
					}
				}
				if fire == 0 {
					fireIt()
				}
				rag2 := int64(6)
				if abs {
					rag2 += (r.now() + G - 1) / G
				}
				r.response("GET", "a.com/x", 602, 429, "ok", rag2, nil)
				if fire == 1 {
					fireIt()
				}
				for _, id := range reqs {
					for !r.calls[id].finished {
						r.do(YOp{Kind: "step", Call: id})
					}
					r.request("GET", "a.com/x", 0)
				}
				if fire == 2 {
					fireIt()
				}
				r.request("GET", "a.com/x", 0)
				r.request("GET", "a.com/y", 0)
				r.finish()
				o.Count("tconc.expiry_race_cases")
				tconcRecord(o, r.k)
			}
		}
	}
}
