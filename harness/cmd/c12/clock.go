package main

import (
	"fmt"
	"runtime"
	"sync"
	"time"
)

// G is the time grid on which float64 seconds <-> nanoseconds conversions of
// the code under test are exact: 1/512 s.
const G = int64(1953125)
const sec = int64(1000000000)

// fclock is a deterministic clock.Clock: Now() is whatever the harness set;
// Sleep() registers the caller as a pending sleeper and blocks until the
// harness fires it. Now() can be armed to park its next caller (used to stop
// a Set between its clock reading and its locked section).
type fclock struct {
	mu       sync.Mutex
	now      int64
	sleepers []*sleeperRec // registration order
	armed    *parkPoint
}

type sleeperRec struct {
	due   int64
	ch    chan struct{}
	fired bool
}

type parkPoint struct {
	parked chan struct{}
	resume chan struct{}
	// late: the reading returned is the clock when the caller is RESUMED (the
	// harness may have moved it while the caller was stopped), not the clock
	// when it was stopped. Used for look-ups stopped between their map read
	// and their clock reading.
	late bool
}

func (f *fclock) Now() time.Time {
	f.mu.Lock()
	t := f.now
	p := f.armed
	f.armed = nil
	f.mu.Unlock()
	if p != nil {
		p.parked <- struct{}{}
		<-p.resume
		if p.late {
			f.mu.Lock()
			t = f.now
			f.mu.Unlock()
		}
	}
	return time.Unix(0, t)
}

func (f *fclock) Sleep(d time.Duration) {
	f.mu.Lock()
	r := &sleeperRec{due: f.now + int64(d), ch: make(chan struct{})}
	f.sleepers = append(f.sleepers, r)
	f.mu.Unlock()
	<-r.ch
}

func (f *fclock) After(d time.Duration) <-chan time.Time {
	ch := make(chan time.Time, 1)
	ch <- time.Unix(0, f.now+int64(d))
	return ch
}
func (f *fclock) Since(t time.Time) time.Duration { return f.Now().Sub(t) }
func (f *fclock) Until(t time.Time) time.Duration { return t.Sub(f.Now()) }

func (f *fclock) registered() int {
	f.mu.Lock()
	defer f.mu.Unlock()
	return len(f.sleepers)
}

func (f *fclock) set(t int64) {
	f.mu.Lock()
	f.now = t
	f.mu.Unlock()
}

func (f *fclock) arm() *parkPoint { return f.armWith(false) }

func (f *fclock) armWith(late bool) *parkPoint {
	p := &parkPoint{parked: make(chan struct{}), resume: make(chan struct{}), late: late}
	f.mu.Lock()
	f.armed = p
	f.mu.Unlock()
	return p
}

// world tracks the goroutines the harness expects to exist, so that it can
// wait (deterministically, without timers on the normal path) until the code
// under test has settled. The condition waited for is a plain quiescence
// condition that does not presuppose what the code does per Set:
//
//	every goroutine beyond the harness's own is a sleeper that has registered
//	with the clock (called Sleep) and has not been fired.
//
// A `go` statement counts in runtime.NumGoroutine at once, so after an
// operation of the code under test returned on the harness goroutine:
//   - a sleeper it started is visible immediately and the wait lasts until it
//     has registered (microseconds);
//   - if it started none (refused Set, or an implementation that starts no
//     sleeper for some entries) the condition holds at once and the harness
//     continues: "no sleeper registered" is an observation, not an error.
//
// Goroutines of the code under test that neither register nor exit within a
// bounded wait are adopted as "strays" (counted in the distribution) instead
// of stopping the run.
type world struct {
	clk     *fclock
	base    int // goroutines when nothing is pending
	reg     int // sleeper registrations acknowledged so far
	fired   int // registered sleepers the harness has released
	helpers int // harness goroutines that ran a concurrent Set (parked in Now() or waiting for the end of the case)
	strays  int // adopted goroutines of the code under test that never called Sleep
	release chan struct{}
}

var baseGoroutines int

// leakedStrays: goroutines of the code under test that outlived their case
// (never at HEAD); they are part of baseGoroutines until they end.
var leakedStrays int

// syncStats: how the synchronisation with the cache's goroutines went
// (reported as distribution counts "sync.*").
var syncStats = map[string]int{
	"sync.sleepers_registered":            0,
	"sync.set_ok_no_sleeper_registered":   0,
	"sync.set_refused_sleeper_registered": 0,
	"sync.extra_sleepers_registered":      0,
	"sync.goroutines_without_clock_sleep": 0,
	"sync.goroutines_left_at_end_of_case": 0,
	"sync.calls_blocked":                  0,
	"sync.snapshots_blocked":              0,
}

func newWorld(t0 int64) *world {
	return &world{clk: &fclock{now: t0}, base: baseGoroutines, release: make(chan struct{})}
}

// waitBound: how long a wait for quiescence may last. It is never reached on
// the normal path; once it was reached the later waits are kept short so that
// an implementation with non-sleeping goroutines cannot stall the run.
var waitBound = 3 * time.Second

// spin yields until cond holds; false when the bound was reached first.
func spin(cond func() bool) bool {
	var deadline time.Time
	for i := 0; !cond(); i++ {
		runtime.Gosched()
		if i%1000 == 999 {
			if deadline.IsZero() {
				deadline = time.Now().Add(waitBound)
			} else if time.Now().After(deadline) {
				return false
			}
			time.Sleep(50 * time.Microsecond)
		}
	}
	return true
}

// unaccounted = goroutines that are neither the harness's nor registered,
// unfired sleepers.
func (w *world) unaccounted() int {
	u := runtime.NumGoroutine() - w.base - w.helpers - (w.clk.registered() - w.fired)
	if u < 0 && leakedStrays > 0 {
		// goroutines adopted from earlier cases have ended since
		adj := -u
		if adj > leakedStrays {
			adj = leakedStrays
		}
		leakedStrays -= adj
		baseGoroutines -= adj
		w.base -= adj
		u += adj
	}
	return u
}

// quiesce waits until nothing is unaccounted for (strays already adopted may
// have gone in the meantime).
func (w *world) quiesce() {
	ok := spin(func() bool {
		u := w.unaccounted()
		if u >= 0 && u < w.strays {
			w.strays = u
		}
		return u == w.strays
	})
	if ok {
		return
	}
	u := w.unaccounted()
	if u < w.strays {
		// fewer goroutines than the harness itself owns: its own accounting is wrong
		panic(fmt.Sprintf("c12 harness: goroutine accounting broken (unaccounted %d, goroutines=%d)", u, runtime.NumGoroutine()))
	}
	syncStats["sync.goroutines_without_clock_sleep"] += u - w.strays
	w.strays = u
	waitBound = time.Millisecond
}

// settle is called after an operation of the code under test returned. It
// returns how many sleepers the operation started (normally 1 for a Set that
// stored, 0 otherwise), after they have registered with the clock. ok tells
// whether the operation reported success (Set returned nil), nil-able for
// plugin calls that swallow the error (stored: what the snapshot says).
func (w *world) settle(stored bool) int {
	w.quiesce()
	n := w.clk.registered() - w.reg
	w.reg += n
	syncStats["sync.sleepers_registered"] += n
	switch {
	case stored && n == 0:
		syncStats["sync.set_ok_no_sleeper_registered"]++
	case !stored && n > 0:
		syncStats["sync.set_refused_sleeper_registered"]++
	}
	if n > 1 {
		syncStats["sync.extra_sleepers_registered"] += n - 1
	}
	return n
}

// fire releases sleeper #idx (registration order) and waits until its
// goroutine has finished (or sleeps again).
func (w *world) fire(idx int) {
	w.clk.mu.Lock()
	s := w.clk.sleepers[idx]
	if s.fired {
		w.clk.mu.Unlock()
		panic("sleeper fired twice")
	}
	s.fired = true
	w.clk.mu.Unlock()
	close(s.ch)
	w.fired++
	w.quiesce()
}

func (w *world) due(idx int) int64 { return w.clk.sleepers[idx].due }

// helper registers a harness goroutine that stays alive until the end of the
// case (so that the goroutine count never depends on when it exits).
func (w *world) helper() <-chan struct{} {
	w.helpers++
	return w.release
}

// finish fires everything still pending so that no goroutine outlives the case.
func (w *world) finish() {
	for {
		w.quiesce()
		w.clk.mu.Lock()
		idx := -1
		for i, s := range w.clk.sleepers {
			if !s.fired {
				idx = i
				break
			}
		}
		w.clk.mu.Unlock()
		if idx < 0 {
			break
		}
		w.fire(idx)
	}
	close(w.release)
	w.helpers = 0
	w.quiesce()
	if w.strays > 0 {
		// adopted goroutines outlive the case: the next case starts from here
		syncStats["sync.goroutines_left_at_end_of_case"] += w.strays
		leakedStrays += w.strays
		baseGoroutines += w.strays
	}
}
