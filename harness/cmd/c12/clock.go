package main

import (
	"fmt"
	"runtime"
	"sync"
	"time"
)

// G is the time grid on which float64 seconds <-> nanoseconds conversions of
// the code under test are exact: 1/512 s.
const G = int64(1953125)
const sec = int64(1000000000)

// fclock is a deterministic clock.Clock: Now() is whatever the harness set;
// Sleep() registers the caller as a pending sleeper and blocks until the
// harness fires it. Now() can be armed to park its next caller (used to stop
// a Set between its clock reading and its locked section).
type fclock struct {
	mu       sync.Mutex
	now      int64
	sleepers []*sleeperRec // registration order
	armed    *parkPoint
}

type sleeperRec struct {
	due   int64
	ch    chan struct{}
	fired bool
}

type parkPoint struct {
	parked chan struct{}
	resume chan struct{}
}

func (f *fclock) Now() time.Time {
	f.mu.Lock()
	t := f.now
	p := f.armed
	f.armed = nil
	f.mu.Unlock()
	if p != nil {
		p.parked <- struct{}{}
		<-p.resume
	}
	return time.Unix(0, t)
}

func (f *fclock) Sleep(d time.Duration) {
	f.mu.Lock()
	r := &sleeperRec{due: f.now + int64(d), ch: make(chan struct{})}
	f.sleepers = append(f.sleepers, r)
	f.mu.Unlock()
	<-r.ch
}

func (f *fclock) After(d time.Duration) <-chan time.Time {
	ch := make(chan time.Time, 1)
	ch <- time.Unix(0, f.now+int64(d))
	return ch
}
func (f *fclock) Since(t time.Time) time.Duration { return f.Now().Sub(t) }
func (f *fclock) Until(t time.Time) time.Duration { return t.Sub(f.Now()) }

func (f *fclock) registered() int {
	f.mu.Lock()
	defer f.mu.Unlock()
	return len(f.sleepers)
}

func (f *fclock) set(t int64) {
	f.mu.Lock()
	f.now = t
	f.mu.Unlock()
}

func (f *fclock) arm() *parkPoint {
	p := &parkPoint{parked: make(chan struct{}), resume: make(chan struct{})}
	f.mu.Lock()
	f.armed = p
	f.mu.Unlock()
	return p
}

// world tracks the goroutines the harness expects to exist, so that it can
// wait (deterministically, without timers) until the code under test has
// settled: a started sleeper has registered, a fired one has finished clearKey.
type world struct {
	clk     *fclock
	base    int // goroutines when nothing is pending
	pending int // sleepers registered and not fired
	reg     int // sleepers registered so far
	parked  int // Set callers parked inside Now()
}

var baseGoroutines int

func newWorld(t0 int64) *world {
	return &world{clk: &fclock{now: t0}, base: baseGoroutines}
}

func spin(cond func() bool, what string) {
	deadline := time.Now().Add(20 * time.Second)
	for i := 0; !cond(); i++ {
		runtime.Gosched()
		if i%1000 == 999 {
			if time.Now().After(deadline) {
				panic("c12 harness: timed out waiting for " + what +
					fmt.Sprintf(" (goroutines=%d)", runtime.NumGoroutine()))
			}
			time.Sleep(50 * time.Microsecond)
		}
	}
}

// settle is called after an operation of the code under test returned.
// expect = number of sleepers the operation must have started (Set returned
// nil: 1, an error: 0), or -1 when unknown (plugin calls swallow the error);
// -1 is only used when no helper goroutine of the harness is exiting, so the
// goroutine count is exact at once (a `go` statement counts immediately).
// Returns the number started, after they have registered with the clock.
func (w *world) settle(expect int) int {
	if expect < 0 {
		expect = runtime.NumGoroutine() - w.base - w.parked - w.pending
		if expect < 0 || expect > 1 {
			panic(fmt.Sprintf("c12 harness: unexpected goroutine count (delta %d)", expect))
		}
	}
	want := w.reg + expect
	spin(func() bool {
		return w.clk.registered() == want &&
			runtime.NumGoroutine() == w.base+w.parked+w.pending+expect
	}, "sleeper registration")
	w.reg = want
	w.pending += expect
	return expect
}

// fire releases sleeper #idx (registration order) and waits until its
// goroutine (clearKey) has finished.
func (w *world) fire(idx int) {
	w.clk.mu.Lock()
	s := w.clk.sleepers[idx]
	if s.fired {
		w.clk.mu.Unlock()
		panic("sleeper fired twice")
	}
	s.fired = true
	w.clk.mu.Unlock()
	close(s.ch)
	w.pending--
	spin(func() bool { return runtime.NumGoroutine()-w.base-w.parked == w.pending }, "sleeper exit")
}

func (w *world) due(idx int) int64 { return w.clk.sleepers[idx].due }

// finish fires everything still pending so that no goroutine outlives the case.
func (w *world) finish() {
	for i, s := range w.clk.sleepers {
		if !s.fired {
			w.fire(i)
		}
	}
	spin(func() bool { return runtime.NumGoroutine() == w.base }, "quiescence at end of case")
}
