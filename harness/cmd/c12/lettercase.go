package main

// URLs that differ only in letter case (seed C12-12: key built from the
// lower-cased URL).
//
// The URL the plugins receive is "host/path" as the client wrote it. The
// property says "the same method, URL and selected path-parameter values".
//
//   - PATH: paths are case-sensitive (object keys, short-link ids, base64
//     tokens, file names): two URLs whose paths differ - in letter case only
//     or otherwise - are different URLs. A response stored for one must not be
//     replayed for the other: the existing wrong-key-hit monitors say exactly
//     that (sameURL below is string equality on the path).
//   - HOST: host names are case-insensitive, so "API.Example.com/x" and
//     "api.example.com/x" name the same resource; the property text does not
//     say whether they count as "the same URL". The monitors therefore claim
//     NOTHING about pairs that differ only in the letter case of the host:
//     replaying across them is no hit, not replaying is no hit (the property
//     never demands a replay). They are generated and counted as a class of
//     their own; the model (key = the URL string as given = the code at HEAD)
//     is still compared on them by the correspondence.
//
// Generators (suites caching and throttle):
//   - genCachingLetterCase: per class of call shape (how the engine would come
//     to call the plugin with two such URLs and EQUAL selected values) x both
//     orders x time-to-live x scenario: store for one URL, probe both, store
//     for the other, probe across the expiry of the first (-1/0/+1 ns), store
//     again after expiry; one entry / two entries of room.
//   - random histories of genCachingHistoryURLs / genThrottleHistoryURLs over
//     families of URLs differing only in letter case (path, host, both).

import (
	"strings"

	sharedConfig "lunar/shared-model/config"

	c "verifharness/common"
)

func splitHostPath(u string) (host, path string) {
	if i := strings.IndexByte(u, '/'); i >= 0 {
		return u[:i], u[i:]
	}
	return u, ""
}

func asciiLower(s string) string {
	b := []byte(s)
	for i, ch := range b {
		if ch >= 'A' && ch <= 'Z' {
			b[i] = ch + 'a' - 'A'
		}
	}
	return string(b)
}

// sameURL: what the monitors accept as "the same URL": equal paths (exactly)
// and hosts equal up to ASCII letter case.
func sameURL(a, b string) bool {
	if a == b {
		return true
	}
	ha, pa := splitHostPath(a)
	hb, pb := splitHostPath(b)
	return pa == pb && asciiLower(ha) == asciiLower(hb)
}

// urlCaseRelation of two URLs: "equal", "host-case" (differ only in the letter
// case of the host), "path-case" (hosts equal up to case, paths differ only in
// letter case), "other".
func urlCaseRelation(a, b string) string {
	if a == b {
		return "equal"
	}
	ha, pa := splitHostPath(a)
	hb, pb := splitHostPath(b)
	switch {
	case asciiLower(ha) != asciiLower(hb) || asciiLower(pa) != asciiLower(pb):
		return "other"
	case pa == pb:
		return "host-case"
	}
	return "path-case"
}

// letterCaseCounts: distribution of the letter-case dimension in a history of
// (kind, method, URL, selected valuation, stored/early) records.
type lcOp struct {
	kind, method, url, sel string
	stored, early          bool
	rvid, vid              int
}

func letterCaseCounts(o *c.Out, suite string, ops []lcOp) {
	pathSib, hostSib, hostReplay := 0, 0, 0
	for i, q := range ops {
		if q.kind != "req" {
			continue
		}
		ps, hs := false, false
		for j := 0; j < i; j++ {
			p := ops[j]
			if p.kind != "resp" || !p.stored || p.method != q.method || p.sel != q.sel {
				continue
			}
			switch urlCaseRelation(p.url, q.url) {
			case "path-case":
				ps = true
			case "host-case":
				hs = true
				if q.early && q.rvid == p.vid {
					hostReplay++
				}
			}
		}
		if ps {
			pathSib++
		}
		if hs {
			hostSib++
		}
	}
	o.CountN(suite+".lettercase.requests_after_a_store_for_a_URL_differing_only_in_PATH_letter_case(same method+selected values: its replay is forbidden)", pathSib)
	o.CountN(suite+".lettercase.requests_after_a_store_for_a_URL_differing_only_in_HOST_letter_case(no claim either way)", hostSib)
	o.CountN(suite+".lettercase.replays_across_HOST_letter_case(no claim either way)", hostReplay)
}

func cachingLetterCaseCounts(o *c.Out, k *CachingCase) {
	ops := make([]lcOp, 0, len(k.Ops))
	for _, p := range k.Ops {
		ops = append(ops, lcOp{p.Kind, p.Method, p.URL, selectedValuation(&k.Conf, p.Params), p.Stored, p.Early, p.RVid, p.Vid})
	}
	letterCaseCounts(o, "caching", ops)
}

func throttleLetterCaseCounts(o *c.Out, k *ThrottleCase) {
	ops := make([]lcOp, 0, len(k.Ops))
	for _, p := range k.Ops {
		ops = append(ops, lcOp{p.Kind, p.Method, p.URL, "", p.Stored, p.Early, p.RVid, p.Vid})
	}
	letterCaseCounts(o, "throttle", ops)
}

type letterCaseClass struct {
	name   string
	paths  []PPath
	pa, pb map[string]string // path parameters of the two calls (selected values are equal)
	ua, ub string
}

// The classes: how the plugin comes to be called with two URLs that differ
// only in letter case while the selected path-parameter values are equal.
var letterCaseClasses = []letterCaseClass{
	// global remedy / exact endpoint: no path parameters at all
	{"path:global-remedy-last-segment", nil, nil, nil,
		"files.example.com/download/aGVsbG8Q", "files.example.com/download/aGVsbG8q"},
	{"path:exact-endpoint-first-segment", []PPath{}, map[string]string{}, map[string]string{},
		"a.com/Users/list", "a.com/users/list"},
	{"path:middle-segment", []PPath{}, map[string]string{}, map[string]string{},
		"a.com/v1/Items/7", "a.com/v1/items/7"},
	{"path:one-letter", []PPath{}, map[string]string{}, map[string]string{},
		"a.com/x", "a.com/X"},
	// wildcard endpoint a.com/dl/*: no path parameters, the difference is under the wildcard
	{"path:wildcard-endpoint", []PPath{}, map[string]string{}, map[string]string{},
		"a.com/dl/Report.PDF", "a.com/dl/report.pdf"},
	// a.com/orgs/{org}/objects/*: org selected and equal, the difference under the wildcard
	{"path:equal-selected-param+wildcard", []PPath{{ppType, "org"}},
		map[string]string{"org": "42"}, map[string]string{"org": "42"},
		"a.com/orgs/42/objects/Report.PDF", "a.com/orgs/42/objects/report.pdf"},
	{"path:two-equal-selected-params+wildcard", []PPath{{ppType, "id"}, {ppType, "org"}},
		map[string]string{"id": "1", "org": "7"}, map[string]string{"id": "1", "org": "7"},
		"a.com/o/7/i/1/f/Ab", "a.com/o/7/i/1/f/aB"},
	// a path parameter exists and differs in letter case but is NOT selected
	// (payload path of another type): selected values are equal (org)
	{"path:unselected-param-differs", []PPath{{sharedConfig.ResponseHeadersPayload, "id"}, {ppType, "org"}},
		map[string]string{"id": "Ab", "org": "7"}, map[string]string{"id": "aB", "org": "7"},
		"a.com/o/7/i/Ab", "a.com/o/7/i/aB"},
	// control: the differing segment IS the selected parameter (keys differ by the third component too)
	{"path:selected-param-differs(control)", []PPath{{ppType, "id"}},
		map[string]string{"id": "Ab"}, map[string]string{"id": "aB"},
		"a.com/i/Ab", "a.com/i/aB"},
	// host and path both differ in letter case: different paths, so different URLs
	{"host+path", []PPath{}, map[string]string{}, map[string]string{},
		"API.Example.com/Files/a", "api.example.com/files/a"},
	// host only: a class of its own, nothing is claimed about it
	{"host:no-params", []PPath{}, map[string]string{}, map[string]string{},
		"API.Example.com/x", "api.example.com/x"},
	{"host:equal-selected-param", []PPath{{ppType, "org"}},
		map[string]string{"org": "42"}, map[string]string{"org": "42"},
		"A.com/orgs/42/x", "a.com/orgs/42/x"},
}

func genCachingLetterCase(o *c.Out, rng *c.Rng, t0 int64) {
	for _, cl := range letterCaseClasses {
		for order := 0; order < 2; order++ {
			ua, ub, pa, pb := cl.ua, cl.ub, cl.pa, cl.pb
			if order == 1 {
				ua, ub, pa, pb = ub, ua, pb, pa
			}
			one := entryBytes("GET", ua, 401, 30)
			for _, ttlG := range []int64{2, 512} {
				for scen := 0; scen < 3; scen++ {
					cf := CachingConf{Paths: cl.paths, TTLg: ttlG, MaxRec: 1000, MaxBytes: 1 << 20}
					if scen == 2 {
						cf.MaxBytes = one + one/2 // room for one entry only
					}
					r := newCachingRun(cf, t0+int64(order))
					ttl := cf.ttl()
					probe := func() {
						r.do(POp{Kind: "req", Method: "GET", URL: ua, Params: pa})
						r.do(POp{Kind: "req", Method: "GET", URL: ub, Params: pb})
					}
					fire := func(sid int) {
						if _, ok := r.sleeper[sid]; ok {
							r.do(POp{Kind: "fire", Sid: sid})
						}
					}
					probe() // nothing stored yet
					r.do(POp{Kind: "resp", Method: "GET", URL: ua, Params: pa, Vid: 401, Status: 200, BodyLen: 30})
					first, tA := len(r.k.Ops)-1, r.now()
					probe() // ua replayed, ub: nothing was stored for it
					switch scen {
					case 0, 2: // the other URL gets its own response 1 ns later
						r.do(POp{Kind: "adv", D: 1})
						r.do(POp{Kind: "resp", Method: "GET", URL: ub, Params: pb, Vid: 402, Status: 200, BodyLen: 30})
						second := len(r.k.Ops) - 1
						probe()
						r.do(POp{Kind: "req", Method: "POST", URL: ub, Params: pb})
						r.do(POp{Kind: "adv", D: tA + ttl - 1 - r.now()})
						probe() // expiry of the first - 1 ns
						r.do(POp{Kind: "adv", D: 1})
						probe() // at its expiry
						r.do(POp{Kind: "adv", D: 1})
						probe() // past it: the second (stored 1 ns later) is at its own expiry
						fire(first)
						probe()
						r.do(POp{Kind: "adv", D: 1})
						probe() // both past
						r.do(POp{Kind: "resp", Method: "GET", URL: ua, Params: pa, Vid: 403, Status: 200, BodyLen: 30})
						probe() // ua replayed again; ub not
						fire(second)
						probe()
					case 1: // only one URL ever gets a response; the other is probed around its expiry
						r.do(POp{Kind: "adv", D: ttl - 1})
						probe()
						r.do(POp{Kind: "adv", D: 1})
						probe()
						r.do(POp{Kind: "adv", D: 1})
						probe()
						fire(first)
						r.do(POp{Kind: "resp", Method: "GET", URL: ub, Params: pb, Vid: 402, Status: 404, BodyLen: 8})
						probe() // now ub is replayed, ua is not
						r.do(POp{Kind: "resp", Method: "POST", URL: ua, Params: pa, Vid: 403, Status: 200, BodyLen: 30})
						probe()
						r.do(POp{Kind: "req", Method: "POST", URL: ub, Params: pb})
					}
					r.finish()
					o.Count("caching.lettercase.class=" + cl.name)
					cachingRecord(o, r.k)
				}
			}
		}
	}
	// random histories over families of URLs differing only in letter case
	families := [][]string{
		{"a.com/dl/Ab", "a.com/dl/aB", "a.com/dl/ab"},          // path only
		{"a.com/x", "a.com/X", "a.com/x/"},                     // path only, next to a real near miss
		{"A.com/x", "a.com/x", "a.com/X"},                      // host, path
		{"API.a.com/v1/k", "api.a.com/v1/k", "Api.A.com/v1/k"}, // host only
	}
	for i := 0; i < o.Scale(200, 4000, 3000); i++ {
		f := families[i%len(families)]
		o.Count("caching.lettercase.random_histories")
		genCachingHistoryURLs(o, rng, t0, f)
	}
}

func genThrottleLetterCase(o *c.Out, rng *c.Rng, t0 int64) {
	families := [][]string{
		{"a.com/dl/Ab", "a.com/dl/aB"},
		{"a.com/x", "a.com/X"},
		{"A.com/x", "a.com/x"},
		{"API.a.com/K", "api.a.com/k"},
	}
	for i := 0; i < o.Scale(120, 2400, 2000); i++ {
		o.Count("throttle.lettercase.random_histories")
		genThrottleHistoryURLs(o, rng, t0, families[i%len(families)])
	}
}

// genCConcLetterCase (suite cconc): two concurrent OnResponse calls on one
// plugin instance for URLs that differ only in letter case, the selected
// path-parameter values being equal: one configuration without path
// parameters (global remedy / wildcard endpoint), two configurations that
// select the same parameter (two policies, different ttl) with the difference
// under the wildcard, and a host-case pair (no monitor claim). Every order of
// the calls' pieces (every second one in the quick tier); requests for both
// URLs after every event and across the expiries.
func genCConcLetterCase(o *c.Out, t0 int64) {
	none := map[string]string{}
	org := map[string]string{"org": "7"}
	cfGlobal := CachingConf{Paths: []PPath{}, TTLg: 2, MaxRec: 40, MaxBytes: 1 << 20}
	cfOrgA := CachingConf{Paths: []PPath{{ppType, "org"}}, TTLg: 2, MaxRec: 40, MaxBytes: 1 << 20}
	cfOrgB := CachingConf{Paths: []PPath{{ppType, "org"}}, TTLg: 4, MaxRec: 40, MaxBytes: 1 << 20}
	type batch struct {
		name   string
		cfs    []CachingConf
		c0, c1 int
		p      map[string]string
		ua, ub string
	}
	batches := []batch{
		{"path:no-params", []CachingConf{cfGlobal}, 0, 0, none, "a.com/dl/Ab", "a.com/dl/aB"},
		{"path:two-policies-equal-selected-param", []CachingConf{cfOrgA, cfOrgB}, 0, 1, org, "a.com/o/7/f/Ab", "a.com/o/7/f/aB"},
		{"host:no-params", []CachingConf{cfGlobal}, 0, 0, none, "A.com/x", "a.com/x"},
	}
	for oi, ord := range eventOrders(2, 3) {
		if !o.Thorough() && oi%2 == 1 {
			continue
		}
		for _, b := range batches {
			adv := make([]int64, len(ord))
			for i := range adv {
				adv[i] = int64((i+oi)%2) * G
			}
			calls := []cconcCall{{b.c0, "GET", b.ua, b.p, 30, -1}, {b.c1, "GET", b.ub, b.p, 30, -1}}
			if oi%4 >= 2 {
				calls[0], calls[1] = calls[1], calls[0]
			}
			probes := []cconcCall{{conf: b.c0, method: "GET", url: b.ua, params: b.p}, {conf: b.c1, method: "GET", url: b.ub, params: b.p}}
			if b.c0 != b.c1 {
				probes = append(probes, cconcCall{conf: b.c1, method: "GET", url: b.ua, params: b.p})
			}
			o.Count("cconc.lettercase.class=" + b.name)
			runCConcSchedule(o, b.cfs, t0, calls, ord, adv, probes)
		}
	}
}
