// C12 harness: stored responses are replayed only for the same key and only
// while fresh; the cache never holds more than its configured size.
//
// Drives the real utils.MemoryCache, remedies.CachingPlugin and
// remedies.ResponseBasedThrottlingPlugin with a deterministic clock.Clock
// (clock.go): the harness decides what Now() returns, when each sleeper
// goroutine started by Set wakes up (if the Set started one: that is observed,
// not assumed), and can stop a Set between its clock
// reading and its locked section to execute a chosen interleaving of
// concurrent Sets on real goroutines.
package main

import (
	"encoding/json"
	"os"
	"runtime"

	"github.com/rs/zerolog"

	c "verifharness/common"
)

func main() {
	zerolog.SetGlobalLevel(zerolog.Disabled)
	o := c.NewOut("C12")
	o.ShardSize = 100 // more, smaller case files: they are evaluated in parallel
	o.DeclareSuite("cache", "From Verif Require Import C12.Model.", "case_cache", "run_cache")
	o.DeclareSuite("sched", "From Verif Require Import C12.Model.", "case_cache", "run_cache")
	o.DeclareSuite("caching", "From Verif Require Import C12.Model.", "case_caching", "run_caching")
	o.DeclareSuite("throttle", "From Verif Require Import C12.Model.", "case_throttle", "run_throttle")
	o.DeclareSuite("cconc", "From Verif Require Import C12.Model C12.ModelConc C12.ModelLook.", "case_clook", "run_clook")
	o.DeclareSuite("tconc", "From Verif Require Import C12.Model C12.ModelConc.", "case_tconc", "run_tconc")
	o.Rule("cache: histories of Set/Get/Has/Del/sleeper-fire on MemoryCache over 3 keys, clock moved to " +
		"expiry-1/expiry/expiry+1 ns of stored entries, re-store at the expiry boundary with the old sleeper " +
		"pending and fired before/after, sizes around the limit, every firing order of up to 3 sleepers; " +
		"sched: every interleaving of (clock reading | locked section) of 2-3 concurrent Sets around the size limit " +
		"on real goroutines, plus random ones of up to 4; caching / throttle: OnRequest/OnResponse histories of the " +
		"two plugins over 2 methods x 3 URLs x path-parameter valuations (near-miss keys), relative and absolute " +
		"retry-after, missing/malformed headers, irrelevant statuses, the same clock aiming. " +
		"all three levels: time-to-live zero and negative (cache: 0, -1 ns, one grid step, 1 s, 1 h, down to an expiry instant of exactly 0 " +
		"and below; caching: ttl_seconds 0 / negative; throttle: absolute epoch equal to now, 1 ns, 1 s, 1 h in the past, epoch 0 and 1, relative <= 0), " +
		"each probed at +0, +1 ns, +1 s, +1 h, followed by a second store of the same key (sleeper of the dead entry fired never/before/after). " +
		"cconc/tconc: concurrent plugin calls stopped in every clock reading; cconc also: an entry 1 ns past its time-to-live (or exactly at it, the clock " +
		"moving on meanwhile) with its sleeper pending, 1-3 look-ups of its key (Get of OnRequest, Has of OnResponse) stopped between their map read and " +
		"their clock reading, the sleeper fired before / between / after them, every reader set x firing point, both resume orders; then a fill phase " +
		"(equal-size responses for fresh keys, maximum = 2 or 2.5 entries) and a sweep (one request per key at one instant) whose replayed content is added up by the monitor. " +
		"letter case (caching, throttle): pairs of URLs differing only in the letter case of a PATH segment (global remedy, exact endpoint, wildcard endpoint, " +
		"equal selected path parameters with the difference under a wildcard, an unselected parameter differing) in both orders, probed across the expiry of the first, " +
		"plus random histories over such families; pairs differing only in the letter case of the HOST are a separate class the monitors claim nothing about (counted). " +
		"distinct = distinct (configuration, history, observed results); non-trivial = contains a replay and a " +
		"probe at an expiry boundary, a size refusal or a stale sleeper firing")
	runtime.Gosched()
	baseGoroutines = runtime.NumGoroutine()

	if o.Replay != "" {
		raw, err := os.ReadFile(o.Replay)
		if err != nil {
			panic(err)
		}
		var r struct {
			Suite string          `json:"suite"`
			Case  json.RawMessage `json:"case"`
		}
		if err := json.Unmarshal(raw, &r); err != nil {
			panic(err)
		}
		switch r.Suite {
		case "cache", "sched":
			var k CacheCase
			must(json.Unmarshal(r.Case, &k))
			replayCache(o, r.Suite, &k)
		case "caching":
			var k CachingCase
			must(json.Unmarshal(r.Case, &k))
			replayCaching(o, &k)
		case "throttle":
			var k ThrottleCase
			must(json.Unmarshal(r.Case, &k))
			replayThrottle(o, &k)
		case "cconc":
			var k CConcCase
			must(json.Unmarshal(r.Case, &k))
			replayCConc(o, &k)
		case "tconc":
			var k TConcCase
			must(json.Unmarshal(r.Case, &k))
			replayTConc(o, &k)
		default:
			panic("replay file without a known suite: " + r.Suite)
		}
		reportSync(o)
		o.Finish()
		return
	}

	t0 := int64(1000000) * sec
	rc, rs, rp, rt := o.Rng.Fork(1), o.Rng.Fork(2), o.Rng.Fork(3), o.Rng.Fork(4)
	rcc, rtc := o.Rng.Fork(5), o.Rng.Fork(6)

	genRestoreScenarios(o, t0)
	genFireOrders(o, t0)
	genNonPositiveTTL(o, t0)
	for i := 0; i < o.Scale(500, 12000, 8000); i++ {
		genCacheHistory(o, rc, t0)
	}
	genSchedules(o, rs, t0)
	genCachingNonPositiveTTL(o, t0)
	for i := 0; i < o.Scale(500, 10000, 6000); i++ {
		genCachingHistory(o, rp, t0)
	}
	genThrottleNonPositiveTTL(o, t0)
	for i := 0; i < o.Scale(600, 12000, 8000); i++ {
		genThrottleHistory(o, rt, t0)
	}
	genJoinAmbiguity(o, t0)
	genCachingLetterCase(o, o.Rng.Fork(8), t0)
	genThrottleLetterCase(o, o.Rng.Fork(9), t0)
	genCConcLetterCase(o, t0)
	genCConc(o, rcc, t0)
	genCConcExpiryRace(o, t0)
	genCConcLookRandom(o, o.Rng.Fork(7), t0)
	genTConcReadings(o, t0)
	genTConcSchedules(o, rtc, t0)
	genTConcExpiryRace(o, t0)
	reportSync(o)
	o.Finish()
}

func reportSync(o *c.Out) {
	for k, v := range syncStats {
		o.CountN(k, v)
	}
}

func must(err error) {
	if err != nil {
		panic(err)
	}
}
