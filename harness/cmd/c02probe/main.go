package main

import (
	"fmt"
	"os"
	"path/filepath"
	"time"

	"lunar/engine/actions"
	lunar_messages "lunar/engine/messages"
	"lunar/engine/streams"
	stream_config "lunar/engine/streams/config"
	lunar_context "lunar/engine/streams/lunar-context"
	publictypes "lunar/engine/streams/public-types"
	stream_types "lunar/engine/streams/types"
	"lunar/engine/utils/environment"
	"lunar/engine/verifhook"
	context_manager "lunar/toolkit-core/context-manager"

	"github.com/rs/zerolog"
)

const quotas = `quotas:
  - id: Q1
    filter:
      url: "a.com/*"
    strategy:
      concurrent:
        max_request_count: 2
        request_expiration_sec: 5
        gc_interval_sec: 3
  - id: Q2
    filter:
      url: "a.com/*"
    strategy:
      concurrent:
        max_request_count: 1
        request_expiration_sec: 4
        gc_interval_sec: 3
`
const flow = `name: f1
filter:
  url: "a.com/*"
processors:
  lim:
    processor: Limiter
    parameters:
      - key: quota_id
        value: Q1
  lim2:
    processor: Limiter
    parameters:
      - key: quota_id
        value: Q2
  gen:
    processor: GenerateResponse
    parameters:
      - key: status
        value: 429
flow:
  request:
    - from:
        stream:
          name: globalStream
          at: start
      to:
        processor:
          name: lim
    - from:
        processor:
          name: lim
          condition: above_limit
      to:
        processor:
          name: gen
    - from:
        processor:
          name: lim
          condition: below_limit
      to:
        processor:
          name: lim2
    - from:
        processor:
          name: lim2
          condition: above_limit
      to:
        processor:
          name: gen
    - from:
        processor:
          name: lim2
          condition: below_limit
      to:
        stream:
          name: globalStream
          at: end
  response:
    - from:
        processor:
          name: gen
      to:
        stream:
          name: globalStream
          at: end
    - from:
        stream:
          name: globalStream
          at: start
      to:
        stream:
          name: globalStream
          at: end
`

var shared = lunar_context.NewMemoryState[[]byte]()

func main() {
	zerolog.SetGlobalLevel(zerolog.Disabled)
	repo := os.Getenv("VERIF_REPO")
	if repo == "" {
		repo = "/repo"
	}
	environment.SetProcessorsDirectory(filepath.Join(repo, "proxy/src/services/lunar-engine/streams/processors/registry"))
	cm := context_manager.Get().SetMockClock()
	clk := cm.GetMockClock()
	verifhook.SetEvent(func(kind string, args ...string) { fmt.Println("   ev", kind, args) })
	cwd, _ := os.Getwd()
	base := filepath.Join(cwd, "cfg")
	os.RemoveAll(base)
	for _, d := range []string{"flows", "quotas", "pp"} {
		os.MkdirAll(filepath.Join(base, d), 0o755)
	}
	os.WriteFile(filepath.Join(base, "quotas", "q.yaml"), []byte(quotas), 0o644)
	os.WriteFile(filepath.Join(base, "flows", "f.yaml"), []byte(flow), 0o644)
	environment.SetStreamsFlowsDirectory(filepath.Join(base, "flows"))
	environment.SetQuotasDirectory(filepath.Join(base, "quotas"))
	environment.SetPathParamsDirectory(filepath.Join(base, "pp"))
	st, err := streams.NewStream()
	if err != nil {
		panic(err)
	}
	if err := st.Initialize(); err != nil {
		panic(err)
	}
	req := func(id string) {
		api := stream_types.NewRequestAPIStream(lunar_messages.OnRequest{ID: id, SequenceID: id, Method: "GET", Scheme: "https", URL: "a.com/x", Headers: map[string]string{}}, shared)
		acts := &stream_config.StreamActions{Request: &stream_config.RequestStream{}}
		err := st.ExecuteFlow(api, acts)
		early := false
		for _, a := range acts.Request.Actions {
			if _, ok := a.(*actions.EarlyResponseAction); ok {
				early = true
			}
		}
		fmt.Println("req", id, "err", err, "early", early)
	}
	resp := func(id string) {
		api := stream_types.NewResponseAPIStream(lunar_messages.OnResponse{ID: id, SequenceID: id, Method: "GET", URL: "a.com/x", Status: 200, Headers: map[string]string{}}, shared)
		acts := &stream_config.StreamActions{Response: &stream_config.ResponseStream{}}
		err := st.ExecuteFlow(api, acts)
		fmt.Println("resp", id, "err", err)
	}
	var _ publictypes.APIStreamI
	_ = clk
	_ = time.Second
	req("a")
	resp("a")
	req("b")
	resp("b")
	req("c")
	resp("c")
	req("d")
}
