package main

import (
	"fmt"
	"os"
	"path/filepath"
	"time"

	"lunar/engine/streams/resources"
	lunar_messages "lunar/engine/messages"
	lunar_context "lunar/engine/streams/lunar-context"
	stream_types "lunar/engine/streams/types"
	"lunar/engine/utils/environment"
	context_manager "lunar/toolkit-core/context-manager"

	"github.com/rs/zerolog"
)

const quotas = `quotas:
  - id: q0
    filter:
      url: "a.com/*"
    strategy:
      concurrent:
        max_request_count: 2
        request_expiration_sec: 5
        gc_interval_sec: 3
`

var shared = lunar_context.NewMemoryState[[]byte]()

func main() {
	zerolog.SetGlobalLevel(zerolog.Disabled)
	cwd, _ := os.Getwd()
	base := filepath.Join(cwd, "cfg")
	for i := 0; i < 5; i++ {
		t0 := time.Now()
		os.RemoveAll(base)
		for _, d := range []string{"flows", "quotas", "pp"} {
			os.MkdirAll(filepath.Join(base, d), 0o755)
		}
		os.WriteFile(filepath.Join(base, "quotas", "q.yaml"), []byte(quotas), 0o644)
		environment.SetQuotasDirectory(filepath.Join(base, "quotas"))
		environment.SetPathParamsDirectory(filepath.Join(base, "pp"))
		t1 := time.Now()
		context_manager.Get().SetMockClock()
		t2 := time.Now()
		_, err := resources.NewResourceManagement()
		t3 := time.Now()
		t4 := time.Now()
		for j := 0; j < 10; j++ {
			stream_types.NewRequestAPIStream(lunar_messages.OnRequest{ID: "a", SequenceID: "a", Method: "GET", Scheme: "https", URL: "h0.com/x", Headers: map[string]string{}}, shared)
		}
		fmt.Println("10 streams", time.Since(t4))
		fmt.Println(err, "files", t1.Sub(t0), "clock", t2.Sub(t1), "rm", t3.Sub(t2))
	}
}
