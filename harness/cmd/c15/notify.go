// Suite "notify": the engine-notification step of discovery.Run
// (theories/C15/Notify.v).
//
// With ENGINE_ADMIN_PORT set (engine.go), Run reports the transactions HAProxy
// answered itself (non-internal records with a status of
// shareddiscovery.HaproxyInternalErrors) to the engine's admin port BEFORE it
// aggregates the batch.  The harness plays that port and decides, flush by
// flush, what becomes of the report: answered 200 / 404 / 500, connection
// refused (nothing listening), connection closed after the request was read,
// connection reset.  Streams contain such records; batchings, restarts and
// failing state-file writes are those of suite "faults", whose execution
// (executeFaults), observations (error class of Run, in-memory aggregation,
// state file through the harness' own reader — after EVERY flush) and ledger
// monitor are reused: the ledgers never look at the outcome of a report, so
// "conservation is unchanged by notification outcomes" is what they check.
package main

import (
	"fmt"
	"sort"
	"strings"

	c "verifharness/common"
)

// exactly the records of the flushes whose report to the engine met a
// transport failure are missing from the statistics
const sigNotifyDrop = "lost-traffic:notification-failure-drops-batch"

// HAProxy-internal statuses, as documented for the on_haproxy_error report (the
// harness' own copy: it decides which streams are interesting and what the
// listener should have seen, not what the statistics must be)
var haproxyInternal = map[int]bool{400: true, 403: true, 408: true, 409: true, 413: true, 417: true,
	500: true, 502: true, 503: true, 504: true}

func reportable(r Rec) bool { return !r.Internal && haproxyInternal[r.Status] }

var notifyStats = map[string]int{}

// observeEngine records what reached the admin port during the flush.
func observeEngine(fo *FlushObs, due []string) {
	contacts, late := eng.end(len(due) > 0)
	fo.Contacts, fo.ContactLate = contacts, late
	switch {
	case fo.Engine == engRefuse:
		fo.Contacted = 2
	case len(contacts) > 0:
		fo.Contacted = 1
	}
	var notes []string
	if late {
		notes = append(notes, "the report arrived after Run had returned")
	}
	if len(contacts) > 1 {
		notes = append(notes, fmt.Sprintf("%d connections during one flush", len(contacts)))
	}
	for _, ct := range contacts {
		if ct.Note != "" {
			if fo.Engine != engReset {
				notes = append(notes, ct.Note)
			}
			continue
		}
		if ct.Method != "PUT" || ct.Path != "/on_haproxy_error" {
			notes = append(notes, "unexpected request "+ct.Method+" "+ct.Path)
		}
		want := append([]string{}, due...)
		sort.Strings(want)
		if strings.Join(ct.IDs, ",") != strings.Join(want, ",") {
			notes = append(notes, fmt.Sprintf("reported %v, the batch holds %v", ct.IDs, want))
			notifyStats["notify:payload-differs"]++
		} else {
			notifyStats["notify:payload-as-expected"]++
		}
	}
	if len(contacts) > 0 && len(due) == 0 {
		notes = append(notes, "contacted although the batch holds no failed transaction")
	}
	fo.ContactNotes = strings.Join(notes, "; ")
}

// ---------------------------------------------------------------- Coq rendering (wire format of Notify.v, pncase)

func coqNotify(k *FaultCase) string {
	e := &encoder{}
	recs := []int64{int64(len(k.Records))}
	for _, r := range k.Records {
		recs = append(recs, e.s(r.Method), e.s(r.URL), encStatus(r.Status), int64(r.Dur), int64(r.TDur), r.TS,
			e.s(r.Cons), e.s(r.Icpt), b2i(r.Internal))
	}
	runs := []int64{int64(len(k.Runs))}
	for _, r := range k.Runs {
		prev := 0
		bounds := append(append([]int{}, r.Cuts...), len(k.Records))
		runs = append(runs, int64(len(r.Flushes)))
		for i, f := range r.Flushes {
			runs = append(runs, int64(bounds[i]-prev), b2i(f.Restarted), b2i(f.Converged),
				e.table(f.RekeyE), e.table(f.RekeyC), e.table(f.ExtractE), e.table(f.ExtractC),
				b2i(f.Fault != 0), int64(f.Err), e.final(f.Mem), e.final(f.Disk),
				1 /* ENGINE_ADMIN_PORT is set */, int64(engineClass(f.Engine)), int64(f.Contacted))
			prev = bounds[i]
		}
	}
	var out []int64
	out = e.strs.flat(out)
	out = e.tbls.flat(out)
	out = e.aggs.flat(out)
	out = e.fins.flat(out)
	out = append(out, recs...)
	out = append(out, runs...)
	it := make([]string, len(out))
	for i, v := range out {
		if v < 0 {
			panic("negative number in a case")
		}
		it[i] = fmt.Sprintf("%d", v)
	}
	return "(" + c.List(it) + ")%uint63"
}

// ---------------------------------------------------------------- generator

var notifyStatuses = []int{200, 200, 201, 404, 401, 499, 501, 505, 302,
	400, 403, 408, 409, 413, 417, 500, 502, 503, 504, 503, 502,
	-1, 0, 99, 600, 999} // the last five: not HTTP status codes (HAProxy's placeholder -1 ...)

var engineModes = []int{engUp, engNotFound, engRefuse, engHangUp, engError, engReset}

// the demonstration of the regression: ordinary traffic with one transaction
// HAProxy answered itself per batch; the engine is up, then down, then up again
func notifyCorpus() []FaultCase {
	rec := func(m, u string, st int, ts int64, dur int, cons string) Rec {
		return Rec{Method: m, URL: u, Status: st, Dur: dur, TDur: dur + 2, TS: t0 + ts, Cons: cons,
			Icpt: "lunar-py-interceptor/1.2.3"}
	}
	recs := []Rec{
		rec("GET", "api.com/orders", 200, 1000, 10, "shop"), rec("GET", "api.com/orders", 503, 2000, 1, "shop"),
		rec("POST", "api.com/orders", 201, 3000, 30, "shop"),
		rec("GET", "api.com/orders", 200, 4000, 20, "shop"), rec("GET", "api.com/orders", 502, 5000, 2, "mobile"),
		rec("GET", "api.com/stock", 200, 6000, 40, "mobile"),
		rec("GET", "api.com/stock", 200, 7000, 50, "shop"), rec("GET", "api.com/orders", 404, 8000, 15, "shop"),
	}
	cuts := []int{3, 6}
	no := []bool{false, false}
	var runs []FaultRun
	for _, m := range engineModes {
		runs = append(runs, FaultRun{Cuts: cuts, Restart: no, Fail: []int{0, 0, 0}, Engine: []int{engUp, m, engUp}})
	}
	runs = append(runs,
		FaultRun{Cuts: cuts, Restart: []bool{false, true}, Fail: []int{0, 0, 0}, Engine: []int{engUp, engRefuse, engUp}},
		FaultRun{Cuts: []int{3, 6, 8}, Restart: []bool{false, false, true}, Fail: []int{0, 0, 0, 0},
			Engine: []int{engUp, engHangUp, engUp, engUp}},
		FaultRun{Cuts: cuts, Restart: no, Fail: []int{0, 0, 0}, Engine: []int{engRefuse, engRefuse, engRefuse}},
		FaultRun{Cuts: cuts, Restart: no, Fail: []int{0, 1, 0}, Engine: []int{engUp, engRefuse, engUp}},
		FaultRun{Cuts: cuts, Restart: []bool{true, true}, Fail: []int{2, 0, 1}, Engine: []int{engReset, engNotFound, engRefuse}},
		// the connection fails in the flush that has nothing to report
		FaultRun{Cuts: cuts, Restart: no, Fail: []int{0, 0, 0}, Engine: []int{engUp, engUp, engRefuse}},
	)
	// an internal record with an HAProxy-internal status is not a failed transaction
	only := []Rec{rec("GET", "api.com/orders", 200, 1000, 10, "shop"),
		{Method: "GET", URL: "api.com/health", Status: 503, Dur: 1, TDur: 2, TS: t0 + 1500, Internal: true},
		rec("GET", "api.com/orders", 404, 2000, 10, "shop"), rec("GET", "api.com/orders", 504, 3000, 10, "")}
	return []FaultCase{
		{Threshold: 50, Records: recs, Runs: runs},
		{Threshold: 50, Records: only, Runs: []FaultRun{
			{Cuts: []int{3}, Restart: []bool{false}, Fail: []int{0, 0}, Engine: []int{engRefuse, engRefuse}},
			{Cuts: []int{2}, Restart: []bool{true}, Fail: []int{0, 0}, Engine: []int{engHangUp, engHangUp}},
			{Cuts: []int{0}, Restart: []bool{false}, Fail: []int{0, 0}, Engine: []int{engRefuse, engReset}},
		}},
	}
}

func genNotifyCase(o *c.Out, i int) FaultCase {
	r := o.Rng
	maxLen := 10
	if i%3 == 0 {
		maxLen = 5
	}
	k := genCase(r, maxLen)
	if i%5 == 4 {
		k, _ = genCollisionCase(r, maxLen)
		o.Count("notify-stream:colliding-spellings")
	}
	if i%3 != 2 {
		k.Threshold = 50
	}
	// statuses around the HAProxy-internal set; at least one reportable record
	for j := range k.Records {
		if r.Chance(2, 3) {
			k.Records[j].Status = c.Pick(r, notifyStatuses)
		}
	}
	has := false
	for _, rec := range k.Records {
		has = has || reportable(rec)
	}
	if !has {
		j := r.Intn(len(k.Records))
		k.Records[j].Status = c.Pick(r, []int{400, 403, 408, 409, 413, 417, 500, 502, 503, 504})
		k.Records[j].Internal = false
	}
	fk := FaultCase{Threshold: k.Threshold, Declared: k.Declared, Records: k.Records}
	n := len(k.Records)
	// a flush boundary right after / before a reportable record, so that the failed
	// transaction shares its flush with ordinary traffic on either side
	pos := 0
	for j, rec := range k.Records {
		if reportable(rec) {
			pos = j
			if r.Bool() {
				break
			}
		}
	}
	a := r.Range(0, pos)
	b := r.Range(pos+1, n)
	cuts := []int{a, b}
	// the flush holding the reportable record under every behaviour of the admin
	// port; the neighbours up or failing; restart placements; now and then a failing write
	for _, m := range engineModes {
		for rs := 0; rs < 4; rs++ {
			if !o.Thorough() && !o.Search() && rs != 0 && (m+rs+i)%2 == 0 {
				continue
			}
			around := engUp
			if r.Chance(1, 3) {
				around = c.Pick(r, engineModes)
			}
			fail := []int{0, 0, 0}
			if r.Chance(1, 4) {
				fail[r.Intn(3)] = 1 + r.Intn(2)
			}
			fk.Runs = append(fk.Runs, FaultRun{Cuts: cuts, Restart: []bool{rs&1 != 0, rs&2 != 0}, Fail: fail,
				Engine: []int{around, m, c.Pick(r, []int{engUp, around})}})
		}
	}
	// random longer plans
	extra := o.Scale(4, 10, 10)
	for j := 0; j < extra; j++ {
		nb := r.Range(2, 6)
		var cs []int
		for len(cs) < nb-1 {
			cs = append(cs, r.Range(0, n))
		}
		sort.Ints(cs)
		run := FaultRun{Cuts: cs}
		for f := 0; f < nb; f++ {
			if f > 0 {
				run.Restart = append(run.Restart, r.Chance(1, 4))
			}
			kind := 0
			if r.Chance(1, 5) {
				kind = 1 + r.Intn(2)
			}
			run.Fail = append(run.Fail, kind)
			mode := engUp
			if r.Chance(3, 5) {
				mode = c.Pick(r, engineModes)
			}
			run.Engine = append(run.Engine, mode)
		}
		fk.Runs = append(fk.Runs, run)
	}
	return fk
}

func processNotify(o *c.Out, k *FaultCase) {
	for i := range k.Runs { // a replayed or hand-written run without the notification dimension: engine up
		r := &k.Runs[i]
		for len(r.Engine) < len(r.Cuts)+1 {
			r.Engine = append(r.Engine, engUp)
		}
	}
	execFaultCase(k)
	kk := *k
	kk.Runs = nil
	nontrivial := false
	for _, r := range k.Runs {
		ok := r.Crash == ""
		failedReport, thenMore, thenRestart := false, false, false
		for _, f := range r.Flushes {
			if f.OracleAmbiguous {
				ok = false
			}
			if failedReport && len(f.ExtractE) > 0 {
				thenMore = true
			}
			if failedReport && f.Restarted {
				thenRestart = true
			}
			o.Count("notify-flush:engine-" + engineModeNames[f.Engine])
			if f.ReportDue {
				o.Count("notify-flush:report-due")
				switch f.Contacted {
				case 0:
					o.Count("notify-flush:report-due-but-engine-not-contacted")
				case 1:
					o.Count("notify-flush:report-due-and-engine-contacted")
				}
				if engineTransportFailure(f.Engine) {
					failedReport = true
					o.Count("notify-flush:report-met-transport-failure")
					if f.Err != 0 {
						o.Count(fmt.Sprintf("notify-flush:report-met-transport-failure:run-error-class-%d", f.Err))
					}
				}
			} else if f.Contacted == 1 {
				o.Count("notify-flush:engine-contacted-without-report-due")
			}
			if f.ContactLate {
				o.Count("notify-flush:report-late")
			}
		}
		if failedReport && thenMore {
			o.Count("notify-run:failed-report-then-more-traffic")
		}
		if failedReport && thenMore && thenRestart {
			nontrivial = true
			o.Count("notify-run:failed-report-then-more-traffic-and-restart")
		}
		switch {
		case ok:
			kk.Runs = append(kk.Runs, r)
		case r.Crash != "":
			o.Count("run-not-modelled:crash")
		default:
			o.Count("run-not-modelled:ambiguous-oracle")
		}
	}
	idx := o.Case("notify", coqNotify(&kk), slimFaults(&kk), nontrivial)
	o.CountN("notify-runs", len(k.Runs))
	var hits []c.Hit
	for i := range k.Runs {
		r := &k.Runs[i]
		one := slimFaults(k)
		one.Runs = []FaultRun{{Cuts: r.Cuts, Restart: r.Restart, Fail: r.Fail, Engine: r.Engine}}
		o.MonitorChecked(1)
		faultMonitor(k, r, func(sig, dem, obs string) {
			hits = append(hits, c.Hit{Suite: "notify", Index: idx, Signature: sig, Demanded: dem, Observed: obs, Case: one})
		})
	}
	sort.SliceStable(hits, func(i, j int) bool { return hits[i].Signature < hits[j].Signature })
	for _, h := range hits {
		o.Hit(h)
	}
}

func flushNotifyStats(o *c.Out) {
	for k, v := range notifyStats {
		o.CountN(k, v)
	}
}
